------------------------------- MODULE Epoch -------------------------------
(***************************************************************************)
(* L2 (implementation-shaped) specification of babylon::Epoch              *)
(* (src/babylon/concurrent/epoch.h) together with the CLIENT protocol the  *)
(* property C09 talks about: a shared pointer cell from which readers      *)
(* fetch an object inside a critical region, a writer that unlinks the     *)
(* object, takes a tick, scans low_water_mark() and frees the object when  *)
(* the mark reached the tick value.                                        *)
(*                                                                         *)
(* ONE ACTION PER ATOMIC OPERATION / FENCE of the code; the memory order   *)
(* of every site comes from M(site) (constant table MO_Epoch when model    *)
(* checking, the order logged by the running code when validating traces). *)
(* Memory is the view model of WeakMem.tla: with Stale = TRUE a load may   *)
(* read any message its thread is not yet obliged to have seen.  This is   *)
(* where the store-then-load (Dekker) argument of Epoch::lock is decided:  *)
(*     reader:  slot.store(version, rlx); fence(sc); ptr.load               *)
(*     writer:  ptr.exchange; version.fetch_add(sc)  ; slot.load(acq)       *)
(*                                                                         *)
(* Abstractions (DESIGN 4/C09): IdAllocator = a LIFO stack of released ids *)
(* + the counter _next_value (location "count"; "tcount" for the ThreadId  *)
(* allocator of the thread-local style); one RMW on the location "free"    *)
(* stands for the successful CAS on _free_head (keeps its happens-before   *)
(* edge).  ConcurrentVector::ensure / snapshot are not modelled (slots     *)
(* exist; C04 covers the vector).  lock_times is a plain variable (it is   *)
(* owned by the thread holding the accessor).                              *)
(***************************************************************************)
EXTENDS Naturals, Integers, Sequences, FiniteSets, TLC, WeakMem

CONSTANTS Stale,   \* BOOLEAN: loads may read non-latest messages
          Configs  \* set of configurations [prog, ns, nh, pre]

VARIABLES cfg,     \* configuration of this execution
          ms,      \* memory (WeakMem)
          pc, L,   \* per thread control state / locals
          G,       \* abstract shared state: accessor table, lock_times, free stack, thread slots
          H,       \* history (L1 observables)
          ev       \* ghost: operation performed by the last step

vars == <<cfg, ms, pc, L, G, H, ev>>

MAXV == 1000000            \* stands for UINT64_MAX ("outside")
Thr == 1..Len(cfg.prog)
NS == cfg.ns               \* slots that exist (block pre-allocated)
Hs == 1..cfg.nh            \* accessor handles of the client

VerLoc == <<"version", 0>>
SlotLoc(i) == <<"slot", i>>
CountLoc == <<"count", 0>>
TCountLoc == <<"tcount", 0>>
FreeLoc == <<"free", 0>>
PtrLoc == <<"ptr", 0>>
MboxLoc(h) == <<"mbox", h>>
ObjCell(o) == <<"obj", o>>

Op(t) == cfg.prog[t][L[t].opi]
HasOp(t) == L[t].opi <= Len(cfg.prog[t])
\* region key: accessor handle h (1..nh) or 10 + thread for the thread-local style
Key(t, o) == IF o.h = 0 THEN 10 + t ELSE o.h
Keys == Hs \cup {10 + t : t \in Thr}
Idx(t, o) == IF o.h = 0 THEN G.tslot[t] ELSE G.acc[o.h]
MinOf(a, b) == IF a <= b THEN a ELSE b

NoEv == [t |-> 0, k |-> "", site |-> "", mo |-> "", loc |-> "", i |-> 0, v |-> 0, a |-> 0, ok |-> TRUE,
         op |-> "", h |-> 0, res |-> 0, vals |-> <<>>]

L0 == [opi |-> 1, idx |-> 0, v |-> 0, obj |-> 0, e |-> 0, mark |-> 0, n |-> 0, i |-> 0, min |-> 0,
       pend |-> {}, retired |-> {}, snap |-> {}, nu |-> 0]

MS0(c) == WMInit(1..Len(c.prog),
                 [x \in {<<"version", 0>>, <<"count", 0>>, <<"tcount", 0>>, <<"free", 0>>, <<"ptr", 0>>}
                        \cup {<<"slot", i>> : i \in 0..c.ns - 1} \cup {<<"mbox", h>> : h \in 1..c.nh}
                    |-> IF x[1] = "slot" THEN MAXV ELSE IF x[1] = "ptr" THEN 1 ELSE IF x[1] = "count" THEN c.pre ELSE 0])
\* c.pre accessors (handles 1..pre, slots 0..pre-1) exist before the threads start
G0(c) == [acc |-> [h \in 1..c.nh |-> IF h <= c.pre THEN h - 1 ELSE -1],
          lt |-> [i \in 0..c.ns - 1 |-> 0],
          stack |-> <<>>,
          tslot |-> [t \in 1..Len(c.prog) |-> -1],
          pinned |-> {}]   \* slots of accessors that were released while locked and not reset
H0(c) == [open |-> [k \in (1..c.nh) \cup {10 + t : t \in 1..Len(c.prog)} |-> 0],
          unl |-> {}, bound |-> [k \in (1..c.nh) \cup {10 + t : t \in 1..Len(c.prog)} |-> MAXV],
          freed |-> {}, bad |-> ""]

InitFor(c) ==
  /\ cfg = c
  /\ ms = MS0(c)
  /\ pc = [t \in 1..Len(c.prog) |-> "idle"]
  /\ L = [t \in 1..Len(c.prog) |-> L0]
  /\ G = G0(c)
  /\ H = H0(c)
  /\ ev = NoEv

Init == \E c \in Configs : InitFor(c)

(***************************************************************************)
(* Memory access helpers (as in BQ.tla)                                    *)
(***************************************************************************)
KeepAll == Stale
LocName(x) == x[1]
LocIdx(x) == x[2]

DoLoad(t, x, site, M(_), K(_)) ==
  \E i \in Readable(ms, t, x, Stale) :
    LET mo == M(site)
        v == ms.mem[x][i].val
    IN /\ ms' = ScAfter(LoadEff(ScBefore(ms, t, mo), t, x, i, mo), t, mo)
       /\ ev' = [NoEv EXCEPT !.t = t, !.k = "load", !.site = site, !.mo = mo, !.loc = LocName(x), !.i = LocIdx(x), !.v = v]
       /\ K(v)

DoStore(t, x, v, site, M(_)) ==
  LET mo == M(site)
  IN /\ ms' = ScAfter(StoreEff(ScBefore(ms, t, mo), t, x, v, mo, KeepAll), t, mo)
     /\ ev' = [NoEv EXCEPT !.t = t, !.k = "store", !.site = site, !.mo = mo, !.loc = LocName(x), !.i = LocIdx(x), !.v = v]

\* store to a slot word.  Later stores to the same word continue the release sequence of the unlock store
\* before them (ISO C++11-17 for the same thread; for another thread that re-uses the slot this is what
\* every multi-copy-atomic / cumulative hardware guarantees and what EBR implementations rely on): a scan
\* that acquires ANY value coherence-after an unlock is ordered after that region.  Without this the model
\* would report the formal C++20 race "reader A left (release), reader B recycled the slot (relaxed
\* store), the scan acquired B's value", which no machine can exhibit.
DoSlotStore(t, x, v, site, M(_)) ==
  LET mo == M(site)
      prev == Last(ms, x).view
      ms1 == ScAfter(StoreEff(ScBefore(ms, t, mo), t, x, v, mo, KeepAll), t, mo)
      n == Len(ms1.mem[x])
  IN /\ ms' = [ms1 EXCEPT !.mem[x][n].view = VJoin(@, prev)]
     /\ ev' = [NoEv EXCEPT !.t = t, !.k = "store", !.site = site, !.mo = mo, !.loc = LocName(x), !.i = LocIdx(x), !.v = v]

DoRmw(t, x, kind, F(_), a, site, M(_), K(_)) ==
  LET mo == M(site)
      old == LastVal(ms, x)
  IN /\ ms' = ScAfter(RmwEff(ScBefore(ms, t, mo), t, x, F(old), mo, KeepAll), t, mo)
     /\ ev' = [NoEv EXCEPT !.t = t, !.k = kind, !.site = site, !.mo = mo, !.loc = LocName(x), !.i = LocIdx(x), !.v = old, !.a = a]
     /\ K(old)

DoFence(t, site, M(_)) ==
  LET mo == M(site)
  IN /\ ms' = FenceEff(ms, t, mo)
     /\ ev' = [NoEv EXCEPT !.t = t, !.k = "fence", !.site = site, !.mo = mo]

Goto(t, p) == pc' = [pc EXCEPT ![t] = p]
SetL(t, l) == L' = [L EXCEPT ![t] = l]
Flag(b, name) == IF b /\ H.bad = "" THEN name ELSE H.bad

(***************************************************************************)
(* call / return of the Epoch API operations                               *)
(***************************************************************************)
ApiOps == {"lock", "unlock", "tick", "lwm", "create", "release"}

Call(t) ==
  /\ pc[t] = "idle" /\ HasOp(t) /\ Op(t).op \in ApiOps
  /\ LET o == Op(t)
         idx == Idx(t, o)
     IN /\ ev' = [NoEv EXCEPT !.t = t, !.k = "call", !.op = o.op, !.h = o.h]
        /\ CASE o.op = "lock" ->
                  \* Epoch::lock(): thread id on first use; lock(index): lock_times += 1
                  IF o.h = 0 /\ idx = -1
                  THEN Goto(t, "tl_alloc") /\ UNCHANGED <<L, G, H>>
                  ELSE /\ SetL(t, [L[t] EXCEPT !.idx = idx])
                       /\ G' = [G EXCEPT !.lt[idx] = @ + 1]
                       /\ Goto(t, IF G.lt[idx] = 0 THEN "l_vload" ELSE "ret")
                       /\ UNCHANGED H
             [] o.op = "unlock" ->
                  \* the region is being left from the moment unlock is called
                  /\ SetL(t, [L[t] EXCEPT !.idx = idx])
                  /\ H' = [H EXCEPT !.open[Key(t, o)] = @ - 1,
                                    !.unl = IF H.open[Key(t, o)] = 1 THEN @ \ {Key(t, o)} ELSE @,
                                    !.bound[Key(t, o)] = IF H.open[Key(t, o)] = 1 THEN MAXV ELSE @]
                  /\ IF G.lt[idx] = 1 THEN Goto(t, "u_store") /\ UNCHANGED G
                     ELSE Goto(t, "ret") /\ G' = [G EXCEPT !.lt[idx] = @ - 1]
             [] o.op = "tick" -> Goto(t, "t_faa") /\ UNCHANGED <<L, G, H>>
             [] o.op = "lwm" ->
                  \* remember which open regions already have a tick value they must hold the mark below
                  /\ SetL(t, [L[t] EXCEPT !.snap = {<<k, H.bound[k]>> : k \in {x \in Keys : H.open[x] >= 1 /\ H.bound[x] < MAXV}}])
                  /\ Goto(t, "lw_count") /\ UNCHANGED <<G, H>>
             [] o.op = "create" -> Goto(t, "cr") /\ UNCHANGED <<L, G, H>>
             [] o.op = "release" ->
                  \* Accessor::release() / ~Accessor().  A region that is still open ends here: "a released Accessor
                  \* never holds the mark back"
                  /\ SetL(t, [L[t] EXCEPT !.idx = idx])
                  /\ H' = [H EXCEPT !.open[o.h] = 0, !.unl = @ \ {o.h}, !.bound[o.h] = MAXV]
                  /\ Goto(t, IF G.lt[idx] > 0 THEN "rl_reset" ELSE "rl") /\ UNCHANGED G
  /\ UNCHANGED <<cfg, ms>>

Ret(t) ==
  /\ pc[t] = "ret"
  /\ LET o == Op(t)
         res == CASE o.op = "tick" -> L[t].e [] o.op = "lwm" -> L[t].mark [] o.op = "create" -> L[t].idx [] OTHER -> 0
         held == \E p \in L[t].snap : H.open[p[1]] >= 1 /\ H.bound[p[1]] = p[2] /\ p[2] <= L[t].mark
     IN /\ ev' = [NoEv EXCEPT !.t = t, !.k = "ret", !.op = o.op, !.h = o.h, !.res = res]
        /\ H' = CASE o.op = "lock" -> [H EXCEPT !.open[Key(t, o)] = @ + 1]
                  \* the statement of C09, literally: a region entered before an unlink whose tick value e was taken
                  \* before this call began is still open, yet the mark reached e
                  [] o.op = "lwm" -> [H EXCEPT !.bad = Flag(held, "MarkHeldBack")]
                  [] OTHER -> H
        \* locals that are dead after the call are reset (keeps the state space small)
        /\ SetL(t, [L[t] EXCEPT !.opi = @ + 1, !.v = 0, !.i = 0, !.n = 0, !.min = 0, !.idx = 0, !.snap = {},
                                !.e = 0,
                                !.retired = IF o.op = "tick" THEN @ \cup {<<x, L[t].e>> : x \in L[t].pend} ELSE @,
                                !.pend = IF o.op = "tick" THEN {} ELSE @])
  /\ Goto(t, "idle")
  /\ UNCHANGED <<cfg, ms, G>>

(***************************************************************************)
(* Epoch::lock / unlock                                                    *)
(***************************************************************************)
\* ThreadId::current_thread_id<Epoch>() of a thread that has none yet: _next_value.fetch_add
TlAlloc(t, M(_)) ==
  /\ pc[t] = "tl_alloc"
  /\ DoRmw(t, TCountLoc, "faa", LAMBDA o : o + 1, 1, "tl_count_faa", M,
           LAMBDA old : /\ SetL(t, [L[t] EXCEPT !.idx = old])
                        /\ G' = [G EXCEPT !.tslot[t] = old, !.lt[old] = @ + 1]
                        /\ Goto(t, IF G.lt[old] = 0 THEN "l_vload" ELSE "ret"))
  /\ UNCHANGED <<cfg, H>>

LVLoad(t, M(_)) ==
  /\ pc[t] = "l_vload"
  /\ DoLoad(t, VerLoc, "lock_version_load", M, LAMBDA v : SetL(t, [L[t] EXCEPT !.v = v]) /\ Goto(t, "l_sstore"))
  /\ UNCHANGED <<cfg, G, H>>

LSStore(t, M(_)) ==
  /\ pc[t] = "l_sstore"
  /\ DoSlotStore(t, SlotLoc(L[t].idx), L[t].v, "lock_slot_store", M)
  /\ Goto(t, "l_fence")
  /\ UNCHANGED <<cfg, L, G, H>>

LFence(t, M(_)) ==
  /\ pc[t] = "l_fence"
  /\ DoFence(t, "lock_fence", M)
  /\ Goto(t, "ret")
  /\ UNCHANGED <<cfg, L, G, H>>

UStore(t, M(_)) ==
  /\ pc[t] = "u_store"
  /\ DoSlotStore(t, SlotLoc(L[t].idx), MAXV, "unlock_slot_store", M)
  /\ G' = [G EXCEPT !.lt[L[t].idx] = @ - 1]
  /\ Goto(t, "ret")
  /\ UNCHANGED <<cfg, L, H>>

(***************************************************************************)
(* Epoch::tick  (x86: seq_cst fetch_add; elsewhere relaxed + seq_cst fence; *)
(* the fence the binary does not execute has order "none" in the table)    *)
(***************************************************************************)
TFaa(t, M(_)) ==
  /\ pc[t] = "t_faa"
  /\ DoRmw(t, VerLoc, "faa", LAMBDA o : o + 1, 1, "tick_faa", M,
           LAMBDA old : /\ SetL(t, [L[t] EXCEPT !.e = old + 1])
                        /\ Goto(t, "t_fence")
                        \* every region that was open when an object was unlinked before this tick
                        /\ H' = [H EXCEPT !.bound = [k \in DOMAIN H.bound |-> IF k \in H.unl THEN MinOf(H.bound[k], old + 1) ELSE H.bound[k]]])
  /\ UNCHANGED <<cfg, G>>

TFence(t, M(_)) ==
  /\ pc[t] = "t_fence"
  /\ DoFence(t, "tick_fence", M)
  /\ Goto(t, "ret")
  /\ UNCHANGED <<cfg, L, G, H>>

(***************************************************************************)
(* Epoch::low_water_mark                                                   *)
(***************************************************************************)
ScanStart(t, n) ==
  LET m == MinOf(n, NS)
  IN /\ SetL(t, [L[t] EXCEPT !.n = m, !.i = 0, !.min = MAXV, !.mark = MAXV])
     /\ Goto(t, IF m = 0 THEN "ret" ELSE "lw_slot")

LwCount(t, M(_)) ==
  /\ pc[t] = "lw_count"
  /\ DoLoad(t, CountLoc, "lwm_count_load", M,
            LAMBDA v : IF v = 0 THEN UNCHANGED L /\ Goto(t, "lw_tcount") ELSE ScanStart(t, v))
  /\ UNCHANGED <<cfg, G, H>>

LwTCount(t, M(_)) ==
  /\ pc[t] = "lw_tcount"
  /\ DoLoad(t, TCountLoc, "lwm_tcount_load", M, LAMBDA v : ScanStart(t, v))
  /\ UNCHANGED <<cfg, G, H>>

LwSlot(t, M(_)) ==
  /\ pc[t] = "lw_slot"
  /\ DoLoad(t, SlotLoc(L[t].i), "lwm_slot_load", M,
            LAMBDA v : LET m == MinOf(L[t].min, v)
                       IN /\ SetL(t, [L[t] EXCEPT !.min = m, !.mark = m, !.i = @ + 1])
                          /\ Goto(t, IF L[t].i + 1 < L[t].n THEN "lw_slot" ELSE "ret"))
  /\ UNCHANGED <<cfg, G, H>>

(***************************************************************************)
(* create_accessor / Accessor::release  (IdAllocator abstracted)           *)
(***************************************************************************)
CreatePop(t, M(_)) ==
  /\ pc[t] = "cr" /\ G.stack # <<>>
  /\ DoRmw(t, FreeLoc, "cas", LAMBDA o : 0, 0, "alloc_free_cas", M,
           LAMBDA old : /\ SetL(t, [L[t] EXCEPT !.idx = Head(G.stack)])
                        /\ G' = [G EXCEPT !.stack = Tail(@), !.acc[Op(t).h] = Head(G.stack)]
                        /\ Goto(t, "ret"))
  /\ UNCHANGED <<cfg, H>>

\* force: the free list was empty when allocate() looked, an id was released since (race inside allocate;
\* used by trace validation only - the allocator itself is property C14)
CreateFaa(t, M(_), force) ==
  /\ pc[t] = "cr" /\ (force \/ G.stack = <<>>)
  /\ DoRmw(t, CountLoc, "faa", LAMBDA o : o + 1, 1, "create_count_faa", M,
           LAMBDA old : /\ SetL(t, [L[t] EXCEPT !.idx = old])
                        /\ G' = [G EXCEPT !.acc[Op(t).h] = old]
                        /\ Goto(t, "ret"))
  /\ UNCHANGED <<cfg, H>>

\* release of an accessor that is still locked: the slot is force-unlocked (lock_times = 0, version = MAX, release)
\* BEFORE the id goes back to the allocator.  Order "none" = the code under test has no such step (the commit
\* originally pinned): the slot stays published and lock_times stays > 0 - also for the next owner of the id.
RlReset(t, M(_)) ==
  /\ pc[t] = "rl_reset"
  /\ IF M("release_slot_store") = "none"
     THEN /\ G' = [G EXCEPT !.pinned = @ \cup {L[t].idx}]
          /\ ev' = [NoEv EXCEPT !.t = t, !.k = "skip", !.site = "release_slot_store", !.mo = "none"]
          /\ UNCHANGED ms
     ELSE /\ DoSlotStore(t, SlotLoc(L[t].idx), MAXV, "release_slot_store", M)
          /\ G' = [G EXCEPT !.lt[L[t].idx] = 0]
  /\ Goto(t, "rl")
  /\ UNCHANGED <<cfg, L, H>>

ReleasePush(t, M(_)) ==
  /\ pc[t] = "rl"
  /\ DoRmw(t, FreeLoc, "cas", LAMBDA o : 0, 0, "dealloc_free_cas", M,
           LAMBDA old : /\ G' = [G EXCEPT !.stack = <<G.acc[Op(t).h]>> \o @, !.acc[Op(t).h] = -1]
                        /\ Goto(t, "ret"))
  /\ UNCHANGED <<cfg, L, H>>

(***************************************************************************)
(* CLIENT steps (driver): shared pointer cell, objects, accessor hand-over *)
(***************************************************************************)
Next1(t) == SetL(t, [L[t] EXCEPT !.opi = @ + 1])

Read(t, M(_)) ==
  /\ pc[t] = "idle" /\ HasOp(t) /\ Op(t).op = "read"
  /\ DoLoad(t, PtrLoc, "client_ptr_load", M, LAMBDA v : SetL(t, [L[t] EXCEPT !.obj = v, !.opi = @ + 1]))
  /\ UNCHANGED <<cfg, pc, G, H>>

\* use of the object fetched inside the region: must not have been freed
Deref(t) ==
  /\ pc[t] = "idle" /\ HasOp(t) /\ Op(t).op = "deref"
  /\ LET o == L[t].obj
     IN /\ ms' = IF o = 0 THEN ms ELSE NaReadEff(ms, t, ObjCell(o))
        /\ H' = [H EXCEPT !.bad = Flag(o \in H.freed, "NoPrematureReclaim")]
        /\ ev' = [NoEv EXCEPT !.t = t, !.k = "deref", !.v = o]
  /\ Next1(t)
  /\ UNCHANGED <<cfg, pc, G>>

Unlink(t, M(_)) ==
  /\ pc[t] = "idle" /\ HasOp(t) /\ Op(t).op = "unlink"
  \* object ids: 1 = the initial object, 10 * t + k = the k-th object installed by thread t
  /\ DoRmw(t, PtrLoc, "xchg", LAMBDA o : 10 * t + L[t].nu + 1, 10 * t + L[t].nu + 1, "client_ptr_xchg", M,
           LAMBDA old : /\ SetL(t, [L[t] EXCEPT !.pend = @ \cup {old}, !.nu = @ + 1, !.opi = @ + 1])
                        /\ H' = [H EXCEPT !.unl = @ \cup {k \in Keys : H.open[k] >= 1}])
  /\ UNCHANGED <<cfg, pc, G>>

\* free every retired object whose tick value the last mark has reached
Reclaim(t) ==
  /\ pc[t] = "idle" /\ HasOp(t) /\ Op(t).op = "reclaim"
  /\ LET objs == {p[1] : p \in {q \in L[t].retired : q[2] <= L[t].mark}}
         RECURSIVE Acc(_, _)
         Acc(m, S) == IF S = {} THEN m ELSE LET x == CHOOSE y \in S : \A z \in S : y <= z
                                            IN Acc(NaWriteEff(m, t, ObjCell(x), Thr), S \ {x})
         RECURSIVE Sorted(_)
         Sorted(S) == IF S = {} THEN <<>> ELSE LET x == CHOOSE y \in S : \A z \in S : y <= z IN <<x>> \o Sorted(S \ {x})
     IN /\ ms' = Acc(ms, objs)
        /\ H' = [H EXCEPT !.freed = @ \cup objs]
        /\ SetL(t, [L[t] EXCEPT !.retired = {q \in @ : q[2] > L[t].mark}, !.mark = 0, !.opi = @ + 1])
        /\ ev' = [NoEv EXCEPT !.t = t, !.k = "reclaim", !.vals = Sorted(objs), !.v = L[t].mark]
  /\ UNCHANGED <<cfg, pc, G>>

\* hand the (locked) accessor h and the pointer obtained under it to another thread
Give(t, M(_)) ==
  /\ pc[t] = "idle" /\ HasOp(t) /\ Op(t).op = "give"
  /\ DoStore(t, MboxLoc(Op(t).h), L[t].obj + 1, "client_give_store", M)
  /\ SetL(t, [L[t] EXCEPT !.obj = 0, !.opi = @ + 1])
  /\ UNCHANGED <<cfg, pc, G, H>>

Take(t, M(_)) ==
  /\ pc[t] = "idle" /\ HasOp(t) /\ Op(t).op = "take"
  /\ DoLoad(t, MboxLoc(Op(t).h), "client_take_load", M,
            LAMBDA v : v >= 1 /\ SetL(t, [L[t] EXCEPT !.obj = v - 1, !.opi = @ + 1]))
  /\ UNCHANGED <<cfg, pc, G, H>>

(***************************************************************************)
Step(t, M(_)) ==
  \/ Call(t) \/ Ret(t)
  \/ TlAlloc(t, M) \/ LVLoad(t, M) \/ LSStore(t, M) \/ LFence(t, M) \/ UStore(t, M)
  \/ TFaa(t, M) \/ TFence(t, M)
  \/ LwCount(t, M) \/ LwTCount(t, M) \/ LwSlot(t, M)
  \/ CreatePop(t, M) \/ CreateFaa(t, M, FALSE) \/ RlReset(t, M) \/ ReleasePush(t, M)
  \/ Read(t, M) \/ Deref(t) \/ Unlink(t, M) \/ Reclaim(t) \/ Give(t, M) \/ Take(t, M)

AllDone == \A t \in Thr : pc[t] = "idle" /\ ~HasOp(t)

(***************************************************************************)
(* L1 properties (C09)                                                     *)
(***************************************************************************)
\* no use of an object after it was reclaimed; and the mark never reached the tick value taken after an
\* unlink while a region entered before that unlink was open (bad = "MarkHeldBack").  A reader that entered
\* late cannot obtain the old pointer, so the "unless" of the statement is built in.
NoPrematureReclaim == H.bad = ""
\* happens-before form of the same clause: the reclaim (a write to the object) is ordered after every use
ReaderLeftBeforeReclaim == ~ms.race
\* regions nest: while a region is open (outermost lock returned, matching unlock not yet called) its slot
\* stays published
SlotOf(k) == IF k > 10 THEN G.tslot[k - 10] ELSE G.acc[k]
NestingCounts == \A k \in Keys : H.open[k] >= 1 => (SlotOf(k) >= 0 /\ LastVal(ms, SlotLoc(SlotOf(k))) # MAXV)
\* a slot nobody holds (its accessor is unlocked, released, or the id is free / recycled and not locked) is "outside":
\* it cannot hold the mark back.  Held = some open region lives in it, or a lock / unlock / release of it is executing.
Held(i) == \/ \E k \in Keys : SlotOf(k) = i /\ H.open[k] >= 1
           \/ \E t \in Thr : pc[t] \notin {"idle", "tl_alloc"} /\ Op(t).op \in {"lock", "unlock", "release"} /\ L[t].idx = i
ReleasedAccessorNeverHoldsBack == \A i \in 0..NS - 1 : (i \notin G.pinned /\ ~Held(i)) => LastVal(ms, SlotLoc(i)) = MAXV
\* ... also when it was released while locked (separate witness class: the commit originally pinned has no reset)
ReleasedWhileLockedNeverHoldsBack == G.pinned = {}
=============================================================================
