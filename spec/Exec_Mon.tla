----------------------------- MODULE Exec_Mon -----------------------------
(***************************************************************************)
(* L1 specification of property C07 as a monitor over the observable       *)
(* events of an execution of the real executors (driver exec_driver.cc):   *)
(*                                                                         *)
(*   sub     id par via         execute()/submit() is called               *)
(*   refuse  id                 the executor's transfer step refused       *)
(*   subret  id ok valid loc    the call returned: accepted (execute: a    *)
(*                              valid future, submit: 0) or not; loc =     *)
(*                              "local" when the submission did not go     *)
(*                              through the global queue's ticket          *)
(*   tb      id rin             the callable starts; is_running_in()       *)
(*   te      id ret rin         the callable is about to return ret;       *)
(*                              is_running_in() once more                  *)
(*   fut     id ready val phase a future was observed (get / after stop    *)
(*                              returned / at the end)                     *)
(*   stopcall / stopret         ThreadPoolExecutor::stop or the destructor *)
(*   final   runs               quiescent run counters                     *)
(*   end     status             ok | deadlock | budget | crash | hang      *)
(*                                                                         *)
(* It knows nothing about queues, markers or threads of the pool, so it    *)
(* judges C07 on executions of ANY implementation of the executor API.     *)
(*                                                                         *)
(*  AcceptedBeforeStopRunsOnce  RunsOnOwnExecutorThread                    *)
(*  FutureReadyWithResult       StopWaits      FailedSubmitNeverRuns       *)
(*  NoDeadlock (programs that never sit on a full global queue: `judge')   *)
(***************************************************************************)
EXTENDS Naturals, Integers, Sequences, FiniteSets, TLC, Json, IOUtils

Tr == ndJsonDeserialize(IOEnv.TRACE)

VARIABLES l, judge,
          acc, accB,      \* accepted submissions; those accepted before stop() was called
          refused, valid, \* refused by the executor; calls that handed out a valid future / returned 0
          began, twice, rinBad, ended, retv,
          locals,         \* submissions that went to a local queue
          futBad, notReady,
          stopCalled, stopRet, endedAtRet,
          finalSeen, runsBad, hang, crashed

mvars == <<l, judge, acc, accB, refused, valid, began, twice, rinBad, ended, retv, locals, futBad, notReady,
           stopCalled, stopRet, endedAtRet, finalSeen, runsBad, hang, crashed>>

Fresh(e) ==
  /\ judge' = e.judge
  /\ acc' = {} /\ accB' = {} /\ refused' = {} /\ valid' = {} /\ began' = {} /\ twice' = {} /\ rinBad' = {}
  /\ ended' = {} /\ retv' = {} /\ locals' = {} /\ futBad' = {} /\ notReady' = {}
  /\ stopCalled' = FALSE /\ stopRet' = FALSE /\ endedAtRet' = {}
  /\ finalSeen' = FALSE /\ runsBad' = {} /\ hang' = FALSE /\ crashed' = FALSE

MInit ==
  /\ l = 1 /\ judge = FALSE
  /\ acc = {} /\ accB = {} /\ refused = {} /\ valid = {} /\ began = {} /\ twice = {} /\ rinBad = {}
  /\ ended = {} /\ retv = {} /\ locals = {} /\ futBad = {} /\ notReady = {}
  /\ stopCalled = FALSE /\ stopRet = FALSE /\ endedAtRet = {}
  /\ finalSeen = FALSE /\ runsBad = {} /\ hang = FALSE /\ crashed = FALSE
  /\ TLCSet(1, 1)

Keep(vs) == UNCHANGED vs

MRefuse(e) ==
  /\ refused' = refused \cup {e.id}
  /\ Keep(<<judge, acc, accB, valid, began, twice, rinBad, ended, retv, locals, futBad, notReady, stopCalled, stopRet, endedAtRet, finalSeen, runsBad, hang, crashed>>)

MSubRet(e) ==
  /\ acc' = IF e.ok THEN acc \cup {e.id} ELSE acc
  /\ accB' = IF e.ok /\ ~stopCalled THEN accB \cup {e.id} ELSE accB
  /\ valid' = IF e.ok \/ e.valid THEN valid \cup {e.id} ELSE valid
  /\ locals' = IF e.ok /\ e.loc = "local" THEN locals \cup {e.id} ELSE locals
  /\ Keep(<<judge, refused, began, twice, rinBad, ended, retv, futBad, notReady, stopCalled, stopRet, endedAtRet, finalSeen, runsBad, hang, crashed>>)

MBegin(e) ==
  /\ began' = began \cup {e.id}
  /\ twice' = IF e.id \in began THEN twice \cup {e.id} ELSE twice
  /\ rinBad' = IF ~e.rin THEN rinBad \cup {e.id} ELSE rinBad
  /\ Keep(<<judge, acc, accB, refused, valid, ended, retv, locals, futBad, notReady, stopCalled, stopRet, endedAtRet, finalSeen, runsBad, hang, crashed>>)

MEndTask(e) ==
  /\ ended' = ended \cup {e.id}
  /\ retv' = retv \cup {<<e.id, e.ret>>}
  /\ rinBad' = IF ~e.rin THEN rinBad \cup {e.id} ELSE rinBad
  /\ Keep(<<judge, acc, accB, refused, valid, began, twice, locals, futBad, notReady, stopCalled, stopRet, endedAtRet, finalSeen, runsBad, hang, crashed>>)

\* a ready future carries the value the callable returned (so the callable has returned);
\* once stop() has returned / the program is over a future that is still not ready is recorded
MFut(e) ==
  /\ futBad' = IF e.ready /\ <<e.id, e.val>> \notin retv THEN futBad \cup {e.id} ELSE futBad
  /\ notReady' = IF ~e.ready /\ e.phase \in {"stopret", "final"} THEN notReady \cup {e.id} ELSE notReady
  /\ Keep(<<judge, acc, accB, refused, valid, began, twice, rinBad, ended, retv, locals, stopCalled, stopRet, endedAtRet, finalSeen, runsBad, hang, crashed>>)

MStopCall(e) ==
  /\ stopCalled' = TRUE
  /\ Keep(<<judge, acc, accB, refused, valid, began, twice, rinBad, ended, retv, locals, futBad, notReady, stopRet, endedAtRet, finalSeen, runsBad, hang, crashed>>)

MStopRet(e) ==
  /\ stopRet' = TRUE
  /\ endedAtRet' = IF stopRet THEN endedAtRet ELSE ended
  /\ Keep(<<judge, acc, accB, refused, valid, began, twice, rinBad, ended, retv, locals, futBad, notReady, stopCalled, finalSeen, runsBad, hang, crashed>>)

MFinal(e) ==
  /\ finalSeen' = TRUE
  /\ runsBad' = {e.runs[i][1] : i \in {j \in 1..Len(e.runs) : e.runs[j][2] # 1}}
  /\ Keep(<<judge, acc, accB, refused, valid, began, twice, rinBad, ended, retv, locals, futBad, notReady, stopCalled, stopRet, endedAtRet, hang, crashed>>)

MEnd(e) ==
  /\ hang' = (e.status \in {"deadlock", "budget"})
  /\ crashed' = (e.status \in {"crash", "hang"})
  /\ Keep(<<judge, acc, accB, refused, valid, began, twice, rinBad, ended, retv, locals, futBad, notReady, stopCalled, stopRet, endedAtRet, finalSeen, runsBad>>)

MNext ==
  /\ l <= Len(Tr)
  /\ LET e == Tr[l]
     IN CASE e.k = "reset" -> Fresh(e)
          [] e.k = "refuse" -> MRefuse(e)
          [] e.k = "subret" -> MSubRet(e)
          [] e.k = "tb" -> MBegin(e)
          [] e.k = "te" -> MEndTask(e)
          [] e.k = "fut" -> MFut(e)
          [] e.k = "stopcall" -> MStopCall(e)
          [] e.k = "stopret" -> MStopRet(e)
          [] e.k = "final" -> MFinal(e)
          [] e.k = "end" -> MEnd(e)
          [] OTHER -> Keep(<<judge, acc, accB, refused, valid, began, twice, rinBad, ended, retv, locals, futBad, notReady, stopCalled, stopRet, endedAtRet, finalSeen, runsBad, hang, crashed>>)
  /\ l' = l + 1
  /\ TLCSet(1, l')

MSpec == MInit /\ [][MNext]_mvars

(***************************************************************************)
(* the clauses of C07                                                      *)
(***************************************************************************)
Par(id) == id \div 10
\* accepted before stop() was called, closed under `spawned into a local queue by such a task'
D1 == accB \cup {c \in locals : Par(c) \in accB}
Oblig == D1 \cup {c \in locals : Par(c) \in D1}

\* every task accepted before stop() is run exactly once ...
AcceptedBeforeStopRunsOnce ==
  /\ twice \cap accB = {}
  /\ finalSeen => (accB \subseteq began /\ runsBad \cap accB = {})
\* ... on a thread that reports itself as running in that executor ...
RunsOnOwnExecutorThread == rinBad \cap accB = {}
\* ... and its future becomes ready with the callable's result
FutureReadyWithResult == futBad \cap accB = {} /\ notReady \cap accB = {}
\* stop() / the destructor returns only after those tasks and the tasks they spawned into local queues finished
StopWaits == stopRet => Oblig \subseteq endedAtRet
\* a failed submission never runs the task and yields an invalid future (submit: non-zero)
FailedSubmitNeverRuns == refused \cap began = {} /\ refused \cap valid = {}
\* programs that never sit on a full global queue run to their end
NoDeadlock == ~(hang /\ judge)
NoCrash == ~crashed

Post == PrintT(<<"VERIF", TLCGet(1) - 1, Len(Tr), {}>>)
=============================================================================
