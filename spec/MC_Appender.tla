---------------------------- MODULE MC_Appender ----------------------------
(* Model-checking instances of Appender: families of configurations (programs of <= 3 logging     *)
(* threads x 2 entries, queue capacity 2 / 4, two files, rotation between batches, close() after   *)
(* or during the writes); TLC explores all of a family in one run.                                 *)
EXTENDS Appender

CONSTANT Configs

W(f) == [k |-> "w", f |-> f, s |-> 2]
D == [k |-> "d", f |-> 0, s |-> 2]
\* IOV_MAX = 3 in the models: two 2-segment entries for one file in a batch need two writev calls
C(prog, cap, maxrot, early) == [prog |-> prog, cap |-> cap, maxrot |-> maxrot, early |-> early, iovmax |-> 3]

P_1x2 == << <<W(0), W(0)>> >>
P_2x2 == << <<W(0), W(1)>>, <<W(0), W(0)>> >>
P_2x2d == << <<W(0), D, W(1)>>, <<W(1), W(0)>> >>
P_3x2 == << <<W(0), W(1)>>, <<W(0), W(0)>>, <<W(1), W(0)>> >>
P_3x1 == << <<W(0)>>, <<W(0)>>, <<W(1)>> >>

C_quick == {C(P_2x2d, 2, 1, FALSE), C(P_2x2, 4, 1, FALSE)}
C_3thr == {C(P_3x1, 2, 1, FALSE), C(P_3x1, 4, 1, FALSE)}
C_early == {C(P_2x2, 2, 0, TRUE)}
C_3x2_q2 == {C(P_3x2, 2, 1, FALSE)}
C_3x2_q4 == {C(P_3x2, 4, 1, FALSE)}
C_o1 == {C(P_1x2, 2, 0, FALSE)}          \* the queue can be full when close() is called
C_live_ok == {C(P_1x2, 4, 0, FALSE)}     \* it cannot

MCInit == \E c \in Configs : InitFor(c)
MCSpec == MCInit /\ [][Next]_vars
\* weak fairness of every thread (a spinning / sleeping thread stutters, it is never disabled for good)
FairSpec == MCSpec /\ (\A t \in 1..3 : WF_vars(t \in Loggers /\ LoggerStep(t) /\ UNCHANGED cfg))
                   /\ WF_vars(CloserStep /\ UNCHANGED cfg) /\ WF_vars(WriterStep /\ UNCHANGED cfg)
=============================================================================
