----------------------------- MODULE Mono_Mon -----------------------------
(***************************************************************************)
(* L1 monitor for property C06 (monotonic buffer resources).  It consumes  *)
(* only what is observable at the seams of ANY implementation of the API:  *)
(*   call / ret   of allocate, register_destructor, contains, release,     *)
(*                move, destroy (with the block address returned)          *)
(*   palloc/pfree calls received by the page allocator                     *)
(*   ualloc/ufree calls received by the upstream resources (which one,     *)
(*                address, bytes, alignment)                               *)
(*   dtor         invocations of registered destructors                    *)
(*   chk          canary verdict of the driver over all live blocks        *)
(*   view         address ranges of the resource's bookkeeping arrays      *)
(*   end          how the execution ended                                  *)
(* and states each clause of the property on them.  It knows nothing about *)
(* bump pointers or array placement, so it also judges executions of an    *)
(* implementation that no longer follows Mono.tla, and executions of the   *)
(* Shared / Swiss variants with several threads (events of different       *)
(* threads interleaved; `r` identifies the per-thread resource).           *)
(*                                                                         *)
(*  Aligned, InsideOwnedMemory, Disjoint, ContentsStable                   *)
(*  ReleaseRunsEachDestructorOnce (LIFO per resource, before memory goes)  *)
(*  EachPageReturnedOnce, OversizeReturnedWithSameBytesAlign               *)
(*  Aligned is judged on the REAL pointer value (am = pointer % alignment)  *)
(*  so it also holds the library's own page allocators to the environment   *)
(*  assumption of Mono.tla (EnvPagesAligned: page pointer % page size = 0,  *)
(*  am of a palloc event); a violated assumption is reported on its own as  *)
(*  <<line, "EnvPageAligned">> next to the clause verdict.                  *)
(*  AccountingZero; ReusableAfterRelease = the same clauses keep holding   *)
(*  for the operations after a release                                     *)
(***************************************************************************)
EXTENDS Integers, Sequences, FiniteSets, TLC, Json, IOUtils

Tr == ndJsonDeserialize(IOEnv.TRACE)

VARIABLES l,
          psz,     \* page size
          pg,      \* pages the page allocator has handed out and not got back
          ul,      \* upstream blocks handed out and not got back: [u, a, n, al]
          blk,     \* live blocks [a, n]
          bk,      \* bookkeeping ranges last read out [a, n]
          reg,     \* reg[r]: destructors registered with resource r, oldest first: [id, fn]
          inrel,   \* a release / destruction is in progress
          freed,   \* ... and has started to give memory back
          nrel,    \* number of completed releases
          bad,     \* first violated clause of the current execution
          verd     \* verdicts of all executions: <<line, clause>>

mvars == <<l, psz, pg, ul, blk, bk, reg, inrel, freed, nrel, bad, verd>>

Res == 0..7
Last(s) == s[Len(s)]
Front(s) == SubSeq(s, 1, Len(s) - 1)
Range(s) == {s[i] : i \in 1..Len(s)}

Fresh(e) ==
  /\ psz' = e.P
  /\ pg' = {} /\ ul' = {} /\ blk' = {} /\ bk' = {}
  /\ reg' = [r \in Res |-> <<>>]
  /\ inrel' = FALSE /\ freed' = FALSE /\ nrel' = 0

MInit ==
  /\ l = 2 /\ Tr[1].k = "reset"
  /\ psz = Tr[1].P
  /\ pg = {} /\ ul = {} /\ blk = {} /\ bk = {}
  /\ reg = [r \in Res |-> <<>>]
  /\ inrel = FALSE /\ freed = FALSE /\ nrel = 0
  /\ bad = "" /\ verd = {}
  /\ TLCSet(1, 1)
  /\ TLCSet(2, {})

\* the first clause that fails, with a tag telling whether a release has happened before
Flag(cs) ==
  IF bad # "" THEN bad
  ELSE LET f == {i \in 1..Len(cs) : cs[i][1]}
       IN IF f = {} THEN "" ELSE cs[CHOOSE i \in f : \A j \in f : i <= j][2]

Overlap(x, y) == x.n > 0 /\ y.n > 0 /\ x.a < y.a + y.n /\ y.a < x.a + x.n
Inside(x) ==
  \/ x.n = 0
  \/ \E p \in pg : p <= x.a /\ x.a + x.n <= p + psz
  \/ \E u \in ul : u.a <= x.a /\ x.a + x.n <= u.a + u.n

Keep(vs) == UNCHANGED vs

MPalloc(e) ==
  /\ pg' = pg \cup {e.a}
  /\ bad' = Flag(<< <<e.a \in pg, "PageAllocatorHandedOutTwice">> >>)
  /\ Keep(<<psz, ul, blk, bk, reg, inrel, freed, nrel>>)

MPfree(e) ==
  /\ pg' = pg \ {e.a}
  /\ freed' = TRUE
  /\ bad' = Flag(<< <<e.a \notin pg, "EachPageReturnedOnce">>,      \* twice, or not a page of this allocator
                    <<~inrel, "InsideOwnedMemory">> >>)              \* memory given back while blocks are live
  /\ Keep(<<psz, ul, blk, bk, reg, inrel, nrel>>)

MUalloc(e) ==
  /\ ul' = ul \cup {[u |-> e.u, a |-> e.a, n |-> e.n, al |-> e.al]}
  /\ bad' = bad
  /\ Keep(<<psz, pg, blk, bk, reg, inrel, freed, nrel>>)

MUfree(e) ==
  LET x == [u |-> e.u, a |-> e.a, n |-> e.n, al |-> e.al]
  IN /\ ul' = ul \ {x}
     /\ freed' = TRUE
     /\ bad' = Flag(<< <<x \notin ul, "OversizeReturnedWithSameBytesAlign">>,  \* other size / alignment / upstream, twice, unknown
                       <<~inrel, "InsideOwnedMemory">> >>)
     /\ Keep(<<psz, pg, blk, bk, reg, inrel, nrel>>)

MDtor(e) ==
  LET t == [id |-> e.id, fn |-> e.fn]
      rs == {r \in Res : reg[r] # <<>> /\ Last(reg[r]) = t}
  IN /\ reg' = IF rs = {} THEN reg ELSE LET r == CHOOSE r \in rs : TRUE IN [reg EXCEPT ![r] = Front(reg[r])]
     /\ bad' = Flag(<< <<~inrel, "ReleaseRunsEachDestructorOnce">>,      \* run outside release
                       <<rs = {}, "ReleaseRunsEachDestructorOnce">>,     \* twice / never registered / wrong function / not LIFO
                       <<freed, "ReleaseRunsEachDestructorOnce">>,       \* after memory has been given back
                       <<~e.intact, "ContentsStable">> >>)
     /\ Keep(<<psz, pg, ul, blk, bk, inrel, freed, nrel>>)

MCall(e) ==
  /\ inrel' = (IF e.op \in {"release", "destroy"} THEN TRUE ELSE inrel)
  /\ freed' = (IF e.op \in {"release", "destroy"} THEN FALSE ELSE freed)
  /\ bad' = bad
  /\ Keep(<<psz, pg, ul, blk, bk, reg, nrel>>)

MRetAlloc(e) ==
  LET x == [a |-> e.a, n |-> e.n]
  IN /\ blk' = blk \cup {x}
     /\ bad' = Flag(<< <<e.am # 0 \/ (e.al > 0 /\ (e.a < 0 \/ e.a % e.al # 0)), "Aligned">>,   \* e.am: real pointer % alignment
                       <<~Inside(x), "InsideOwnedMemory">>,
                       <<\E y \in blk : Overlap(x, y), "Disjoint">>,
                       <<\E k \in bk : Overlap(x, k), "Disjoint">> >>)
     /\ Keep(<<psz, pg, ul, bk, reg, inrel, freed, nrel>>)

MRetRd(e) ==
  /\ reg' = [reg EXCEPT ![e.r] = Append(@, [id |-> e.id, fn |-> e.fn])]
  /\ bad' = bad
  /\ Keep(<<psz, pg, ul, blk, bk, inrel, freed, nrel>>)

MRetContains(e) ==
  /\ bad' = Flag(<< <<(\E x \in blk : x.n > 0 /\ x.a <= e.a /\ e.a < x.a + x.n) /\ ~e.ok, "ContainsLive">> >>)
  /\ Keep(<<psz, pg, ul, blk, bk, reg, inrel, freed, nrel>>)

MRetRelease(e) ==
  /\ bad' = Flag(<< <<\E r \in Res : reg[r] # <<>>, "ReleaseRunsEachDestructorOnce">>,   \* some destructor not run
                    <<pg # {}, "EachPageReturnedOnce">>,                                  \* some page not returned
                    <<ul # {}, "OversizeReturnedWithSameBytesAlign">>,                    \* some oversize block not returned
                    <<e.used # 0 \/ e.alloc # 0, "AccountingZero">> >>)
  /\ reg' = [r \in Res |-> <<>>]
  /\ blk' = {} /\ bk' = {}
  /\ inrel' = FALSE /\ freed' = FALSE /\ nrel' = nrel + 1
  /\ Keep(<<psz, pg, ul>>)

\* bookkeeping read-out: e.rng = every intrusive array of the resource(s) as [a, n]
MView(e) ==
  LET ks == Range(e.rng)
  IN /\ bk' = ks
     /\ bad' = Flag(<< <<\E k \in ks : ~Inside(k), "InsideOwnedMemory">>,
                       <<\E k \in ks, x \in blk : Overlap(x, k), "Disjoint">>,
                       <<\E i, j \in 1..Len(e.rng) : i < j /\ Overlap(e.rng[i], e.rng[j]), "Disjoint">>,
                       <<\E k \in ks : k.a % 8 # 0, "Aligned">> >>)
     /\ Keep(<<psz, pg, ul, blk, reg, inrel, freed, nrel>>)

MChk(e) ==
  /\ bad' = Flag(<< <<~e.intact, "ContentsStable">> >>)
  /\ Keep(<<psz, pg, ul, blk, bk, reg, inrel, freed, nrel>>)

MEnd(e) ==
  /\ bad' = Flag(<< <<e.status # "ok", "NoCrash">> >>)
  /\ Keep(<<psz, pg, ul, blk, bk, reg, inrel, freed, nrel>>)

MSkip(e) == bad' = bad /\ Keep(<<psz, pg, ul, blk, bk, reg, inrel, freed, nrel>>)

MNext ==
  /\ l <= Len(Tr)
  /\ LET e == Tr[l]
     IN CASE e.k = "reset" -> Fresh(e) /\ bad' = ""
          [] e.k = "palloc" -> MPalloc(e)
          [] e.k = "pfree" -> MPfree(e)
          [] e.k = "ualloc" -> MUalloc(e)
          [] e.k = "ufree" -> MUfree(e)
          [] e.k = "dtor" -> MDtor(e)
          [] e.k = "call" -> MCall(e)
          [] e.k = "ret" /\ e.op = "alloc" -> MRetAlloc(e)
          [] e.k = "ret" /\ e.op = "rd" -> MRetRd(e)
          [] e.k = "ret" /\ e.op = "contains" -> MRetContains(e)
          [] e.k = "ret" /\ e.op \in {"release", "destroy"} -> MRetRelease(e)
          [] e.k = "view" -> MView(e)
          [] e.k = "chk" -> MChk(e)
          [] e.k = "end" -> MEnd(e)
          [] OTHER -> MSkip(e)
  /\ l' = l + 1
  /\ verd' = (IF bad = "" /\ bad' # "" THEN verd \cup {<<l, bad'>>} ELSE verd)
              \cup (IF Tr[l].k = "palloc" /\ Tr[l].am # 0 THEN {<<l, "EnvPageAligned">>} ELSE {})
  /\ TLCSet(1, IF TLCGet(1) < l' THEN l' ELSE TLCGet(1))
  /\ TLCSet(2, verd')

MSpec == MInit /\ [][MNext]_mvars

\* <<"VERIF", lines consumed, lines, verdicts>>: the first violated clause of every execution
Post == PrintT(<<"VERIF", TLCGet(1) - 1, Len(Tr), TLCGet(2)>>)
=============================================================================
