------------------------------ MODULE MC_Wire ------------------------------
(***************************************************************************)
(* Model checking instance of Wire.tla (C11).  One behaviour per CASE:     *)
(*   Init picks a case descriptor, Start computes the input bytes (Enc of  *)
(*   a family value, a mutation of it, an arbitrary byte string ...),      *)
(*   Run executes the parser machine one step per transition, Finish       *)
(*   evaluates the clauses of the property on the terminal machine state   *)
(*   and emits the case (spec -> code binding: the driver replays it).     *)
(* kinds: val  value of the schema family                 RoundTrip, SizeExact, SuccessIdempotent
          unk  + an unknown field of every wire type      UnknownSkipped
          omit - one member                               DefaultsKept
          perm members permuted                           OrderIrrelevant
          pbv  protobuf encoding of the Cp fields         InteropFromProto (and val of Cp: InteropToProto)
          mut  single point mutation of a valid encoding  Terminates, SuccessIdempotent
          hos  every byte string up to length L           Terminates, SuccessIdempotent              *)
(***************************************************************************)
EXTENDS Wire, Json, SequencesExt

CONSTANTS ValSchemas, StructSchemas, MutSchemas, HosSchemas, HosSchemasS, Alphabet, L, LS, AllModes, ExtraHos
VARIABLES c, m, ph, viol
vars == <<c, m, ph, viol>>

Mid(s) == s[IF Len(s) >= 2 THEN 2 ELSE 1]
(* --------------------------------------------------------- value family *)
RECURSIVE FV(_), MaxV(_), MidV(_)
ScalFV(k) ==
  CASE k = "bool" -> <<Z, <<1>>>>
    [] k = "i8" -> <<Z, <<127>>, U32MAX, <<0, 127, 127, 127, 15>>>>
    [] k = "u16" -> <<Z, <<0, 1>>, <<127, 127, 3>>>>
    [] k = "i32" -> <<Z, <<1>>, <<0, 1>>, I32MIN, I32MAX, U32MAX>>
    [] k = "u32" -> <<Z, <<127>>, <<0, 1>>, U32MAX>>
    [] k = "i64" -> <<Z, P32, I64MIN, I64MAX, U64MAX>>
    [] k = "u64" -> <<Z, <<1>>, P32, I64MIN, U64MAX>>
    [] k = "enum" -> <<Z, <<1>>, I32MAX, U64MAX>>
    [] k = "f32" -> <<F0, <<0, 0, 128, 63>>, <<0, 0, 0, 128>>, <<0, 0, 192, 127>>, <<1, 0, 128, 127>>, <<255, 255, 255, 255>>>>
    [] k = "f64" -> <<D0, <<0, 0, 0, 0, 0, 0, 240, 63>>, <<1, 0, 0, 0, 0, 0, 240, 127>>, <<255, 255, 255, 255, 255, 255, 255, 255>>>>
    [] k = "str" -> <<<<>>, <<65>>, <<0>>, <<128>>, <<255>>, <<0, 128, 255>>>>
MaxV(t0) == LET t == Resolve(t0)
  IN CASE IsLeaf(t) -> Last(ScalFV(t.k))
       [] t.k \in {"vec", "list", "set"} -> <<Mid(FV(t.e)), MaxV(t.e)>>
       [] t.k = "arr" -> [i \in 1..t.n |-> MaxV(t.e)]
       [] t.k = "map" -> <<<<Mid(FV(t.x)), MaxV(t.e)>>, <<MaxV(t.x), Mid(FV(t.e))>>>>
       [] t.k \in {"uptr", "sptr", "opt"} -> <<MaxV(t.e)>>
       [] t.k = "rep" -> <<Mid(FV(t.e)), MaxV(t.e)>>
       [] t.k \in {"agg", "pb"} -> (IF t0.k = "ref" THEN Default(t) ELSE [i \in 1..Len(t.fs) |-> MaxV(t.fs[i].t)])
MidV(t0) == LET t == Resolve(t0)
  IN IF t.k \in {"agg", "pb"} /\ t0.k # "ref" THEN [i \in 1..Len(t.fs) |-> Mid(FV(t.fs[i].t))] ELSE Mid(FV(t))
\* the values a member / element of type t ranges over
FV(t0) == LET t == Resolve(t0)
  IN CASE IsLeaf(t) -> ScalFV(t.k)
       [] t.k \in {"vec", "list", "rep"} -> LET fe == FV(t.e) mx == MaxV(t.e)
                                            IN <<<<>>>> \o [i \in 1..Len(fe) |-> <<fe[i]>>] \o <<<<fe[1], mx>>, <<mx, mx>>>>
       [] t.k = "set" -> LET fe == FV(t.e) mx == MaxV(t.e) IN <<<<>>>> \o [i \in 1..Len(fe) |-> <<fe[i]>>] \o <<<<fe[1], mx>>>>
       [] t.k = "arr" -> LET fe == FV(t.e) mx == MaxV(t.e)
                         IN <<[i \in 1..t.n |-> fe[1]], [i \in 1..t.n |-> mx], [i \in 1..t.n |-> IF i = 1 THEN Mid(fe) ELSE mx]>>
       [] t.k = "map" -> <<<<>>, <<<<FV(t.x)[1], FV(t.e)[1]>>>>, <<<<MaxV(t.x), MaxV(t.e)>>>>, MaxV(t)>>
       [] t.k \in {"uptr", "sptr", "opt"} -> LET fe == FV(t.e) IN <<<<>>>> \o [i \in 1..Len(fe) |-> <<fe[i]>>]
       [] t.k \in {"agg", "pb"} -> IF t0.k = "ref" THEN <<Default(t)>> ELSE <<Default(t), MidV(t), MaxV(t)>>
\* nesting through pointers (schema Re): explicit values up to depth 4
ReVals == LET a4 == <<<<9>>>> a3 == <<Z, <<a4>>>> a2 == <<Z, <<a3>>>>
              b4 == <<Z>> b3 == <<<<1>>, <<b4>>>> b2 == <<<<1>>, <<b3>>>>
              c3 == <<I32MIN, <<>>>> c2 == <<<<5>>, <<c3>>>>
          IN <<<<Z, <<>>>>, <<<<1>>, <<<<Z, <<>>>>>>>>, <<U32MAX, <<c2>>>>, <<Z, <<a2>>>>, <<<<1>>, <<b2>>>>>>
\* values of a schema: for aggregates one member at a time over its FV plus all-mid / all-max
OneAt(t) == LET d == Default(t)
            IN Flat([j \in 1..Len(t.fs) |-> LET fv == FV(t.fs[j].t) IN [x \in 1..Len(fv) |-> [d EXCEPT ![j] = fv[x]]]])
\* boundary values: payload lengths around 127 / 128 (and 16383 / 16384) for members with 1, 2 and 3 byte tags - directly,
\* nested with following siblings, inside containers.  The oracle is VarintSize / Varint of Wire.tla.
StrN(n) == [i \in 1..n |-> 65 + (i % 7)]
BSv(j, n) == [DBS EXCEPT ![j] = StrN(n)]
BoundaryVals(nm) ==
  CASE nm = "BS" -> <<[j \in 1..5 |-> StrN(127)]>>
                    \o Flat([j \in 1..5 |-> [q \in 1..11 |-> BSv(j, 119 + q)]])
    \* the same around 16383 / 16384 (schemas BSL / BNL = the types of BS / BN; thorough tier only: 16 KiB sequences are slow in TLC)
    [] nm = "BSL" -> Flat([j \in 1..2 |-> [q \in 1..6 |-> BSv(2 * j - 1, 16379 + q)]])
    [] nm = "BNL" -> [q \in 1..8 |-> <<BSv(1, 16375 + q), <<1>>>>]
    [] nm = "BN" -> Flat([j \in 1..3 |-> [q \in 1..11 |-> <<BSv(2 * j - 1, 119 + q), <<1>>>>]])
    [] nm = "BM" -> Flat([j \in 1..2 |-> [q \in 1..11 |-> <<BSv(4 * j - 3, 119 + q), <<<<1>>, U32MAX>>, <<5>>>>]])
                    \o [q \in 1..4 |-> <<DBS, [i \in 1..125 + q |-> <<1>>], <<5>>>>]
    [] nm = "BC" -> [q \in 1..5 |-> <<<<StrN(124 + q)>>, <<>>, <<>>, <<>>>>]
                    \o [q \in 1..5 |-> <<<<StrN(124 + q), <<65>>>>, <<>>, <<>>, <<>>>>]
                    \o [q \in 1..7 |-> <<<<>>, <<<<StrN(121 + q), <<>>>>, <<<<66>>, <<>>>>>>, <<>>, <<>>>>]
                    \o [q \in 1..4 |-> <<<<>>, <<>>, [i \in 1..125 + q |-> <<1>>], <<>>>>]
                    \o [q \in 1..4 |-> <<<<>>, <<>>, <<>>, <<StrN(124 + q), <<65>>>>>>]
ValsOfG(nm) == LET t == Def(nm)
            IN IF nm = "Re" THEN ReVals
               ELSE IF t.k \in {"agg", "pb"} THEN <<MaxV(t), MidV(t)>> \o OneAt(t) ELSE FV(t)
\* the values whose encodings are mutated / permuted / extended (all-max, all-mid, and the last few)
ValsOf(nm) == IF nm \in {"BS", "BN", "BM", "BC", "BSL", "BNL"} THEN BoundaryVals(nm) ELSE ValsOfG(nm)
ValsTab == [nm \in ValSchemas |-> ValsOf(nm)]
Vals(nm) == ValsTab[nm]
NSel(nm) == Min2(Len(Vals(nm)), 2)

(* ------------------------------------------------------------- inputs *)
Unknowns == <<<<120, 0>>, <<120, 255, 255, 255, 255, 255, 255, 255, 255, 255, 1>>, <<125, 8, 10, 18, 255>>,
              <<121, 1, 2, 3, 4, 5, 6, 7, 8>>, <<122, 0>>, <<122, 3, 8, 255, 10>>, <<194, 62, 2, 10, 5>>,
              <<0, 5>>>>
WithUnknown(t, v, k, u) == LET fe == FieldEncs(t, v)
                           IN Flat([i \in 1..Len(fe) + 1 |-> (IF i = k + 1 THEN Unknowns[u] ELSE <<>>) \o (IF i <= Len(fe) THEN fe[i] ELSE <<>>)])
Omit(t, v, j) == LET fe == FieldEncs(t, v) IN Flat([i \in 1..Len(fe) |-> IF i = j THEN <<>> ELSE fe[i]])
Perm(t, v, p) == LET fe == FieldEncs(t, v) n == Len(fe)
                 IN Flat([i \in 1..n |-> IF p = 1 THEN fe[n + 1 - i] ELSE fe[(i % n) + 1]])
\* single point mutations of a valid encoding
Truncs(b) == [i \in 1..Len(b) |-> SubSeq(b, 1, i - 1)]
SetByte(b, i, x) == [b EXCEPT ![i] = x]
WtFlips(b, at) == [w \in 1..8 |-> SetByte(b, at, (b[at] \div 8) * 8 + (w - 1))]
\* length byte of a length-delimited member at 1-based index at: +1, 0x7F, over-long form, negative int, INT_MAX, 2^28
LenMuts(b, at) == LET pre == SubSeq(b, 1, at - 1) post == SubSeq(b, at + 1, Len(b)) x == b[at]
                  IN <<pre \o <<(x + 1) % 128>> \o post, pre \o <<127>> \o post, pre \o <<x + 128, 0>> \o post,
                       pre \o <<255, 255, 255, 255, 15>> \o post, pre \o <<255, 255, 255, 255, 7>> \o post,
                       pre \o <<128, 128, 128, 128, 1>> \o post, pre \o <<x + 128>> \o post>>
RECURSIVE Offsets(_, _, _)
Offsets(fe, i, acc) == IF i > Len(fe) THEN <<>> ELSE <<acc>> \o Offsets(fe, i + 1, acc + Len(fe[i]))
MutsOf(nm, v) == LET t == Def(nm) b == Enc(t, v)
  IN IF t.k # "agg" THEN Truncs(b)
     ELSE LET fe == FieldEncs(t, v)
              off == Offsets(fe, 1, 0)
              tagn(j) == VarintSize(t.fs[j].num * 8)
          IN Truncs(b)
             \o Flat([j \in 1..Len(fe) |-> IF Len(fe[j]) = 0 THEN <<>> ELSE WtFlips(b, off[j] + 1)])
             \o Flat([j \in 1..Len(fe) |-> IF Len(fe[j]) = 0 \/ WT(Resolve(t.fs[j].t)) # 2 \/ fe[j][tagn(j) + 1] >= 128 THEN <<>>
                                           ELSE LenMuts(b, off[j] + tagn(j) + 1)])
Alpha10 == <<0, 1, 2, 8, 10, 18, 13, 127, 128, 255>>
MutsTab == [nm \in MutSchemas |-> [vi \in 1..NSel(nm) |-> MutsOf(nm, Vals(nm)[vi])]]
A == Len(Alphabet)
RECURSIVE NStr(_)
NStr(l) == IF l = 0 THEN 1 ELSE A * NStr(l - 1)
RECURSIVE NUpTo(_)
NUpTo(l) == IF l < 0 THEN 0 ELSE NStr(l) + NUpTo(l - 1)
RECURSIVE Digits(_, _)
Digits(n, l) == IF l = 0 THEN <<>> ELSE <<Alphabet[(n % A) + 1]>> \o Digits(n \div A, l - 1)
RECURSIVE HosAt(_, _)
HosAt(n, l) == IF n < NStr(l) THEN Digits(n, l) ELSE HosAt(n - NStr(l), l + 1)
HosStr(n) == HosAt(n, 0)

PbVals == LET t == Def("PbCp") IN IF "Cp" \notin ValSchemas THEN <<>> ELSE <<MaxV(t), MidV(t), Default(t)>> \o OneAt(t)

(* ------------------------------------------------------------- cases *)
Modes == IF AllModes THEN {"b", "u"} \X {TRUE, FALSE} ELSE {<<"b", TRUE>>}
Case(kind, sch, vi, i, j, md) == [kind |-> kind, sch |-> sch, vi |-> vi, i |-> i, j |-> j, cls |-> md[1], dbg |-> md[2]]
IsAgg(nm) == Def(nm).k = "agg"
CasesOf(s) ==
  LET nv == Len(Vals(s)) t == Def(s)
  IN {Case("val", s, vi, 0, 0, md) : vi \in 1..nv, md \in Modes}
     \cup (IF s \in StructSchemas
           THEN {Case("unk", s, vi, k, u, md) : vi \in 1..NSel(s), k \in 0..Len(t.fs), u \in 1..Len(Unknowns), md \in Modes}
                \cup {Case("omit", s, vi, j, 0, md) : vi \in 1..NSel(s), j \in 1..Len(t.fs), md \in Modes}
                \cup {Case("perm", s, vi, p, 0, md) : vi \in 1..NSel(s), p \in 1..2, md \in Modes}
           ELSE {})
     \cup (IF s \in MutSchemas
           THEN UNION {{Case("mut", s, vi, i, 0, md) : i \in 1..Len(MutsTab[s][vi]), md \in Modes} : vi \in 1..NSel(s)}
           ELSE {})
     \cup (IF s = "Cp" THEN {Case("pbv", s, vi, 0, 0, md) : vi \in 1..Len(PbVals), md \in Modes} ELSE {})
AllCases == UNION {CasesOf(s) : s \in ValSchemas}
            \cup {Case("hos", s, 0, n, 0, md) : s \in HosSchemas, n \in 0..NUpTo(L) - 1, md \in Modes}
            \cup {Case("hos", s, 0, n, 0, md) : s \in HosSchemasS, n \in 0..NUpTo(LS) - 1, md \in Modes}
            \cup {Case("hos", s, 0, n, 0, md) : s \in HosSchemas, n \in ExtraHos, md \in Modes}    \* seeded longer strings

OrigVal(cs) == IF cs.kind \in {"hos"} THEN <<>> ELSE IF cs.kind = "pbv" THEN PbVals[cs.vi] ELSE Vals(cs.sch)[cs.vi]
BytesOf(cs) == LET t == Def(cs.sch) v == OrigVal(cs)
  IN CASE cs.kind = "val" -> Enc(t, v)
       [] cs.kind = "unk" -> WithUnknown(t, v, cs.i, cs.j)
       [] cs.kind = "omit" -> Omit(t, v, cs.i)
       [] cs.kind = "perm" -> Perm(t, v, cs.i)
       [] cs.kind = "mut" -> MutsTab[cs.sch][cs.vi][cs.i]
       [] cs.kind = "pbv" -> PbEnc(Def("PbCp"), v)
       [] cs.kind = "hos" -> HosStr(cs.i)
Expect(cs) == ExpectOf(cs.kind, cs.sch, OrigVal(cs), cs.i)
Clause(cs) == ClauseOf(cs.kind)

Judge(cs, mm) == LET t == Def(cs.sch)
  IN (IF mm.st = "hang" THEN {"Terminates"} ELSE {})
     \cup (IF mm.st = "abort" THEN {"NoCrash"} ELSE {})
     \cup (IF ~StepBound(mm) THEN {"StepBound"} ELSE {})
     \cup (IF Clause(cs) # "" /\ ~(mm.st = "ok" /\ SameV(t, mm.out, Expect(cs))) THEN {Clause(cs)} ELSE {})
     \cup (IF cs.kind = "val" /\ ~SizeExactOK(cs.sch, OrigVal(cs)) THEN {"SizeExact"} ELSE {})
     \cup (IF ~IdempotentOK(cs.sch, mm, cs.cls, cs.dbg) THEN {"SuccessIdempotent"} ELSE {})
     \cup (IF cs.kind = "val" /\ cs.sch = "Cp" /\
              ~(LET r == Parse("PbCp", mm.inp, cs.cls, cs.dbg)
                IN r.st = "ok" /\ SameV(Def("PbCp"), r.out, ToPb(t, Def("PbCp"), NullNorm(t, OrigVal(cs)))))
           THEN {"InteropToProto"} ELSE {})

Emit(cs, mm, vs) ==
  IF ~AllModes \/ vs # {}
  THEN PrintT(ToJson([kind |-> cs.kind, sch |-> cs.sch, vi |-> cs.vi, i |-> cs.i, j |-> cs.j, cls |-> cs.cls,
                      dbg |-> IF cs.dbg THEN 1 ELSE 0, val |-> OrigVal(cs), bytes |-> Tup(mm.inp), st |-> mm.st,
                      out |-> IF mm.st = "ok" THEN mm.out ELSE <<>>, amb |-> IF mm.amb THEN 1 ELSE 0, sens |-> SetToSeq(mm.sens),
                      viol |-> SetToSeq(vs)]))
  ELSE TRUE

Init == c \in AllCases /\ m = <<>> /\ ph = "new" /\ viol = {}
Start == /\ ph = "new"
         /\ LET b == BytesOf(c) t == Def(c.sch) IN m' = M0(b, t, Default(t), Lim0(c.cls, b), c.dbg)
         /\ ph' = "run" /\ UNCHANGED <<c, viol>>
Run == /\ ph = "run" /\ m.st = "run"
       /\ m' = Step(m) /\ UNCHANGED <<c, ph, viol>>
Finish == /\ ph = "run" /\ m.st # "run"
          /\ viol' = Judge(c, m)
          /\ Emit(c, m, viol')
          /\ ph' = "done" /\ UNCHANGED <<c, m>>
\* the other presentation classes / builds are explored only where the base run (bounded, asserts on) says they can differ
Fork == /\ ph = "done" /\ ~AllModes /\ c.cls = "b" /\ c.dbg
        /\ \E md \in ({"b", "u"} \X {TRUE, FALSE}) \ {<<"b", TRUE>>} :
              /\ (md[1] = "u" /\ "c" \in m.sens) \/ (~md[2] /\ "d" \in m.sens)
              /\ c' = [c EXCEPT !.cls = md[1], !.dbg = md[2]]
        /\ m' = <<>> /\ ph' = "new" /\ viol' = {}
Next == Start \/ Run \/ Finish \/ Fork
Spec == Init /\ [][Next]_vars

(* ------------------------------------------------------------- properties (one invariant per clause) *)
Has(x) == ph = "done" => x \notin viol
RoundTrip == Has("RoundTrip")
SizeExact == Has("SizeExact")
UnknownSkipped == Has("UnknownSkipped")
DefaultsKept == Has("DefaultsKept")
OrderIrrelevant == Has("OrderIrrelevant")
InteropFromProto == Has("InteropFromProto")
InteropToProto == Has("InteropToProto")
SuccessIdempotent == Has("SuccessIdempotent")
Terminates == Has("Terminates") /\ Has("StepBound")
NoCrash == Has("NoCrash")
\* the machine never reads at or beyond its limit / the end of the input and positions never decrease
InBounds == ph = "run" => m.pos <= Len(m.inp) /\ (m.lim # INTMAX => m.pos <= m.lim)
Progress == [][(ph = "run" /\ ph' = "run") => (m'.pos >= m.pos /\ m'.n = m.n + 1)]_vars
\* soundness of the mode sensitivity flags (checked in the AllModes configurations)
SensSound == (ph = "done" /\ AllModes) =>
               LET r == ModeResult(c.sch, m.inp, c.cls, c.dbg) IN r.st = m.st /\ (m.st = "ok" => r.out = m.out)
\* sanity of the wire grammar functions (a)
GrammarOK ==
  /\ \A g \in {Z, <<1>>, <<127>>, <<0, 1>>, U32MAX, I32MIN, I32MAX} :
        /\ UnZigZag(ZigZag(g, 32), 32) = g /\ UnFixed(Fixed(g, 4)) = g /\ Mask32(RdVar(VarintPad(g, 10), 0, 10).g) = g
        /\ RdVar(Varint(g), 0, Len(g)).g = g
  /\ \A g \in {Z, U32MAX, U64MAX, I64MIN, I64MAX, P32} : UnZigZag(ZigZag(g, 64), 64) = g /\ UnFixed(Fixed(g, 8)) = g
  /\ ZigZag(U32MAX, 32) = <<1>> /\ ZigZag(<<1>>, 32) = <<2>> /\ ZigZag(I32MIN, 32) = U32MAX /\ ZigZag(U64MAX, 64) = <<1>>
  /\ Fixed(<<0, 1>>, 4) = <<128, 0, 0, 0>> /\ SignExt64(U32MAX) = U64MAX /\ TagG(1, 2) = <<10>> /\ TagG(16, 5) = <<5, 1>>
  /\ RdVar(<<255, 255, 255, 255, 255, 255, 255, 255, 255, 255, 1>>, 0, 11).over /\ ~RdVar(<<128>>, 0, 1).ok
ASSUME GrammarOK
=============================================================================
