------------------------------ MODULE WeakMem ------------------------------
(***************************************************************************)
(* View-based operational model of the C++ release/acquire + relaxed +     *)
(* fence fragment (promise-free, stores appended at the end of the         *)
(* modification order).  It is a SUBSET of the behaviours ISO C++ allows,  *)
(* so a counterexample found with it is a permitted behaviour.             *)
(*                                                                         *)
(* The memory state is one record `ms`; every operator is pure and returns *)
(* the successor record, so any specification (implementation-shaped L2    *)
(* specs, the generic happens-before monitor HBMon) can embed it.          *)
(*                                                                         *)
(*   ms.mem[x]   sequence of messages [ts, val, view] of location x        *)
(*               (only readable ones are kept)                             *)
(*   ms.cur[t]   view of thread t  (location -> timestamp it must see)     *)
(*   ms.acq[t]   what an acquire fence would add                           *)
(*   ms.rel[t]   what a relaxed store after a release fence publishes      *)
(*   ms.sc       global view of seq_cst fences                             *)
(*   ms.pend[t]  location -> timestamp bound: narrow (16-bit) store of t no *)
(*               seq_cst fence / RMW of t has ordered yet: a wider load of *)
(*               t may combine its own half with a stale other half        *)
(*               (mixed-size store forwarding, the hazard the seq_cst      *)
(*               fence of the batch waker exists for)                      *)
(*   ms.race     a non-atomic access was not ordered by happens-before     *)
(*                                                                         *)
(* Views are functions with a finite, growing domain; absent = 0.          *)
(***************************************************************************)
EXTENDS Naturals, Sequences, FiniteSets

Max(a, b) == IF a >= b THEN a ELSE b

VGet(v, x) == IF x \in DOMAIN v THEN v[x] ELSE 0
VJoin(v, w) == [x \in (DOMAIN v) \cup (DOMAIN w) |-> Max(VGet(v, x), VGet(w, x))]
VSet(v, x, ts) == [y \in (DOMAIN v) \cup {x} |-> IF y = x THEN Max(VGet(v, x), ts) ELSE v[y]]
EmptyView == [x \in {} |-> 0]

IsAcq(mo) == mo \in {"acq", "ar", "sc", "con"}
IsRel(mo) == mo \in {"rel", "ar", "sc"}

WMInit(Thr, initVals) ==
  \* initVals: function location -> initial value
  [mem  |-> [x \in DOMAIN initVals |-> << [ts |-> 0, val |-> initVals[x], view |-> EmptyView] >>],
   cur  |-> [t \in Thr |-> EmptyView],
   acq  |-> [t \in Thr |-> EmptyView],
   rel  |-> [t \in Thr |-> EmptyView],
   sc   |-> EmptyView,
   pend |-> [t \in Thr |-> EmptyView],
   race |-> FALSE]

Last(ms, x) == ms.mem[x][Len(ms.mem[x])]
LastVal(ms, x) == Last(ms, x).val

\* indices (into ms.mem[x]) of the messages thread t may read
Readable(ms, t, x, stale) ==
  IF stale THEN {i \in 1..Len(ms.mem[x]) : ms.mem[x][i].ts >= VGet(ms.cur[t], x)}
  ELSE {Len(ms.mem[x])}

\* drop messages nobody can read any more (keeps states small; unobservable)
Prune(ms, x, keepAll) ==
  IF keepAll THEN ms.mem[x]
  ELSE LET n == Len(ms.mem[x]) IN << ms.mem[x][n] >>

\* a thread never seen before gets empty views
WithThread(ms, t) ==
  IF t \in DOMAIN ms.cur THEN ms
  ELSE [ms EXCEPT !.cur = [u \in DOMAIN ms.cur \cup {t} |-> IF u = t THEN EmptyView ELSE ms.cur[u]],
                  !.acq = [u \in DOMAIN ms.acq \cup {t} |-> IF u = t THEN EmptyView ELSE ms.acq[u]],
                  !.rel = [u \in DOMAIN ms.rel \cup {t} |-> IF u = t THEN EmptyView ELSE ms.rel[u]],
                  !.pend = [u \in DOMAIN ms.pend \cup {t} |-> IF u = t THEN EmptyView ELSE ms.pend[u]]]

\* a location never seen before starts with an initial message
WithLoc(ms, x, v0) ==
  IF x \in DOMAIN ms.mem THEN ms
  ELSE [ms EXCEPT !.mem = [y \in DOMAIN ms.mem \cup {x} |->
                             IF y = x THEN << [ts |-> 0, val |-> v0, view |-> EmptyView] >> ELSE ms.mem[y]]]

\* thread t reads message number i of x with order mo
LoadEff(ms, t, x, i, mo) ==
  LET m == ms.mem[x][i]
      c1 == VSet(ms.cur[t], x, m.ts)
      a1 == VJoin(VSet(ms.acq[t], x, m.ts), m.view)
  IN [ms EXCEPT !.cur[t] = IF IsAcq(mo) THEN VJoin(c1, m.view) ELSE c1,
                !.acq[t] = a1]

\* thread t appends a message with value v
StoreEff(ms, t, x, v, mo, keepAll) ==
  LET ts == Last(ms, x).ts + 1
      c1 == VSet(ms.cur[t], x, ts)
      mv == IF IsRel(mo) THEN c1 ELSE VSet(ms.rel[t], x, ts)
      ms1 == [ms EXCEPT !.cur[t] = c1, !.acq[t] = VSet(ms.acq[t], x, ts),
                        !.mem[x] = Append(ms.mem[x], [ts |-> ts, val |-> v, view |-> mv])]
  IN [ms1 EXCEPT !.mem[x] = Prune(ms1, x, keepAll)]

\* read-modify-write: reads the last message, continues its release sequence
RmwEff(ms, t, x, v, mo, keepAll) ==
  LET m == Last(ms, x)
      ts == m.ts + 1
      c0 == VSet(ms.cur[t], x, ts)
      c1 == IF IsAcq(mo) THEN VJoin(c0, m.view) ELSE c0
      a1 == VJoin(VSet(ms.acq[t], x, ts), m.view)
      mv == VJoin(IF IsRel(mo) THEN c1 ELSE VSet(ms.rel[t], x, ts), m.view)
      ms1 == [ms EXCEPT !.cur[t] = c1, !.acq[t] = a1,
                        !.mem[x] = Append(ms.mem[x], [ts |-> ts, val |-> v, view |-> mv]),
                        !.pend[t] = [y \in (DOMAIN ms.pend[t]) \ {x} |-> ms.pend[t][y]]]
  IN [ms1 EXCEPT !.mem[x] = Prune(ms1, x, keepAll)]

\* failed compare-exchange: a load of the last message with the failure order
CasFailEff(ms, t, x, mo) ==
  LoadEff(ms, t, x, Len(ms.mem[x]), IF mo = "ar" THEN "acq" ELSE IF mo = "rel" THEN "rlx" ELSE mo)

FenceEff(ms, t, mo) ==
  IF mo = "acq" \/ mo = "con" THEN [ms EXCEPT !.cur[t] = VJoin(ms.cur[t], ms.acq[t])]
  ELSE IF mo = "rel" THEN [ms EXCEPT !.rel[t] = ms.cur[t]]
  ELSE IF mo = "ar" THEN LET c == VJoin(ms.cur[t], ms.acq[t]) IN [ms EXCEPT !.cur[t] = c, !.rel[t] = c]
  ELSE IF mo = "sc" THEN LET c == VJoin(VJoin(ms.cur[t], ms.acq[t]), ms.sc)
                         IN [ms EXCEPT !.cur[t] = c, !.acq[t] = c, !.rel[t] = c, !.sc = c, !.pend[t] = EmptyView]
  ELSE ms   \* "rlx" / "none": no effect

\* seq_cst accesses get their hardware strength: the access bracketed by sc fences
ScBefore(ms, t, mo) == IF mo = "sc" THEN FenceEff(ms, t, "sc") ELSE ms
ScAfter(ms, t, mo) == IF mo = "sc" THEN FenceEff(ms, t, "sc") ELSE ms

\* narrow (16-bit) store into a wider word: remembers how far back t could still
\* read before it, so that a later *wide* load of t (not ordered by a seq_cst
\* fence or an RMW of t) may combine its own half with a stale other half
NarrowStoreEff(ms, t, x, v, mo, keepAll) ==
  LET old == IF x \in DOMAIN ms.pend[t] THEN ms.pend[t][x] ELSE VGet(ms.cur[t], x)
      ms1 == StoreEff(ms, t, x, v, mo, keepAll)
  IN [ms1 EXCEPT !.pend[t] = [y \in (DOMAIN ms.pend[t]) \cup {x} |-> IF y = x THEN old ELSE ms.pend[t][y]]]
IsPend(ms, t, x) == x \in DOMAIN ms.pend[t]
\* messages whose "other half" a pending wide load of t may still pick up
PendReadable(ms, t, x) == {i \in 1..Len(ms.mem[x]) : ms.mem[x][i].ts >= ms.pend[t][x]}

\* non-atomic access: must have seen the latest access to the cell; leaves a marker
NaEff(ms, t, c, v, keepAll) ==
  LET m == Last(ms, c)
      ok == VGet(ms.cur[t], c) = m.ts
      ts == m.ts + 1
      ms1 == [ms EXCEPT !.cur[t] = VSet(ms.cur[t], c, ts),
                        !.acq[t] = VSet(ms.acq[t], c, ts),
                        !.mem[c] = Append(ms.mem[c], [ts |-> ts, val |-> v, view |-> EmptyView]),
                        !.race = ms.race \/ ~ok]
  IN [ms1 EXCEPT !.mem[c] = Prune(ms1, c, keepAll)]

\* precise reader/writer discipline for shared non-atomic cells (c is a tuple <<name, index>>):
\* a read must have seen the last write; a write must have seen the last write and every read
\* since then.  Reads of different threads are not ordered with each other, so each reader
\* leaves its marker on its own pseudo-location <<name, index, reader>>.
RdLoc(c, r) == <<c[1], c[2], r>>
NaReadEff(ms, t, c) ==
  LET m0 == WithLoc(WithLoc(ms, c, 0), RdLoc(c, t), 0)
      ok == VGet(m0.cur[t], c) = Last(m0, c).ts
      r == RdLoc(c, t)
      ts == Last(m0, r).ts + 1
  IN [m0 EXCEPT !.cur[t] = VSet(m0.cur[t], r, ts), !.acq[t] = VSet(m0.acq[t], r, ts),
                !.mem[r] = << [ts |-> ts, val |-> 0, view |-> EmptyView] >>,
                !.race = m0.race \/ ~ok]
NaWriteEff(ms, t, c, readers) ==
  LET m0 == WithLoc(ms, c, 0)
      ok == /\ VGet(m0.cur[t], c) = Last(m0, c).ts
            /\ \A r \in readers : RdLoc(c, r) \in DOMAIN m0.mem => VGet(m0.cur[t], RdLoc(c, r)) = Last(m0, RdLoc(c, r)).ts
      ts == Last(m0, c).ts + 1
  IN [m0 EXCEPT !.cur[t] = VSet(m0.cur[t], c, ts), !.acq[t] = VSet(m0.acq[t], c, ts),
                !.mem[c] = << [ts |-> ts, val |-> 0, view |-> EmptyView] >>,
                !.race = m0.race \/ ~ok]

\* thread creation / join edges
SpawnEff(ms, parent, child) ==
  LET ms1 == WithThread(ms, child)
  IN [ms1 EXCEPT !.cur[child] = ms1.cur[parent], !.acq[child] = ms1.cur[parent]]
JoinEff(ms, parent, child) ==
  [ms EXCEPT !.cur[parent] = VJoin(ms.cur[parent], ms.cur[child]),
             !.acq[parent] = VJoin(ms.acq[parent], ms.cur[child])]
=============================================================================
