------------------------------- MODULE HBMon -------------------------------
(***************************************************************************)
(* Generic happens-before monitor.  Input: the trace of ONE OR MORE        *)
(* executions recorded under vsched -- every atomic operation of the code  *)
(* with the memory order it really passed, thread create / join, mutex     *)
(* lock / unlock, and the non-atomic payload accesses the driver logs as   *)
(* {"k":"acc","cell":..,"i":..,"w":true|false}.  The views of WeakMem are  *)
(* advanced with exactly these operations; an access that is not ordered   *)
(* after the accesses it conflicts with sets ms.race.                      *)
(*                                                                         *)
(* Independent of any component specification: it decides the "fully       *)
(* published / fully constructed / consumer sees every write" clauses on   *)
(* every observed execution, whatever the code's structure has become.     *)
(***************************************************************************)
EXTENDS Naturals, Integers, Sequences, FiniteSets, TLC, Json, IOUtils, WeakMem

Tr == ndJsonDeserialize(IOEnv.TRACE)

VARIABLES l, ms
hvars == <<l, ms>>

Thrs == 0..15
Fresh == WMInit(Thrs, << >>)

HInit == l = 1 /\ ms = Fresh /\ TLCSet(1, 1)

X(e) == <<e.loc, e.i>>
Prep(e) == WithLoc(ms, X(e), 0)
LastIdx(m, x) == Len(m.mem[x])

Eff(e) ==
  LET t == e.t
      m == IF e.k \in {"load", "store", "xchg", "faa", "fand", "for", "fxor", "cas", "lock", "unlock", "trylock"} THEN Prep(e) ELSE ms
      x == X(e)
  IN CASE e.k = "load" -> ScAfter(LoadEff(ScBefore(m, t, e.mo), t, x, LastIdx(m, x), e.mo), t, e.mo)
       [] e.k = "store" -> ScAfter(StoreEff(ScBefore(m, t, e.mo), t, x, 0, e.mo, FALSE), t, e.mo)
       [] e.k \in {"xchg", "faa", "fand", "for", "fxor"} -> ScAfter(RmwEff(ScBefore(m, t, e.mo), t, x, 0, e.mo, FALSE), t, e.mo)
       [] e.k = "cas" -> IF e.ok THEN ScAfter(RmwEff(ScBefore(m, t, e.mo), t, x, 0, e.mo, FALSE), t, e.mo)
                         ELSE LoadEff(m, t, x, LastIdx(m, x), e.mof)   \* a failed CAS is a load with the failure order
       [] e.k = "fence" -> FenceEff(ms, t, e.mo)
       [] e.k = "lock" -> RmwEff(m, t, x, 0, "acq", FALSE)
       [] e.k = "trylock" -> IF e.ok THEN RmwEff(m, t, x, 0, "acq", FALSE) ELSE m
       [] e.k = "unlock" -> StoreEff(m, t, x, 0, "rel", FALSE)
       [] e.k = "spawn" -> SpawnEff(ms, t, e.i)
       [] e.k = "join" -> JoinEff(ms, t, e.i)
       [] e.k = "acc" -> IF e.ok THEN NaWriteEff(ms, t, <<e.loc, e.i>>, Thrs) ELSE NaReadEff(ms, t, <<e.loc, e.i>>)
       [] OTHER -> ms

HNext ==
  /\ l <= Len(Tr)
  /\ ms' = IF Tr[l].k = "reset" THEN Fresh ELSE Eff(Tr[l])
  /\ l' = l + 1
  /\ TLCSet(1, l')

HSpec == HInit /\ [][HNext]_hvars

NoDataRace == ~ms.race
Post == PrintT(<<"VERIF", TLCGet(1) - 1, Len(Tr), {}>>)
=============================================================================
