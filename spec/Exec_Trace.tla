---------------------------- MODULE Exec_Trace ----------------------------
(***************************************************************************)
(* L2 conformance for C07: the observable events of an execution of the    *)
(* real executors (submission accepted / refused and the queue it went to, *)
(* task begin / end and the thread doing it, stop call / return) form a    *)
(* behaviour of the L2 model Exec.tla.  Everything the driver cannot see   *)
(* -- queue scans, steals that fail, balancer sweeps, STOP / WAKEUP        *)
(* markers, joins -- are hidden steps TLC chooses; so is the order in      *)
(* which the real worker threads appear in the for_each over the local     *)
(* queues (wm maps the k-th real worker thread to a model worker).         *)
(* A submission to the global queue is placed where the real code takes    *)
(* the queue's ticket (that fixes the FIFO order); the real pusher may     *)
(* still wait for its slot there, so the trace model's global queue is     *)
(* unbounded (cfg.G = 64) -- blocking on a full queue is not observable.   *)
(*                                                                         *)
(* A trace that cannot be explained is SPEC-DRIFT (the model no longer     *)
(* describes the code), never a violation.  The search stops as soon as    *)
(* the whole file is explained (invariant NotDone is then `violated').     *)
(***************************************************************************)
EXTENDS Exec, Json, IOUtils

Tr == ndJsonDeserialize(IOEnv.TRACE)

VARIABLES l,   \* next trace line to explain
          wm   \* real worker number -> model worker

tvars == <<vars, l, wm>>

CfgOf(e) == [kind |-> e.kind, W |-> e.W, G |-> e.G, L |-> e.L, steal |-> e.steal, bal |-> e.bal, flat |-> FALSE,
             acc |-> {e.accs[i] : i \in 1..Len(e.accs)}, tree |-> e.tree, prog |-> e.prog]

Bij(c) == {f \in [1..c.W -> WkC(c)] : \A a, b \in 1..c.W : a # b => f[a] # f[b]}
WMaps(c) == IF c.kind = "pool" THEN Bij(c) ELSE {<< >>}

TInit ==
  /\ l = 2 /\ Tr[1].k = "reset"
  /\ LET i == I0(CfgOf(Tr[1]))
     IN /\ cfg = i.cfg /\ pc = i.pc /\ stk = i.stk /\ cur = i.cur /\ opi = i.opi /\ gq = << >> /\ lq = i.lq
        /\ held = i.held /\ si = i.si /\ bq = 1 /\ nstop = 0 /\ running = i.running /\ ntrun = 0
        /\ flatq = i.flatq /\ H = H0
  /\ wm \in WMaps(CfgOf(Tr[1]))
  /\ TLCSet(1, 2)

\* the next execution of the file starts from the initial state of its configuration
TReset(e) ==
  LET i == I0(CfgOf(e))
  IN /\ cfg' = i.cfg /\ pc' = i.pc /\ stk' = i.stk /\ cur' = i.cur /\ opi' = i.opi /\ gq' = << >> /\ lq' = i.lq
     /\ held' = i.held /\ si' = i.si /\ bq' = 1 /\ nstop' = 0 /\ running' = i.running /\ ntrun' = 0
     /\ flatq' = i.flatq /\ H' = H0
     /\ wm' \in WMaps(CfgOf(e))

\* model thread of a recorded event: submitter (program thread n), worker (n-th pool thread), task thread
MT(e) == IF e.role = "w" THEN wm[e.n]
         ELSE IF e.role = "t" THEN (IF e.k = "acc" THEN 1000 + (e.id \div 10) ELSE 1000 + e.id)
         ELSE e.n

Obs(h) == <<h.acc, h.refused, h.began, h.ended, h.stopCalled, h.stopRet>>

Hidden == \E t \in Thr : Step(t) /\ Obs(H') = Obs(H)

Match(e) ==
  LET t == MT(e)
  IN /\ t \in Thr
     /\ Step(t)
     /\ CASE e.k = "acc" -> /\ e.id \notin H.acc /\ H'.acc = H.acc \cup {e.id}
                            /\ (cfg.kind = "pool") => ((e.loc = "local") <=> (e.id \in H'.locals))
                            /\ H'.began = H.began /\ H'.ended = H.ended
          [] e.k = "ref" -> e.id \notin H.refused /\ H'.refused = H.refused \cup {e.id}
          [] e.k = "tb" -> e.id \notin H.began /\ H'.began = H.began \cup {e.id} /\ H'.ended = H.ended
          [] e.k = "te" -> e.id \notin H.ended /\ H'.ended = H.ended \cup {e.id} /\ H'.began = H.began
          [] e.k = "stopcall" -> ~H.stopCalled /\ H'.stopCalled
          [] e.k = "stopret" -> ~H.stopRet /\ H'.stopRet

TNext ==
  \/ /\ l <= Len(Tr)
     /\ Tr[l].k \notin {"reset", "end"}
     /\ Hidden
     /\ UNCHANGED <<l, wm>>
  \/ /\ l <= Len(Tr)
     /\ LET e == Tr[l]
        IN CASE e.k = "reset" -> TReset(e)
             [] e.k = "end" -> UNCHANGED <<vars, wm>>
             [] OTHER -> Match(e) /\ wm' = wm
     /\ l' = l + 1
     /\ TLCSet(1, IF l' > TLCGet(1) THEN l' ELSE TLCGet(1))

TSpec == TInit /\ [][TNext]_tvars

\* `violated' exactly when every line of the file has been explained
NotDone == l <= Len(Tr)

Post == PrintT(<<"VERIF", TLCGet(1) - 1, Len(Tr), {}>>)
=============================================================================
