------------------------------- MODULE Pages -------------------------------
(***************************************************************************)
(* L2 (implementation-shaped) specification of the page allocators of      *)
(* src/babylon/reusable/page_allocator.{h,cpp}  (property C17):            *)
(*                                                                         *)
(*   CachedPageAllocator::allocate / deallocate / ~CachedPageAllocator     *)
(*     on the COMPENSATING queue operations  pop_n(cb, rcb, n) /           *)
(*     push_n(cb, rcb, n)  of ConcurrentBoundedQueue                       *)
(*     (deal_n_continuously(callback, reverse_callback, index, num)):      *)
(*     a ticket is taken with fetch_add, every slot of the ticket range is *)
(*     awaited; while a slot is not ready and no producer (consumer) is on *)
(*     its way  (need_index <= index + num)  the caller itself plays the   *)
(*     opposite role once through try_push_n / try_pop_n<true,false>(rcb,1)*)
(*     -- for allocate: one page is obtained from upstream and pushed into *)
(*     the cache; for deallocate: one page is popped from the cache and    *)
(*     returned upstream.  Requests beyond the capacity go straight to     *)
(*     upstream.  The destructor drains the cache with                     *)
(*     try_pop_n<false,false>(cb, capacity).                               *)
(*   BatchPageAllocator: per-thread prefetch buffer refilled from its      *)
(*     upstream in batches, deallocate passes through, the destructor      *)
(*     returns what is left in every thread's buffer.                      *)
(*   CountingPageAllocator: counter += n / -= n around the pass-through.   *)
(*                                                                         *)
(* The queue is abstract-but-faithful: push/pop index, per slot a version  *)
(* and a value, one action per atomic operation of the queue code (fences  *)
(* and the callback bodies are folded into the neighbouring step; memory   *)
(* is sequentially consistent here -- publication of the slots under the   *)
(* C++ memory model is the subject of BQ.tla / C01, whose compensating     *)
(* actions c_* / r_* this module re-states over the abstract state).       *)
(*                                                                         *)
(* Ownership: ghost map  own : page -> <<"up",0>> | <<"cache",0>> |        *)
(* <<"c",t>> (caller) | <<"buf",t>> (thread buffer) | <<"tr",t>> (inside   *)
(* an operation of thread t).  Every transfer checks the source owner.     *)
(***************************************************************************)
EXTENDS Naturals, Integers, Sequences, FiniteSets, TLC

CONSTANTS Configs   \* set of [cap, batch, counting, np, fresh, prog]

VARIABLES cfg,
          q,      \* the cache queue: [push, pop, ver, val]
          pc, L,  \* per thread (0 = the owner thread that destroys the allocators at the end)
          upOut,  \* upstream's own record: pages handed out and not returned
          held,   \* held[t]: sequence of pages caller t holds
          buf,    \* buf[t]: BatchPageAllocator's buffer of thread t (remaining pages)
          cnt,    \* CountingPageAllocator's counter
          own,    \* ghost ownership map
          H,      \* history: [bad]
          ev      \* ghost: the operation performed by the last step

vars == <<cfg, q, pc, L, upOut, held, buf, cnt, own, H, ev>>

T == Len(cfg.prog)
Thr == 0..T
Callers == 1..T
Cap == cfg.cap
PageIds == 1..cfg.np

Min(S) == CHOOSE x \in S : \A y \in S : x <= y
SetOf(s) == {s[j] : j \in 1..Len(s)}
SubSeqFrom(s, a) == IF a > Len(s) THEN <<>> ELSE SubSeq(s, a, Len(s))
Take(s, k) == IF k = 0 THEN <<>> ELSE SubSeq(s, 1, k)

PushVer(idx) == (idx \div Cap) * 2
PopVer(idx) == PushVer(idx) + 1
ExpVer(role, idx) == IF role = "push" THEN PushVer(idx) ELSE PopVer(idx)
NextRound(idx) == ((idx \div Cap) + 1) * Cap
Other(role) == IF role = "push" THEN "pop" ELSE "push"
IdxOf(role) == IF role = "push" THEN q.push ELSE q.pop
IdxName(role) == IF role = "push" THEN "push_idx" ELSE "pop_idx"
Seg1(idx, n) == IF idx + n <= NextRound(idx) THEN <<idx, n>> ELSE <<idx, NextRound(idx) - idx>>
Seg2(idx, n) == IF idx + n <= NextRound(idx) THEN <<>> ELSE <<NextRound(idx), idx + n - NextRound(idx)>>

UP == <<"up", 0>>
CACHE == <<"cache", 0>>
Tran(t) == <<"tr", t>>
Cl(t) == <<"c", t>>
Bf(t) == <<"buf", t>>

NoEv == [t |-> 0, k |-> "", loc |-> "", i |-> 0, v |-> 0, a |-> 0, ok |-> TRUE, op |-> "", n |-> 0, pages |-> <<>>]

L0 == [opi |-> 1, want |-> 0, bi |-> 0, res |-> <<>>,
       role |-> "pop", lreq |-> 0, lpages |-> <<>>, kont |-> "",
       idx |-> 0, num |-> 0, slot |-> 0, exp |-> 0, i |-> 0, seg2 |-> <<>>,
       ridx |-> 0, rslot |-> 0, rexp |-> 0, bt |-> 1]

InitFor(c) ==
  /\ cfg = c
  /\ q = [push |-> 0, pop |-> 0, ver |-> [s \in 0..c.cap - 1 |-> 0], val |-> [s \in 0..c.cap - 1 |-> 0]]
  /\ pc = [t \in 0..Len(c.prog) |-> IF t = 0 THEN "m_start" ELSE "idle"]
  /\ L = [t \in 0..Len(c.prog) |-> L0]
  /\ upOut = {}
  /\ held = [t \in 1..Len(c.prog) |-> <<>>]
  /\ buf = [t \in 1..Len(c.prog) |-> <<>>]
  /\ cnt = 0
  /\ own = [p \in 1..c.np |-> UP]
  /\ H = [bad |-> "", next |-> 1]
  /\ ev = NoEv

Init == \E c \in Configs : InitFor(c)

Goto(t, p) == pc' = [pc EXCEPT ![t] = p]
SetL(t, l) == L' = [L EXCEPT ![t] = l]
Flag(b, name) == H' = [H EXCEPT !.bad = IF b /\ H.bad = "" THEN name ELSE @]
\* the same for a step in which upstream hands out k pages (cfg.fresh: upstream never reuses a page id, as the
\* recording allocator of the driver; otherwise it reuses the smallest free id, which keeps the state space small)
FlagUp(b, name, k) == H' = [H EXCEPT !.bad = IF b /\ H.bad = "" THEN name ELSE @, !.next = IF cfg.fresh THEN @ + k ELSE @]
Op(t) == cfg.prog[t][L[t].opi]
ProgDone(t) == pc[t] = "idle" /\ L[t].opi > Len(cfg.prog[t])
ThreadsDone == \A t \in Callers : ProgDone(t)

\* ownership transfer of a set of pages
Move(P, to) == [p \in DOMAIN own |-> IF p \in P THEN to ELSE own[p]]
AllOwned(P, by) == \A p \in P : p \in DOMAIN own /\ own[p] = by

(***************************************************************************)
(* upstream (the recording allocator): hands out the smallest free page    *)
(***************************************************************************)
FreePages == PageIds \ upOut
FirstFree(k) == \* the next k pages upstream hands out, as a sequence
  LET RECURSIVE F(_, _)
      F(S, j) == IF j = 0 THEN <<>> ELSE <<Min(S)>> \o F(S \ {Min(S)}, j - 1)
  IN IF cfg.fresh THEN [j \in 1..k |-> H.next + j - 1] ELSE F(FreePages, k)
NextFree == FirstFree(1)[1]

(***************************************************************************)
(* where a request of the layer below the batch / counting layers goes     *)
(***************************************************************************)
LowerPc == IF Cap > 0 THEN "c_faa" ELSE "u_call"
StartLower(l, role, n, pages, kont) ==
  [l EXCEPT !.role = role, !.lreq = n, !.lpages = pages, !.kont = kont]

(***************************************************************************)
(* call / return at the top of the stack                                   *)
(***************************************************************************)
Call(t) ==
  /\ t \in Callers /\ pc[t] = "idle" /\ L[t].opi <= Len(cfg.prog[t])
  /\ LET o == Op(t) IN
     IF o.op = "a"
     THEN /\ cnt' = IF cfg.counting THEN cnt + o.n ELSE cnt
          /\ ev' = [NoEv EXCEPT !.t = t, !.k = "call", !.op = "alloc", !.n = o.n]
          /\ IF cfg.batch > 0
             THEN SetL(t, [L[t] EXCEPT !.want = o.n, !.bi = 0, !.res = <<>>]) /\ Goto(t, "b_take")
             ELSE SetL(t, StartLower([L[t] EXCEPT !.want = o.n, !.res = <<>>], "pop", o.n, <<>>, "a_done")) /\ Goto(t, LowerPc)
          /\ UNCHANGED <<held, own, H>>
     ELSE LET k == IF o.n < Len(held[t]) THEN o.n ELSE Len(held[t])
              pages == Take(held[t], k)
          IN IF k = 0
             THEN /\ SetL(t, [L[t] EXCEPT !.opi = @ + 1]) /\ UNCHANGED <<pc, cnt, held, own, H>> /\ ev' = NoEv
             ELSE /\ held' = [held EXCEPT ![t] = SubSeqFrom(@, k + 1)]
                  /\ own' = Move(SetOf(pages), Tran(t))
                  /\ Flag(~AllOwned(SetOf(pages), Cl(t)), "SingleOwner")
                  /\ cnt' = IF cfg.counting THEN cnt - k ELSE cnt
                  /\ ev' = [NoEv EXCEPT !.t = t, !.k = "call", !.op = "dealloc", !.n = k, !.pages = pages]
                  /\ SetL(t, StartLower([L[t] EXCEPT !.want = k], "push", k, pages, "d_ret")) /\ Goto(t, LowerPc)
  /\ UNCHANGED <<cfg, q, upOut, buf>>

\* allocate() of the non-batch stacks: the lower layer delivered lpages
ADone(t) ==
  /\ pc[t] = "a_done"
  /\ SetL(t, [L[t] EXCEPT !.res = L[t].lpages, !.lpages = <<>>]) /\ Goto(t, "a_ret")
  /\ ev' = NoEv
  /\ UNCHANGED <<cfg, q, upOut, held, buf, cnt, own, H>>

ARet(t) ==
  /\ pc[t] = "a_ret"
  /\ LET r == L[t].res IN
     /\ held' = [held EXCEPT ![t] = @ \o r]
     /\ own' = Move(SetOf(r), Cl(t))
     /\ Flag(~AllOwned(SetOf(r), Tran(t)) \/ Cardinality(SetOf(r)) # Len(r) \/ Len(r) # L[t].want, "SingleOwner")
     /\ ev' = [NoEv EXCEPT !.t = t, !.k = "ret", !.op = "alloc", !.n = L[t].want, !.pages = r]
  /\ SetL(t, [L[t] EXCEPT !.opi = @ + 1, !.res = <<>>]) /\ Goto(t, "idle")
  /\ UNCHANGED <<cfg, q, upOut, buf, cnt>>

DRet(t) ==
  /\ pc[t] = "d_ret"
  /\ ev' = [NoEv EXCEPT !.t = t, !.k = "ret", !.op = "dealloc", !.n = L[t].want]
  /\ SetL(t, [L[t] EXCEPT !.opi = @ + 1]) /\ Goto(t, "idle")
  /\ UNCHANGED <<cfg, q, upOut, held, buf, cnt, own, H>>

(***************************************************************************)
(* BatchPageAllocator::allocate(pages, num) = num times allocate()         *)
(***************************************************************************)
BTake(t) ==
  /\ pc[t] = "b_take"
  /\ ev' = NoEv
  /\ IF L[t].bi = L[t].want
     THEN Goto(t, "a_ret") /\ UNCHANGED <<L, buf, own, H>>
     ELSE IF buf[t] # <<>>
     THEN LET p == Head(buf[t]) IN
          /\ buf' = [buf EXCEPT ![t] = Tail(@)]
          /\ own' = Move({p}, Tran(t))
          /\ Flag(~AllOwned({p}, Bf(t)), "SingleOwner")
          /\ SetL(t, [L[t] EXCEPT !.bi = @ + 1, !.res = Append(@, p)])
          /\ UNCHANGED pc
     ELSE /\ SetL(t, StartLower(L[t], "pop", cfg.batch, <<>>, "b_refilled")) /\ Goto(t, LowerPc)
          /\ UNCHANGED <<buf, own, H>>
  /\ UNCHANGED <<cfg, q, upOut, held, cnt>>

BRefilled(t) ==
  /\ pc[t] = "b_refilled"
  /\ buf' = [buf EXCEPT ![t] = L[t].lpages]
  /\ own' = Move(SetOf(L[t].lpages), Bf(t))
  /\ Flag(~AllOwned(SetOf(L[t].lpages), Tran(t)) \/ Len(L[t].lpages) # cfg.batch, "SingleOwner")
  /\ SetL(t, [L[t] EXCEPT !.lpages = <<>>]) /\ Goto(t, "b_take")
  /\ ev' = NoEv
  /\ UNCHANGED <<cfg, q, upOut, held, cnt>>

(***************************************************************************)
(* a layer that sits directly on upstream (no cache below): one call       *)
(***************************************************************************)
UCall(t) ==
  /\ pc[t] = "u_call"
  /\ IF L[t].role = "pop"
     THEN LET ps == FirstFree(L[t].lreq) IN
          /\ upOut' = upOut \cup SetOf(ps)
          /\ own' = Move(SetOf(ps), Tran(t))
          /\ FlagUp(~AllOwned(SetOf(ps), UP), "SingleOwner", L[t].lreq)
          /\ SetL(t, [L[t] EXCEPT !.lpages = ps])
          /\ ev' = [NoEv EXCEPT !.t = t, !.k = "up", !.op = "alloc", !.n = L[t].lreq, !.pages = ps]
     ELSE LET ps == L[t].lpages IN
          /\ upOut' = upOut \ SetOf(ps)
          /\ own' = Move(SetOf(ps), UP)
          /\ Flag(~AllOwned(SetOf(ps), Tran(t)) \/ ~(SetOf(ps) \subseteq upOut), "SingleOwner")
          /\ SetL(t, [L[t] EXCEPT !.lpages = <<>>])
          /\ ev' = [NoEv EXCEPT !.t = t, !.k = "up", !.op = "dealloc", !.n = Len(ps), !.pages = ps]
  /\ Goto(t, L[t].kont)
  /\ UNCHANGED <<cfg, q, held, buf, cnt>>

(***************************************************************************)
(* CachedPageAllocator::allocate (role pop) / deallocate (role push):      *)
(* compensating pop_n / push_n over min(n, capacity) slots                 *)
(***************************************************************************)
StartSeg(l, seg) == [l EXCEPT !.idx = seg[1], !.num = seg[2], !.exp = ExpVer(l.role, seg[1]), !.slot = seg[1] % Cap, !.i = 0]

CFaa(t) ==
  /\ pc[t] = "c_faa"
  /\ LET role == L[t].role
         need == IF L[t].lreq < Cap THEN L[t].lreq ELSE Cap
         old == IdxOf(role)
     IN /\ q' = IF role = "push" THEN [q EXCEPT !.push = @ + need] ELSE [q EXCEPT !.pop = @ + need]
        /\ SetL(t, [StartSeg(L[t], Seg1(old, need)) EXCEPT !.seg2 = Seg2(old, need)])
        /\ ev' = [NoEv EXCEPT !.t = t, !.k = "faa", !.loc = IdxName(role), !.v = old, !.a = need]
  /\ Goto(t, "c_chk")
  /\ UNCHANGED <<cfg, upOut, held, buf, cnt, own, H>>

CChk(t) ==
  /\ pc[t] = "c_chk"
  /\ LET s == L[t].slot + L[t].i
         v == q.ver[s]
     IN /\ ev' = [NoEv EXCEPT !.t = t, !.k = "load", !.loc = "slot", !.i = s, !.v = v]
        /\ IF v = L[t].exp
           THEN IF L[t].i + 1 < L[t].num THEN SetL(t, [L[t] EXCEPT !.i = @ + 1]) /\ UNCHANGED pc
                ELSE SetL(t, [L[t] EXCEPT !.i = 0]) /\ Goto(t, "c_cb")
           ELSE UNCHANGED L /\ Goto(t, "c_need")
  /\ UNCHANGED <<cfg, q, upOut, held, buf, cnt, own, H>>

CNeed(t) ==
  /\ pc[t] = "c_need"
  /\ LET v == IdxOf(Other(L[t].role))
         need == IF L[t].role = "push" THEN v + Cap ELSE v
     IN /\ ev' = [NoEv EXCEPT !.t = t, !.k = "load", !.loc = IdxName(Other(L[t].role)), !.v = v]
        /\ Goto(t, IF need <= L[t].idx + L[t].num THEN "r_iload" ELSE "c_yield")
  /\ UNCHANGED <<cfg, q, L, upOut, held, buf, cnt, own, H>>

CYield(t) ==
  /\ pc[t] = "c_yield"
  /\ ev' = [NoEv EXCEPT !.t = t, !.k = "yield"]
  /\ Goto(t, "c_chk")
  /\ UNCHANGED <<cfg, q, L, upOut, held, buf, cnt, own, H>>

\* nested try_{push,pop}_n<true,false>(reverse_callback, 1)
RILoad(t) ==
  /\ pc[t] = "r_iload"
  /\ LET o == Other(L[t].role)
         v == IdxOf(o)
     IN /\ SetL(t, [L[t] EXCEPT !.ridx = v, !.rexp = ExpVer(o, v), !.rslot = v % Cap])
        /\ ev' = [NoEv EXCEPT !.t = t, !.k = "load", !.loc = IdxName(o), !.v = v]
  /\ Goto(t, "r_vload")
  /\ UNCHANGED <<cfg, q, upOut, held, buf, cnt, own, H>>

RVLoad(t) ==
  /\ pc[t] = "r_vload"
  /\ LET v == q.ver[L[t].rslot]
     IN /\ ev' = [NoEv EXCEPT !.t = t, !.k = "load", !.loc = "slot", !.i = L[t].rslot, !.v = v]
        /\ Goto(t, IF v = L[t].rexp THEN "r_cas" ELSE "c_chk")
  /\ UNCHANGED <<cfg, q, L, upOut, held, buf, cnt, own, H>>

RCas(t) ==
  /\ pc[t] = "r_cas"
  /\ LET o == Other(L[t].role)
         v == IdxOf(o)
         ok == v = L[t].ridx
     IN /\ q' = IF ~ok THEN q ELSE IF o = "push" THEN [q EXCEPT !.push = @ + 1] ELSE [q EXCEPT !.pop = @ + 1]
        /\ ev' = [NoEv EXCEPT !.t = t, !.k = "cas", !.loc = IdxName(o), !.v = v, !.a = L[t].ridx, !.ok = ok]
        /\ Goto(t, IF ok THEN "r_cb" ELSE "c_chk")
  /\ UNCHANGED <<cfg, L, upOut, held, buf, cnt, own, H>>

\* the reverse callback on the single slot: allocate -> one page from upstream into the cache;
\* deallocate -> one page out of the cache back to upstream
RCb(t) ==
  /\ pc[t] = "r_cb"
  /\ IF L[t].role = "pop"
     THEN LET p == NextFree IN
          /\ upOut' = upOut \cup {p}
          /\ q' = [q EXCEPT !.val[L[t].rslot] = p]
          /\ own' = Move({p}, CACHE)
          /\ FlagUp(~AllOwned({p}, UP), "SingleOwner", 1)
          /\ ev' = [NoEv EXCEPT !.t = t, !.k = "up", !.op = "alloc", !.n = 1, !.pages = <<p>>]
     ELSE LET p == q.val[L[t].rslot] IN
          /\ upOut' = upOut \ {p}
          /\ q' = q
          /\ own' = Move({p}, UP)
          /\ Flag(~AllOwned({p}, CACHE) \/ p \notin upOut, "SingleOwner")
          /\ ev' = [NoEv EXCEPT !.t = t, !.k = "up", !.op = "dealloc", !.n = 1, !.pages = <<p>>]
  /\ Goto(t, "r_st")
  /\ UNCHANGED <<cfg, L, held, buf, cnt>>

RSt(t) ==
  /\ pc[t] = "r_st"
  /\ q' = [q EXCEPT !.ver[L[t].rslot] = L[t].rexp + 1]
  /\ ev' = [NoEv EXCEPT !.t = t, !.k = "store", !.loc = "slot", !.i = L[t].rslot, !.v = L[t].rexp + 1]
  /\ Goto(t, "c_chk")
  /\ UNCHANGED <<cfg, L, upOut, held, buf, cnt, own, H>>

\* the callback over the ready range: copy out (allocate) / copy in (deallocate)
CCb(t) ==
  /\ pc[t] = "c_cb"
  /\ LET n == L[t].num
         s == L[t].slot
     IN IF L[t].role = "pop"
        THEN LET ps == [j \in 1..n |-> q.val[s + j - 1]] IN
             /\ own' = Move(SetOf(ps), Tran(t))
             /\ Flag(~AllOwned(SetOf(ps), CACHE) \/ Cardinality(SetOf(ps)) # n, "SingleOwner")
             /\ SetL(t, [L[t] EXCEPT !.lpages = @ \o ps])
             /\ q' = q
        ELSE LET ps == Take(L[t].lpages, n) IN
             /\ own' = Move(SetOf(ps), CACHE)
             /\ Flag(~AllOwned(SetOf(ps), Tran(t)), "SingleOwner")
             /\ SetL(t, [L[t] EXCEPT !.lpages = SubSeqFrom(@, n + 1)])
             /\ q' = [q EXCEPT !.val = [x \in DOMAIN q.val |-> IF x >= s /\ x < s + n THEN ps[x - s + 1] ELSE q.val[x]]]
  /\ ev' = NoEv
  /\ Goto(t, "c_st")
  /\ UNCHANGED <<cfg, upOut, held, buf, cnt>>

CSt(t) ==
  /\ pc[t] = "c_st"
  /\ LET s == L[t].slot + L[t].i IN
     /\ q' = [q EXCEPT !.ver[s] = L[t].exp + 1]
     /\ ev' = [NoEv EXCEPT !.t = t, !.k = "store", !.loc = "slot", !.i = s, !.v = L[t].exp + 1]
  /\ IF L[t].i + 1 < L[t].num
     THEN SetL(t, [L[t] EXCEPT !.i = @ + 1]) /\ UNCHANGED pc
     ELSE IF L[t].seg2 # <<>>
     THEN SetL(t, [StartSeg(L[t], L[t].seg2) EXCEPT !.seg2 = <<>>]) /\ Goto(t, "c_chk")
     ELSE SetL(t, [L[t] EXCEPT !.i = 0]) /\ Goto(t, "c_rest")
  /\ UNCHANGED <<cfg, upOut, held, buf, cnt, own, H>>

\* what exceeds the capacity goes straight to upstream, one page per call
CRest(t) ==
  /\ pc[t] = "c_rest"
  /\ IF L[t].role = "pop"
     THEN IF Len(L[t].lpages) < L[t].lreq
          THEN LET p == NextFree IN
               /\ upOut' = upOut \cup {p}
               /\ own' = Move({p}, Tran(t))
               /\ FlagUp(~AllOwned({p}, UP), "SingleOwner", 1)
               /\ SetL(t, [L[t] EXCEPT !.lpages = Append(@, p)])
               /\ ev' = [NoEv EXCEPT !.t = t, !.k = "up", !.op = "alloc", !.n = 1, !.pages = <<p>>]
               /\ UNCHANGED pc
          ELSE Goto(t, L[t].kont) /\ ev' = NoEv /\ UNCHANGED <<L, upOut, own, H>>
     ELSE IF L[t].lpages # <<>>
          THEN LET p == Head(L[t].lpages) IN
               /\ upOut' = upOut \ {p}
               /\ own' = Move({p}, UP)
               /\ Flag(~AllOwned({p}, Tran(t)) \/ p \notin upOut, "SingleOwner")
               /\ SetL(t, [L[t] EXCEPT !.lpages = Tail(@)])
               /\ ev' = [NoEv EXCEPT !.t = t, !.k = "up", !.op = "dealloc", !.n = 1, !.pages = <<p>>]
               /\ UNCHANGED pc
          ELSE Goto(t, L[t].kont) /\ ev' = NoEv /\ UNCHANGED <<L, upOut, own, H>>
  /\ UNCHANGED <<cfg, q, held, buf, cnt>>

(***************************************************************************)
(* the owner thread (0): quiescent observation, then destruction, top of   *)
(* the stack first: ~BatchPageAllocator returns every thread's buffer to   *)
(* its upstream, ~CachedPageAllocator drains the cache                     *)
(***************************************************************************)
MStart(t) ==
  /\ t = 0 /\ pc[0] = "m_start" /\ ThreadsDone
  /\ ev' = [NoEv EXCEPT !.k = "quiesce"]
  /\ SetL(0, [L[0] EXCEPT !.bt = 1]) /\ Goto(0, "m_batch")
  /\ UNCHANGED <<cfg, q, upOut, held, buf, cnt, own, H>>

MBatch(t) ==
  /\ t = 0 /\ pc[0] = "m_batch"
  /\ ev' = NoEv
  /\ LET b == L[0].bt IN
     IF b > T THEN Goto(0, "m_cdtor") /\ UNCHANGED <<L, buf, own, H>>
     ELSE IF cfg.batch > 0 /\ buf[b] # <<>>
     THEN /\ buf' = [buf EXCEPT ![b] = <<>>]
          /\ own' = Move(SetOf(buf[b]), Tran(0))
          /\ Flag(~AllOwned(SetOf(buf[b]), Bf(b)), "SingleOwner")
          /\ SetL(0, StartLower([L[0] EXCEPT !.bt = b + 1], "push", Len(buf[b]), buf[b], "m_batch"))
          /\ Goto(0, LowerPc)
     ELSE SetL(0, [L[0] EXCEPT !.bt = b + 1]) /\ UNCHANGED <<pc, buf, own, H>>
  /\ UNCHANGED <<cfg, q, upOut, held, cnt>>

\* try_pop_n<false,false>(cb, capacity): the consecutive ready slots from the pop index (single thread, one step)
ReadyRun ==
  LET RECURSIVE R(_)
      R(k) == IF k < Cap /\ q.ver[(q.pop + k) % Cap] = PopVer(q.pop + k) THEN R(k + 1) ELSE k
  IN R(0)

MCDtor(t) ==
  /\ t = 0 /\ pc[0] = "m_cdtor"
  /\ IF Cap > 0
     THEN LET k == ReadyRun
              ps == [j \in 1..k |-> q.val[(q.pop + j - 1) % Cap]]
          IN /\ q' = [q EXCEPT !.pop = @ + k,
                               !.ver = [s \in DOMAIN q.ver |-> IF \E j \in 0..k - 1 : (q.pop + j) % Cap = s THEN q.ver[s] + 1 ELSE q.ver[s]]]
             /\ upOut' = upOut \ SetOf(ps)
             /\ own' = Move(SetOf(ps), UP)
             /\ Flag(~AllOwned(SetOf(ps), CACHE) \/ Cardinality(SetOf(ps)) # k \/ ~(SetOf(ps) \subseteq upOut), "SingleOwner")
             /\ ev' = [NoEv EXCEPT !.k = "destroy", !.pages = ps]
     ELSE UNCHANGED <<q, upOut, own, H>> /\ ev' = [NoEv EXCEPT !.k = "destroy"]
  /\ Goto(0, "m_done")
  /\ UNCHANGED <<cfg, L, held, buf, cnt>>

Step(t) ==
  \/ Call(t) \/ ADone(t) \/ ARet(t) \/ DRet(t) \/ BTake(t) \/ BRefilled(t) \/ UCall(t)
  \/ CFaa(t) \/ CChk(t) \/ CNeed(t) \/ CYield(t) \/ RILoad(t) \/ RVLoad(t) \/ RCas(t) \/ RCb(t) \/ RSt(t)
  \/ CCb(t) \/ CSt(t) \/ CRest(t)
  \/ MStart(t) \/ MBatch(t) \/ MCDtor(t)

AllDone == pc[0] = "m_done"

(***************************************************************************)
(* L1 clauses of C17 over the state                                        *)
(***************************************************************************)
HeldSet == UNION {SetOf(held[t]) : t \in Callers}
BufSet == UNION {SetOf(buf[t]) : t \in Callers}
CachedSeq == [j \in 1..(q.push - q.pop) |-> q.val[(q.pop + j - 1) % Cap]]
NHeld == LET RECURSIVE S(_) S(t) == IF t = 0 THEN 0 ELSE Len(held[t]) + S(t - 1) IN S(T)
NBuf == LET RECURSIVE S(_) S(t) == IF t = 0 THEN 0 ELSE Len(buf[t]) + S(t - 1) IN S(T)

\* at most one owner: every transfer found the page where the ghost map says it is ...
SingleOwner == H.bad = ""
\* ... and wherever the threads stand, no page is physically held twice by callers / thread buffers
NoSharing ==
  /\ \A t \in Callers : Cardinality(SetOf(held[t])) = Len(held[t]) /\ Cardinality(SetOf(buf[t])) = Len(buf[t])
  /\ \A t, u \in Callers : t # u => (SetOf(held[t]) \cup SetOf(buf[t])) \cap (SetOf(held[u]) \cup SetOf(buf[u])) = {}
  /\ HeldSet \cap BufSet = {}
  /\ HeldSet \cup BufSet \subseteq upOut

\* quiescent: all callers finished, the owner has not started destroying
Quiescent == ThreadsDone /\ pc[0] = "m_start"
Conservation ==
  Quiescent =>
    /\ q.push >= q.pop /\ q.push - q.pop <= Cap
    /\ Cardinality(upOut) = NHeld + (q.push - q.pop) + NBuf
    /\ Cap > 0 => /\ Cardinality(SetOf(CachedSeq)) = q.push - q.pop
                  /\ SetOf(CachedSeq) \cap (HeldSet \cup BufSet) = {}
                  /\ upOut = HeldSet \cup BufSet \cup SetOf(CachedSeq)
                  /\ \A j \in 0..(q.push - q.pop) - 1 : q.ver[(q.pop + j) % Cap] = PopVer(q.pop + j)
CountingExact == (Quiescent /\ cfg.counting) => cnt = NHeld
DestructorReturnsCache == AllDone => (upOut = HeldSet /\ BufSet = {})

TypeOK ==
  /\ upOut \subseteq PageIds
  /\ \A p \in PageIds : (own[p] = UP) <=> (p \notin upOut)
  /\ cfg.fresh \/ H.next = 1
=============================================================================
