------------------------------ MODULE MC_Box ------------------------------
(* Model-checking instance of Box (DepositBox on the id allocator). *)
EXTENDS Box, MO_Ids

MOf(site) == MO[site]

O(op, n) == [op |-> op, n |-> n]
EM(s) == O("em", s)
TK(s) == O("tk", s)
TR(s) == O("tr", s)
FR(k) == O("fr", k)
NoAfter(p) == [t \in 1..Len(p) |-> <<>>]
NoOwn(p) == [t \in 1..Len(p) |-> <<>>]
Cfg(n, fr, prog, after, nb) == [kind |-> "box", n |-> n, fr |-> fr, own |-> NoOwn(prog), prog |-> prog, after |-> after, nb |-> nb, smod |-> 0]
ADV(k) == O("adv", k)

\* three takers race for one receipt
P_race3 == << <<TK(0)>>, <<TK(0)>>, <<TR(0), FR(0)>> >>
\* slot reuse: the receipt of round 1 (board 0) is taken and finished, the slot is emplaced again (board 1),
\* a stale taker still uses board 0, a fresh one board 1
P_reuse == << <<TK(0), EM(1), TK(1)>>, <<TK(0), TK(1)>>, <<TK(0), TK(1)>> >>
\* two slots: finishing the other slot advances the allocator version between the rounds of slot 0
P_two == << <<TK(1), TK(0), EM(2)>>, <<TK(0), TK(2), EM(3)>>, <<TK(2), TK(0)>> >>
\* take_released / finish_released with an emplace racing the finish
P_rel == << <<TR(0), EM(1), FR(0)>>, <<EM(2), TK(1), TK(0)>> >>
\* set-up slot already taken and finished once (stale receipt on the board), reuse rounds in the run
P_stale == << <<EM(1), TK(1), EM(2)>>, <<TK(0), TK(1), TK(2)>> >>

\* WHAT-IF a slot field of 16 / 8 bits: the receipt of round 0 is honoured, the allocator's version advances by
\* 2^16 - 1 (2^8 - 1), the slot is emplaced again; a second holder of the old receipt races with all of it.
\* StaleNeverMatches FAILS in these what-if models; the counterexample is the behaviour replayed into the real code.
P_wrap(k) == << <<TK(0), ADV(k), EM(1)>>, <<TK(0), TK(0)>> >>
Cfg_wrap16 == { [Cfg(1, <<>>, P_wrap(65535), NoAfter(P_wrap(65535)), 2) EXCEPT !.smod = 65536] }
Cfg_wrap8 == { [Cfg(1, <<>>, P_wrap(255), NoAfter(P_wrap(255)), 2) EXCEPT !.smod = 256] }
\* the real code at the same distances (must hold)
Cfg_far == { Cfg(1, <<>>, P_wrap(k), NoAfter(P_wrap(k)), 2) : k \in {255, 65535} }
\* a take with a STALE receipt has just compared the slot version (and failed) while the legitimate take of the
\* slot's current round is about to compare it: a take that touches the version before it knows whether it owns
\* the item (add / roll back) makes the legitimate one lose here
StaleBeforeLegit == \E s \in Thr, g \in Thr :
                       /\ pc[s] = "t_got" /\ L[s].rok = 0 /\ L[s].bid \in H.taken
                       /\ pc[g] = "t_cas" /\ L[g].bid \notin H.taken /\ L[g].bid.value = L[s].bid.value
NoStaleBeforeLegit == ~StaleBeforeLegit
\* ... and the slot was finished and emplaced again (a plain store of the new round) after the stale take compared
\* the version and before it returned: a roll-back would now land on the new round's version
StaleAcrossEmplace == \E s \in Thr :
                         /\ pc[s] = "t_got" /\ L[s].rok = 0 /\ L[s].bid \in H.taken
                         /\ \E j \in DOMAIN H.emplaced : /\ j.value = L[s].bid.value /\ j \notin H.taken
                                                          /\ LastVal(ms, SVer(j.value)) = j.version /\ L[s].seen < j.version
NoStaleAcrossEmplace == ~StaleAcrossEmplace
P_h1 == << <<EM(1)>>, <<TK(0)>>, <<TK(1)>> >>
P_h2 == << <<EM(1)>>, <<TK(1), EM(2), TK(2)>>, <<TK(0), TK(1)>> >>
Cfg_h1 == { Cfg(1, <<0>>, P_h1, << <<>>, <<1>>, <<1>> >>, 2) }
Cfg_h2 == { Cfg(1, <<0>>, P_h2, << <<>>, <<1>>, <<1>> >>, 3) }
Cfg_quick == Cfg_far \cup Cfg_h1 \cup Cfg_h2 \cup
             { Cfg(1, <<>>, P_race3, NoAfter(P_race3), 1),
               Cfg(1, <<>>, P_reuse, NoAfter(P_reuse), 2),
               Cfg(1, <<0>>, P_stale, NoAfter(P_stale), 3),
               Cfg(1, <<>>, P_rel, NoAfter(P_rel), 3) }
Cfg_thorough == { Cfg(2, <<>>, P_two, NoAfter(P_two), 4) }
Cfg_wm2 == { Cfg(1, <<>>, P_reuse, NoAfter(P_reuse), 2) }
Cfg_wm == { Cfg(1, <<>>, P_rel, NoAfter(P_rel), 3), Cfg(1, <<0>>, P_stale, NoAfter(P_stale), 3) }

Next == \/ \E t \in Thr : BoxStep(t, MOf)
        \/ (AllDone /\ UNCHANGED vars)
Spec == Init /\ [][Next]_vars

\* witness generation (spec -> code): a take about to compare the slot version with a receipt that was
\* already honoured, while the slot carries a later, still open round
StaleWindow == \E t \in Thr : /\ pc[t] = "t_cas"
                              /\ L[t].bid \in H.taken
                              /\ \E j \in DOMAIN H.emplaced : j.value = L[t].bid.value /\ j.version > L[t].bid.version /\ j \notin H.taken
NoStaleWindow == ~StaleWindow
Cfg_w == { Cfg(1, <<>>, P_reuse, NoAfter(P_reuse), 2) }
Cfg_sim == Cfg_quick \cup Cfg_thorough

View == <<cfg, ms, pc, L, H>>
=============================================================================
