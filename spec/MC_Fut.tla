------------------------------ MODULE MC_Fut ------------------------------
(* Model-checking instance of Fut: memory orders from the table MO_Fut (generated *)
(* from the running code by the conformance step; the committed copy documents    *)
(* the current source), client program families as constants.                     *)
EXTENDS Fut, MO_Fut

MOf(site) == MO[site]

O(op, n) == [op |-> op, n |-> n]
FutCfg(prog) == [mode |-> "fut", count |-> 0, spur |-> FALSE, spw |-> 0, slack |-> 0, fx0 |-> 0, prog |-> prog]
FutCfgS(prog) == [mode |-> "fut", count |-> 0, spur |-> TRUE, spw |-> 0, slack |-> 0, fx0 |-> 0, prog |-> prog]
\* futex_wait returns spuriously / with EINTR (once per operation)
FutCfgW(prog) == [mode |-> "fut", count |-> 0, spur |-> FALSE, spw |-> 1, slack |-> 0, fx0 |-> 0, prog |-> prog]
LatchCfg(count, prog) == [mode |-> "latch", count |-> count, spur |-> FALSE, spw |-> 0, slack |-> 0, fx0 |-> 0, prog |-> prog]

HUGE == 100
SV == <<O("sv", 7)>>
\* what one of the other threads may do with its copy of the future (one operation)
Others == {O("get", 0), O("wf", 0), O("wf", -1), O("wf", 1), O("wf", HUGE), O("of", 0), O("th", 0), O("rd", 0)}
Few == {O("get", 0), O("wf", 1), O("of", 0), O("rd", 0)}

\* 1 setter + 2 others: every ordered pair
Cfg_2 == { FutCfg(<<SV, <<a>>, <<b>> >>) : a \in Others, b \in Others }
\* 1 setter + 3 others: the reduced alphabet (threads are symmetric: multisets)
F4 == <<O("get", 0), O("wf", 1), O("of", 0), O("rd", 0)>>
Cfg_3 == { FutCfg(<<SV, <<F4[p[1]]>>, <<F4[p[2]]>>, <<F4[p[3]]>> >>) : p \in {q \in (1..4) \X (1..4) \X (1..4) : q[1] <= q[2] /\ q[2] <= q[3]} }
\* all triples over the full alphabet (thorough)
Cfg_3full == { FutCfg(<<SV, <<a>>, <<b>>, <<c>> >>) : a \in Others, b \in Others, c \in Others }
\* threads that do two things; the setter registering its own callback; no setter at all
Cfg_seq == { FutCfg(<<SV, <<a, b>>, <<c>> >>) : a \in {O("of", 0), O("wf", 1), O("rd", 0)}, b \in Few, c \in {O("of", 0), O("get", 0)} }
       \cup { FutCfg(<< <<O("of", 0), O("sv", 7), O("of", 0)>>, <<a>> >>) : a \in Few }
       \cup { FutCfg(<< <<a>>, <<O("of", 0)>> >>) : a \in {O("wf", 0), O("wf", 1), O("rd", 0)} }
       \cup { FutCfg(<< <<O("sl", 2), O("sv", 7)>>, <<a, b>> >>) : a \in {O("wf", 1), O("wf", 3)}, b \in {O("wf", 1), O("get", 0)} }
\* latch: count c, count_down from one or two threads, one or two observers
LObs == {O("get", 0), O("wf", 1), O("of", 0), O("rd", 0)}
Cfg_latch == { LatchCfg(2, << <<O("cd", 1)>>, <<O("cd", 1)>>, <<a>>, <<O("of", 0)>> >>) : a \in {O("get", 0), O("rd", 0)} }
         \cup { LatchCfg(2, << <<O("cd", 1), O("cd", 1)>>, <<a>> >>) : a \in LObs }
         \cup { LatchCfg(3, << <<O("cd", 2)>>, <<O("cd", 1)>>, <<a>> >>) : a \in LObs }
         \cup { LatchCfg(2, << <<O("cd", 1)>>, <<a>> >>) : a \in LObs \ {O("get", 0)} }
         \cup { LatchCfg(0, << <<a>>, <<b>> >>) : a \in LObs, b \in LObs }
         \cup { LatchCfg(1, << <<O("cd", 1)>>, <<a>> >>) : a \in LObs }

\* ---- quick families (threads are symmetric: unordered pairs)
Q4 == <<O("get", 0), O("wf", 1), O("of", 0), O("rd", 0)>>
Cfg_q2 == { FutCfg(<<SV, <<Q4[i]>>, <<Q4[j]>> >>) : <<i, j>> \in {p \in (1..4) \X (1..4) : p[1] <= p[2]} }
       \cup { FutCfg(<<SV, <<O("th", 0)>>, <<a>> >>) : a \in {O("of", 0), O("get", 0)} }
       \cup { FutCfg(<<SV, <<O("wf", n)>>, <<O("rd", 0)>> >>) : n \in {-1, 0, HUGE} }
Cfg_q3 == { FutCfg(<<SV, <<O("of", 0)>>, <<O("th", 0)>>, <<O("rd", 0)>> >>) }
Cfg_qseq == { FutCfg(<< <<O("of", 0), O("sv", 7), O("of", 0)>>, <<O("get", 0)>> >>),
              FutCfg(<< <<O("sl", 2), O("sv", 7)>>, <<O("wf", 1), O("wf", 3)>> >>),
              FutCfg(<< <<O("wf", 1)>>, <<O("of", 0), O("rd", 0)>> >>),
              FutCfg(<<SV, <<O("of", 0), O("get", 0)>>, <<O("rd", 0), O("of", 0)>> >>) }
Cfg_qlatch == { LatchCfg(2, << <<O("cd", 1)>>, <<O("cd", 1)>>, <<a>> >>) : a \in LObs }
          \cup { LatchCfg(2, << <<O("cd", 1)>>, <<a>> >>) : a \in LObs \ {O("get", 0)} }
          \cup { LatchCfg(0, << <<a, b>> >>) : a \in LObs, b \in {O("of", 0), O("rd", 0)} }
          \cup { LatchCfg(3, << <<O("cd", 2)>>, <<O("cd", 1)>>, <<O("rd", 0), O("of", 0)>> >>) }
\* spurious failure of the weak compare-exchange
Cfg_spur == { FutCfgS(<<SV, <<O("of", 0)>>, <<a>> >>) : a \in {O("of", 0), O("get", 0), O("rd", 0)} }
\* spurious / EINTR returns of futex_wait: wait_for must re-compute the remaining time, get must wait again
Cfg_spw == { FutCfgW(<<SV, <<O("get", 0)>>, <<O("wf", 3)>> >>), FutCfgW(<< <<O("wf", 3)>>, <<O("wf", 1), O("rd", 0)>> >>),
             FutCfgW(<< <<O("sl", 2), O("sv", 7)>>, <<O("wf", 4)>> >>) }
Cfg_sc == Cfg_q2 \cup Cfg_qseq \cup Cfg_qlatch \cup Cfg_spur \cup Cfg_spw
\* REGRESSION family for findings/C08_waiter_counter_overflow.md (fixed by c8a8a14): with a waiter COUNTER in the futex word
\* 2^31 slow-path waits carried into the READY bit; waiters now set a flag, a word just below READY must stay below it
Cfg_overflow == { [mode |-> "fut", count |-> 0, spur |-> FALSE, spw |-> 0, slack |-> 0, fx0 |-> READY - 2, prog |-> << <<O("wf", 0), O("wf", 0), O("wf", 1), O("rd", 0)>> >>],
                  [mode |-> "fut", count |-> 0, spur |-> FALSE, spw |-> 0, slack |-> 0, fx0 |-> READY - 2, prog |-> << <<O("wf", 0), O("rd", 0)>>, <<O("wf", 1), O("of", 0)>> >>] }
\* liveness (tiny)
Cfg_live == { FutCfg(<<SV, <<O("get", 0)>>, <<O("wf", 1)>> >>), FutCfg(<<SV, <<O("of", 0)>>, <<O("get", 0)>> >>),
              FutCfg(<<SV, <<O("get", 0)>>, <<O("get", 0)>> >>), LatchCfg(2, << <<O("cd", 1)>>, <<O("cd", 1)>>, <<O("get", 0)>> >>) }
\* ---- thorough
Cfg_full == Cfg_2 \cup Cfg_q3 \cup Cfg_seq \cup Cfg_latch
\* 4 threads (multisets over the reduced alphabet) + spurious weak-CAS failures with three registrations
Cfg_4 == { c \in Cfg_3 : \E t \in 2..4 : c.prog[t][1].op = "of" } \cup { FutCfgS(<<SV, <<O("of", 0)>>, <<O("of", 0)>>, <<a>> >>) : a \in {O("of", 0), O("get", 0)} }
\* weak memory family (3 threads)
WmOthers == {O("get", 0), O("wf", 1), O("of", 0), O("rd", 0)}
W3 == <<O("get", 0), O("of", 0), O("rd", 0)>>
Cfg_wm == { FutCfg(<<SV, <<W3[i]>>, <<W3[j]>> >>) : <<i, j>> \in {p \in (1..3) \X (1..3) : p[1] <= p[2]} }
       \cup { FutCfg(<<SV, <<O("wf", 1)>>, <<a>> >>) : a \in {O("of", 0), O("get", 0)} }
       \cup { FutCfg(<<SV, <<O("of", 0), O("get", 0)>> >>), FutCfg(<<SV, <<O("get", 0), O("of", 0)>> >>), FutCfg(<<SV, <<O("rd", 0), O("of", 0)>> >>) }
       \cup { LatchCfg(2, << <<O("cd", 1)>>, <<O("cd", 1)>>, <<a>> >>) : a \in {O("get", 0), O("of", 0)} }
Cfg_wm3 == { FutCfg(<<SV, <<O("get", 0)>>, <<O("of", 0)>>, <<O("rd", 0)>> >>), FutCfg(<<SV, <<O("of", 0)>>, <<O("of", 0)>>, <<O("get", 0)>> >>),
             FutCfg(<<SV, <<O("wf", 1)>>, <<O("of", 0)>>, <<O("get", 0)>> >>), LatchCfg(2, << <<O("cd", 1)>>, <<O("cd", 1)>>, <<O("get", 0)>>, <<O("of", 0)>> >>) }

Next == \/ \E t \in Thr : Step(t, MOf) \/ FireMC(t) \/ SpurMC(t)
        \/ (AllDone /\ UNCHANGED vars)
Spec == Init /\ [][Next]_vars
FairSpec == Spec /\ \A t \in 1..4 : WF_vars(t \in Thr /\ (Step(t, MOf) \/ FireMC(t)))   \* (spurious returns are not forced)

\* hide the ghost event from the state identity
View == <<cfg, ms, pc, L, H, nx, now>>

\* with a set_value in a program whose callbacks do not block, everybody finishes
HasSetter == \E t \in Thr : \E i \in 1..Len(cfg.prog[t]) : cfg.prog[t][i].op \in {"sv", "cd"}
Termination == HasSetter => <>[]AllDone
=============================================================================
