------------------------------ MODULE MC_Fut ------------------------------
(* Model-checking instance of Fut: memory orders from the table MO_Fut (generated *)
(* from the running code by the conformance step; the committed copy documents    *)
(* the current source), client program families as constants.                     *)
EXTENDS Fut, MO_Fut

MOf(site) == MO[site]

O(op, n) == [op |-> op, n |-> n]
FutCfg(prog) == [mode |-> "fut", count |-> 0, prog |-> prog]
LatchCfg(count, prog) == [mode |-> "latch", count |-> count, prog |-> prog]

HUGE == 100
SV == <<O("sv", 7)>>
\* what one of the other threads may do with its copy of the future (one operation)
Others == {O("get", 0), O("wf", 0), O("wf", -1), O("wf", 1), O("wf", HUGE), O("of", 0), O("th", 0), O("rd", 0)}
Few == {O("get", 0), O("wf", 1), O("of", 0), O("rd", 0)}

\* 1 setter + 2 others: every ordered pair
Cfg_2 == { FutCfg(<<SV, <<a>>, <<b>> >>) : a \in Others, b \in Others }
\* 1 setter + 3 others: the reduced alphabet (canonical order does not matter: threads are symmetric, all triples are there)
Cfg_3 == { FutCfg(<<SV, <<a>>, <<b>>, <<c>> >>) : a \in Few, b \in Few, c \in Few }
\* all triples over the full alphabet (thorough)
Cfg_3full == { FutCfg(<<SV, <<a>>, <<b>>, <<c>> >>) : a \in Others, b \in Others, c \in Others }
\* threads that do two things; the setter registering its own callback; no setter at all
Cfg_seq == { FutCfg(<<SV, <<a, b>>, <<c>> >>) : a \in {O("of", 0), O("wf", 1), O("rd", 0)}, b \in Few, c \in {O("of", 0), O("get", 0)} }
       \cup { FutCfg(<< <<O("of", 0), O("sv", 7), O("of", 0)>>, <<a>> >>) : a \in Few }
       \cup { FutCfg(<< <<a>>, <<O("of", 0)>> >>) : a \in {O("wf", 0), O("wf", 1), O("rd", 0)} }
       \cup { FutCfg(<< <<O("sl", 2), O("sv", 7)>>, <<a>>, <<b>> >>) : a \in {O("wf", 1), O("wf", 3)}, b \in {O("wf", 1), O("get", 0)} }
\* latch: count c, count_down from one or two threads, one or two observers
LObs == {O("get", 0), O("wf", 1), O("of", 0), O("rd", 0)}
Cfg_latch == { LatchCfg(2, << <<O("cd", 1)>>, <<O("cd", 1)>>, <<a>>, <<b>> >>) : a \in LObs, b \in {O("of", 0), O("rd", 0)} }
         \cup { LatchCfg(2, << <<O("cd", 1), O("cd", 1)>>, <<a>> >>) : a \in LObs }
         \cup { LatchCfg(3, << <<O("cd", 2)>>, <<O("cd", 1)>>, <<a>> >>) : a \in LObs }
         \cup { LatchCfg(2, << <<O("cd", 1)>>, <<a>> >>) : a \in LObs \ {O("get", 0)} }
         \cup { LatchCfg(0, << <<a>>, <<b>> >>) : a \in LObs, b \in LObs }
         \cup { LatchCfg(1, << <<O("cd", 1)>>, <<a>> >>) : a \in LObs }

Cfg_sc == Cfg_2 \cup Cfg_3 \cup Cfg_seq \cup Cfg_latch
\* weak memory family (3 threads)
WmOthers == {O("get", 0), O("wf", 1), O("of", 0), O("rd", 0)}
Cfg_wm == { FutCfg(<<SV, <<a>>, <<b>> >>) : a \in WmOthers, b \in WmOthers }
       \cup { FutCfg(<<SV, <<O("of", 0), O("get", 0)>> >>), FutCfg(<<SV, <<O("get", 0), O("of", 0)>> >>), FutCfg(<<SV, <<O("rd", 0), O("of", 0)>> >>) }
       \cup { LatchCfg(2, << <<O("cd", 1)>>, <<O("cd", 1)>>, <<a>> >>) : a \in WmOthers }
Cfg_wm3 == { FutCfg(<<SV, <<a>>, <<b>>, <<c>> >>) : a \in WmOthers, b \in WmOthers, c \in WmOthers }

Next == \/ \E t \in Thr : Step(t, MOf) \/ FireMC(t)
        \/ (AllDone /\ UNCHANGED vars)
Spec == Init /\ [][Next]_vars
FairSpec == Spec /\ \A t \in 1..4 : WF_vars(t \in Thr /\ (Step(t, MOf) \/ FireMC(t)))

\* hide the ghost event from the state identity
View == <<cfg, ms, pc, L, H, nx, now>>

\* with a set_value in a program whose callbacks do not block, everybody finishes
HasSetter == \E t \in Thr : \E i \in 1..Len(cfg.prog[t]) : cfg.prog[t][i].op = "sv"
Termination == HasSetter => <>[]AllDone
=============================================================================
