------------------------------ MODULE Fut_Mon ------------------------------
(***************************************************************************)
(* L1 specification of Future / Promise / CountDownLatch (property C08) as *)
(* a monitor over the observable events of an execution: call / return of  *)
(* the public operations (with the virtual time at which they happen), the *)
(* begin / end of the user callbacks (which callback, which value it saw), *)
(* the value read through get(), and the quiescent state at the end.  It   *)
(* knows nothing about list heads, futex words or memory orders, so it     *)
(* judges the property statement on executions of ANY implementation of    *)
(* the API, also one that no longer follows the L2 specification Fut.tla.  *)
(*                                                                         *)
(*  CallbackExactlyOnce  every registered callback runs at most once; once *)
(*                       set, exactly once (by the time on_finish / then / *)
(*                       set_value have returned, whichever is later)      *)
(*  CallbackAfterValue   a callback never runs before the value is set and *)
(*                       observes the value                                *)
(*  GetReturnsValue      get() returns only after set and yields the value *)
(*  WaitForTrue          wait_for true only if set                         *)
(*  WaitForFalse         wait_for false only if >= max(0, timeout) elapsed *)
(*  AfterSet             invoked after set_value returned: wait_for true,  *)
(*                       ready true                                        *)
(*  ReadyOnlyIfSet       ready() true only if set                          *)
(*  LatchReadyIffZero    the latch is ready exactly when the count reached *)
(*                       zero                                              *)
(*  ThenResult           the future returned by then() becomes ready with  *)
(*                       the callback's result iff the callback ran        *)
(*  NoLostWakeup         nobody sleeps for ever once the value is set      *)
(***************************************************************************)
EXTENDS Naturals, Integers, Sequences, FiniteSets, TLC, Json, IOUtils

Tr == ndJsonDeserialize(IOEnv.TRACE)

VARIABLES l, mode, count, must,
          setv,               \* the value given to set_value
          svCalled, svDone,   \* set_value invoked / returned
          cdCalled, cdDone,   \* sum of count_down amounts invoked / returned
          cbs, regDone, pre,  \* callbacks registered (call), registration returned, those returned before set_value was invoked
          ran,                \* callbacks that began
          cur,                \* cur[t]: the operation thread t is executing
          bad

mvars == <<l, mode, count, must, setv, svCalled, svDone, cdCalled, cdDone, cbs, regDone, pre, ran, cur, bad>>

None == [op |-> "", n |-> 0, id |-> 0, t0 |-> 0, after |-> FALSE]
Thrs == 1..8
Max0(x) == IF x > 0 THEN x ELSE 0

IsLatch == mode = "latch"
\* the value may be set (the operation that sets it has been invoked) / must be set (it has returned)
CanBeSet == IF IsLatch THEN cdCalled >= count ELSE svCalled
MustBeSet == IF IsLatch THEN cdDone >= count ELSE svDone
Expected == IF IsLatch THEN 0 ELSE setv

Fresh(e) ==
  /\ mode' = e.mode /\ count' = e.count /\ must' = e.must
  /\ setv' = 0 /\ svCalled' = FALSE /\ svDone' = FALSE /\ cdCalled' = 0 /\ cdDone' = 0
  /\ cbs' = {} /\ regDone' = {} /\ pre' = {} /\ ran' = {}
  /\ cur' = [t \in Thrs |-> None]

MInit ==
  /\ l = 2 /\ Tr[1].k = "reset"
  /\ mode = Tr[1].mode /\ count = Tr[1].count /\ must = Tr[1].must
  /\ setv = 0 /\ svCalled = FALSE /\ svDone = FALSE /\ cdCalled = 0 /\ cdDone = 0
  /\ cbs = {} /\ regDone = {} /\ pre = {} /\ ran = {}
  /\ cur = [t \in Thrs |-> None]
  /\ bad = ""
  /\ TLCSet(1, 1)

Flag(b, name) == IF b /\ bad = "" THEN name ELSE bad

MCall(e) ==
  /\ cur' = [cur EXCEPT ![e.t] = [op |-> e.op, n |-> e.n, id |-> e.id, t0 |-> e.now, after |-> MustBeSet]]
  /\ svCalled' = (svCalled \/ e.op = "sv")
  /\ setv' = IF e.op = "sv" THEN e.n ELSE setv
  /\ pre' = IF e.op = "sv" THEN regDone ELSE pre
  /\ cdCalled' = IF e.op = "cd" THEN cdCalled + e.n ELSE cdCalled
  /\ cbs' = IF e.op \in {"of", "th"} THEN cbs \cup {e.id} ELSE cbs
  /\ bad' = Flag(cur[e.t].op # "" \/ (e.op = "sv" /\ svCalled), "Protocol")
  /\ UNCHANGED <<mode, count, must, svDone, cdDone, regDone, ran>>

MRet(e) ==
  LET c == cur[e.t]
      b == CASE e.op = "sv" /\ ~(pre \subseteq ran) -> "CallbackExactlyOnce"
             [] e.op = "wf" /\ e.res = 1 /\ ~CanBeSet -> "WaitForTrue"
             [] e.op = "wf" /\ e.res = 0 /\ c.after -> "AfterSet"
             [] e.op = "wf" /\ e.res = 0 /\ e.now - c.t0 < Max0(c.n) -> "WaitForFalse"
             [] e.op = "rd" /\ e.res = 1 /\ ~CanBeSet -> IF IsLatch THEN "LatchReadyIffZero" ELSE "ReadyOnlyIfSet"
             [] e.op = "rd" /\ e.res = 0 /\ c.after -> IF IsLatch THEN "LatchReadyIffZero" ELSE "AfterSet"
             [] e.op = "get" /\ ~CanBeSet -> "GetReturnsValue"
             [] e.op \in {"of", "th"} /\ c.after /\ e.id \notin ran -> "CallbackExactlyOnce"
             [] c.op # e.op -> "Protocol"
             [] OTHER -> ""
  IN /\ cur' = [cur EXCEPT ![e.t] = None]
     /\ svDone' = (svDone \/ e.op = "sv")
     /\ cdDone' = IF e.op = "cd" THEN cdDone + c.n ELSE cdDone
     /\ regDone' = IF e.op \in {"of", "th"} THEN regDone \cup {e.id} ELSE regDone
     /\ bad' = Flag(b # "", b)
     /\ UNCHANGED <<mode, count, must, setv, svCalled, cdCalled, cbs, pre, ran>>

MCbBegin(e) ==
  /\ ran' = ran \cup {e.id}
  /\ bad' = IF e.id \in ran THEN Flag(TRUE, "CallbackExactlyOnce")
            ELSE IF e.id \notin cbs THEN Flag(TRUE, "Protocol")
            ELSE Flag(~CanBeSet \/ e.v # Expected, "CallbackAfterValue")
  /\ UNCHANGED <<mode, count, must, setv, svCalled, svDone, cdCalled, cdDone, cbs, regDone, pre, cur>>

MValueRead(e) ==
  /\ bad' = Flag(~CanBeSet \/ e.v # Expected, "GetReturnsValue")
  /\ UNCHANGED <<mode, count, must, setv, svCalled, svDone, cdCalled, cdDone, cbs, regDone, pre, ran, cur>>

\* quiescent observation: every operation has returned
ThenOk(x) == (x[2] = 1) = (x[1] \in ran) /\ (x[2] = 1 => x[3] = Expected + 1000)
MFinal(e) ==
  LET b == IF MustBeSet /\ ~(cbs \subseteq ran) THEN "CallbackExactlyOnce"
           ELSE IF (e.ready = 1) # MustBeSet THEN (IF IsLatch THEN "LatchReadyIffZero" ELSE IF e.ready = 1 THEN "ReadyOnlyIfSet" ELSE "AfterSet")
           ELSE IF MustBeSet /\ e.v # Expected THEN "GetReturnsValue"
           ELSE IF \E j \in 1..Len(e.thens) : ~ThenOk(e.thens[j]) THEN "ThenResult"
           ELSE ""
  IN /\ bad' = Flag(b # "", b)
     /\ UNCHANGED <<mode, count, must, setv, svCalled, svDone, cdCalled, cdDone, cbs, regDone, pre, ran, cur>>

MEnd(e) ==
  /\ bad' = IF e.status = "deadlock" /\ must THEN Flag(TRUE, "NoLostWakeup")
            ELSE IF e.status = "budget" THEN Flag(TRUE, "NoLivelock")
            ELSE IF e.status \in {"crash", "hang"} THEN Flag(TRUE, "NoCrash")
            ELSE bad
  /\ UNCHANGED <<mode, count, must, setv, svCalled, svDone, cdCalled, cdDone, cbs, regDone, pre, ran, cur>>

MSkip == UNCHANGED <<mode, count, must, setv, svCalled, svDone, cdCalled, cdDone, cbs, regDone, pre, ran, cur, bad>>

MNext ==
  /\ l <= Len(Tr)
  /\ LET e == Tr[l]
     IN CASE e.k = "reset" -> Fresh(e) /\ bad' = bad
          [] e.k = "call" -> MCall(e)
          [] e.k = "ret" -> MRet(e)
          [] e.k = "cbb" -> MCbBegin(e)
          [] e.k = "vr" -> MValueRead(e)
          [] e.k = "final" -> MFinal(e)
          [] e.k = "end" -> MEnd(e)
          [] OTHER -> MSkip
  /\ l' = l + 1
  /\ TLCSet(1, l')

MSpec == MInit /\ [][MNext]_mvars

\* the verdict names the clause:  bad = "" means every clause held so far
Holds == bad = ""

Post == PrintT(<<"VERIF", TLCGet(1) - 1, Len(Tr), {}>>)
=============================================================================
