---------------------------- MODULE Pages_Trace ----------------------------
(***************************************************************************)
(* Trace validation of the real CachedPageAllocator (optionally under a    *)
(* CountingPageAllocator) against the L2 specification Pages.  Every line  *)
(* of the normalised ndjson trace recorded under vsched -- call / ret at   *)
(* the top of the stack, every atomic operation on the cache queue (ticket *)
(* fetch_add, slot version loads, need_index load, the nested try_ CAS,    *)
(* version stores), yields, the calls arriving at the recording upstream,  *)
(* the quiescent observation and the destructor -- must be explained by    *)
(* exactly the Pages action the thread's pc allows, with the same          *)
(* location, operands, value read, outcome and page ids.  Steps of the     *)
(* model without a counterpart in the trace (callback bodies, control) are *)
(* silent.  The L1 clauses are evaluated on the L2 state along the way.    *)
(* A trace that cannot be explained is SPEC-DRIFT, never a violation.      *)
(***************************************************************************)
EXTENDS Pages, Json, IOUtils

Tr == ndJsonDeserialize(IOEnv.TRACE)

VARIABLES l,        \* next line to explain
          dpages    \* pages the owner thread returned upstream while destroying the allocator

tvars == <<vars, l, dpages>>

CfgOf(e) == [cap |-> e.cap, batch |-> 0, counting |-> e.counting, np |-> e.np, fresh |-> TRUE, prog |-> e.prog]

TInit ==
  /\ l = 2 /\ dpages = <<>>
  /\ Tr[1].k = "reset"
  /\ InitFor(CfgOf(Tr[1]))
  /\ TLCSet(1, 1)

Progress == TLCSet(1, IF TLCGet(1) < l' THEN l' ELSE TLCGet(1))

Matches(m, e) ==
  /\ m.t = e.t /\ m.k = e.k
  /\ CASE e.k = "call" -> m.op = e.op /\ m.n = e.n /\ (e.op = "dealloc" => m.pages = e.pages)
       [] e.k = "ret" -> m.op = e.op /\ m.n = e.n /\ (e.op = "alloc" => m.pages = e.pages)
       [] e.k = "faa" -> m.loc = e.loc /\ m.v = e.v /\ m.a = e.a
       [] e.k = "load" -> m.loc = e.loc /\ m.i = e.i /\ m.v = e.v
       [] e.k = "cas" -> m.loc = e.loc /\ m.v = e.v /\ m.a = e.a /\ m.ok = e.ok
       [] e.k = "store" -> m.loc = e.loc /\ m.i = e.i /\ m.v = e.v
       [] e.k = "up" -> m.op = e.op /\ m.pages = e.pages
       [] e.k = "yield" -> TRUE
       [] OTHER -> FALSE

\* a line of a caller thread
Consume ==
  /\ l <= Len(Tr)
  /\ LET e == Tr[l]
     IN /\ e.t >= 1 /\ e.k \in {"call", "ret", "faa", "load", "cas", "store", "up", "yield"}
        /\ Step(e.t)
        /\ Matches(ev', e)
  /\ l' = l + 1 /\ UNCHANGED dpages

\* steps of the model nothing in the trace corresponds to
Silent ==
  /\ l <= Len(Tr)
  /\ \E t \in Thr : Step(t) /\ ev'.k = ""
  /\ UNCHANGED <<l, dpages>>

\* the owner's quiescent observation: free_page_num() and the counter are what the L2 state says
Quiesce ==
  /\ l <= Len(Tr) /\ Tr[l].k = "quiesce"
  /\ MStart(0)
  /\ Tr[l].free = q.push - q.pop
  /\ (Tr[l].count >= 0 => Tr[l].count = cnt)
  /\ l' = l + 1 /\ UNCHANGED dpages

\* destruction: the pages the destructor hands to upstream are collected and compared with the model's drain
Collect ==
  /\ l <= Len(Tr) /\ Tr[l].k = "up" /\ Tr[l].t = 0 /\ Tr[l].op = "dealloc"
  /\ dpages' = dpages \o Tr[l].pages
  /\ l' = l + 1 /\ UNCHANGED vars

Destroyed ==
  /\ l <= Len(Tr) /\ Tr[l].k = "destroy" /\ Tr[l].what = "c" /\ Tr[l].ph = "end"
  /\ MCDtor(0)
  /\ ev'.pages = dpages
  /\ l' = l + 1 /\ UNCHANGED dpages

Skip ==
  /\ l <= Len(Tr)
  /\ \/ Tr[l].k = "destroy" /\ ~(Tr[l].what = "c" /\ Tr[l].ph = "end")
     \/ Tr[l].k = "end"
     \/ Tr[l].k = "final" /\ AllDone /\ {Tr[l].pages[j] : j \in 1..Len(Tr[l].pages)} = HeldSet
  /\ l' = l + 1 /\ UNCHANGED <<vars, dpages>>

\* next execution of the file
Reset ==
  /\ l <= Len(Tr) /\ Tr[l].k = "reset"
  /\ LET c == CfgOf(Tr[l]) IN
     /\ cfg' = c
     /\ q' = [push |-> 0, pop |-> 0, ver |-> [s \in 0..c.cap - 1 |-> 0], val |-> [s \in 0..c.cap - 1 |-> 0]]
     /\ pc' = [t \in 0..Len(c.prog) |-> IF t = 0 THEN "m_start" ELSE "idle"]
     /\ L' = [t \in 0..Len(c.prog) |-> L0]
     /\ upOut' = {} /\ cnt' = 0
     /\ held' = [t \in 1..Len(c.prog) |-> <<>>]
     /\ buf' = [t \in 1..Len(c.prog) |-> <<>>]
     /\ own' = [p \in 1..c.np |-> UP]
     /\ H' = [bad |-> "", next |-> 1]
     /\ ev' = NoEv
  /\ l' = l + 1 /\ dpages' = <<>>

TNext == (Consume \/ Silent \/ Quiesce \/ Collect \/ Destroyed \/ Skip \/ Reset) /\ Progress

TSpec == TInit /\ [][TNext]_tvars

\* L1 clauses of C17 evaluated on the L2 state of the real execution
TSingleOwner == SingleOwner
TNoSharing == NoSharing
TConservation == Conservation
TCountingExact == CountingExact
TDestructorReturnsCache == DestructorReturnsCache

Post == PrintT(<<"VERIF", TLCGet(1) - 1, Len(Tr), {}>>)
=============================================================================
