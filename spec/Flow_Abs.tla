------------------------------ MODULE Flow_Abs ------------------------------
(***************************************************************************)
(* L1 specification of babylon::anyflow (property C05): a SEQUENTIAL,      *)
(* DEMAND-DRIVEN interpreter of a dataflow graph, as pure operators.       *)
(*                                                                         *)
(*   G = [nd |-> number of data,                                           *)
(*        deps |-> << dependencies of vertex 1, ... >>]                    *)
(*       dependency = [t |-> target data, c |-> condition data or 0,       *)
(*                     ev |-> value of the condition that establishes it   *)
(*                            (on = TRUE, unless = FALSE),                 *)
(*                     ess |-> essential]                                  *)
(*       vertex v emits data v (single producer); data above the vertex    *)
(*       count are inputs.  The graph is acyclic: the operators recurse    *)
(*       along dependencies.                                               *)
(*   R = one run:  [tg |-> <<targets>>, ps |-> <<data published before     *)
(*        the run>>, ij |-> data an external thread publishes concurrently *)
(*        (0: none), kd |-> kind of the value of each data "T" truthy /    *)
(*        "F" falsy / "E" empty (producer publishes nothing),              *)
(*        fl |-> <<vertices whose processor reports an error>>]            *)
(*   pi = the injected data was published by the injector (TRUE) or by     *)
(*        its producer (FALSE); a data is published once, so every         *)
(*        consumer sees the same choice.                                   *)
(*                                                                         *)
(* Values are uninterpreted terms, written as strings:                     *)
(*   "p4" preset, "j2" injected, "f3(a,b)" result of processor 3 on the    *)
(*   inputs it is given, "_" empty / dependency not established,           *)
(*   "!" never published (no producer, or the producer failed).            *)
(***************************************************************************)
EXTENDS Naturals, Integers, Sequences, FiniteSets, TLC

SeqSet(s) == {s[i] : i \in DOMAIN s}
NV(G) == Len(G.deps)
Prod(G, d) == IF d <= NV(G) THEN d ELSE 0
NoVal(x) == x \in {"_", "!"}

RECURSIVE JoinArgs(_, _)
JoinArgs(a, i) == IF i > Len(a) THEN "" ELSE IF i = Len(a) THEN a[i] ELSE a[i] \o "," \o JoinArgs(a, i + 1)

RECURSIVE ValD(_, _, _, _)
\* the value of data d converted to bool (what a condition sees): empty counts as false
Truthy(G, R, pi, d) == ~NoVal(ValD(G, R, pi, d)) /\ R.kd[d] = "T"
\* the dependency is established: no condition, or the condition has the establishing value
HoldsD(G, R, pi, dep) == dep.c = 0 \/ (Truthy(G, R, pi, dep.c) = dep.ev)
\* what the processor sees through the dependency
InputOf(G, R, pi, dep) ==
  IF HoldsD(G, R, pi, dep) /\ ~NoVal(ValD(G, R, pi, dep.t)) THEN ValD(G, R, pi, dep.t) ELSE "_"
\* an essential dependency is not established or its target is empty: the vertex is skipped, its data published empty
EssFail(G, R, pi, v) == \E i \in DOMAIN G.deps[v] : G.deps[v][i].ess /\ InputOf(G, R, pi, G.deps[v][i]) = "_"

ValD(G, R, pi, d) ==
  IF d \in SeqSet(R.ps) THEN (IF R.kd[d] = "E" THEN "_" ELSE "p" \o ToString(d))
  ELSE IF d = R.ij /\ pi THEN "j" \o ToString(d)
  ELSE IF Prod(G, d) = 0 THEN "!"
  ELSE IF EssFail(G, R, pi, d) THEN "_"
  ELSE IF d \in SeqSet(R.fl) THEN "!"
  ELSE IF R.kd[d] = "E" THEN "_"
  ELSE "f" \o ToString(d) \o "(" \o JoinArgs([i \in DOMAIN G.deps[d] |-> InputOf(G, R, pi, G.deps[d][i])], 1) \o ")"

(* the least set of vertices / data demanded by d: every condition, and the target of every established dependency *)
RECURSIVE NeedV(_, _, _, _)
NeedVDep(G, R, pi, dep) ==
  (IF dep.c # 0 THEN NeedV(G, R, pi, dep.c) ELSE {}) \cup (IF HoldsD(G, R, pi, dep) THEN NeedV(G, R, pi, dep.t) ELSE {})
NeedV(G, R, pi, d) ==
  IF d \in SeqSet(R.ps) \/ Prod(G, d) = 0 THEN {}
  ELSE {d} \cup UNION {NeedVDep(G, R, pi, G.deps[d][i]) : i \in DOMAIN G.deps[d]}

RECURSIVE NeedD(_, _, _, _)
NeedDDep(G, R, pi, dep) ==
  (IF dep.c # 0 THEN NeedD(G, R, pi, dep.c) ELSE {}) \cup (IF HoldsD(G, R, pi, dep) THEN NeedD(G, R, pi, dep.t) ELSE {})
NeedD(G, R, pi, d) ==
  IF d \in SeqSet(R.ps) \/ Prod(G, d) = 0 THEN {d}
  ELSE {d} \cup UNION {NeedDDep(G, R, pi, G.deps[d][i]) : i \in DOMAIN G.deps[d]}

\* vertices whose dependencies are activated for the targets
NeededV(G, R, pi) == UNION {NeedV(G, R, pi, d) : d \in SeqSet(R.tg)}
NeededD(G, R, pi) == UNION {NeedD(G, R, pi, d) : d \in SeqSet(R.tg)}
\* vertices whose processor runs
RunSet(G, R, pi) == {v \in NeededV(G, R, pi) : ~EssFail(G, R, pi, v)}
\* the run may report an error: a demanded input has no producer and was not published before the run
\* (an injected one may come too late), or a processor that has to run reports one
ErrOK(G, R, pi) ==
  \/ \E d \in NeededD(G, R, pi) : Prod(G, d) = 0 /\ d \notin SeqSet(R.ps)
  \/ \E v \in RunSet(G, R, pi) : v \in SeqSet(R.fl)
\* upper bounds that do not depend on who wins the publication of the injected data
RunSetAny(G, R) == RunSet(G, R, TRUE) \cup RunSet(G, R, FALSE)
ErrOKAny(G, R) == ErrOK(G, R, TRUE) \/ ErrOK(G, R, FALSE)
=============================================================================
