----------------------------- MODULE MC_Pages -----------------------------
(* Model-checking instance of Pages: configuration families as constants.   *)
(* Bounds of DESIGN.md C17: cache capacity in {1,2,4}, batch in {1,2,3},    *)
(* T <= 3, <= 3 operations per thread.                                      *)
EXTENDS Pages

A(n) == [op |-> "a", n |-> n]
D(n) == [op |-> "d", n |-> n]
Cfg(cap, batch, counting, np, prog) == [cap |-> cap, batch |-> batch, counting |-> counting, np |-> np, fresh |-> FALSE, prog |-> prog]

\* two threads on the cached allocator: compensating paths on an empty / exactly full cache, spill beyond capacity
P2 == { << <<A(2), D(2)>>, <<A(1), D(1)>> >>,
        << <<A(1), D(1), A(1)>>, <<A(1), D(1)>> >>,
        << <<A(3), D(2), D(1)>>, <<A(1), D(1), A(2)>> >>,
        << <<A(2), D(1), D(1)>>, <<A(2), D(2)>> >> }
Cfg_c2_quick == { Cfg(cap, 0, FALSE, 8, p) : cap \in {1, 2}, p \in P2 }
Cfg_c2 == { Cfg(cap, 0, FALSE, 8, p) : cap \in {1, 2, 4}, p \in P2 }
\* three threads
P3 == { << <<A(1), D(1)>>, <<A(1), D(1)>>, <<A(1), D(1)>> >>,
        << <<A(2), D(2)>>, <<A(1), D(1)>>, <<A(1), D(1)>> >>,
        << <<A(2), D(1), D(1)>>, <<A(1), D(1)>>, <<A(2), D(2)>> >> }
Cfg_c3_quick == { Cfg(1, 0, FALSE, 6, << <<A(1), D(1)>>, <<A(1), D(1)>>, <<A(1), D(1)>> >>) }
Cfg_c3 == { Cfg(cap, 0, FALSE, 6, << <<A(1), D(1)>>, <<A(1), D(1)>>, <<A(1), D(1)>> >>) : cap \in {1, 2} }   \* ~0.9M states each
\* batch allocator on the cache, on upstream; counting on top
PB == { << <<A(1), A(1), D(2)>>, <<A(2), D(1)>> >>,
        << <<A(3), D(3)>>, <<A(1), D(1), A(1)>> >> }
Cfg_b_quick == { Cfg(cap, b, TRUE, 12, p) : cap \in {0, 1}, b \in {2}, p \in PB }
Cfg_b == { Cfg(cap, b, TRUE, 14, << <<A(1), A(1), D(2)>>, <<A(2), D(1)>> >>) : cap \in {0, 1, 2}, b \in {1, 2, 3} }
        \cup { Cfg(cap, 2, TRUE, 14, << <<A(3), D(3)>>, <<A(1), D(1), A(1)>> >>) : cap \in {0, 1, 4} }
\* quick tier: one small configuration per mechanism (compensating paths at capacity 1 and 2, batch on cache / on upstream + counting)
Cfg_quick == { Cfg(1, 0, FALSE, 6, << <<A(2), D(2)>>, <<A(1), D(1)>> >>),
               Cfg(2, 0, FALSE, 6, << <<A(1), D(1), A(1)>>, <<A(1), D(1)>> >>),
               Cfg(1, 2, TRUE, 10, << <<A(1), A(1), D(2)>>, <<A(2), D(1)>> >>),
               Cfg(0, 2, TRUE, 10, << <<A(1), A(1), D(2)>>, <<A(2), D(1)>> >>) }
\* liveness (every call returns, the owner gets to destroy) under weak fairness
Cfg_live == { Cfg(1, 0, FALSE, 6, << <<A(2), D(2)>>, <<A(1), D(1)>> >>), Cfg(2, 2, TRUE, 10, << <<A(1), D(1)>>, <<A(2), D(2)>> >>) }

Next == \/ \E t \in Thr : Step(t)
        \/ (AllDone /\ UNCHANGED vars)
Spec == Init /\ [][Next]_vars
FairSpec == Spec /\ \A t \in 0..3 : WF_vars(t \in Thr /\ Step(t))

\* hide the ghost event from the state identity
View == <<cfg, q, pc, L, upOut, held, buf, cnt, own, H>>

Termination == <>[]AllDone
=============================================================================
