------------------------------- MODULE HSet -------------------------------
(***************************************************************************)
(* ConcurrentTransientHashSet / ConcurrentTransientHashMap used from ONE   *)
(* thread (property C18).  Sequential component: L1 and L2 live in one     *)
(* state machine.                                                          *)
(*                                                                         *)
(*  L1  ref[i]   the reference container of the property statement: a map  *)
(*               key -> value with first-insert-wins values (a set is a    *)
(*               map whose values are all 0).                              *)
(*  L2-lite      ch[i] the chain of tables starting at the embedded head:  *)
(*               <<[cap, keys, ph]>>, ph = the both-empty-and-full         *)
(*               placeholder of a default-constructed container;           *)
(*               st[i] the values stored next to the keys.                 *)
(*               Enough to predict when a chained table appears, what      *)
(*               clear / reserve / rehash / copy rebuild, what size() and  *)
(*               an iteration deliver - and therefore to steer TLC into    *)
(*               "default-constructed head + >= 1 / >= 2 chained tables".  *)
(*                                                                         *)
(* What the public API returns is a function of the L2 state (SizeRetX,    *)
(* IterKeysX, AllKeys, st); the clauses of C18 say that these equal what   *)
(* the reference container ref says.  AsRead selects how size() and the    *)
(* cross-table iteration are computed: FALSE = as the property needs them  *)
(* (placeholder head holds nothing; iteration walks every table), TRUE =   *)
(* literally as transient_hash_table.hpp of the pinned commit is written   *)
(* (total_size starts with head.bucket_count(); begin() hands out          *)
(* {nullptr, iter} for a hit in a chained table).                          *)
(***************************************************************************)
EXTENDS Naturals, Integers, Sequences, FiniteSets, TLC

CONSTANTS Cons,     \* container ids
          AsRead    \* BOOLEAN, see above

VARIABLES ref,      \* L1: ref[i] = [key -> value]
          ch,       \* L2-lite: ch[i] = sequence of tables
          st,       \* L2-lite: st[i] = [stored key -> stored value]
          mf,       \* mf[i]: container i is in a moved-from (unspecified) state: nothing is claimed about it
          ev        \* ghost: the operation just performed, as a script token

vars == <<ref, ch, st, mf, ev>>

---------------------------------------------------------------------------
Max(a, b) == IF a >= b THEN a ELSE b
RECURSIVE Pow2From(_, _)
Pow2From(p, n) == IF p >= n THEN p ELSE Pow2From(2 * p, n)
BitCeil(n) == Pow2From(1, n)          \* absl::bit_ceil
TabCap(n) == Pow2From(16, n)          \* construct_with_bucket: bit_ceil(max(n, Group::SIZE))
T(x) == ToString(x)

EmptyMap == [k \in {} |-> 0]
\* first insert wins
Put(m, k, v) == IF k \in DOMAIN m THEN m ELSE [x \in DOMAIN m \cup {k} |-> IF x = k THEN v ELSE m[x]]
PutRange(m, lo, n, v) == [x \in DOMAIN m \cup (lo..(lo + n - 1)) |-> IF x \in DOMAIN m THEN m[x] ELSE v]
Restrict(m, S) == [k \in DOMAIN m \cap S |-> m[k]]

Tab(cap, ks, ph) == [cap |-> cap, keys |-> ks, ph |-> ph]
Placeholder == << Tab(16, {}, TRUE) >>
Single(n, ks) == << Tab(TabCap(n), ks, FALSE) >>
Cnt(t) == Cardinality(t.keys)
HasRoom(t) == ~t.ph /\ Cnt(t) < t.cap
AllKeys(c) == UNION {c[j].keys : j \in 1..Len(c)}

\* emplace of a set N of new keys in ascending order: every key goes to the first table that still has
\* room; when every table is full (or the placeholder) a table twice as large as the last one is chained.
\* (closed form over the tables instead of a recursion over the keys: the key of rank r among N lands in the
\* table whose cumulative room interval contains r)
Room(t) == IF t.ph THEN 0 ELSE t.cap - Cnt(t)
RECURSIVE RoomUpTo(_, _)
RoomUpTo(c, j) == IF j = 0 THEN 0 ELSE RoomUpTo(c, j - 1) + Room(c[j])
RECURSIVE Extend(_, _)
Extend(c, need) == IF RoomUpTo(c, Len(c)) >= need THEN c ELSE Extend(Append(c, Tab(2 * c[Len(c)].cap, {}, FALSE)), need)
Fill(c, N) ==
  IF N = {} THEN c
  ELSE LET e == Extend(c, Cardinality(N))
           rank == [k \in N |-> Cardinality({x \in N : x < k})]
       IN [j \in 1..Len(e) |-> [e[j] EXCEPT !.keys = @ \cup {k \in N : rank[k] >= RoomUpTo(e, j - 1) /\ rank[k] < RoomUpTo(e, j)}]]
ChainAdd(c, k) == Fill(c, {k} \ AllKeys(c))
ChainAddRange(c, lo, n) == Fill(c, (lo..(lo + n - 1)) \ AllKeys(c))

\* size(): one table -> its counter; otherwise bucket counts of all tables but the last + counter of the last
RECURSIVE FullSum(_, _, _)
FullSum(c, j, asread) == IF j = 0 THEN 0 ELSE FullSum(c, j - 1, asread) + (IF c[j].ph /\ ~asread THEN 0 ELSE c[j].cap)
SizeRetX(c, asread) == IF Len(c) = 1 THEN Cnt(c[1]) ELSE FullSum(c, Len(c) - 1, asread) + Cnt(c[Len(c)])
\* keys delivered by begin() .. end()
IterKeysX(c, asread) == IF asread /\ c[1].ph /\ Len(c) >= 2 THEN c[2].keys ELSE AllKeys(c)
SizeRet(i) == SizeRetX(ch[i], AsRead)
IterKeys(i) == IterKeysX(ch[i], AsRead)

---------------------------------------------------------------------------
(* Actions.  `s` is the value size() hands to the code that rebuilds        *)
(* (clear / reserve / rehash / copy use size() for the new capacity), `K`   *)
(* the keys the iteration over the source delivers to the rebuild;          *)
(* resync = TRUE additionally restricts the reference to K (used only by    *)
(* trace validation to keep following the real object after a known,        *)
(* already recorded loss).                                                  *)
Init ==
  /\ ref = [i \in Cons |-> EmptyMap]
  /\ st = [i \in Cons |-> EmptyMap]
  /\ ch = [i \in Cons |-> Placeholder]
  /\ mf = [i \in Cons |-> FALSE]
  /\ ev = ""

Construct(i, kind, n) ==
  /\ ref' = [ref EXCEPT ![i] = EmptyMap]
  /\ st' = [st EXCEPT ![i] = EmptyMap]
  /\ ch' = [ch EXCEPT ![i] = IF kind = "D" THEN Placeholder ELSE Single(n, {})]
  /\ mf' = [mf EXCEPT ![i] = FALSE]
  /\ ev' = IF kind = "D" THEN "D " \o T(i) ELSE "N " \o T(i) \o " " \o T(n)

Emplace(i, k, v) ==
  /\ ~mf[i]
  /\ ref' = [ref EXCEPT ![i] = Put(@, k, v)]
  /\ st' = [st EXCEPT ![i] = Put(@, k, v)]
  /\ ch' = [ch EXCEPT ![i] = ChainAdd(@, k)]
  /\ ev' = "E " \o T(i) \o " " \o T(k) \o " " \o T(v)
  /\ UNCHANGED mf

\* macro step: emplace lo, lo+1, .. lo+n-1 (ascending), all with value v
EmplaceMany(i, lo, n, v) ==
  /\ ~mf[i]
  /\ ref' = [ref EXCEPT ![i] = PutRange(@, lo, n, v)]
  /\ st' = [st EXCEPT ![i] = PutRange(@, lo, n, v)]
  /\ ch' = [ch EXCEPT ![i] = ChainAddRange(@, lo, n)]
  /\ ev' = "M " \o T(i) \o " " \o T(lo) \o " " \o T(n) \o " " \o T(v)
  /\ UNCHANGED mf

Find(i, k) == ~mf[i] /\ ev' = "F " \o T(i) \o " " \o T(k) /\ UNCHANGED <<ref, ch, st, mf>>
Iterate(i) == ~mf[i] /\ ev' = "I " \o T(i) /\ UNCHANGED <<ref, ch, st, mf>>
Size(i) == ~mf[i] /\ ev' = "Z " \o T(i) /\ UNCHANGED <<ref, ch, st, mf>>

Clear(i, s) ==
  /\ ref' = [ref EXCEPT ![i] = EmptyMap]
  /\ st' = [st EXCEPT ![i] = EmptyMap]
  /\ ch' = [ch EXCEPT ![i] = IF Len(@) = 1
                             THEN (IF @[1].ph THEN Single(16, {}) ELSE << Tab(@[1].cap, {}, FALSE) >>)
                             ELSE Single(s, {})]
  /\ mf' = [mf EXCEPT ![i] = FALSE]
  /\ ev' = "C " \o T(i)

Rebuilt(i, cap, K, resync) ==
  /\ ch' = [ch EXCEPT ![i] = Single(cap, K)]
  /\ st' = [st EXCEPT ![i] = Restrict(@, K)]
  /\ ref' = [ref EXCEPT ![i] = IF resync THEN Restrict(@, K) ELSE @]

Reserve(i, n, s, K, resync) ==
  /\ ~mf[i]
  /\ LET c == ch[i]
     IN IF Len(c) = 1
        THEN /\ ch' = [ch EXCEPT ![i] = IF c[1].ph THEN Single(n, {}) ELSE IF n > c[1].cap THEN Single(n, c[1].keys) ELSE c]
             /\ UNCHANGED <<ref, st>>
        ELSE Rebuilt(i, Max(s, n), K, resync)
  /\ ev' = "R " \o T(i) \o " " \o T(n)
  /\ UNCHANGED mf

Rehash(i, n, s, K, resync) ==
  /\ ~mf[i]
  /\ LET c == ch[i]
     IN IF Len(c) = 1
        THEN /\ ch' = [ch EXCEPT ![i] = IF c[1].ph THEN Single(n, {})
                                        ELSE IF BitCeil(n) = c[1].cap THEN c
                                        ELSE Single(Max(BitCeil(n), Cnt(c[1])), c[1].keys)]
             /\ UNCHANGED <<ref, st>>
        ELSE Rebuilt(i, Max(s, n), K, resync)
  /\ ev' = "H " \o T(i) \o " " \o T(n)
  /\ UNCHANGED mf

\* copy construction / copy assignment  d = src
\* d = src is the self copy assignment  c = c : contents unchanged (the chain is rebuilt like for any copy)
Copy(d, src, s, K, resync) ==
  /\ ~mf[src]
  /\ ch' = [ch EXCEPT ![d] = Single(s, K)]
  /\ st' = [st EXCEPT ![d] = Restrict(st[src], K)]
  /\ ref' = [ref EXCEPT ![d] = IF resync THEN Restrict(ref[src], K) ELSE ref[src]]
  /\ mf' = [mf EXCEPT ![d] = FALSE]
  /\ ev' = "Y " \o T(d) \o " " \o T(src)

\* d = std::move(src): implemented as swap; the source is afterwards "valid but unspecified"
MoveAssign(d, src) ==
  /\ ~mf[src]
  /\ IF d = src
     THEN \* self move assignment: implemented as swap with itself; "valid but unspecified" -> nothing is claimed afterwards
          /\ mf' = [mf EXCEPT ![d] = TRUE]
          /\ UNCHANGED <<ch, st, ref>>
     ELSE /\ ch' = [ch EXCEPT ![d] = ch[src], ![src] = ch[d]]
          /\ st' = [st EXCEPT ![d] = st[src], ![src] = st[d]]
          /\ ref' = [ref EXCEPT ![d] = ref[src], ![src] = ref[d]]
          /\ mf' = [mf EXCEPT ![d] = FALSE, ![src] = TRUE]
  /\ ev' = "V " \o T(d) \o " " \o T(src)

\* destroy d, construct it from std::move(src)
MoveCtor(d, src) ==
  /\ d # src /\ ~mf[src]
  /\ ch' = [ch EXCEPT ![d] = ch[src], ![src] = Placeholder]
  /\ st' = [st EXCEPT ![d] = st[src], ![src] = EmptyMap]
  /\ ref' = [ref EXCEPT ![d] = ref[src], ![src] = EmptyMap]
  /\ mf' = [mf EXCEPT ![d] = FALSE, ![src] = TRUE]
  /\ ev' = "W " \o T(d) \o " " \o T(src)

\* a = b is the self swap: everything unchanged
Swap(a, b) ==
  /\ ch' = [ch EXCEPT ![a] = ch[b], ![b] = ch[a]]
  /\ st' = [st EXCEPT ![a] = st[b], ![b] = st[a]]
  /\ ref' = [ref EXCEPT ![a] = ref[b], ![b] = ref[a]]
  /\ mf' = [mf EXCEPT ![a] = mf[b], ![b] = mf[a]]
  /\ ev' = "S " \o T(a) \o " " \o T(b)

---------------------------------------------------------------------------
(* Well-formedness of the L2-lite state *)
ChainWF ==
  \A i \in Cons :
    LET c == ch[i]
    IN /\ Len(c) >= 1
       /\ \A j \in 1..Len(c) :
            /\ c[j].cap = TabCap(c[j].cap)
            /\ Cnt(c[j]) <= c[j].cap
            /\ c[j].ph => (j = 1 /\ c[j].keys = {} /\ c[j].cap = 16)
            /\ j < Len(c) => (c[j].ph \/ Cnt(c[j]) = c[j].cap)     \* a table gets a successor only when it is full
            /\ j > 1 => (c[j].cap = 2 * c[j - 1].cap /\ c[j].keys # {})
       /\ \A j \in 1..Len(c), k \in 1..Len(c) : j # k => c[j].keys \cap c[k].keys = {}
       /\ AllKeys(c) = DOMAIN st[i]

(* The clauses of C18: what the container answers (left) is what the reference says (right). *)
SizeIsCard == \A i \in Cons : ~mf[i] => SizeRet(i) = Cardinality(DOMAIN ref[i])
IterateVisitsEachOnce == \A i \in Cons : ~mf[i] => IterKeys(i) = DOMAIN ref[i]     \* "once": tables are disjoint (ChainWF)
FindExactlyKeys == \A i \in Cons : ~mf[i] => AllKeys(ch[i]) = DOMAIN ref[i]
MappedValueIsFirstInserted == \A i \in Cons : ~mf[i] => \A k \in DOMAIN st[i] \cap DOMAIN ref[i] : st[i][k] = ref[i][k]

(* coverage predicates used to steer *)
DefaultChained(i, n) == ch[i][1].ph /\ Len(ch[i]) >= n + 1
=============================================================================
