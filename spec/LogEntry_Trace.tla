--------------------------- MODULE LogEntry_Trace ---------------------------
(***************************************************************************)
(* Trace validation of the REAL LogStreamBuffer / LogEntry (driver         *)
(* scenario "entry": recording PageAllocator, page ids = order of          *)
(* allocation) against LogEntry.tla.  Sequential component: L2 and L1      *)
(* coincide, but they are JUDGED SEPARATELY on every line:                 *)
(*                                                                         *)
(*  conformance  the model performs the same operation; pages allocated    *)
(*               (ids, order), size field, abstract size, scatter list and *)
(*               released pages must be EQUAL to the model's.  A mismatch  *)
(*               is SPEC-DRIFT (recorded in `drifts`, never a violation);  *)
(*               the model is then frozen for the rest of that execution.  *)
(*  L1 clauses   evaluated on what the code was OBSERVED to do, without    *)
(*               the model: BytesRoundTrip, EachPageListedOnce,            *)
(*               NoForeignPage, PagesConserved, NoOverrun, NoCrash.        *)
(*               `bad` names the first clause that failed (-> VIOLATION).  *)
(*                                                                         *)
(* The spec never gets stuck on a well-formed trace.                       *)
(***************************************************************************)
EXTENDS LogEntry, Json, IOUtils

Tr == ndJsonDeserialize(IOEnv.TRACE)

VARIABLES l,       \* next line
          conf,    \* model still in step with the code in this execution
          drifts,  \* lines at which an execution left the model
          oal,     \* observed: ids of the pages allocated for the current entry (sequence, in order)
          own,     \* observed: bytes streamed into the current entry
          oend,    \* observed: entry.size after end()
          bad      \* "" or the first L1 clause violated

tvars == <<vars, l, conf, drifts, oal, own, oend, bad>>

Flag(b, name) == IF b /\ bad = "" THEN name ELSE bad
SeqSet(q) == {q[i] : i \in 1..Len(q)}
NoDup(q) == Cardinality(SeqSet(q)) = Len(q)
SumLen(segs) == FoldLeft(LAMBDA a, g : a + g[3], 0, segs)
AsModel(segs) == [i \in 1..Len(segs) |-> Seg(segs[i][1], segs[i][3])]

Fresh(e) ==
  /\ P' = e.P /\ st' = "idle" /\ s' = S0(0) /\ pool' = {} /\ ev' = NoEv
  /\ conf' = (e.ipc = IPC) /\ oal' = << >> /\ own' = 0 /\ oend' = 0

TInit ==
  /\ l = 2 /\ Tr[1].k = "reset"
  /\ P = Tr[1].P /\ st = "idle" /\ s = S0(0) /\ pool = {} /\ ev = NoEv
  /\ conf = (Tr[1].ipc = IPC) /\ drifts = {} /\ oal = << >> /\ own = 0 /\ oend = 0 /\ bad = ""
  /\ TLCSet(1, 1) /\ TLCSet(2, {})

\* the model follows (ok) or the execution is marked as drifted and the model frozen
Follow(ok, st2, s2, pool2) ==
  IF conf /\ ok
  THEN st' = st2 /\ s' = s2 /\ pool' = pool2 /\ conf' = TRUE /\ drifts' = drifts
  ELSE /\ UNCHANGED <<st, s, pool>> /\ conf' = FALSE
       /\ drifts' = IF conf THEN drifts \cup {<<"drift", ToString(l)>>} ELSE drifts

TBegin(e) ==
  /\ Follow(st \in {"idle", "released"}, "open", S0(s.nalloc), {})
  /\ oal' = << >> /\ own' = 0 /\ oend' = 0
  /\ bad' = bad

TWrite(e) ==
  LET s2 == Put([s EXCEPT !.allocs = << >>], e.n, P)
  IN /\ Follow(st = "open" /\ s2.allocs = e.allocs /\ AbsSize(s2) = e.size /\ s2.lsize = e.lsize, "open", s2, pool)
     /\ oal' = oal \o e.allocs /\ own' = own + e.n /\ oend' = oend
     /\ bad' = IF ~e.guards THEN Flag(TRUE, "NoOverrun")
               ELSE Flag(e.ret # e.n \/ e.size # own + e.n, "BytesRoundTrip")   \* every byte offered was taken

TEndEntry(e) ==
  LET s2 == [Sync(s) EXCEPT !.allocs = << >>]
  IN /\ Follow(st = "open" /\ s2.lsize = e.size, "ended", s2, pool)
     /\ oend' = e.size /\ UNCHANGED <<oal, own>>
     /\ bad' = IF ~e.guards THEN Flag(TRUE, "NoOverrun") ELSE Flag(e.size # own, "BytesRoundTrip")

\* the scatter list the code built from the entry
TIov(e) ==
  LET pagesOk == \A i \in 1..Len(e.segs) : e.segs[i][1] \in SeqSet(oal) /\ e.segs[i][2] = 0 /\ e.segs[i][3] <= P
      bytesOk == /\ e.nw = own /\ e.nr = e.nw /\ e.hr = e.hw
                 /\ (e.full => e.rbytes = e.wbytes)
                 /\ SumLen(e.segs) = own
      onceOk == /\ Len(e.segs) = Len(oal)
                /\ {e.segs[i][1] : i \in 1..Len(e.segs)} = SeqSet(oal)
  IN /\ Follow(st = "ended" /\ IovOf(s, P) = AsModel(e.segs), st, s, pool)
     /\ UNCHANGED <<oal, own, oend>>
     /\ bad' = IF ~pagesOk THEN Flag(TRUE, "NoForeignPage")
               ELSE IF ~bytesOk THEN Flag(TRUE, "BytesRoundTrip")
               ELSE Flag(~onceOk \/ ~NoDup(oal), "EachPageListedOnce")

\* the entry was released through AsyncFileAppender::discard
TRelease(e) ==
  /\ Follow(st = "ended" /\ PageSet(IovOf(s, P)) = SeqSet(e.freed), "released", s, SeqSet(e.freed))
  /\ UNCHANGED <<oal, own, oend>>
  /\ bad' = IF ~e.guards THEN Flag(TRUE, "NoOverrun")
            ELSE Flag(SeqSet(e.freed) # SeqSet(oal) \/ ~NoDup(e.freed) \/ Len(e.live) # 0, "PagesConserved")

TEnd(e) ==
  /\ bad' = Flag(e.status # "ok", "NoCrash")
  /\ UNCHANGED <<st, s, pool, conf, drifts, oal, own, oend>>

TNext ==
  /\ l <= Len(Tr)
  /\ LET e == Tr[l]
     IN CASE e.k = "reset" -> Fresh(e) /\ UNCHANGED <<drifts, bad>>
          [] e.k = "begin" -> TBegin(e) /\ UNCHANGED <<P, ev>>
          [] e.k = "write" -> TWrite(e) /\ UNCHANGED <<P, ev>>
          [] e.k = "endentry" -> TEndEntry(e) /\ UNCHANGED <<P, ev>>
          [] e.k = "iov" -> TIov(e) /\ UNCHANGED <<P, ev>>
          [] e.k = "release" -> TRelease(e) /\ UNCHANGED <<P, ev>>
          [] e.k = "end" -> TEnd(e) /\ UNCHANGED <<P, ev>>
  /\ l' = l + 1
  /\ TLCSet(1, l') /\ TLCSet(2, drifts')

TSpec == TInit /\ [][TNext]_tvars

Holds == bad = ""
\* one invariant per clause, so that TLC's message names the clause
TBytesRoundTrip == bad # "BytesRoundTrip"
TEachPageListedOnce == bad # "EachPageListedOnce"
TNoForeignPage == bad # "NoForeignPage"
TPagesConserved == bad # "PagesConserved"
TNoOverrun == bad # "NoOverrun"
TNoCrash == bad # "NoCrash"

\* <<"VERIF", lines explained, lines, {<<"drift", line>>}>>
Post == PrintT(<<"VERIF", TLCGet(1) - 1, Len(Tr), TLCGet(2)>>)
=============================================================================
