------------------------------ MODULE Counters ------------------------------
(***************************************************************************)
(* C19 - counters / thread-locals (babylon/concurrent/counter.h,           *)
(* thread_local.h, id_allocator.hpp: ThreadId).                            *)
(*                                                                         *)
(* L2-lite: one "family" (= one item type T; the code keeps one thread-id  *)
(* allocator, one instance-id allocator, one static storage vector and one *)
(* per-thread cache PER TYPE, so families never interact) with             *)
(*   - the thread-id allocator at its L1 (ids recycled LIFO through a free *)
(*     list; a thread takes its id at its first slow-path local(), gives   *)
(*     it back when it exits),                                             *)
(*   - EnumerableThreadLocal storages: never re-used id (eid), slot[tid],  *)
(*     "ens" (first block of the concurrent vector exists),                *)
(*   - the per-thread cache [eid, item],                                   *)
(*   - CompactEnumerableThreadLocal: recycled instance id -> (storage      *)
(*     index, cache-line offset), destructor zeroing its offset in every   *)
(*     slot, move = swap of identities,                                    *)
(*   - adder / summer / maxer / miner (period version) on top, plus the    *)
(*     two raw containers used adder-like ("cetl", "etl").                 *)
(* Actions are API level.  With the split actions (CountBegin/Write/End,   *)
(* ReadBegin/Step/End) counting and a reader interleave at the granularity *)
(* of the single-writer plain cells.                                       *)
(*                                                                         *)
(* L1 (ghost g/used/faddr record what the HISTORY says, independent of the *)
(* implementation-shaped state); every clause is an operator taking the    *)
(* OBSERVATION as argument, so that the model-checked invariants (obs =    *)
(* what the model computes) and trace validation (obs = what the real code *)
(* returned) use literally the same formula.                               *)
(***************************************************************************)
EXTENDS Integers, Sequences, FiniteSets, TLC

CONSTANTS NT,        \* thread labels 1..NT; every label is one thread generation (born once)
          NO,        \* object places 1..NO (C++ variables holding a counter)
          MaxGen,    \* logical counters ever created (counter generations)
          TMin, TMax, \* extremes of the value type (maxer / miner)
          StrictExt, \* TRUE: value() = strict comparison against an extreme-initialised result (pinned commit)
          Torn,      \* TRUE: split mode also separates the two plain stores (version, value) of a maxer/miner period switch
          VerFirst,  \* TRUE: on a period switch the slot's version is stored before its value
          IdFirst    \* TRUE: ~CompactEnumerableThreadLocal releases its instance id BEFORE it clears its offset (FALSE: pinned commit)

VARIABLES kind,      \* "adder" | "summer" | "maxer" | "miner" | "cetl" | "etl"
          npl,       \* instances per cache line (NUM_PER_CACHELINE); 1 for "etl"
          tst,       \* [Thr -> "new" | "live" | "dead"]
          tid,       \* [Thr -> -1 | thread id of this family]  (kept after death: history)
          talloc,    \* thread-id allocator   [next, free (LIFO)]
          ialloc,    \* instance-id allocator [next, free (LIFO)]
          obj,       \* [Obj -> [live, lc, iid, st, off, ver]]
          stor,      \* [St -> [eid, ens, dead, cell]]   cell: sparse map <<slot, off>> -> [a, b]
          cache,     \* [Thr -> [eid, item]]            item = <<storage, slot>>
          nextEid, nextLc,
          g,         \* ghost [Lcs -> [Thr -> [s, n, p]]]  what thread t contributed to lc (since reset)
          used,      \* ghost [Lcs -> SUBSET Thr]        threads that called local() on lc
          faddr,     \* ghost [Lcs -> [Thr -> address]]  first address local() gave (t, lc)
          pend,      \* split mode: count in progress per thread
          rd,        \* split mode: the reader
          cseq, cdone, \* split mode ghost: values counted per (lc, t) in order / how many completed
          dt,        \* split destructor: the walk over the thread slots in progress
          ev         \* ghost: the API call this step performed

impl  == <<tst, tid, talloc, ialloc, obj, stor, cache, nextEid, nextLc>>
ghost == <<g, used, faddr>>
conc  == <<pend, rd, cseq, cdone, dt>>
vars  == <<kind, npl, impl, ghost, conc, ev>>

Thr   == 1..NT
Obj   == 1..NO
Lcs   == 1..MaxGen
Slots == 0..(NT - 1)
St    == 0..(MaxGen + NO)

IsCmp   == kind \in {"maxer", "miner"}
IsSum   == kind = "summer"
IsEtl   == kind = "etl"
Movable == kind \in {"adder", "cetl", "etl"}
Resettable == kind # "summer"
Kinds6  == {"adder", "summer", "maxer", "miner", "cetl", "etl"}

Ext == IF kind = "maxer" THEN TMin ELSE TMax
Better(x, y) == IF kind = "maxer" THEN x > y ELSE x < y
BestOf(P) == CHOOSE x \in P : \A y \in P : ~Better(y, x)

RECURSIVE SumFn(_, _)
SumFn(f, S) == IF S = {} THEN 0 ELSE LET x == CHOOSE y \in S : TRUE IN f[x] + SumFn(f, S \ {x})

ZeroCell == [a |-> 0, b |-> IF IsCmp THEN -1 ELSE 0]   \* T(): Slot{version SIZE_MAX}; 0 for the numeric cells
NoStor   == [eid |-> 0, ens |-> FALSE, dead |-> FALSE, cell |-> [x \in {} |-> ZeroCell]]
NoObj    == [live |-> FALSE, lc |-> 0, iid |-> -1, st |-> 0, off |-> 0, ver |-> 0]
NoAddr   == <<-1, -1, -1>>
GZero    == [s |-> 0, n |-> 0, p |-> {}]
NoPend   == [o |-> 0, v |-> 0, item |-> <<0, 0>>, wr |-> 0]     \* wr: 0 nothing stored yet, 1 first of two stores done, 2 stored
ZeroT    == [t \in Thr |-> 0]
NoRd     == [on |-> FALSE, fin |-> FALSE, o |-> 0, lc |-> 0, todo |-> {}, a |-> 0, b |-> 0, has |-> FALSE, lo |-> ZeroT, hi |-> ZeroT]
NoDt     == [on |-> FALSE, st |-> 0, off |-> 0, iid |-> -1, todo |-> {}]
NoEv     == [op |-> "", t |-> 0, o |-> 0, p |-> 0, v |-> 0]

\* ---- id allocator at its L1: LIFO free list, otherwise the next fresh id
AllocId(al) == IF al.free # <<>> THEN [id |-> Head(al.free), al |-> [al EXCEPT !.free = Tail(@)]]
               ELSE [id |-> al.next, al |-> [al EXCEPT !.next = @ + 1]]
FreeId(al, id) == [al EXCEPT !.free = <<id>> \o @]
FreeIds(al) == {al.free[k] : k \in 1..Len(al.free)}

\* ---- cells
CellAt(s, i, f) == IF <<i, f>> \in DOMAIN stor[s].cell THEN stor[s].cell[<<i, f>>] ELSE ZeroCell
PutCell(cm, i, f, c) ==
  IF c = ZeroCell THEN [x \in (DOMAIN cm) \ {<<i, f>>} |-> cm[x]]
  ELSE [x \in (DOMAIN cm) \cup {<<i, f>>} |-> IF x = <<i, f>> THEN c ELSE cm[x]]
ZeroOff(cm, I, f) == [x \in {y \in DOMAIN cm : ~(y[1] \in I /\ y[2] = f)} |-> cm[x]]

\* EnumerableThreadLocal::for_each: [0, min(ThreadId::end<T>(), vector size)); for_each_alive: the ids
\* currently allocated (clipped to the vector size)
ScanAll(s)   == IF stor[s].ens THEN {i \in Slots : i < talloc.next} ELSE {}
ScanAlive(s) == ScanAll(s) \ FreeIds(talloc)

Live == {t \in Thr : tst[t] = "live"}
LiveObj == {o \in Obj : obj[o].live}
ObjOf(lc) == CHOOSE o \in Obj : obj[o].live /\ obj[o].lc = lc
LcLive(lc) == \E o \in Obj : obj[o].live /\ obj[o].lc = lc
Quiet0 == ~rd.on /\ \A t \in Thr : pend[t].o = 0          \* no count / read in progress
Quiescent == Quiet0 /\ ~dt.on                              \* ... and no destructor walk either

\* initial values (a record, so that trace validation can re-initialise between executions)
I0 == [tst |-> [t \in Thr |-> "new"], tid |-> [t \in Thr |-> -1],
       alloc |-> [next |-> 0, free |-> <<>>],
       obj |-> [o \in Obj |-> NoObj],
       stor |-> [s \in St |-> [eid |-> 0, ens |-> FALSE, dead |-> FALSE, cell |-> [x \in {} |-> [a |-> 0, b |-> 0]]]],
       cache |-> [t \in Thr |-> [eid |-> 0, item |-> <<0, 0>>]],
       g |-> [lc \in Lcs |-> [t \in Thr |-> GZero]],
       used |-> [lc \in Lcs |-> {}],
       faddr |-> [lc \in Lcs |-> [t \in Thr |-> NoAddr]],
       pend |-> [t \in Thr |-> NoPend],
       cseq |-> [lc \in Lcs |-> [t \in Thr |-> <<>>]], cdone |-> [lc \in Lcs |-> ZeroT]]

InitFor(k, n) ==
  /\ kind = k /\ npl = n
  /\ tst = I0.tst /\ tid = I0.tid
  /\ talloc = I0.alloc /\ ialloc = I0.alloc
  /\ obj = I0.obj /\ stor = I0.stor /\ cache = I0.cache
  /\ nextEid = 1 /\ nextLc = 1
  /\ g = I0.g /\ used = I0.used /\ faddr = I0.faddr
  /\ pend = I0.pend /\ rd = NoRd
  /\ cseq = I0.cseq /\ cdone = I0.cdone /\ dt = NoDt
  /\ ev = NoEv

\* ------------------------------------------------------------------ threads
ThreadStart(t) ==
  /\ tst[t] = "new"
  /\ tst' = [tst EXCEPT ![t] = "live"]
  /\ ev' = [NoEv EXCEPT !.op = "start", !.t = t]
  /\ UNCHANGED <<kind, npl, tid, talloc, ialloc, obj, stor, cache, nextEid, nextLc, ghost, conc>>

\* thread_local ThreadIdImpl is destroyed: the id goes back to the free list; the cache dies with the thread
ThreadExit(t) ==
  /\ tst[t] = "live" /\ pend[t].o = 0
  /\ tst' = [tst EXCEPT ![t] = "dead"]
  /\ talloc' = IF tid[t] # -1 THEN FreeId(talloc, tid[t]) ELSE talloc
  /\ cache' = [cache EXCEPT ![t] = [eid |-> 0, item |-> <<0, 0>>]]
  /\ ev' = [NoEv EXCEPT !.op = "exit", !.t = t]
  /\ UNCHANGED <<kind, npl, tid, ialloc, obj, stor, nextEid, nextLc, ghost, conc>>

\* ------------------------------------------------------------------ counter objects
\* a fresh identity: compact -> instance id from the allocator, (storage index, offset) derived from it,
\* the storage object (an EnumerableThreadLocal in a static vector) gets its never-reused eid when first
\* needed; "etl" -> the object IS an EnumerableThreadLocal: new eid, new empty storage (label = lc)
FreshIdent ==
  IF IsEtl
  THEN [iid |-> -1, st |-> nextLc, off |-> 0, ial |-> ialloc, neweid |-> TRUE]
  ELSE LET a == AllocId(ialloc)
       IN [iid |-> a.id, st |-> a.id \div npl, off |-> a.id % npl, ial |-> a.al, neweid |-> stor[a.id \div npl].eid = 0]

StorWithFresh(F) ==
  IF F.neweid THEN [stor EXCEPT ![F.st] = [eid |-> nextEid, ens |-> FALSE, dead |-> FALSE, cell |-> [x \in {} |-> ZeroCell]]] ELSE stor

Create(o) ==
  /\ Quiet0 /\ ~obj[o].live /\ nextLc <= MaxGen
  /\ LET F == FreshIdent
     IN /\ obj' = [obj EXCEPT ![o] = [live |-> TRUE, lc |-> nextLc, iid |-> F.iid, st |-> F.st, off |-> F.off, ver |-> 0]]
        /\ ialloc' = F.ial
        /\ stor' = StorWithFresh(F)
        /\ nextEid' = IF F.neweid THEN nextEid + 1 ELSE nextEid
  /\ nextLc' = nextLc + 1
  /\ rd' = NoRd
  /\ ev' = [NoEv EXCEPT !.op = "create", !.o = o]
  /\ UNCHANGED <<kind, npl, tst, tid, talloc, cache, ghost, pend, cseq, cdone, dt>>

\* ~CompactEnumerableThreadLocal: value[offset] = T() in every slot for_each reaches, then release the id
\* ~EnumerableThreadLocal: the storage is freed
Destroy(o) ==
  /\ Quiescent /\ obj[o].live
  /\ LET s == obj[o].st
     IN IF IsEtl
        THEN /\ stor' = [stor EXCEPT ![s].dead = TRUE] /\ ialloc' = ialloc
        ELSE /\ stor' = [stor EXCEPT ![s].cell = ZeroOff(@, ScanAll(s), obj[o].off)]
             /\ ialloc' = FreeId(ialloc, obj[o].iid)
  /\ obj' = [obj EXCEPT ![o] = NoObj]
  /\ rd' = NoRd
  /\ ev' = [NoEv EXCEPT !.op = "destroy", !.o = o]
  /\ UNCHANGED <<kind, npl, tst, tid, talloc, cache, nextEid, nextLc, ghost, pend, cseq, cdone, dt>>

SwapIdent(ob, a, b) ==
  [ob EXCEPT ![a] = [ob[b] EXCEPT !.ver = ob[a].ver], ![b] = [ob[a] EXCEPT !.ver = ob[b].ver]]

\* a = std::move(b): the two objects swap identities (instance id, offset, storage; eid + vector for "etl")
MoveAssign(a, b) ==
  /\ Quiescent /\ Movable /\ a # b /\ obj[a].live /\ obj[b].live
  /\ obj' = SwapIdent(obj, a, b)
  /\ rd' = NoRd
  /\ ev' = [NoEv EXCEPT !.op = "move", !.o = a, !.p = b]
  /\ UNCHANGED <<kind, npl, tst, tid, talloc, ialloc, stor, cache, nextEid, nextLc, ghost, pend, cseq, cdone, dt>>

\* T a(std::move(b)): a is default constructed (a fresh identity = a new logical counter), then swapped
MoveCtor(a, b) ==
  /\ Quiescent /\ Movable /\ a # b /\ ~obj[a].live /\ obj[b].live /\ nextLc <= MaxGen
  /\ LET F == FreshIdent
         oa == [live |-> TRUE, lc |-> nextLc, iid |-> F.iid, st |-> F.st, off |-> F.off, ver |-> 0]
     IN /\ obj' = SwapIdent([obj EXCEPT ![a] = oa], a, b)
        /\ ialloc' = F.ial
        /\ stor' = StorWithFresh(F)
        /\ nextEid' = IF F.neweid THEN nextEid + 1 ELSE nextEid
  /\ nextLc' = nextLc + 1
  /\ rd' = NoRd
  /\ ev' = [NoEv EXCEPT !.op = "mctor", !.o = a, !.p = b]
  /\ UNCHANGED <<kind, npl, tst, tid, talloc, cache, ghost, pend, cseq, cdone, dt>>

\* ~CompactEnumerableThreadLocal as its steps: the walk that writes T() at the offset of every slot, one slot per
\* step, and the release of the instance id - after the walk (pinned commit) or before it (IdFirst).  The object is
\* dead from the first step on; other threads go on constructing / counting / reading OTHER counters meanwhile.
DestroyBegin(o) ==
  /\ Quiet0 /\ ~dt.on /\ obj[o].live /\ ~IsEtl
  /\ dt' = [on |-> TRUE, st |-> obj[o].st, off |-> obj[o].off, iid |-> obj[o].iid, todo |-> ScanAll(obj[o].st)]
  /\ ialloc' = IF IdFirst THEN FreeId(ialloc, obj[o].iid) ELSE ialloc
  /\ obj' = [obj EXCEPT ![o] = NoObj]
  /\ ev' = [NoEv EXCEPT !.op = "dbeg", !.o = o]
  /\ UNCHANGED <<kind, npl, tst, tid, talloc, stor, cache, nextEid, nextLc, ghost, pend, rd, cseq, cdone>>

DestroyStep ==
  /\ dt.on /\ dt.todo # {}
  /\ LET i == CHOOSE j \in dt.todo : \A k \in dt.todo : j <= k
     IN /\ stor' = [stor EXCEPT ![dt.st].cell = ZeroOff(@, {i}, dt.off)]
        /\ dt' = [dt EXCEPT !.todo = @ \ {i}]
  /\ ev' = [NoEv EXCEPT !.op = "dstep"]
  /\ UNCHANGED <<kind, npl, tst, tid, talloc, ialloc, obj, cache, nextEid, nextLc, ghost, pend, rd, cseq, cdone>>

DestroyEnd ==
  /\ dt.on /\ dt.todo = {}
  /\ ialloc' = IF IdFirst THEN ialloc ELSE FreeId(ialloc, dt.iid)
  /\ dt' = NoDt
  /\ ev' = [NoEv EXCEPT !.op = "dend"]
  /\ UNCHANGED <<kind, npl, tst, tid, talloc, obj, stor, cache, nextEid, nextLc, ghost, pend, rd, cseq, cdone>>

\* ------------------------------------------------------------------ local()
\* fast path: the per-thread cache holds [eid, item] of the storage used last; slow path: take the
\* thread id (allocating it at first use), ensure the slot, refill the cache
Lookup(t, o) ==
  LET s == obj[o].st
  IN IF cache[t].eid = stor[s].eid
     THEN [item |-> cache[t].item, id |-> tid[t], al |-> talloc, miss |-> FALSE]
     ELSE LET a == IF tid[t] = -1 THEN AllocId(talloc) ELSE [id |-> tid[t], al |-> talloc]
          IN [item |-> <<s, a.id>>, id |-> a.id, al |-> a.al, miss |-> TRUE]

AddrOf(L, o) == <<L.item[1], L.item[2], obj[o].off>>

LookupEffect(t, o, L) ==
  /\ tid' = [tid EXCEPT ![t] = L.id]
  /\ talloc' = L.al
  /\ cache' = IF L.miss THEN [cache EXCEPT ![t] = [eid |-> stor[obj[o].st].eid, item |-> L.item]] ELSE cache
  /\ used' = [used EXCEPT ![obj[o].lc] = @ \cup {t}]
  /\ faddr' = [faddr EXCEPT ![obj[o].lc][t] = IF @ = NoAddr THEN AddrOf(L, o) ELSE @]

Ensured(L, o) == [stor EXCEPT ![obj[o].st].ens = @ \/ L.miss]

NewCell(c, v, ver) ==
  IF IsCmp THEN (IF c.b # ver THEN [a |-> v, b |-> ver] ELSE IF Better(v, c.a) THEN [c EXCEPT !.a = v] ELSE c)
  ELSE IF IsSum THEN [a |-> c.a + v, b |-> c.b + 1]
  ELSE [c EXCEPT !.a = @ + v]

Written(sm, item, f, v, ver) ==
  LET s == item[1]  i == item[2]
      c == IF <<i, f>> \in DOMAIN sm[s].cell THEN sm[s].cell[<<i, f>>] ELSE ZeroCell
  IN [sm EXCEPT ![s].cell = PutCell(@, i, f, NewCell(c, v, ver))]

GAdd(r, v) == [s |-> r.s + v, n |-> r.n + 1, p |-> r.p \cup {v}]

\* counter << v  (atomic: histories)
Count(t, o, v) ==
  /\ Quiet0 /\ tst[t] = "live" /\ obj[o].live
  /\ LET L == Lookup(t, o)
     IN /\ LookupEffect(t, o, L)
        /\ stor' = Written(Ensured(L, o), L.item, obj[o].off, v, obj[o].ver)
  /\ g' = [g EXCEPT ![obj[o].lc][t] = GAdd(@, v)]
  /\ ev' = [NoEv EXCEPT !.op = "count", !.t = t, !.o = o, !.v = v]
  /\ UNCHANGED <<kind, npl, tst, ialloc, obj, nextEid, nextLc, conc>>

\* a bare local() (no count)
Local(t, o) ==
  /\ Quiet0 /\ tst[t] = "live" /\ obj[o].live
  /\ LET L == Lookup(t, o)
     IN /\ LookupEffect(t, o, L)
        /\ stor' = Ensured(L, o)
  /\ ev' = [NoEv EXCEPT !.op = "local", !.t = t, !.o = o]
  /\ UNCHANGED <<kind, npl, tst, ialloc, obj, nextEid, nextLc, g, conc>>

\* adder.reset(): every reachable slot := 0;  maxer/miner.reset(): ++_version
Reset(o) ==
  /\ Quiescent /\ obj[o].live /\ Resettable
  /\ IF IsCmp THEN /\ obj' = [obj EXCEPT ![o].ver = @ + 1] /\ stor' = stor
              ELSE /\ stor' = [stor EXCEPT ![obj[o].st].cell = ZeroOff(@, ScanAll(obj[o].st), obj[o].off)] /\ obj' = obj
  /\ g' = [g EXCEPT ![obj[o].lc] = [t \in Thr |-> GZero]]
  /\ cseq' = [cseq EXCEPT ![obj[o].lc] = [t \in Thr |-> <<>>]]
  /\ cdone' = [cdone EXCEPT ![obj[o].lc] = ZeroT]
  /\ rd' = NoRd
  /\ ev' = [NoEv EXCEPT !.op = "reset", !.o = o]
  /\ UNCHANGED <<kind, npl, tst, tid, talloc, ialloc, cache, nextEid, nextLc, used, faddr, pend, dt>>

\* pure reads (quiescent): only the ghost event changes; what they return are the operators below
ReadOp(name, o) ==
  /\ Quiet0 /\ obj[o].live
  /\ ev' = [NoEv EXCEPT !.op = name, !.o = o]
  /\ UNCHANGED <<kind, npl, impl, ghost, conc>>

\* ------------------------------------------------------------------ what the reads return
ValueOfS(o, strict) ==
  LET s == obj[o].st  f == obj[o].off  I == ScanAll(s)
  IN IF IsCmp
     THEN LET J == {i \in I : CellAt(s, i, f).b = obj[o].ver /\ (~strict \/ Better(CellAt(s, i, f).a, Ext))}
              C == {CellAt(s, i, f).a : i \in J}
          IN [r1 |-> IF C = {} THEN 0 ELSE BestOf(C), r2 |-> 0, has |-> C # {}]
     ELSE [r1 |-> SumFn([i \in I |-> CellAt(s, i, f).a], I), r2 |-> SumFn([i \in I |-> CellAt(s, i, f).b], I), has |-> TRUE]

ValueOf(o) == ValueOfS(o, StrictExt)

CellsOf(o, I) == [i \in I |-> [a |-> CellAt(obj[o].st, i, obj[o].off).a, b |-> CellAt(obj[o].st, i, obj[o].off).b,
                               cur |-> IsCmp /\ CellAt(obj[o].st, i, obj[o].off).b = obj[o].ver]]

\* ------------------------------------------------------------------ split actions (concurrent reads)
CountBegin(t, o, v) ==
  /\ tst[t] = "live" /\ obj[o].live /\ pend[t].o = 0
  /\ LET L == Lookup(t, o)
     IN /\ LookupEffect(t, o, L)
        /\ stor' = Ensured(L, o)
        /\ pend' = [pend EXCEPT ![t] = [o |-> o, v |-> v, item |-> L.item, wr |-> 0]]
  /\ g' = [g EXCEPT ![obj[o].lc][t] = GAdd(@, v)]
  /\ cseq' = [cseq EXCEPT ![obj[o].lc][t] = Append(@, v)]
  /\ ev' = [NoEv EXCEPT !.op = "cbeg", !.t = t, !.o = o, !.v = v]
  /\ UNCHANGED <<kind, npl, tst, ialloc, obj, nextEid, nextLc, rd, cdone, dt>>

\* the store(s) of a count.  `local = local + v` is one plain store of the single writer; the first count of a
\* maxer/miner in a new period is TWO plain stores (local.version, local.value) between which a reader can look
CountWrite(t) ==
  /\ pend[t].o # 0 /\ pend[t].wr < 2
  /\ LET o == pend[t].o
         s == pend[t].item[1]  i == pend[t].item[2]  f == obj[o].off
         c == CellAt(s, i, f)
         switch == Torn /\ IsCmp /\ c.b # obj[o].ver /\ pend[t].wr = 0
     IN IF switch
        THEN /\ stor' = [stor EXCEPT ![s].cell = PutCell(@, i, f, IF VerFirst THEN [a |-> c.a, b |-> obj[o].ver] ELSE [a |-> pend[t].v, b |-> c.b])]
             /\ pend' = [pend EXCEPT ![t].wr = 1]
        ELSE /\ stor' = IF pend[t].wr = 1 THEN [stor EXCEPT ![s].cell = PutCell(@, i, f, [a |-> pend[t].v, b |-> obj[o].ver])]
                        ELSE Written(stor, pend[t].item, f, pend[t].v, obj[o].ver)
             /\ pend' = [pend EXCEPT ![t].wr = 2]
  /\ ev' = [NoEv EXCEPT !.op = "cwr", !.t = t]
  /\ UNCHANGED <<kind, npl, tst, tid, talloc, ialloc, obj, cache, nextEid, nextLc, ghost, rd, cseq, cdone, dt>>

CountEnd(t) ==
  /\ pend[t].o # 0 /\ pend[t].wr = 2
  /\ cdone' = [cdone EXCEPT ![obj[pend[t].o].lc][t] = @ + 1]
  /\ pend' = [pend EXCEPT ![t] = NoPend]
  /\ ev' = [NoEv EXCEPT !.op = "cend", !.t = t]
  /\ UNCHANGED <<kind, npl, impl, ghost, rd, cseq, dt>>

ReadBegin(o) ==
  /\ ~rd.on /\ obj[o].live
  /\ rd' = [on |-> TRUE, fin |-> FALSE, o |-> o, lc |-> obj[o].lc, todo |-> ScanAll(obj[o].st),
            a |-> IF IsCmp THEN Ext ELSE 0, b |-> 0, has |-> FALSE, lo |-> cdone[obj[o].lc], hi |-> ZeroT]
  /\ ev' = [NoEv EXCEPT !.op = "rbeg", !.o = o]
  /\ UNCHANGED <<kind, npl, impl, ghost, pend, cseq, cdone, dt>>

ReadStep ==
  /\ rd.on /\ rd.todo # {}
  /\ LET i == CHOOSE j \in rd.todo : \A k \in rd.todo : j <= k
         o == rd.o
         c == CellAt(obj[o].st, i, obj[o].off)
     IN rd' = IF IsCmp
              THEN (IF c.b = obj[o].ver /\ (Better(c.a, rd.a) \/ (~StrictExt /\ ~rd.has))
                    THEN [rd EXCEPT !.todo = @ \ {i}, !.a = c.a, !.has = TRUE] ELSE [rd EXCEPT !.todo = @ \ {i}])
              ELSE [rd EXCEPT !.todo = @ \ {i}, !.a = @ + c.a, !.b = @ + c.b]
  /\ ev' = [NoEv EXCEPT !.op = "rstep"]
  /\ UNCHANGED <<kind, npl, impl, ghost, pend, cseq, cdone, dt>>

ReadEnd ==
  /\ rd.on /\ rd.todo = {}
  /\ rd' = [rd EXCEPT !.on = FALSE, !.fin = TRUE, !.hi = [t \in Thr |-> Len(cseq[rd.lc][t])]]
  /\ ev' = [NoEv EXCEPT !.op = "rend", !.o = rd.o]
  /\ UNCHANGED <<kind, npl, impl, ghost, pend, cseq, cdone, dt>>

(***************************************************************************)
(* L1.  GTot = what the history says was contributed to lc in the current  *)
(* period by ALL threads, live, dead, or living in a dead thread's slot.   *)
(* R = [r1, r2, has] is the observation of value().                        *)
(***************************************************************************)
GOver(lc, T) == [s |-> SumFn([t \in T |-> g[lc][t].s], T), n |-> SumFn([t \in T |-> g[lc][t].n], T),
                 p |-> UNION {g[lc][t].p : t \in T}]
GTot(lc) == GOver(lc, Thr)

QuiescentExactOK(lc, R) == IsCmp \/ (R.r1 = GTot(lc).s /\ (IsSum => R.r2 = GTot(lc).n))

\* quantified over EVERY representable value, the type's own extremes included
ExtremeOK(lc, R) ==
  IsCmp => LET P == GTot(lc).p
           IN /\ \A x \in TMin..TMax : x \in P => (R.has /\ ~Better(x, R.r1))
              /\ R.has => R.r1 \in P
\* the sub-class of periods in which nothing but the type's unfavourable extreme was recorded
OnlyTypeExtreme(lc) == IsCmp /\ GTot(lc).p = {Ext}
\* ... and the exact witness class of hypothesis H5: such a period reported as "no result"
H5Witness(lc, R) == OnlyTypeExtreme(lc) /\ ~R.has /\ R.r1 = 0

StartsAtZeroOK(R) == IF IsCmp THEN ~R.has /\ R.r1 = 0 ELSE R.r1 = 0 /\ R.r2 = 0

\* slot level: the cell of slot i holds what ALL threads that ever lived in slot i contributed
DeadKeptOK(lc, i, c, slotfn) ==
  LET G == GOver(lc, {t \in Thr : slotfn[t] = i})
  IN IF IsCmp THEN (IF G.p = {} THEN ~c.cur ELSE c.cur /\ c.a = BestOf(G.p))
     ELSE c.a = G.s /\ (IsSum => c.b = G.n)

CoversOK(lc, V, slotfn) == {slotfn[t] : t \in used[lc]} \subseteq V
AliveOK(lc, V, slotfn) ==
  /\ V \subseteq {slotfn[t] : t \in {u \in Live : slotfn[u] # -1}}
  /\ {slotfn[t] : t \in used[lc] \cap Live} \subseteq V

\* witness class of a defect of the pinned commit: for_each_alive (the non-const overload of EnumerableThreadLocal,
\* and both overloads of CompactEnumerableThreadLocal, which forward to it) does not clip the live thread ids to the
\* size of the instance's vector: on an instance no thread has touched yet, while a thread of the family is alive,
\* it reads block pointers past the (empty) block table
AliveUntouched(o, nc) == (nc \/ ~IsEtl) /\ ~stor[obj[o].st].ens /\ {i \in Slots : i < talloc.next} \ FreeIds(talloc) # {}

\* address a returned to (t, lc), F = addresses returned before: same as before; nobody else (live thread,
\* live counter) owns it
StableOK(F, lc, t, a, none) == F[lc][t] = none \/ F[lc][t] = a
PrivateOK(F, lc, t, a) ==
  \A lc2 \in Lcs, t2 \in Thr : (<<lc2, t2>> # <<lc, t>> /\ LcLive(lc2) /\ tst[t2] = "live") => F[lc2][t2] # a

Max0(S) == IF S = {} THEN 0 ELSE CHOOSE x \in S : \A y \in S : y <= x
RECURSIVE SeqSum(_)
SeqSum(q) == IF q = <<>> THEN 0 ELSE Head(q) + SeqSum(Tail(q))
Pre(q, k) == SubSeq(q, 1, k)
\* a read overlapping counts: for some choice of a prefix per thread, between what had completed when the
\* read began and what had started when it returned, the result is the exact aggregate of those prefixes
ReadBoundsOK(Q, lo, hi, R) ==
  \E k \in [Thr -> 0..Max0({hi[t] : t \in Thr})] :
     /\ \A t \in Thr : lo[t] <= k[t] /\ k[t] <= hi[t]
     /\ IF IsCmp
        THEN LET P == UNION {{Q[t][j] : j \in 1..k[t]} : t \in Thr}
             IN IF P = {} THEN ~R.has ELSE R.has /\ R.r1 = BestOf(P)
        ELSE /\ R.r1 = SumFn([t \in Thr |-> SeqSum(Pre(Q[t], k[t]))], Thr)
             /\ IsSum => R.r2 = SumFn(k, Thr)

(***************************************************************************)
(* The clauses on the model (obs := what the model computes).              *)
(***************************************************************************)
QuiescentExact == Quiet0 => \A o \in LiveObj : QuiescentExactOK(obj[o].lc, ValueOf(o))
ExtremeOfCurrentPeriod == Quiescent => \A o \in LiveObj : ExtremeOK(obj[o].lc, ValueOf(o))
ExtremeExceptOnlyTypeExtreme == Quiescent => \A o \in LiveObj : H5Witness(obj[o].lc, ValueOf(o)) \/ ExtremeOK(obj[o].lc, ValueOf(o))
ContributionsOfDeadThreadsKept ==
  Quiescent => \A o \in LiveObj : \A i \in ScanAll(obj[o].st) : DeadKeptOK(obj[o].lc, i, CellsOf(o, ScanAll(obj[o].st))[i], tid)
ForEachCoversEverUsed == \A o \in LiveObj : CoversOK(obj[o].lc, ScanAll(obj[o].st), tid)
ForEachAliveExactlyLive == \A o \in LiveObj : AliveOK(obj[o].lc, ScanAlive(obj[o].st), tid)
NewCounterStartsAtZero ==
  Quiet0 => \A o \in LiveObj : (used[obj[o].lc] = {}) =>
     /\ StartsAtZeroOK(ValueOf(o))
     /\ \A i \in ScanAll(obj[o].st) : CellAt(obj[o].st, i, obj[o].off) = ZeroCell
LocalIsPrivateAndStable ==
  \A o \in LiveObj : \A t \in Live :
     LET lc == obj[o].lc IN
     faddr[lc][t] # NoAddr =>
        /\ pend[t].o = 0 => StableOK(faddr, lc, t, AddrOf(Lookup(t, o), o), NoAddr)
        /\ PrivateOK(faddr, lc, t, faddr[lc][t])
ConcurrentReadBounds ==
  rd.fin => ReadBoundsOK(cseq[rd.lc], rd.lo, rd.hi, [r1 |-> IF IsCmp /\ ~rd.has THEN 0 ELSE rd.a, r2 |-> rd.b, has |-> rd.has])

\* L2 sanity: a cache hit always denotes the thread's own slot (entries of destroyed storages stay behind: their eid is never seen again)
CacheSound ==
  \A t \in Live : \A s \in St :
     (stor[s].eid # 0 /\ ~stor[s].dead /\ cache[t].eid = stor[s].eid) => cache[t].item = <<s, tid[t]>>
IdsSound ==
  /\ \A t1, t2 \in Live : (t1 # t2 /\ tid[t1] # -1) => tid[t1] # tid[t2]
  /\ \A o1, o2 \in LiveObj : o1 # o2 => (obj[o1].lc # obj[o2].lc /\ <<obj[o1].st, obj[o1].off>> # <<obj[o2].st, obj[o2].off>>)
=============================================================================
