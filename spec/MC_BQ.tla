------------------------------ MODULE MC_BQ ------------------------------
(* Model-checking instance of BQ: memory orders from the table MO_BQ (generated *)
(* from the running code by the conformance step; the committed copy documents  *)
(* the current source), program families as constants.                          *)
EXTENDS BQ, MO_BQ

MOf(site) == MO[site]

O(op, n, c, w, k) == [op |-> op, n |-> n, c |-> c, w |-> w, k |-> k]
Cfg(cap, base, prog) == [cap |-> cap, base |-> base, prog |-> prog]

B == {TRUE, FALSE}
\* one producer thread / one consumer thread, every flag combination allowed by the pairing rule
\* (USE_FUTEX_WAIT on one side needs USE_FUTEX_WAKE on the other)
PC1(cap, np) ==
  { Cfg(cap, 0, << [j \in 1..np |-> O("pu", 1, pc_, pw, pk)], [j \in 1..np |-> O("po", 1, cc, cw, ck)] >>) :
      <<pc_, pw, pk, cc, cw, ck>> \in {f \in B \X B \X B \X B \X B \X B : (f[2] => f[6]) /\ (f[5] => f[3])} }
\* default flags, several threads
Dflt(op, n) == O(op, n, TRUE, TRUE, TRUE)
Cfg_2p1c == { Cfg(1, 0, << <<Dflt("pu", 1)>>, <<Dflt("pu", 1)>>, <<Dflt("po", 1), Dflt("po", 1)>> >>) }
\* weak-memory family: batch publish (16-bit stores + seq_cst fence + waker) against futex waiters
Cfg_wm == { Cfg(1, 0, << <<Dflt("pun", 1)>>, <<Dflt(c, 1)>> >>) : c \in {"po", "pon"} }
       \cup { Cfg(1, 0, << <<Dflt("pu", 1)>>, <<Dflt(c, 1)>> >>) : c \in {"po", "pon", "tpo"} }
       \cup { Cfg(2, 0, << <<Dflt("pun", 2)>>, <<Dflt("pon", 2)>> >>) }
       \cup { Cfg(1, 0, << <<Dflt("tpun", 1), Dflt("tpu", 1)>>, <<Dflt("po", 1)>> >>) }
\* batch / try / compensating operations, two threads
Cfg_batch ==
     { Cfg(2, 0, << <<Dflt(p, 2), Dflt(p, 1)>>, <<Dflt(c, 1), Dflt(c, 2)>> >>) : p \in {"pun"}, c \in {"pon"} }
  \cup { Cfg(2, 0, << <<Dflt("tpun", 2), Dflt("tpu", 1)>>, <<Dflt("tpon", 2), Dflt("tpo", 1)>> >>) }
  \cup { Cfg(2, 0, << <<Dflt("cpun", 2), Dflt("cpun", 1)>>, <<Dflt("cpon", 1), Dflt("cpon", 2)>> >>) }
  \cup { Cfg(2, 0, << <<Dflt("cpun", 2), Dflt("cpun", 2)>>, <<Dflt("tpo", 1)>> >>) }
  \cup { Cfg(2, 0, << <<Dflt("pun", 2), Dflt("pu", 1)>>, <<O("xpon", 2, FALSE, TRUE, TRUE), O("xpon", 1, FALSE, TRUE, TRUE)>> >>) }
  \cup { Cfg(2, 65534, << <<Dflt("pu", 1), Dflt("pun", 2)>>, <<Dflt("po", 1), Dflt("pon", 2)>> >>) }
\* three threads, default flags
Cfg_3thr ==
     { Cfg(cap, 0, << <<Dflt("pu", 1)>>, <<Dflt("pu", 1)>>, <<Dflt("po", 1), Dflt("po", 1)>> >>) : cap \in {1, 2} }
  \cup { Cfg(cap, 0, << <<Dflt("pu", 1), Dflt("pu", 1)>>, <<Dflt("po", 1)>>, <<Dflt("po", 1)>> >>) : cap \in {1, 2} }
  \cup { Cfg(1, 0, << <<Dflt("tpu", 1)>>, <<Dflt("tpu", 1)>>, <<Dflt("tpo", 1)>> >>) }
  \cup { Cfg(2, 0, << <<Dflt("pun", 2)>>, <<Dflt("po", 1)>>, <<Dflt("po", 1)>> >>) }
\* weak memory, three threads (tiny)
Cfg_wm2 ==
     { Cfg(1, 0, << <<Dflt("pun", 1)>>, <<Dflt("pon", 1)>>, <<Dflt("tpo", 1)>> >>) }
  \cup { Cfg(2, 0, << <<Dflt("pun", 2)>>, <<Dflt("po", 1)>>, <<Dflt("po", 1)>> >>) }
  \cup { Cfg(1, 0, << <<Dflt("cpun", 1)>>, <<Dflt("cpon", 1)>> >>) }
  \cup { Cfg(1, 0, << <<O("pu", 1, TRUE, FALSE, TRUE)>>, <<O("po", 1, TRUE, TRUE, FALSE)>> >>) }
\* liveness (termination of balanced programs under weak fairness), every flag pairing
Cfg_live == PC1(1, 1) \cup { Cfg(1, 0, << <<Dflt("pun", 1)>>, <<Dflt("pon", 1)>> >>) }
Cfg_small == PC1(1, 2) \cup PC1(2, 2)

Next == \/ \E t \in Thr : Step(t, MOf)
        \/ (AllDone /\ UNCHANGED vars)
Spec == Init /\ [][Next]_vars
FairSpec == Spec /\ \A t \in 1..3 : WF_vars(t \in Thr /\ Step(t, MOf))

\* hide the ghost event from the state identity
View == <<cfg, ms, pc, L, H>>

Termination == <>[]AllDone
=============================================================================
