-------------------------------- MODULE Box --------------------------------
(***************************************************************************)
(* L2 specification of babylon::DepositBox<T> (src/babylon/concurrent/     *)
(* deposit_box.h) on top of the allocator specification Ids.tla.           *)
(*                                                                         *)
(*   <<"sver",i>>   _slots[i].version   round number of slot i             *)
(*                                                                         *)
(*   emplace        id := allocate(); slot.version.store(id.version);      *)
(*                  construct the item                                     *)
(*   take_released  slot.version.compare_exchange_strong(id.version,       *)
(*                  id.version + 1)                                        *)
(*   finish_released  deallocate(id.value)                                 *)
(*   take           take_released + (if it won) finish_released when the   *)
(*                  accessor goes out of scope                             *)
(*                                                                         *)
(* Client operations (cfg.prog[t][j] = [op, n]); ids travel between        *)
(* threads through a board of cfg.nb slots (H.board), posted atomically    *)
(* with the return of emplace and read atomically with the call of take:   *)
(*    em s    id := emplace(item); board[s] := id                          *)
(*    tk s    take(board[s]) and, if it won, finish                        *)
(*    tr s    take_released(board[s]); if it won the id joins the held list *)
(*    fr k    finish_released(held[k])                                     *)
(* Set-up: items 900+i emplaced in slot i (id (i,0), board[i]) for i < n;  *)
(* the slots in cfg.fr taken and finished.                                 *)
(***************************************************************************)
EXTENDS Ids

\* cfg.smod = 0: the slot version has the full width of the receipt's version (the real code).
\* cfg.smod = m > 0: WHAT-IF model of a slot field narrower than the receipt's version (stored and compared
\* modulo m); used to generate the behaviours in which such a field would make a stale receipt match again
\* (they are replayed into the real code, where the receipt must not match).
Narrow(v) == IF cfg.smod > 0 THEN v % cfg.smod ELSE v

BoxOps == {"em", "tk", "tr", "fr"}

\* the slot of `id` has been handed out again with a later version
Reused(h, id) == \E j \in DOMAIN h.emplaced : j.value = id.value /\ j.version > id.version

BCall(t) ==
  /\ CanCall(t)
  /\ Op(t).op \in BoxOps
  /\ LET o == Op(t)
         l == L[t]
     IN CASE o.op = "em" ->
               /\ Goto(t, "a_hload")
               /\ SetL(t, [l EXCEPT !.aret = "e_vstore", !.snapFree = FreeNow, !.item = t * 100 + l.opi, !.skip = FALSE])
               /\ H' = Enter(H, t)
               /\ ms' = Born(t)
               /\ ev' = [NoEv EXCEPT !.t = t, !.k = "call", !.op = "em", !.n = o.n, !.id = -1, !.item = t * 100 + l.opi]
          [] o.op \in {"tk", "tr"} ->
               IF o.n \notin DOMAIN H.board \/ H.board[o.n] = NONE
               THEN /\ Goto(t, "ret")
                    /\ SetL(t, [l EXCEPT !.skip = TRUE, !.rok = 0, !.item = 0, !.bid = NONE])
                    /\ H' = Enter(H, t)
                    /\ ms' = Born(t)
                    /\ ev' = [NoEv EXCEPT !.t = t, !.k = "call", !.op = o.op, !.n = o.n, !.id = -1]
               ELSE LET id == H.board[o.n]
                        m1 == Born(t)
                    IN /\ Goto(t, "t_cas")
                       /\ SetL(t, [l EXCEPT !.skip = FALSE, !.rok = 0, !.item = 0, !.bid = id])
                       /\ H' = Enter(H, t)
                       \* the id was handed over with synchronisation (release at the post, acquire here)
                       /\ ms' = LoadEff(m1, t, BoardLoc(o.n), Len(m1.mem[BoardLoc(o.n)]), "acq")
                       /\ ev' = [NoEv EXCEPT !.t = t, !.k = "call", !.op = o.op, !.n = o.n, !.id = id.value, !.idh = id.version]
          [] o.op = "fr" ->
               IF o.n + 1 > Len(l.held)
               THEN /\ Goto(t, "ret")
                    /\ SetL(t, [l EXCEPT !.skip = TRUE])
                    /\ H' = Enter(H, t)
                    /\ ms' = Born(t)
                    /\ ev' = [NoEv EXCEPT !.t = t, !.k = "call", !.op = "fr", !.n = o.n, !.id = -1]
               ELSE LET id == l.held[o.n + 1]
                    IN /\ Goto(t, "d_hload")
                       /\ SetL(t, [l EXCEPT !.idv = id.value, !.held = RemoveAt(l.held, o.n + 1), !.aret = "ret", !.skip = FALSE])
                       /\ H' = [Enter(H, t) EXCEPT !.live = @ \ {id.value}]
                       /\ ms' = Born(t)
                       /\ ev' = [NoEv EXCEPT !.t = t, !.k = "call", !.op = "fr", !.n = o.n, !.id = id.value, !.idh = id.version]
  /\ UNCHANGED cfg

\* emplace: slot.version.store(id.version, relaxed), then the item is constructed (no atomic operation)
EVStore(t, M(_)) ==
  /\ pc[t] = "e_vstore"
  /\ DoStore(t, SVer(L[t].res.value), Narrow(L[t].res.version), "box_version_store", M)
  /\ H' = [H EXCEPT !.slotItem[L[t].res.value] = L[t].item]
  /\ Goto(t, "ret")
  /\ UNCHANGED <<cfg, L>>

\* take_released: the compare-exchange on the slot version decides who obtains the item
TCas(t, M(_)) ==
  /\ pc[t] = "t_cas"
  /\ LET id == L[t].bid
     IN DoCas(t, SVer(id.value), Narrow(id.version), Narrow(id.version + 1), "box_take_cas", M,
              LAMBDA ok, old :
                IF ok
                THEN LET item == H.slotItem[id.value]
                         again == id \in H.taken
                         wrong == id \notin DOMAIN H.emplaced \/ (id \in DOMAIN H.emplaced /\ H.emplaced[id] # item)
                     IN /\ SetL(t, [L[t] EXCEPT !.rok = 1, !.item = item, !.seen = old])
                        /\ H' = Flag(Flag([H EXCEPT !.taken = @ \cup {id}],
                                          again /\ ~Reused(H, id), "OneTakerWins"),
                                     (again /\ Reused(H, id)) \/ wrong, "StaleNeverMatches")
                ELSE /\ SetL(t, [L[t] EXCEPT !.rok = 0, !.item = 0, !.seen = old])
                     \* nobody has obtained the item of a valid id, yet this take came back empty
                     /\ H' = Flag(H, id \notin H.taken, "OneTakerWins"))
  /\ Goto(t, "t_got")
  /\ UNCHANGED cfg

\* the caller looks at what it got; a winning take() finishes when the accessor goes out of scope
TGot(t) ==
  /\ pc[t] = "t_got"
  /\ LET l == L[t]
         o == Op(t)
     IN /\ ev' = [NoEv EXCEPT !.t = t, !.k = "got", !.op = o.op, !.n = o.n, !.id = l.bid.value, !.idh = l.bid.version, !.res = l.rok, !.item = l.item]
        /\ IF l.rok = 1 /\ o.op = "tk"
           THEN /\ Goto(t, "d_hload")
                /\ SetL(t, [l EXCEPT !.idv = l.bid.value, !.aret = "ret"])
                /\ H' = [H EXCEPT !.live = @ \ {l.bid.value}]
           ELSE /\ Goto(t, "ret")
                /\ SetL(t, IF l.rok = 1 THEN [l EXCEPT !.held = Append(@, l.bid)] ELSE l)
                /\ UNCHANGED H
  /\ UNCHANGED <<cfg, ms>>

BRet(t) ==
  /\ pc[t] = "ret"
  /\ Op(t).op \in BoxOps
  /\ LET o == Op(t)
         l == L[t]
     IN CASE o.op = "em" ->
               LET id == l.res
               IN /\ H' = Flag(Flag(Flag([Leave(H, t) EXCEPT !.live = @ \cup {id.value},
                                                             !.emplaced = [j \in DOMAIN H.emplaced \cup {id} |-> IF j = id THEN l.item ELSE H.emplaced[j]],
                                                             !.board = IF o.n \in DOMAIN H.board THEN [H.board EXCEPT ![o.n] = id] ELSE H.board],
                                            id.value \in H.live, "LiveIdsUnique"),
                                       ~H.overlap[t] /\ l.snapFree # {} /\ id.value \notin l.snapFree, "ReuseBeforeMint"),
                                  \* the same (value, version) handed out twice: the old receipt matches the new item
                                  id \in DOMAIN H.emplaced, "StaleNeverMatches")
                  /\ ms' = IF o.n \in DOMAIN H.board THEN StoreEff(ms, t, BoardLoc(o.n), 0, "rel", FALSE) ELSE ms
                  /\ ev' = [NoEv EXCEPT !.t = t, !.k = "ret", !.op = "em", !.n = o.n, !.id = id.value, !.idh = id.version, !.item = H.slotItem[id.value]]
          [] o.op \in {"tk", "tr"} ->
               /\ H' = Leave(H, t)
               /\ ms' = ms
               /\ ev' = [NoEv EXCEPT !.t = t, !.k = "ret", !.op = o.op, !.n = o.n, !.id = l.bid.value, !.idh = l.bid.version, !.res = l.rok, !.item = l.item]
          [] o.op = "fr" ->
               /\ H' = Leave(H, t)
               /\ ms' = ms
               /\ ev' = [NoEv EXCEPT !.t = t, !.k = "ret", !.op = "fr", !.n = o.n]
  /\ SetL(t, [L[t] EXCEPT !.opi = @ + 1])
  /\ Goto(t, "idle")
  /\ UNCHANGED cfg

BoxStep(t, M(_)) == IdsStep(t, M) \/ BCall(t) \/ BRet(t) \/ EVStore(t, M) \/ TCas(t, M) \/ TGot(t)

(***************************************************************************)
(* L1 properties (C14, deposit box part)                                   *)
(***************************************************************************)
\* among the takes with one emplace's id exactly one obtains the item
OneTakerWins == "OneTakerWins" \notin H.bad
\* an id whose item was taken never matches again, however often the slot is reused;
\* a match always yields the item of that very emplace
StaleNeverMatches == "StaleNeverMatches" \notin H.bad
\* slot versions only grow, and an open receipt is exactly the slot's version
VersionDiscipline ==
  \A id \in DOMAIN H.emplaced :
     id.value \in IdRange =>
       LET sv == LastVal(ms, SVer(id.value))
       IN IF id \in H.taken THEN sv > id.version
          ELSE (Reused(H, id) => sv > id.version)
=============================================================================
