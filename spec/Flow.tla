-------------------------------- MODULE Flow --------------------------------
(***************************************************************************)
(* L2 (implementation-shaped) specification of babylon::anyflow            *)
(* (src/babylon/anyflow: dependency, vertex, data, closure, graph).        *)
(*                                                                         *)
(* ONE ACTION PER ATOMIC OPERATION of the code (the RMWs of the counter    *)
(* protocol -- dependency.activate fetch_add(+1|+2), dependency.ready      *)
(* fetch_sub, the second fetch_sub of an unmet condition, vertex.activate  *)
(* CAS, vertex.ready fetch_sub, data.acquire / data.release CAS, the       *)
(* closure counters and the callback CAS -- and the loads of               *)
(* GraphData::_closure that race with them), plus one action per schedule  *)
(* point of the driver (processor begin / end, run, finished, wait         *)
(* returned, reset).  The sequential code that follows an atomic operation *)
(* up to the next one runs in the same action (operator Adv): the code is  *)
(* iterative (explicit stacks activating_data / runnable_vertexes) and     *)
(* nested (release -> ready -> recursive_activate -> ... -> invoke -> run  *)
(* -> release), so every thread carries a stack of frames.                 *)
(*                                                                         *)
(* The graph is a CONSTANT OF THE BEHAVIOUR chosen in Init from the        *)
(* generated family (Flow_Graphs.tla): one TLC run quantifies over graphs, *)
(* run configurations (targets, preset, injected data, value kinds) and    *)
(* executors (inplace / pool of W workers taking tasks in any order).      *)
(* Threads: 0 = caller of Graph::run, 1 = external injector, 2.. workers.  *)
(*                                                                         *)
(* The L1 clauses of property C05 are evaluated on the observation points  *)
(* against the sequential interpreter Flow_Abs and collected in H.bad.     *)
(***************************************************************************)
EXTENDS Flow_Abs

CONSTANTS Configs   \* set of [g, x, cycles]

VARIABLES cfg,      \* the configuration of this behaviour
          mem,      \* atomic locations  <<name, a, b>> -> Int
          sh,       \* plain (non-atomic) shared state of graph / closure / driver
          st,       \* st[t]: stack of frames of thread t
          pool,     \* vertices handed to the pool executor and not yet taken
          H,        \* observations for the L1 clauses
          ev        \* ghost: the operation performed by the last step

vars == <<cfg, mem, sh, st, pool, H, ev>>

G == cfg.g
Thr == 0..(1 + cfg.x)
Workers == 2..(1 + cfg.x)
Vs == 1..NV(G)
Ds == 1..G.nd
NDeps(v) == Len(G.deps[v])
Dep(v, i) == G.deps[v][i]
DepIds == {p \in Vs \X (1..2) : p[2] <= NDeps(p[1])}
R == cfg.cycles[H.cyc]
SEALED == -1

\* all dependencies in construction order; the successors of a data in the order add_successor was called
RECURSIVE AllDepsFrom(_, _)
AllDepsFrom(v, i) == IF v > NV(G) THEN <<>>
                     ELSE IF i > NDeps(v) THEN AllDepsFrom(v + 1, 1)
                     ELSE <<<<v, i>>>> \o AllDepsFrom(v, i + 1)
Refers(p, d) == Dep(p[1], p[2]).t = d \/ Dep(p[1], p[2]).c = d
Succ(d) == SelectSeq(AllDepsFrom(1, 1), LAMBDA p : Refers(p, d))

(***************************************************************************)
(* initial values                                                          *)
(***************************************************************************)
Locs == {<<"wdn", 0, 0>>, <<"wvn", 0, 0>>, <<"cb", 0, 0>>}
        \cup {<<n, d, 0>> : n \in {"dclo", "dacq", "dds"}, d \in 1..5}
        \cup {<<n, v, 0>> : n \in {"vact", "vwn"}, v \in 1..3}
        \cup {<<"dwn", v, i>> : v \in 1..3, i \in 1..2}
Mem0 == [x \in Locs |-> IF x[1] \in {"wdn", "wvn"} THEN 1 ELSE 0]

Sh0(c) == [active |-> [d \in 1..c.g.nd |-> FALSE],
           est |-> [p \in (1..3) \X (1..2) |-> FALSE],
           rdy |-> [p \in (1..3) \X (1..2) |-> FALSE],
           vclo |-> [v \in 1..3 |-> FALSE],
           rv |-> [v \in 1..3 |-> <<>>],        \* GraphVertex::_runnable_vertexes: <<thread, frame, epoch>> of the stack it points to
           dval |-> [d \in 1..c.g.nd |-> "_"],
           dempty |-> [d \in 1..c.g.nd |-> TRUE],
           errc |-> 0, fin |-> FALSE, flushed |-> FALSE,
           injgo |-> 0, injdone |-> 0,
           epoch |-> [t \in 0..3 |-> 0]]        \* bumped whenever the stack of thread t becomes empty (dangling detection)

H0 == [cyc |-> 0, began |-> {}, running |-> {}, subm |-> {}, pubs |-> {}, jpub |-> FALSE,
       finSeen |-> FALSE, waited |-> FALSE, code |-> 0, bad |-> {}]

F0 == [pc |-> "", d |-> 0, v |-> 0, i |-> 0, n |-> 0, k |-> 0, stk |-> <<>>, ads |-> <<>>, own |-> 0,
       ret |-> "", src |-> "", res |-> 0, td |-> 0, term |-> "", ext |-> <<>>]
NoEv == [t |-> 0, k |-> "", loc |-> "", i |-> 0, j |-> 0, v |-> 0, a |-> 0, b |-> 0, ok |-> TRUE, site |-> "", mo |-> ""]

InitFor(c) ==
  /\ cfg = c
  /\ mem = Mem0
  /\ sh = Sh0(c)
  /\ st = [t \in 0..(1 + c.x) |-> IF t = 0 THEN << [F0 EXCEPT !.pc = "m_run"] >> ELSE <<>>]
  /\ pool = {}
  /\ H = H0
  /\ ev = NoEv

Init == \E c \in Configs : InitFor(c)

(***************************************************************************)
(* frames                                                                  *)
(***************************************************************************)
Top(fs) == fs[Len(fs)]
SetTop(fs, f) == [fs EXCEPT ![Len(fs)] = f]
Pop(fs) == SubSeq(fs, 1, Len(fs) - 1)
Goto(fs, p) == SetTop(fs, [Top(fs) EXCEPT !.pc = p])
Call(fs, contpc, f) == Append(Goto(fs, contpc), f)
Return(fs, r) == LET p == Pop(fs) IN IF p = <<>> THEN p ELSE SetTop(p, [Top(p) EXCEPT !.res = r])
PushV(fs, own, v) == [fs EXCEPT ![own].stk = Append(@, v)]

EmitFrame(d, src, term) == [F0 EXCEPT !.pc = "e_acq", !.d = d, !.src = src, !.term = term]
RelFrame(d) == [F0 EXCEPT !.pc = "r_load", !.d = d]
DepReadyFrame(p, d, own, ext) == [F0 EXCEPT !.pc = "d_sub1", !.v = p[1], !.i = p[2], !.d = d, !.own = own, !.ext = ext]
ActFrame(d, own, ext) == [F0 EXCEPT !.pc = "a_trig", !.td = d, !.ret = "a_loop", !.own = own, !.ext = ext]
InvokeFrame(v, own) == [F0 EXCEPT !.pc = "i_start", !.v = v, !.own = own]
RunFrame(v) == [F0 EXCEPT !.pc = "x_fload", !.v = v]
MarkFrame(code) == [F0 EXCEPT !.pc = "mf_load", !.k = code]

SilentPCs == {"m_pre", "m_go", "m_bind", "m_actret", "m_loop", "r_succ", "r_loop", "d_actret", "d_fin", "d_setrdy",
              "a_trig", "a_loop", "a_next", "i_start", "i_exec", "x_proc", "x_done", "dn_flush", "m_flush", "ret"}

\* condition value as the code converts it to bool: empty or falsy -> false
CondTruth(s, c) == ~s.sh.dempty[c] /\ cfg.cycles[s.H.cyc].kd[c] = "T"
\* GraphDependency::check_established(): sets _established when it holds (never clears it)
CheckEst(s, v, i) == IF Dep(v, i).c = 0 THEN TRUE ELSE s.sh.est[<<v, i>>] \/ (CondTruth(s, Dep(v, i).c) = Dep(v, i).ev)

\* the runnable stack a frame pushes to: own > 0 -> frame `own` of this thread; own = 0 -> the foreign / dead
\* stack ext = <<thread, frame, epoch>> GraphVertex::_runnable_vertexes still points to: the push is lost
PushRunnable(s, f, v) ==
  IF f.own > 0 THEN [s EXCEPT !.fs = PushV(s.fs, f.own, v)]
  ELSE [s EXCEPT !.H.bad = @ \cup {"DanglingStack"}]

(***************************************************************************)
(* Adv: the sequential code after an atomic operation, up to the next      *)
(* atomic operation / schedule point / blocking point of thread t.         *)
(* s = [fs, sh, H, pool, inj]   (inj: frames to start the injector with)   *)
(***************************************************************************)
PresetTerm(r, d) == IF r.kd[d] = "E" THEN "_" ELSE "p" \o ToString(d)

AdvStep(t, s) ==
  LET fs == s.fs
      f == Top(fs)
      r == cfg.cycles[s.H.cyc]      \* the run configuration of the cycle (s.H: MRun advances the cycle in this very step)
  IN CASE f.pc = "ret" -> [s EXCEPT !.fs = Return(fs, f.res)]
       \* ---- caller of Graph::run: publish the preset data, start the injector, bind + activate the targets
       [] f.pc = "m_pre" ->
            IF f.i <= Len(r.ps)
            THEN [s EXCEPT !.fs = Call(SetTop(fs, [f EXCEPT !.i = f.i + 1]), "m_pre", EmitFrame(r.ps[f.i], "p", PresetTerm(r, r.ps[f.i])))]
            ELSE [s EXCEPT !.fs = Goto(fs, "m_go")]
       [] f.pc = "m_go" ->
            [s EXCEPT !.fs = SetTop(fs, [f EXCEPT !.pc = "m_bind", !.i = 1, !.stk = <<>>]),
                      !.sh.injgo = s.H.cyc,
                      !.sh.injdone = IF r.ij = 0 THEN s.H.cyc ELSE s.sh.injdone,
                      !.inj = IF r.ij = 0 THEN <<>> ELSE << EmitFrame(r.ij, "j", "j" \o ToString(r.ij)) >>]
       [] f.pc = "m_bind" ->
            IF f.i <= Len(r.tg) THEN [s EXCEPT !.fs = SetTop(fs, [f EXCEPT !.pc = "b_faa", !.d = r.tg[f.i]])]
            ELSE [s EXCEPT !.fs = Goto(fs, "m_loop")]
       [] f.pc = "m_actret" ->
            IF f.res # 0 THEN [s EXCEPT !.fs = Call(fs, "f_dsub", MarkFrame(-1))]       \* context->finish(-1); fire(); return
            ELSE [s EXCEPT !.fs = SetTop(fs, [f EXCEPT !.pc = "m_bind", !.i = f.i + 1])]
       [] f.pc = "m_loop" ->
            IF f.stk # <<>>
            THEN [s EXCEPT !.fs = Call(SetTop(fs, [f EXCEPT !.stk = Pop(f.stk)]), "m_loop", InvokeFrame(Top(f.stk), Len(fs)))]
            ELSE [s EXCEPT !.fs = Goto(fs, "f_dsub")]
       \* ---- GraphData::release after the CAS: notify the successors, then run what became runnable
       [] f.pc = "r_succ" ->
            LET sc == Succ(f.d)
                p == Prod(G, f.d)
                rvp == IF p = 0 THEN <<>> ELSE s.sh.rv[p]
                \* trivial_runnable_vertexes: the stack the producer's invoke recorded
                mine == rvp # <<>> /\ rvp[1] = t /\ rvp[3] = s.sh.epoch[t] /\ rvp[2] < Len(fs)
                own == IF rvp = <<>> THEN Len(fs) ELSE IF mine THEN rvp[2] ELSE 0
            IN IF f.i < Len(sc)
               THEN [s EXCEPT !.fs = Call(SetTop(fs, [f EXCEPT !.i = f.i + 1]), "r_succ", DepReadyFrame(sc[f.i + 1], f.d, own, rvp))]
               ELSE [s EXCEPT !.fs = Goto(fs, "r_loop")]
       [] f.pc = "r_loop" ->
            IF f.stk # <<>>
            THEN [s EXCEPT !.fs = Call(SetTop(fs, [f EXCEPT !.stk = Pop(f.stk)]), "r_loop", InvokeFrame(Top(f.stk), Len(fs)))]
            ELSE [s EXCEPT !.fs = Return(fs, 0)]
       \* ---- GraphDependency::ready
       [] f.pc = "d_actret" ->
            IF f.res # 0 THEN [s EXCEPT !.fs = Call(fs, "ret", MarkFrame(f.res))]      \* closure()->finish(rec_ret); return
            ELSE [s EXCEPT !.fs = Goto(fs, "d_fin")]
       [] f.pc = "d_fin" ->
            LET dep == Dep(f.v, f.i) IN
            IF f.n # 0 THEN [s EXCEPT !.fs = Return(fs, 0)]
            ELSE IF f.d = dep.t
                 THEN [s EXCEPT !.fs = Goto(fs, "d_chk2")]
                 ELSE IF s.sh.est[<<f.v, f.i>>] THEN [s EXCEPT !.fs = Goto(fs, "d_tload")]
                      ELSE [s EXCEPT !.sh.rdy[<<f.v, f.i>>] = FALSE, !.fs = Goto(fs, "d_vsub")]
       \* ---- GraphData::recursive_activate / GraphVertex::activate / GraphDependency::activate
       [] f.pc = "a_trig" ->      \* GraphData::trigger(td): mark_active, then (if it was not) test ready
            IF s.sh.active[f.td] THEN [s EXCEPT !.fs = Goto(fs, f.ret)]
            ELSE [s EXCEPT !.sh.active[f.td] = TRUE, !.fs = Goto(fs, "t_load")]
       [] f.pc = "a_loop" ->
            IF f.ads = <<>> THEN [s EXCEPT !.fs = Return(fs, 0)]
            ELSE LET x == Top(f.ads) IN
                 IF Prod(G, x) = 0 THEN [s EXCEPT !.fs = Return(fs, -1)]
                 ELSE [s EXCEPT !.fs = SetTop(fs, [f EXCEPT !.ads = Pop(f.ads), !.v = Prod(G, x), !.pc = "v_cas"])]
       [] f.pc = "a_next" ->
            IF f.i < NDeps(f.v) THEN [s EXCEPT !.fs = SetTop(fs, [f EXCEPT !.i = f.i + 1, !.pc = "da_faa"])]
            ELSE IF f.n > 0 THEN [s EXCEPT !.fs = Goto(fs, "v_fsub")]
            ELSE [s EXCEPT !.fs = Goto(fs, "a_loop")]
       \* ---- GraphVertex::invoke
       [] f.pc = "i_start" ->
            LET essfail == \E i \in 1..NDeps(f.v) : Dep(f.v, i).ess /\ (~s.sh.rdy[<<f.v, i>>] \/ s.sh.dempty[Dep(f.v, i).t])
            IN IF essfail
               THEN [s EXCEPT !.sh.rv[f.v] = <<t, f.own, s.sh.epoch[t]>>,
                              !.fs = SetTop(fs, [f EXCEPT !.pc = "fl_load", !.ret = "ret", !.res = 0])]
               ELSE [s EXCEPT !.fs = Goto(fs, "i_vadd")]
       [] f.pc = "i_exec" ->
            IF cfg.x = 0 THEN [s EXCEPT !.fs = Call(fs, "ret", RunFrame(f.v))]
            ELSE [s EXCEPT !.pool = @ \cup {f.v}, !.fs = Return(fs, 0)]
       \* ---- GraphVertex::run / GraphProcessor::process / GraphVertexClosure::done
       [] f.pc = "x_proc" ->      \* after vbegin: the processor publishes its value (unless it fails / publishes nothing)
            IF f.v \in SeqSet(r.fl) \/ r.kd[f.v] = "E" THEN [s EXCEPT !.fs = Goto(fs, "p_end")]
            ELSE [s EXCEPT !.fs = Call(fs, "p_end", EmitFrame(f.v, "v", f.term))]
       [] f.pc = "x_done" ->      \* closure.done(code)
            IF f.k # 0 THEN [s EXCEPT !.fs = Call(fs, "dn_vsub", MarkFrame(f.k))]
            ELSE [s EXCEPT !.fs = SetTop(fs, [f EXCEPT !.pc = "fl_load", !.ret = "dn_vsub"])]
       [] f.pc = "dn_flush" ->    \* notify_flush
            [s EXCEPT !.sh.flushed = TRUE, !.fs = Return(fs, 0)]
       [] f.pc = "m_flush" ->     \* notify_flush at the end of fire()
            [s EXCEPT !.sh.flushed = TRUE, !.fs = Goto(fs, "m_get")]
       [] OTHER -> s

RECURSIVE Adv(_, _)
Adv(t, s) == IF s.fs = <<>> \/ Top(s.fs).pc \notin SilentPCs THEN s ELSE Adv(t, AdvStep(t, s))

(***************************************************************************)
(* atomic operations: each yields the new memory, the continuation of the  *)
(* thread (before Adv) and the ghost event                                 *)
(***************************************************************************)
Ev(t, k, x, site, mo, old, a, b, ok) ==
  [NoEv EXCEPT !.t = t, !.k = k, !.loc = x[1], !.i = x[2], !.j = x[3], !.v = old, !.a = a, !.b = b, !.ok = ok, !.site = site, !.mo = mo]

S0(t) == [fs |-> st[t], sh |-> sh, H |-> H, pool |-> pool, inj |-> <<>>]

\* commit a step of thread t: memory m, bundle s (before the sequential continuation), event e
Commit(t, m, s0, e) ==
  LET s == Adv(t, s0)
      emptied == s.fs = <<>> /\ st[t] # <<>>
      sh1 == IF emptied THEN [s.sh EXCEPT !.epoch[t] = (@ + 1) % 4, !.injdone = IF t = 1 THEN s.sh.injgo ELSE @] ELSE s.sh
  IN /\ mem' = m
     /\ st' = [u \in DOMAIN st |-> IF u = t THEN s.fs ELSE IF u = 1 /\ s.inj # <<>> THEN s.inj ELSE st[u]]
     /\ sh' = sh1
     /\ H' = s.H
     /\ pool' = s.pool
     /\ ev' = e
     /\ UNCHANGED cfg

Faa(t, x, a, site, M(_), K(_, _)) ==     \* K(old, bundle) -> bundle
  LET old == mem[x] IN Commit(t, [mem EXCEPT ![x] = old + a], K(old, S0(t)), Ev(t, "faa", x, site, M(site), old, a, 0, TRUE))
Xchg(t, x, a, site, M(_), K(_, _)) ==
  LET old == mem[x] IN Commit(t, [mem EXCEPT ![x] = a], K(old, S0(t)), Ev(t, "xchg", x, site, M(site), old, a, 0, TRUE))
Cas(t, x, e, d, site, M(_), K(_, _, _)) ==  \* K(ok, old, bundle)
  LET old == mem[x] IN
  IF old = e THEN Commit(t, [mem EXCEPT ![x] = d], K(TRUE, old, S0(t)), Ev(t, "cas", x, site, M(site), old, e, d, TRUE))
  ELSE Commit(t, mem, K(FALSE, old, S0(t)), Ev(t, "cas", x, site, M(site), old, e, d, FALSE))
Load(t, x, site, M(_), K(_, _)) ==
  LET old == mem[x] IN Commit(t, mem, K(old, S0(t)), Ev(t, "load", x, site, M(site), old, 0, 0, TRUE))
Store(t, x, a, site, M(_), K(_)) ==
  Commit(t, [mem EXCEPT ![x] = a], K(S0(t)), Ev(t, "store", x, site, M(site), a, 0, 0, TRUE))

L(n, a, b) == <<n, a, b>>
WithFs(s, fs) == [s EXCEPT !.fs = fs]
FlagH(s, b, name) == IF b THEN [s EXCEPT !.H.bad = @ \cup {name}] ELSE s

(***************************************************************************)
(* the step of thread t whose top frame waits at an atomic operation       *)
(***************************************************************************)
AStep(t, M(_)) ==
  LET fs == st[t]
      f == Top(fs)
      dep == Dep(f.v, f.i)
  IN
  CASE \* ---- Committer: GraphData::acquire, write the value, release
       f.pc = "e_acq" ->
         Cas(t, L("dacq", f.d, 0), 0, 1, "data_acquire_cas", M,
             LAMBDA ok, old, s :
               IF ok THEN LET s1 == [s EXCEPT !.sh.dval[f.d] = f.term, !.sh.dempty[f.d] = (f.term = "_"),
                                              !.H.pubs = @ \cup {<<f.d, f.src, f.term>>},
                                              !.H.jpub = @ \/ f.src = "j",
                                              !.fs = SetTop(fs, [RelFrame(f.d) EXCEPT !.src = f.src])]
                          IN FlagH(s1, \E p \in s.H.pubs : p[1] = f.d, "PublishedOnce")
               ELSE WithFs(s, Return(fs, 0)))
    [] f.pc = "r_load" ->
         Load(t, L("dclo", f.d, 0), "release_closure_load", M,
              LAMBDA old, s : IF old = SEALED THEN WithFs(s, Return(fs, 0))
                              ELSE WithFs(s, SetTop(fs, [f EXCEPT !.pc = "r_cas", !.k = old])))
    [] f.pc = "r_cas" ->
         Cas(t, L("dclo", f.d, 0), f.k, SEALED, "release_closure_cas", M,
             LAMBDA ok, old, s :
               IF ok THEN WithFs(s, SetTop(fs, [f EXCEPT !.pc = IF f.k # 0 THEN "r_dsub" ELSE "r_succ", !.i = 0]))
               ELSE IF old = SEALED THEN FlagH(WithFs(s, Return(fs, 0)), TRUE, "PublishedOnce")
               ELSE WithFs(s, SetTop(fs, [f EXCEPT !.k = old])))
    [] f.pc = "r_dsub" ->
         Faa(t, L("wdn", 0, 0), -1, "closure_data_sub", M,
             LAMBDA old, s : IF old - 1 = 0 THEN WithFs(s, Call(fs, "r_succ", MarkFrame(0)))
                             ELSE WithFs(s, Goto(fs, "r_succ")))
       \* ---- GraphDependency::ready
    [] f.pc = "d_sub1" ->
         Faa(t, L("dwn", f.v, f.i), -1, "dep_ready_sub", M,
             LAMBDA old, s :
               LET n == old - 1
                   g == [f EXCEPT !.n = n]
               IN WithFs(s, SetTop(fs, [g EXCEPT !.pc = IF f.d = dep.c THEN "d_chk" ELSE "d_fin"])))
    [] f.pc = "d_sub2" ->
         Faa(t, L("dwn", f.v, f.i), -1, "dep_unmet_sub", M,
             LAMBDA old, s : WithFs(s, SetTop(fs, [f EXCEPT !.n = old - 1, !.pc = "d_fin"])))
    [] f.pc = "d_xchg" ->
         Xchg(t, L("dds", dep.t, 0), 1, "depend_state_xchg", M,
              LAMBDA old, s : WithFs(s, Call(fs, "d_actret", ActFrame(dep.t, f.own, f.ext))))
    [] f.pc = "d_tload" ->
         Load(t, L("dclo", dep.t, 0), "dep_ready_target_load", M,
              LAMBDA old, s : [s EXCEPT !.sh.rdy[<<f.v, f.i>>] = (old = SEALED), !.fs = Goto(fs, "d_vsub")])
    [] f.pc = "d_vsub" ->
         Faa(t, L("vwn", f.v, 0), -1, "vertex_ready_sub", M,
             LAMBDA old, s : LET s1 == WithFs(s, Return(fs, 0))
                             IN IF old = 1 THEN PushRunnable(s1, f, f.v) ELSE s1)
       \* ---- trigger / activate
    [] f.pc = "t_load" ->
         Load(t, L("dclo", f.td, 0), "trigger_ready_load", M,
              LAMBDA old, s : WithFs(s, SetTop(fs, [f EXCEPT !.pc = f.ret, !.ads = IF old = SEALED THEN @ ELSE Append(@, f.td)])))
    [] f.pc = "v_cas" ->
         Cas(t, L("vact", f.v, 0), 0, 1, "vertex_activate_cas", M,
             LAMBDA ok, old, s :
               IF ~ok THEN WithFs(s, Goto(fs, "a_loop"))
               ELSE LET s1 == [s EXCEPT !.sh.vclo[f.v] = TRUE]
                    IN IF NDeps(f.v) = 0 THEN PushRunnable(WithFs(s1, Goto(fs, "a_loop")), f, f.v)
                       ELSE WithFs(s1, Goto(fs, "v_store")))
    [] f.pc = "v_store" ->
         Store(t, L("vwn", f.v, 0), NDeps(f.v), "vertex_waiting_store", M,
               LAMBDA s : WithFs(s, SetTop(fs, [f EXCEPT !.pc = "da_faa", !.i = 1, !.n = 0])))
    [] f.pc = "da_faa" ->
         LET k == IF dep.c = 0 THEN 1 ELSE 2 IN
         Faa(t, L("dwn", f.v, f.i), k, "dep_activate_add", M,
             LAMBDA old, s :
               LET n == old + k
                   nxt(g) == SetTop(fs, [g EXCEPT !.pc = "a_next"])
               IN CASE n = -1 -> WithFs(s, nxt([f EXCEPT !.n = f.n + 1]))
                    [] n = 0 -> WithFs(s, Goto(fs, "da_chk0"))
                    [] n = 1 -> IF dep.c = 0 THEN [s EXCEPT !.sh.est[<<f.v, f.i>>] = TRUE, !.fs = Goto(fs, "da_xchg1")]
                                ELSE WithFs(s, Goto(fs, "da_cload"))
                    [] n = 2 -> WithFs(s, SetTop(fs, [f EXCEPT !.pc = "a_trig", !.td = dep.c, !.ret = "a_next"]))
                    [] OTHER -> WithFs(s, nxt(f)))
    [] f.pc = "da_xchg0" ->
         Xchg(t, L("dds", dep.t, 0), 1, "depend_state_xchg", M, LAMBDA old, s : WithFs(s, Goto(fs, "da_tload0")))
    [] f.pc = "da_tload0" ->
         Load(t, L("dclo", dep.t, 0), "dep_activate_target_load", M,
              LAMBDA old, s : [s EXCEPT !.sh.rdy[<<f.v, f.i>>] = (old = SEALED),
                                        !.fs = SetTop(fs, [f EXCEPT !.pc = "a_next", !.n = f.n + 1])])
    [] f.pc = "da_xchg1" ->
         Xchg(t, L("dds", dep.t, 0), 1, "depend_state_xchg", M,
              LAMBDA old, s : WithFs(s, SetTop(fs, [f EXCEPT !.pc = "a_trig", !.td = dep.t, !.ret = "a_next"])))
    [] f.pc = "da_cload" ->
         Load(t, L("dclo", dep.c, 0), "dep_activate_condition_load", M,
              LAMBDA old, s :
                IF old # SEALED THEN WithFs(s, SetTop(fs, [f EXCEPT !.pc = "a_trig", !.td = dep.c, !.ret = "a_next"]))
                ELSE WithFs(s, Goto(fs, "da_chk1")))
    [] f.pc = "v_fsub" ->
         Faa(t, L("vwn", f.v, 0), -f.n, "vertex_finished_sub", M,
             LAMBDA old, s : LET s1 == WithFs(s, Goto(fs, "a_loop"))
                             IN IF old - f.n = 0 THEN PushRunnable(s1, f, f.v) ELSE s1)
       \* ---- invoke / run
    [] f.pc = "i_vadd" ->
         Faa(t, L("wvn", 0, 0), 1, "closure_vertex_add", M,
             LAMBDA old, s : FlagH([s EXCEPT !.H.subm = @ \cup {f.v}, !.fs = Goto(fs, "i_exec")], s.H.waited /\ (s.H.code = 0 \/ R.ij = 0), "QuiescentAfterWait"))
    [] f.pc = "x_fload" ->
         Load(t, L("cb", 0, 0), "run_finished_load", M,
              LAMBDA old, s : IF old = SEALED THEN WithFs(s, SetTop(fs, [f EXCEPT !.pc = "x_done", !.k = 0]))
                              ELSE WithFs(s, Goto(fs, "p_begin")))
    [] f.pc = "fl_load" ->
         Load(t, L("dclo", f.v, 0), "flush_ready_load", M,
              LAMBDA old, s : IF old = SEALED THEN WithFs(s, Goto(fs, f.ret))
                              ELSE WithFs(s, Call(fs, f.ret, EmitFrame(f.v, "a", "_"))))
    [] f.pc = "dn_vsub" ->
         Faa(t, L("wvn", 0, 0), -1, "closure_vertex_sub", M,
             LAMBDA old, s : LET s1 == [s EXCEPT !.H.subm = @ \ {f.v}]
                             IN IF old - 1 = 0 THEN WithFs(s1, Call(fs, "dn_flush", MarkFrame(-1)))
                                ELSE WithFs(s1, Return(fs, 0)))
       \* ---- ClosureContext::mark_finished
    [] f.pc = "mf_load" ->
         Load(t, L("cb", 0, 0), "mark_finished_load", M,
              LAMBDA old, s : IF old = SEALED THEN WithFs(s, Return(fs, 0)) ELSE WithFs(s, Goto(fs, "mf_cas")))
    [] f.pc = "mf_cas" ->
         Cas(t, L("cb", 0, 0), 0, SEALED, "mark_finished_cas", M,
             LAMBDA ok, old, s : IF ok THEN [s EXCEPT !.sh.errc = f.k, !.sh.fin = TRUE, !.fs = Return(fs, 1)]
                                 ELSE WithFs(s, Return(fs, 0)))
       \* ---- Graph::run: bind, fire
    [] f.pc = "b_faa" ->
         Faa(t, L("wdn", 0, 0), 1, "closure_data_add", M, LAMBDA old, s : WithFs(s, Goto(fs, "b_cas")))
    [] f.pc = "b_cas" ->
         Cas(t, L("dclo", f.d, 0), 0, 1, "bind_closure_cas", M,
             LAMBDA ok, old, s : IF ok THEN WithFs(s, Call(fs, "m_actret", ActFrame(f.d, Len(fs), <<>>)))
                                 ELSE WithFs(s, Goto(fs, "b_sub")))
    [] f.pc = "b_sub" ->
         Faa(t, L("wdn", 0, 0), -1, "closure_data_sub", M,
             LAMBDA old, s : LET g == [f EXCEPT !.pc = "m_bind", !.i = f.i + 1]
                             IN IF old - 1 = 0 THEN WithFs(s, Append(SetTop(fs, g), MarkFrame(0))) ELSE WithFs(s, SetTop(fs, g)))
    [] f.pc = "f_dsub" ->
         Faa(t, L("wdn", 0, 0), -1, "closure_data_sub", M,
             LAMBDA old, s : IF old - 1 = 0 THEN WithFs(s, Call(fs, "f_vsub", MarkFrame(0))) ELSE WithFs(s, Goto(fs, "f_vsub")))
    [] f.pc = "f_vsub" ->
         Faa(t, L("wvn", 0, 0), -1, "closure_vertex_sub", M,
             LAMBDA old, s : IF old - 1 = 0 THEN WithFs(s, Call(fs, "m_flush", MarkFrame(-1)))
                             ELSE WithFs(s, Goto(fs, "m_get")))

(***************************************************************************)
(* GraphDependency::check_established(): reads the condition's value and   *)
(* sets _established -- plain accesses, but a step of its own: between the *)
(* decrement of _waiting_num and this evaluation other threads move (the   *)
(* driver makes the entry of check_established a schedule point, event     *)
(* "pt").  The thread that takes the counter to its terminal value may     *)
(* therefore not rely on another thread's _established being written yet.  *)
(***************************************************************************)
ChkPCs == {"d_chk", "d_chk2", "da_chk0", "da_chk1"}
PtStep(t) ==
  /\ st[t] # <<>> /\ Top(st[t]).pc \in ChkPCs
  /\ LET fs == st[t]
         f == Top(fs)
         s == S0(t)
         e == CheckEst(s, f.v, f.i)
         s1 == [s EXCEPT !.sh.est[<<f.v, f.i>>] = e]
         s2 == CASE f.pc = "d_chk" ->      \* ready(): the condition was delivered
                      WithFs(s1, Goto(fs, IF e THEN (IF f.n = 1 THEN "d_xchg" ELSE "d_fin") ELSE (IF f.n # 0 THEN "d_sub2" ELSE "d_fin")))
                 [] f.pc = "d_chk2" ->     \* ready(): the target completed the dependency: _ready = check_established()
                      [s1 EXCEPT !.sh.rdy[<<f.v, f.i>>] = e, !.fs = Goto(fs, "d_vsub")]
                 [] f.pc = "da_chk0" ->    \* activate(): everything was delivered before
                      IF e THEN WithFs(s1, Goto(fs, "da_xchg0")) ELSE WithFs(s1, SetTop(fs, [f EXCEPT !.pc = "a_next", !.n = f.n + 1]))
                 [] f.pc = "da_chk1" ->    \* activate(): the condition is ready, the target is not
                      IF e THEN WithFs(s1, Goto(fs, "da_xchg1")) ELSE WithFs(s1, Goto(fs, "a_next"))
     IN Commit(t, mem, s2, [NoEv EXCEPT !.t = t, !.k = "pt"])

AtomicPCs == {"e_acq", "r_load", "r_cas", "r_dsub", "d_sub1", "d_sub2", "d_xchg", "d_tload", "d_vsub", "t_load", "v_cas", "v_store",
              "da_faa", "da_xchg0", "da_tload0", "da_xchg1", "da_cload", "v_fsub", "i_vadd", "x_fload", "fl_load", "dn_vsub",
              "mf_load", "mf_cas", "b_faa", "b_cas", "b_sub", "f_dsub", "f_vsub"}

(***************************************************************************)
(* schedule points of the driver (no memory operation)                     *)
(***************************************************************************)
Event(t, k, v, a) == [NoEv EXCEPT !.t = t, !.k = k, !.v = v, !.a = a]

\* main: a new cycle begins (a fresh closure: counters 1 / 1, no callback)
MRun(t) ==
  /\ t = 0 /\ st[0] # <<>> /\ Top(st[0]).pc = "m_run"
  /\ H.cyc < Len(cfg.cycles)
  /\ LET h == [H0 EXCEPT !.cyc = H.cyc + 1, !.bad = H.bad]
         s == [fs |-> << [F0 EXCEPT !.pc = "m_pre", !.i = 1] >>, sh |-> sh, H |-> h, pool |-> pool, inj |-> <<>>]
     IN Commit(0, mem, s, Event(0, "run", H.cyc + 1, 0))

\* what the processor sees through its dependencies (GraphDependency::value)
SeenIn(v, i) == IF sh.rdy[<<v, i>>] /\ ~sh.dempty[Dep(v, i).t] THEN sh.dval[Dep(v, i).t] ELSE "_"

PBegin(t) ==
  /\ st[t] # <<>> /\ Top(st[t]).pc = "p_begin"
  /\ LET f == Top(st[t])
         v == f.v
         pi == H.jpub
         ins == [i \in 1..NDeps(v) |-> SeenIn(v, i)]
         depok(i) == LET dep == Dep(v, i)
                         holds == HoldsD(G, R, pi, dep)
                     IN /\ (dep.c # 0 => mem[<<"dclo", dep.c, 0>>] = SEALED)
                        /\ (holds => mem[<<"dclo", dep.t, 0>>] = SEALED /\ sh.rdy[<<v, i>>])
                        /\ ins[i] = InputOf(G, R, pi, dep)
         bad == (IF v \in H.began THEN {"RunAtMostOnce"} ELSE {})
                \cup (IF v \notin RunSetAny(G, R) THEN {"OnlyNeededRun"} ELSE {})
                \cup (IF \E i \in 1..NDeps(v) : ~depok(i) THEN {"RunOnlyAfterDepsReady"} ELSE {})
         term == "f" \o ToString(v) \o "(" \o JoinArgs(ins, 1) \o ")"
         s == [S0(t) EXCEPT !.H.began = @ \cup {v}, !.H.running = @ \cup {v}, !.H.bad = @ \cup bad,
                            !.fs = SetTop(st[t], [f EXCEPT !.pc = "x_proc", !.term = term])]
     IN Commit(t, mem, s, Event(t, "vbegin", v, 0))

PEnd(t) ==
  /\ st[t] # <<>> /\ Top(st[t]).pc = "p_end"
  /\ LET f == Top(st[t])
         code == IF f.v \in SeqSet(R.fl) THEN -7 ELSE 0
         s == [S0(t) EXCEPT !.H.running = @ \ {f.v}, !.fs = SetTop(st[t], [f EXCEPT !.pc = "x_done", !.k = code])]
     IN Commit(t, mem, s, Event(t, "vend", f.v, code))

ValNow(d) == IF sh.dempty[d] THEN "_" ELSE sh.dval[d]

\* closure.get() returned
MGet(t) ==
  /\ t = 0 /\ st[0] # <<>> /\ Top(st[0]).pc = "m_get" /\ sh.fin
  /\ LET pi == H.jpub
         okv == \A k \in DOMAIN R.tg : mem[<<"dclo", R.tg[k], 0>>] = SEALED /\ ValNow(R.tg[k]) = ValD(G, R, pi, R.tg[k])
         bad == (IF sh.errc = 0 /\ ~okv THEN {"SuccessImpliesL1Values"} ELSE {})
                \cup (IF sh.errc # 0 /\ ~ErrOKAny(G, R) THEN {"ErrorJustified"} ELSE {})
         s == [S0(0) EXCEPT !.H.finSeen = TRUE, !.H.code = sh.errc, !.H.bad = @ \cup bad, !.fs = Goto(st[0], "m_wait")]
     IN Commit(0, mem, s, Event(0, "fin", 0, sh.errc))

\* closure.wait() returned
MWait(t) ==
  /\ t = 0 /\ st[0] # <<>> /\ Top(st[0]).pc = "m_wait" /\ sh.flushed
  \* (a run that failed while another thread was still publishing one of its inputs is over: what that late input
  \*  starts afterwards is outside the property)
  /\ LET bad == IF (H.running # {} \/ H.subm # {}) /\ (H.code = 0 \/ R.ij = 0) THEN {"WaitReturnsAfterAllFinished"} ELSE {}
         s == [S0(0) EXCEPT !.H.waited = TRUE, !.H.bad = @ \cup bad, !.fs = Goto(st[0], "m_reset")]
     IN Commit(0, mem, s, Event(0, "waitret", 0, 0))

Quiet == st[1] = <<>> /\ sh.injdone >= H.cyc /\ pool = {} /\ \A w \in Workers : st[w] = <<>>

\* the injector is done and the pool is drained: quiescent observation, Graph::reset()
MReset(t) ==
  /\ t = 0 /\ st[0] # <<>> /\ Top(st[0]).pc = "m_reset" /\ Quiet
  /\ LET pi == H.jpub
         held == \A p \in H.pubs : mem[<<"dclo", p[1], 0>>] = SEALED /\ ValNow(p[1]) = p[3]
         bad == (IF ~held THEN {"PublishedOnce"} ELSE {})
                \cup (IF ~(H.began \subseteq RunSet(G, R, pi)) THEN {"OnlyNeededRun"} ELSE {})
         c == cfg
     IN /\ mem' = Mem0
        /\ sh' = [Sh0(c) EXCEPT !.injgo = sh.injgo, !.injdone = sh.injdone, !.epoch = sh.epoch]
        /\ st' = [st EXCEPT ![0] = << [F0 EXCEPT !.pc = IF H.cyc < Len(cfg.cycles) THEN "m_run" ELSE "m_done"] >>]
        /\ H' = [H EXCEPT !.bad = @ \cup bad]
        /\ ev' = Event(0, "greset", 0, 0)
        /\ UNCHANGED <<cfg, pool>>

\* a worker takes any task: the first operation of GraphVertex::run is the finished() load
Take(t, M(_)) ==
  /\ t \in Workers /\ st[t] = <<>>
  /\ \E v \in pool :
       LET fs == << RunFrame(v) >>
           f == Top(fs)
           old == mem[<<"cb", 0, 0>>]
           s == [fs |-> IF old = SEALED THEN SetTop(fs, [f EXCEPT !.pc = "x_done", !.k = 0]) ELSE Goto(fs, "p_begin"),
                 sh |-> sh, H |-> H, pool |-> pool \ {v}, inj |-> <<>>]
       IN Commit(t, mem, s, Ev(t, "load", <<"cb", 0, 0>>, "run_finished_load", M("run_finished_load"), old, 0, 0, TRUE))

Step(t, M(_)) ==
  \/ (st[t] # <<>> /\ Top(st[t]).pc \in AtomicPCs /\ AStep(t, M))
  \/ PtStep(t) \/ MRun(t) \/ PBegin(t) \/ PEnd(t) \/ MGet(t) \/ MWait(t) \/ MReset(t) \/ Take(t, M)

AllDone == st[0] # <<>> /\ Top(st[0]).pc = "m_done"

(***************************************************************************)
(* L1 clauses of C05 (evaluated against Flow_Abs at the observation points)*)
(***************************************************************************)
RunAtMostOnce == "RunAtMostOnce" \notin H.bad
RunOnlyAfterDepsReady == "RunOnlyAfterDepsReady" \notin H.bad
OnlyNeededRun == "OnlyNeededRun" \notin H.bad
PublishedOnce == "PublishedOnce" \notin H.bad
SuccessImpliesL1Values == "SuccessImpliesL1Values" \notin H.bad
ErrorJustified == "ErrorJustified" \notin H.bad
WaitReturnsAfterAllFinished == "WaitReturnsAfterAllFinished" \notin H.bad
QuiescentAfterWait == "QuiescentAfterWait" \notin H.bad
NoDanglingStack == "DanglingStack" \notin H.bad
\* counters stay in the documented ranges
CounterRange == /\ \A p \in DepIds : mem[<<"dwn", p[1], p[2]>>] \in -3..2
                /\ mem[<<"wdn", 0, 0>>] >= 0 /\ mem[<<"wvn", 0, 0>>] >= 0
\* Terminates (safety half): whenever nothing can move any more the run is over -- checked as TLC deadlock
\* (Next has the stuttering step only in AllDone)
=============================================================================
