--------------------------- MODULE Counters_Trace ---------------------------
(***************************************************************************)
(* Trace validation for C19.  Each line of the (normalised) ndjson file is *)
(* one API call the driver performed on the REAL babylon classes, with the *)
(* result the real code returned.  The line selects the Counters action    *)
(* with the same arguments; then                                           *)
(*   - the L1 clauses are evaluated with the OBSERVED result against the   *)
(*     ghost history (g, used, and the observed slot / address maps): a    *)
(*     failing clause is recorded in `bad` (-> V1 verdict),                *)
(*   - the model's own prediction (instance id, offset, storage index,     *)
(*     thread id, value, visited slots, cells) is compared with what the   *)
(*     code did: a difference is recorded in `drift` (SPEC-DRIFT, never a  *)
(*     violation).                                                         *)
(* Nothing stops the validation: all executions of the file are judged in  *)
(* one run; the verdict is printed by the post-condition as                *)
(*   <<"VERIF", lines explained, lines, {<<clause, "L<line>">>, ...}>>.    *)
(***************************************************************************)
EXTENDS Counters, Json, IOUtils

Tr == ndJsonDeserialize(IOEnv.TRACE)

VARIABLES l,       \* next line to explain
          oslot,   \* [Thr -> slot index observed for the thread (-1: none yet)]
          oaddr,   \* [Lcs -> [Thr -> address observed at the first local() (0: none yet)]]
          bad,     \* {<<clause, "L<line>">>}  L1 clauses falsified by the real code
          drift    \* {<<what, "L<line>">>}    model prediction # code

tvars == <<vars, l, oslot, oaddr, bad, drift>>

M3 == -3
Tag == "L" \o ToString(l)
Fails(S) == {<<c[1], Tag>> : c \in {x \in S : ~x[2]}}
Obs(e) == [r1 |-> e.r1, r2 |-> e.r2, has |-> e.has]

TInit ==
  /\ l = 2 /\ Tr[1].k = "reset"
  /\ InitFor(Tr[1].kind, Tr[1].npl)
  /\ oslot = [t \in Thr |-> -1]
  /\ oaddr = [lc \in Lcs |-> [t \in Thr |-> 0]]
  /\ bad = {} /\ drift = {}
  /\ TLCSet(1, 1) /\ TLCSet(2, {})

Keep == UNCHANGED <<oslot, oaddr>>

TReset(e) ==
  /\ kind' = e.kind /\ npl' = e.npl
  /\ tst' = I0.tst /\ tid' = I0.tid /\ talloc' = I0.alloc /\ ialloc' = I0.alloc
  /\ obj' = I0.obj /\ stor' = I0.stor /\ cache' = I0.cache /\ nextEid' = 1 /\ nextLc' = 1
  /\ g' = I0.g /\ used' = I0.used /\ faddr' = I0.faddr
  /\ pend' = I0.pend /\ rd' = NoRd /\ cseq' = I0.cseq /\ cdone' = I0.cdone /\ dt' = NoDt /\ ev' = NoEv
  /\ oslot' = [t \in Thr |-> -1] /\ oaddr' = [lc \in Lcs |-> [t \in Thr |-> 0]]
  /\ UNCHANGED <<bad, drift>>

TCreate(e) ==
  /\ IF e.k = "create" THEN Create(e.o) ELSE MoveCtor(e.o, e.p)
  /\ Keep
  /\ bad' = bad \cup (IF e.k = "create" THEN Fails({<<"NewCounterStartsAtZero", StartsAtZeroOK(Obs(e))>>}) ELSE {})
  /\ drift' = drift \cup
       (IF e.k = "create" /\ ~IsEtl
        THEN Fails({<<"Drift_ident", obj'[e.o].iid = e.iid /\ obj'[e.o].off = e.off /\ obj'[e.o].st = e.sidx>>})
        ELSE {})

TLocal(e) ==
  LET lc == obj[e.o].lc
  IN /\ IF e.k = "count" THEN Count(e.t, e.o, e.v) ELSE Local(e.t, e.o)
     /\ oslot' = [oslot EXCEPT ![e.t] = e.tid]
     /\ oaddr' = [oaddr EXCEPT ![lc][e.t] = IF @ = 0 THEN e.addr ELSE @]
     /\ bad' = bad \cup Fails({<<"LocalIsPrivateAndStable", StableOK(oaddr, lc, e.t, e.addr, 0) /\ PrivateOK(oaddr, lc, e.t, e.addr)>>})
     /\ drift' = drift \cup Fails({<<"Drift_tid", tid'[e.t] = e.tid>>})

TValue(e) ==
  LET lc == obj[e.o].lc
      R == Obs(e)
      extName == IF H5Witness(lc, R) /\ e.v0 = 0 THEN "ExtremeOfCurrentPeriod_OnlyTypeExtreme" ELSE "ExtremeOfCurrentPeriod"
  IN /\ ReadOp("value", e.o)
     /\ Keep
     /\ bad' = bad \cup Fails({<<"QuiescentExact", QuiescentExactOK(lc, R)>>,
                               <<extName, ExtremeOK(lc, R) /\ (IsCmp => e.v0 = (IF e.has THEN e.r1 ELSE 0))>>,
                               <<"NewCounterStartsAtZero", (used[lc] = {}) => StartsAtZeroOK(R)>>})
     /\ drift' = drift \cup Fails({<<"Drift_value", R = ValueOfS(e.o, TRUE) \/ R = ValueOfS(e.o, FALSE)>>})

CellRec(c) == [a |-> c.a, b |-> IF IsCmp THEN 0 ELSE c.b, cur |-> c.cur]
Rename(S, nm) == {<<nm, c[2]>> : c \in S}
TForEach(e) ==
  LET lc == obj[e.o].lc
      n == Len(e.cells)
      V == {e.cells[j].s : j \in 1..n}
      I == IF e.k = "foreach" THEN ScanAll(obj[e.o].st) ELSE ScanAlive(obj[e.o].st)
      P == CellsOf(e.o, I)
      untouched == e.k # "foreach" /\ AliveUntouched(e.o, e.k = "foreach_alive_nc")
      B == Fails({
          <<"ForEachCoversEverUsed", e.k = "foreach" => CoversOK(lc, V, oslot)>>,
          <<"ForEachAliveExactlyLive", e.k # "foreach" => AliveOK(lc, V, oslot)>>,
          <<"ContributionsOfDeadThreadsKept", \A j \in 1..n : DeadKeptOK(lc, e.cells[j].s, e.cells[j], oslot)>>,
          <<"NewCounterStartsAtZero", (used[lc] = {}) => \A j \in 1..n : (e.cells[j].a = 0 /\ e.cells[j].b = 0 /\ ~e.cells[j].cur)>>})
      D == Fails({
          <<"Drift_visited", V = I /\ Cardinality(V) = n>>,
          <<"Drift_cells", \A j \in 1..n : e.cells[j].s \in I =>
                              CellRec(e.cells[j]) = [a |-> IF IsCmp /\ ~P[e.cells[j].s].cur THEN 0 ELSE P[e.cells[j].s].a,
                                                     b |-> IF IsCmp THEN 0 ELSE P[e.cells[j].s].b, cur |-> P[e.cells[j].s].cur]>>})
  IN /\ ReadOp(e.k, e.o)
     /\ Keep
     /\ bad' = bad \cup (IF untouched THEN Rename(B \cup D, "ForEachAliveExactlyLive_UntouchedStorage") ELSE B)
     /\ drift' = drift \cup (IF untouched THEN {} ELSE D)

TPlain(e) ==
  /\ CASE e.k = "start" -> ThreadStart(e.t)
       [] e.k = "exit" -> ThreadExit(e.t)
       [] e.k = "destroy" -> Destroy(e.o)
       [] e.k = "move" -> MoveAssign(e.o, e.p)
       [] e.k = "reset_c" -> Reset(e.o)
  /\ Keep /\ UNCHANGED <<bad, drift>>

\* the call that did not return (crash / hang) is named by the end line (op, o)
TEnd(e) ==
  /\ bad' = bad \cup Fails({<<IF e.op \in {"foreach_alive", "foreach_alive_nc"} /\ e.o \in Obj /\ obj[e.o].live /\ AliveUntouched(e.o, e.op = "foreach_alive_nc")
                               THEN "ForEachAliveExactlyLive_UntouchedStorage" ELSE "NoCrash", e.status = "ok">>})
  /\ UNCHANGED <<vars, oslot, oaddr, drift>>

TNext ==
  /\ l <= Len(Tr)
  /\ LET e == Tr[l]
     IN CASE e.k = "reset" -> TReset(e)
          [] e.k \in {"create", "mctor"} -> TCreate(e)
          [] e.k \in {"count", "local"} -> TLocal(e)
          [] e.k = "value" -> TValue(e)
          [] e.k \in {"foreach", "foreach_alive", "foreach_alive_nc"} -> TForEach(e)
          [] e.k \in {"start", "exit", "destroy", "move", "reset_c"} -> TPlain(e)
          [] e.k = "end" -> TEnd(e)
  /\ l' = l + 1
  /\ TLCSet(1, l')
  /\ (l' > Len(Tr) => TLCSet(2, bad' \cup drift'))

TSpec == TInit /\ [][TNext]_tvars

Post == PrintT(<<"VERIF", TLCGet(1) - 1, Len(Tr), TLCGet(2)>>)
=============================================================================
