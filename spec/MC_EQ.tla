------------------------------ MODULE MC_EQ ------------------------------
(* Model-checking instance of EQ: memory orders from the table MO_EQ (regenerated from the     *)
(* running code by the conformance step), configuration families as constants.                  *)
EXTENDS EQ, MO_EQ

MOf(site) == MO[site]

Cfg(cap, mode, faults, retry, prog) == [cap |-> cap, mode |-> mode, faults |-> faults, retry |-> retry, prog |-> prog]
T == TRUE
F == FALSE
Modes == {"i", "a"}
E1 == <<"e">>
E2 == <<"e", "e">>
EJ == <<"e", "j">>
EEJ == <<"e", "e", "j">>
J1 == <<"j">>

\* fault sequences (TRUE = the submit is refused) up to a length
Faults(n) == UNION {[1..k -> BOOLEAN] : k \in 0..n}
FaultsNZ(n) == {f \in Faults(n) : \E k \in 1..Len(f) : f[k]}

\* ---- healthy executor
\* 2 producers x 2 items, one of them joins; capacity 1 / 2 (blocking, ring wrap) and 4 (never full)
Cfg_h2 == { Cfg(cap, m, <<>>, T, <<E2, EJ>>) : cap \in {1, 2, 4}, m \in Modes }
\* (deepening, > 1M states: both producers with 2 items and a join)
Cfg_h2x == { Cfg(cap, m, <<>>, T, <<E2, EEJ>>) : cap \in {1, 2}, m \in Modes }
\* a separate joining thread
Cfg_hj == { Cfg(cap, m, <<>>, T, p) : cap \in {1, 2}, m \in Modes, p \in {<<E1, E1, J1>>, <<E2, J1>>} }
\* (deepening, 1.5M states)
Cfg_hjx == { Cfg(cap, m, <<>>, T, <<E2, E1, J1>>) : cap \in {1, 2}, m \in Modes }
\* 3 producers
Cfg_h3 == { Cfg(cap, m, <<>>, T, <<E1, E1, EJ>>) : cap \in {1, 2}, m \in Modes }
\* 3 producers x 2 items (inline executor: the consumer is one of the producers)
Cfg_h3x2 == { Cfg(2, "i", <<>>, T, <<E2, E2, E2>>) }
\* ---- executor that refuses scripted attempts
\* every fault sequence up to length 3, retrying producers (cap 1: blocked pushers need the retry)
Cfg_f2 == { Cfg(cap, m, f, T, <<E2, EJ>>) : cap \in {1, 2}, m \in Modes, f \in FaultsNZ(3) }
\* no retry by the producers: the next task / an explicit signal / the main thread's signal resumes consumption
Cfg_f2n == { Cfg(2, m, f, F, <<E1, <<"e", "s", "j">> >>) : m \in Modes, f \in FaultsNZ(3) }
\* 3 producers
Cfg_f3 == { Cfg(2, m, <<T>>, T, <<E1, E1, EJ>>) : m \in Modes }
\* ---- quick family (one of each kind: two-thread contention, capacity 1 blocking, inline, two-segment
\* poll, refused launch with retry / with the next task / with the main thread's signal)
E3 == <<"e", "e", "e">>
ES == <<"e", "s">>
Cfg_quick == { Cfg(1, "a", <<>>, T, <<E2, J1>>), Cfg(2, "i", <<>>, T, <<E1, EJ>>), Cfg(2, "a", <<>>, T, <<E1, EJ>>),
               Cfg(2, "a", <<>>, T, <<E3>>),
               Cfg(2, "a", <<T>>, T, <<E1, EJ>>), Cfg(1, "i", <<T>>, T, <<E1, EJ>>), Cfg(2, "a", <<F, T>>, F, <<E1, ES>>),
               Cfg(1, "a", <<T, T>>, T, <<E2>>), Cfg(2, "i", <<T, F, T>>, F, <<E1, E1>>) }
\* ---- the join clause exactly as stated (see finding C16_join_behind_inflight_push)
Cfg_joinstrict == { Cfg(2, m, <<>>, T, <<E1, E1, J1>>) : m \in Modes }
\* ---- weak memory (Stale = TRUE): the acquire / release edges on _events carry the publication
Cfg_wm == { Cfg(2, "a", <<>>, T, <<E1, EJ>>), Cfg(1, "a", <<T>>, T, <<E2>>) }
Cfg_wm2 == { Cfg(cap, "a", <<>>, T, <<E1, EJ>>) : cap \in {1, 2} }
     \cup { Cfg(2, "i", <<>>, T, <<E1, EJ>>), Cfg(2, "a", <<T>>, T, <<E1, EJ>>), Cfg(2, "a", <<>>, T, <<E2, J1>>) }
     \cup { Cfg(2, m, f, T, <<E2, E1>>) : m \in Modes, f \in {<<>>, <<T>>} }
\* ---- liveness (tiny)
Cfg_live == { Cfg(1, "a", <<T>>, T, <<E2>>), Cfg(2, "i", <<>>, T, <<E1, EJ>>), Cfg(2, "a", <<F, T>>, F, <<E1, E1>>),
              Cfg(1, "i", <<T, T>>, T, <<E1, E1>>) }

Next == \/ \E t \in Thr : Step(t, MOf)
        \/ (AllDone /\ UNCHANGED vars)
Spec == Init /\ [][Next]_vars
FairSpec == Spec /\ \A t \in 0..8 : WF_vars(t \in Thr /\ Step(t, MOf))

\* hide the ghost event from the state identity
View == <<cfg, ms, pc, L, Q, H>>

\* liveness under fairness (finite fault sequence, producers or main retry)
Termination == <>[]AllDone
AllItems == {t * 100 + k : t \in 1..3, k \in 1..2}
NoStrandingLive == \A x \in AllItems : (x \in H.sig) ~> (x \in H.consEnd)
JoinReturns == \A t \in 0..3 : (t \in Thr /\ pc[t] \in {"j_load", "j_sleep"}) ~> (t \in Thr /\ pc[t] = "ret")
=============================================================================
