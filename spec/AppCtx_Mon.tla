----------------------------- MODULE AppCtx_Mon -----------------------------
(***************************************************************************)
(* L1 specification of babylon::ApplicationContext (extra component X01)   *)
(* as a monitor over the observable events of an execution: call / return  *)
(* of get_or_create (type, name -> instance or nullptr), the user          *)
(* callbacks the container runs (component constructor, initialize() begin *)
(* / end with its result, destructor), the use a caller makes of what it   *)
(* was given, clear() begin / end and the quiescent state.  It knows       *)
(* nothing about state words, mutexes, sequences or memory orders, so it   *)
(* judges the behaviour users rely on for ANY implementation of the API.   *)
(*                                                                         *)
(*  LookupCorrect       what is returned belongs to THE registration that  *)
(*                      matches (type) / (type, name); no or several       *)
(*                      matches (ambiguous) are refused with nullptr       *)
(*  FoundAndCreated     a uniquely registered component whose dependency   *)
(*                      tree can be built is delivered (never a spurious   *)
(*                      nullptr)                                           *)
(*  FailureNeverHandedOut  a component whose initialize() fails, or that   *)
(*                      depends on a failing / missing / ambiguous /       *)
(*                      cyclic one, is never delivered                     *)
(*  CreatedAtMostOnce   a singleton is constructed at most once (a failure *)
(*                      is latched, not retried)                           *)
(*  InitExactlyOnce     constructor, then initialize() once                *)
(*  SameInstance        all callers of a singleton get the same answer     *)
(*  FullyInitialised    what a caller gets has completed initialize() with *)
(*                      0, is alive, and shows its initialised payload     *)
(*  FactoryFresh        a factory holder builds a new instance inside each *)
(*                      call, on the caller's thread                       *)
(*  DepsBeforeInit      when initialize() of a component returns 0 every   *)
(*                      dependency has been initialised                    *)
(*  SingletonOutlivesUse  a delivered singleton is destroyed only by clear *)
(*  DestroyedOnce / ClearDestroysAll / ClearEmpties                        *)
(*  ClearOrder          clear() destroys a singleton BEFORE every singleton*)
(*                      that had already been handed out when its own      *)
(*                      initialize() ended (dependencies, earlier          *)
(*                      completions): reverse order of completion          *)
(*  NoDeadlock / NoLivelock / NoCrash                                      *)
(***************************************************************************)
EXTENDS Naturals, Integers, Sequences, FiniteSets, TLC, Json, IOUtils

Tr == ndJsonDeserialize(IOEnv.TRACE)

VARIABLES l,
          regs, must,   \* the registrations; must: a deadlock at the end is a violation
          insts,        \* inst -> [c, t, st]   st: "ctor" | "ib" | "ok" | "failed" | "dead"
          stack,        \* stack[t]: pending get_or_create calls of thread t (nested through initialize())
          rets,         \* <<registration, result>> of singleton-mode calls
          handed,       \* instances delivered by factory-mode calls
          before,       \* <<i, j>>: singleton i had been delivered before initialize() of singleton j ended
          clearing,
          bad

mvars == <<l, regs, must, insts, stack, rets, handed, before, clearing, bad>>

GOOD == 7
Thrs == 0..8

Cands(ty, nm) == {r \in 1..Len(regs) : regs[r].ty = ty /\ (nm = 0 \/ regs[r].nm = nm)}
Expected(ty, nm) == IF Cardinality(Cands(ty, nm)) = 1 THEN CHOOSE r \in Cands(ty, nm) : TRUE ELSE 0
IsFac(c) == c > 0 /\ regs[c].fac

\* can registration c be built: it does not fail itself and every dependency resolves to something that can be built
\* (a dependency cycle cannot)
RECURSIVE CanInit(_, _)
CanInit(c, vis) ==
  /\ c # 0 /\ c \notin vis /\ ~regs[c].fail
  /\ \A k \in 1..Len(regs[c].deps) : CanInit(Expected(regs[c].deps[k].ty, regs[c].deps[k].nm), vis \cup {c})

Known(i) == i \in DOMAIN insts
StOf(i) == IF Known(i) THEN insts[i].st ELSE "unknown"
NextId == IF DOMAIN insts = {} THEN 1 ELSE (CHOOSE m \in DOMAIN insts : \A j \in DOMAIN insts : m >= j) + 1

Flag(b, name) == IF b /\ bad = "" THEN name ELSE bad
\* first clause that fails, in order
First(cl) == IF bad # "" THEN bad
             ELSE IF \E k \in 1..Len(cl) : cl[k][1]
                  THEN cl[CHOOSE k \in 1..Len(cl) : cl[k][1] /\ \A j \in 1..(k - 1) : ~cl[j][1]][2]
                  ELSE ""

Fresh(e) ==
  /\ regs' = e.regs /\ must' = e.must
  /\ insts' = << >> /\ stack' = [t \in Thrs |-> << >>]
  /\ rets' = {} /\ handed' = {} /\ before' = {} /\ clearing' = FALSE

MInit ==
  /\ l = 2 /\ Tr[1].k = "reset"
  /\ regs = Tr[1].regs /\ must = Tr[1].must
  /\ insts = << >> /\ stack = [t \in Thrs |-> << >>]
  /\ rets = {} /\ handed = {} /\ before = {} /\ clearing = FALSE
  /\ bad = ""
  /\ TLCSet(1, 1)

TopOf(t) == stack[t][Len(stack[t])]

MCall(e) ==
  /\ stack' = [stack EXCEPT ![e.t] = Append(@, [ty |-> e.ty, nm |-> e.nm, exp |-> Expected(e.ty, e.nm), base |-> NextId])]
  /\ bad' = Flag(clearing, "Protocol")
  /\ UNCHANGED <<regs, must, insts, rets, handed, before, clearing>>

MRet(e) ==
  IF stack[e.t] = << >> \/ TopOf(e.t).ty # e.ty \/ TopOf(e.t).nm # e.nm
  THEN bad' = Flag(TRUE, "Protocol") /\ UNCHANGED <<regs, must, insts, stack, rets, handed, before, clearing>>
  ELSE LET f == TopOf(e.t)
           x == f.exp
           r == e.res
           can == CanInit(x, {})
       IN /\ bad' = First(<< <<r # 0 /\ (~Known(r) \/ x = 0), "LookupCorrect">>,
                             <<r # 0 /\ Known(r) /\ x # 0 /\ insts[r].c # x, "LookupCorrect">>,
                             <<r # 0 /\ ~can, "FailureNeverHandedOut">>,
                             <<~IsFac(x) /\ \E q \in rets : q[1] = x /\ q[2] # r, "SameInstance">>,
                             <<r = 0 /\ can, "FoundAndCreated">>,
                             <<r # 0 /\ StOf(r) # "ok", "FullyInitialised">>,
                             <<IsFac(x) /\ r # 0 /\ Known(r) /\ (r < f.base \/ insts[r].t # e.t \/ r \in handed), "FactoryFresh">> >>)
          /\ stack' = [stack EXCEPT ![e.t] = SubSeq(@, 1, Len(@) - 1)]
          /\ rets' = IF IsFac(x) THEN rets ELSE rets \cup {<<x, r>>}
          /\ handed' = IF IsFac(x) /\ r # 0 THEN handed \cup {r} ELSE handed
          /\ UNCHANGED <<regs, must, insts, before, clearing>>

MCtor(e) ==
  /\ insts' = IF Known(e.inst) THEN insts ELSE (e.inst :> [c |-> e.c, t |-> e.t, st |-> "ctor"]) @@ insts
  /\ bad' = First(<< <<Known(e.inst) \/ clearing \/ e.c < 1 \/ e.c > Len(regs), "Protocol">>,
                     <<stack[e.t] = << >> \/ TopOf(e.t).exp # e.c, "LookupCorrect">>,
                     <<~IsFac(e.c) /\ \E j \in DOMAIN insts : insts[j].c = e.c, "CreatedAtMostOnce">> >>)
  /\ UNCHANGED <<regs, must, stack, rets, handed, before, clearing>>

MIb(e) ==
  /\ insts' = IF Known(e.inst) THEN [insts EXCEPT ![e.inst].st = "ib"] ELSE insts
  /\ bad' = Flag(StOf(e.inst) # "ctor", "InitExactlyOnce")
  /\ UNCHANGED <<regs, must, stack, rets, handed, before, clearing>>

DepsReady(c) ==
  \A k \in 1..Len(regs[c].deps) :
    LET d == Expected(regs[c].deps[k].ty, regs[c].deps[k].nm)
    IN d # 0 /\ (~IsFac(d) => \E j \in DOMAIN insts : insts[j].c = d /\ insts[j].st = "ok")

MIe(e) ==
  /\ insts' = IF Known(e.inst) THEN [insts EXCEPT ![e.inst].st = IF e.ok THEN "ok" ELSE "failed"] ELSE insts
  /\ bad' = First(<< <<StOf(e.inst) # "ib", "InitExactlyOnce">>,
                     <<e.ok /\ Known(e.inst) /\ ~DepsReady(insts[e.inst].c), "DepsBeforeInit">> >>)
  /\ before' = IF e.ok /\ Known(e.inst) /\ ~IsFac(insts[e.inst].c)
               THEN before \cup {<<q[2], e.inst>> : q \in {p \in rets : p[2] # 0}} ELSE before
  /\ UNCHANGED <<regs, must, stack, rets, handed, clearing>>

MDtor(e) ==
  LET i == e.inst
      st == StOf(i)
      single == Known(i) /\ ~IsFac(insts[i].c)
  IN /\ insts' = IF Known(i) THEN [insts EXCEPT ![i].st = "dead"] ELSE insts
     /\ bad' = First(<< <<st \in {"dead", "unknown"}, "DestroyedOnce">>,
                        <<~clearing /\ single /\ st = "ok", "SingletonOutlivesUse">>,
                        <<~clearing /\ ~single /\ st = "ok" /\ i \notin handed, "Protocol">>,
                        <<clearing /\ \E p \in before : p[1] = i /\ StOf(p[2]) # "dead", "ClearOrder">> >>)
     /\ UNCHANGED <<regs, must, stack, rets, handed, before, clearing>>

MUse(e) ==
  /\ bad' = Flag(StOf(e.inst) # "ok" \/ e.v # GOOD, "FullyInitialised")
  /\ UNCHANGED <<regs, must, insts, stack, rets, handed, before, clearing>>

MClearCall ==
  /\ clearing' = TRUE
  /\ bad' = Flag(\E t \in Thrs : stack[t] # << >>, "Protocol")
  /\ UNCHANGED <<regs, must, insts, stack, rets, handed, before>>

MClearRet ==
  /\ clearing' = FALSE
  /\ bad' = Flag(\E j \in DOMAIN insts : insts[j].st # "dead", "ClearDestroysAll")
  /\ UNCHANGED <<regs, must, insts, stack, rets, handed, before>>

MFinal(e) ==
  /\ bad' = First(<< <<e.alive # 0, "ClearDestroysAll">>, <<e.found # 0, "ClearEmpties">> >>)
  /\ UNCHANGED <<regs, must, insts, stack, rets, handed, before, clearing>>

MEnd(e) ==
  /\ bad' = IF e.status = "deadlock" /\ must THEN Flag(TRUE, "NoDeadlock")
            ELSE IF e.status = "budget" THEN Flag(TRUE, "NoLivelock")
            ELSE IF e.status \in {"crash", "hang"} THEN Flag(TRUE, "NoCrash")
            ELSE bad
  /\ UNCHANGED <<regs, must, insts, stack, rets, handed, before, clearing>>

MSkip == UNCHANGED <<regs, must, insts, stack, rets, handed, before, clearing, bad>>

MNext ==
  /\ l <= Len(Tr)
  /\ LET e == Tr[l]
     IN CASE e.k = "reset" -> Fresh(e) /\ bad' = bad
          [] e.k = "call" -> MCall(e)
          [] e.k = "ret" -> MRet(e)
          [] e.k = "ctor" -> MCtor(e)
          [] e.k = "ib" -> MIb(e)
          [] e.k = "ie" -> MIe(e)
          [] e.k = "dtor" -> MDtor(e)
          [] e.k = "use" -> MUse(e)
          [] e.k = "clear_call" -> MClearCall
          [] e.k = "clear_ret" -> MClearRet
          [] e.k = "final" -> MFinal(e)
          [] e.k = "end" -> MEnd(e)
          [] OTHER -> MSkip
  /\ l' = l + 1
  /\ TLCSet(1, l')

MSpec == MInit /\ [][MNext]_mvars

\* the verdict names the clause:  bad = "" means every clause held so far
Holds == bad = ""

Post == PrintT(<<"VERIF", TLCGet(1) - 1, Len(Tr), {}>>)
=============================================================================
