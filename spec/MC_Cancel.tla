----------------------------- MODULE MC_Cancel -----------------------------
(* Model-checking instance of Cancel: completion ~S -> resume(id) racing with 1-2 cancellers, *)
(* two rounds (slot reuse), awaiting coroutine on an inline or queued executor, completion     *)
(* on a plain thread / inside the awaiter's executor / inside another executor                 *)
EXTENDS Cancel

O(op, r) == [op |-> op, r |-> r]
Cfg(rounds, bound, emode, cscope, prog) == [rounds |-> rounds, bound |-> bound, emode |-> emode, cscope |-> cscope, prog |-> prog]
Modes == {<<"i", "i">>, <<"q", "i">>}

Cfg_quick ==
  { Cfg(2, 1, em, cs, << <<O("s", 0)>>, <<O("v", 1), O("v", 2)>>, <<O("c", 1), O("c", 2)>> >>) : em \in Modes, cs \in {0, 1, 2} }
Cfg_2c ==
  { Cfg(2, 1, em, cs, << <<O("s", 0)>>, <<O("v", 1), O("v", 2)>>, <<O("c", 1), O("c", 2)>>, <<O("c", 1), O("c", 2)>> >>) : em \in Modes, cs \in {0, 1, 2} }
  \cup { Cfg(2, 1, em, cs, << <<O("s", 0), O("c", 1)>>, <<O("v", 2), O("v", 1)>>, <<O("c", 2), O("c", 1)>> >>) : em \in Modes, cs \in {0, 1} }

Next == \/ \E t \in Thr : Step(t)
        \/ (AllDone /\ UNCHANGED vars)
Spec == Init /\ [][Next]_vars
=============================================================================
