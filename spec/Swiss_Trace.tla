---------------------------- MODULE Swiss_Trace ----------------------------
(***************************************************************************)
(* Trace validation of the real ConcurrentFixedSwissTable /                *)
(* ConcurrentTransientHashSet / Map against the L2 specification Swiss.    *)
(* Every line of the normalised ndjson trace recorded under vsched must be *)
(* explained by exactly the Swiss action the thread's pc allows: CAS and   *)
(* stores of control bytes, acquire fences, next-pointer loads / CAS,      *)
(* sched_yield, and the driver's seams (hasher, key comparison, element    *)
(* constructor, call / return) with the same location, operands, value     *)
(* read and outcome.                                                       *)
(*                                                                         *)
(* The SIMD group load is invisible to interposition.  Exactly one thread  *)
(* runs between two schedule points, so the load executes right after the  *)
(* previous logged event of its thread: it is a SILENT step that must be   *)
(* taken before the next line (of any thread) is consumed, and what it     *)
(* read is reconstructed from the model's control bytes (= the last logged *)
(* writes).  With the guarded hook H-1 the load is a logged line "gl".     *)
(* new TableNode / delete of the losing node are silent the same way.      *)
(*                                                                         *)
(* The memory order of each step is the one the running code passed: the   *)
(* happens-before views evolve with the code's real orders, every L1       *)
(* clause is evaluated on every state of the trace and the (site -> order) *)
(* pairs seen are collected, from which MO_Swiss.tla is regenerated.       *)
(***************************************************************************)
EXTENDS Swiss, Json, IOUtils

Tr == ndJsonDeserialize(IOEnv.TRACE)

VARIABLES l,       \* next line to explain
          moSeen,  \* set of <<site, order>> observed
          lastT,   \* thread of the last consumed line (0: none)
          hook,    \* the trace was recorded with hook H-1 (group loads are logged)
          viol     \* L1 clauses falsified on the L2 state: set of <<"VIOL_" \o clause, line>> (first line per execution)

tvars == <<vars, l, moSeen, lastT, hook, viol>>

CfgOf(e) == [kind |-> e.kind, head |-> e.head, keys |-> e.keys, pre |-> e.pre, prog |-> e.prog]

TInit ==
  /\ l = 2
  /\ moSeen = {}
  /\ lastT = 0
  /\ Tr[1].k = "reset"
  /\ hook = Tr[1].hook
  /\ viol = {}
  /\ InitFor(CfgOf(Tr[1]))
  /\ TLCSet(1, 1)
  /\ TLCSet(2, {})

Progress == TLCSet(1, IF TLCGet(1) < l' THEN l' ELSE TLCGet(1))

SilentPcs == IF hook THEN {"new_node", "del_loser"} ELSE {"gload", "new_node", "del_loser"}
NoSilentPending == IF lastT = 0 THEN TRUE ELSE pc[lastT] \notin SilentPcs

Matches(m, e) ==
  /\ m.t = e.t /\ m.k = e.k
  /\ CASE e.k \in {"load", "store"} -> m.loc = e.loc /\ m.i = e.i /\ m.v = e.v
       [] e.k = "cas" -> m.loc = e.loc /\ m.i = e.i /\ m.v = e.v /\ m.a = e.a /\ m.b = e.b /\ m.ok = e.ok
       [] e.k \in {"fence", "yield"} -> TRUE
       [] e.k = "gl" -> m.i = e.i
       [] e.k = "call" -> m.op = e.op /\ m.key = e.key
       [] e.k = "hash" -> m.key = e.key
       [] e.k = "keq" -> m.i = e.i /\ m.ok = e.ok /\ m.key = e.key
       [] e.k = "ctor" -> m.i = e.i /\ m.key = e.key
       [] e.k = "ret" -> /\ m.op = e.op /\ m.key = e.key
                         /\ (IF e.res = -2 THEN m.res >= 0 ELSE m.res = e.res)      \* contains(): found, no identity
                         /\ (e.op \in {"x", "c", "f"} \/ m.ins = e.ins)             \* operator[] does not report "inserted"
       [] OTHER -> FALSE

FailSites == {"emplace_cas_fail", "grow_next_cas_fail"}

Consume ==
  /\ l <= Len(Tr)
  /\ NoSilentPending
  /\ LET e == Tr[l]
     IN /\ e.k \notin {"reset", "end", "final"}
        /\ Step(e.t, LAMBDA site : IF site \in FailSites THEN e.mof ELSE e.mo)
        /\ Matches(ev', e)
        /\ moSeen' = moSeen \cup (IF ev'.site # "" THEN {<<ev'.site, ev'.mo>>} ELSE {})
                            \cup (IF ev'.fsite # "" THEN {<<ev'.fsite, ev'.mof>>} ELSE {})
        /\ lastT' = e.t
  /\ l' = l + 1
  /\ UNCHANGED hook

\* steps of the code that leave no line: taken eagerly by the thread that has just performed a logged step
Silent ==
  /\ l <= Len(Tr)
  /\ lastT # 0 /\ pc[lastT] \in SilentPcs
  /\ (GLoad(lastT) \/ NewNode(lastT) \/ DelLoser(lastT))
  /\ UNCHANGED <<l, moSeen, lastT, hook>>

\* a fence the model has but the code no longer executes is recorded as order "none"
SkipFence ==
  /\ l <= Len(Tr)
  /\ NoSilentPending
  /\ Tr[l].k \notin {"reset", "end", "final", "fence"}
  /\ LET t == Tr[l].t
     IN /\ t \in Thr /\ pc[t] = "fence"
        /\ Fence(t, LAMBDA site : "none")
        /\ moSeen' = moSeen \cup {<<ev'.site, "none">>}
  /\ UNCHANGED <<l, lastT, hook>>

Range(s) == {s[j] : j \in 1..Len(s)}
PreSlots == {<<Code(o, j), FillKey(o, j)>> : <<o, j>> \in {x \in (0..3) \X (0..127) : PreTag(x[1], x[2]) >= 0}}
NTabNow == 1 + Cardinality({o \in 0..3 : LastOf(NextLoc(o)) = 1})

\* quiescent observation by the driver: every occupied slot of every linked table, mirrored tails
Final ==
  /\ l <= Len(Tr) /\ Tr[l].k = "final"
  /\ NoSilentPending
  /\ AllDone
  /\ {<<s[1], s[2]>> : s \in Range(Tr[l].slots)} = PreSlots \cup {<<c, G.cells[c]>> : c \in DOMAIN G.cells}
  /\ Tr[l].mbad = 0
  /\ Tr[l].ntab = NTabNow
  /\ l' = l + 1
  /\ UNCHANGED <<vars, moSeen, lastT, hook>>

End ==
  /\ l <= Len(Tr) /\ Tr[l].k = "end"
  /\ (Tr[l].status = "ok" => AllDone)
  /\ l' = l + 1
  /\ UNCHANGED <<vars, moSeen, lastT, hook>>

Reset ==
  /\ l <= Len(Tr) /\ Tr[l].k = "reset"
  /\ LET c == CfgOf(Tr[l])
     IN /\ cfg' = c
        /\ ms' = WMInit(1..Len(c.prog), << >>)
        /\ pc' = [t \in 1..Len(c.prog) |-> "idle"]
        /\ L' = [t \in 1..Len(c.prog) |-> L0]
        /\ G' = G0 /\ H' = H0 /\ ev' = NoEv
  /\ hook' = Tr[l].hook
  /\ lastT' = 0
  /\ l' = l + 1
  /\ UNCHANGED moSeen

\* L1 verdicts on the observed execution: the same formulas as the model-checked ones, evaluated on every state of the
\* trace.  A falsified clause is recorded (not an invariant violation: validation goes on, so conformance and the order
\* table are still established for the whole file) and reported by the postcondition.
ClauseNames == {"NoDataRace", "OneWinner", "LoserHasWinner", "SameSlot", "NoMissAfterReturn", "FullFailsWithoutConsuming",
                "FullOnlyWhenFull", "GrowthKeepsKeys"}
ClauseHolds(c) ==
  CASE c = "NoDataRace" -> NoDataRace
    [] c = "OneWinner" -> OneWinner
    [] c = "LoserHasWinner" -> LoserHasWinner
    [] c = "SameSlot" -> SameSlot
    [] c = "NoMissAfterReturn" -> NoMissAfterReturn
    [] c = "FullFailsWithoutConsuming" -> FullFailsWithoutConsuming
    [] c = "FullOnlyWhenFull" -> FullOnlyWhenFull
    [] c = "GrowthKeepsKeys" -> GrowthKeepsKeys
Falsified == {c \in ClauseNames : ~ClauseHolds(c)}
Judge == viol' = viol \cup {<<"VIOL_" \o c, ToString(l)>> : c \in (Falsified' \ Falsified)}

TNext == (Consume \/ Silent \/ SkipFence \/ Final \/ End \/ Reset) /\ Judge /\ Progress /\ (l' > Len(Tr) => TLCSet(2, moSeen' \cup viol'))

TSpec == TInit /\ [][TNext]_tvars

\* reported at the end:  <<"VERIF", lines explained, lines, site/order pairs>>
Post == PrintT(<<"VERIF", TLCGet(1) - 1, Len(Tr), TLCGet(2)>>)

=============================================================================
