------------------------------ MODULE MO_Flow ------------------------------
(* site -> memory order of the pinned commit (src/babylon/anyflow); regenerated from traces by checks/c05_check.py *)
MO == [
  data_acquire_cas |-> "ar",
  release_closure_load |-> "rlx",
  release_closure_cas |-> "ar",
  closure_data_add |-> "ar",
  closure_data_sub |-> "ar",
  closure_vertex_add |-> "ar",
  closure_vertex_sub |-> "ar",
  mark_finished_load |-> "rlx",
  mark_finished_cas |-> "ar",
  run_finished_load |-> "rlx",
  bind_closure_cas |-> "ar",
  dep_activate_add |-> "ar",
  dep_activate_target_load |-> "acq",
  dep_activate_condition_load |-> "acq",
  dep_ready_sub |-> "ar",
  dep_unmet_sub |-> "ar",
  dep_ready_target_load |-> "acq",
  depend_state_xchg |-> "rlx",
  trigger_ready_load |-> "acq",
  flush_ready_load |-> "acq",
  vertex_activate_cas |-> "rlx",
  vertex_waiting_store |-> "rlx",
  vertex_finished_sub |-> "ar",
  vertex_ready_sub |-> "ar"
]
=============================================================================
