-------------------------------- MODULE EQ --------------------------------
(***************************************************************************)
(* L2 (implementation-shaped) specification of                             *)
(* babylon::ConcurrentExecutionQueue (src/babylon/concurrent/              *)
(* execution_queue.h), property C16.                                       *)
(*                                                                         *)
(* ONE ACTION PER ATOMIC OPERATION ON `_events`, per executor submit, per  *)
(* consume-callback edge and per call / return.  The memory order of every *)
(* site on `_events` comes from M(site): the constant table MO_EQ when     *)
(* model checking, the order logged by the running code when validating    *)
(* traces.                                                                 *)
(*                                                                         *)
(* The inner ConcurrentBoundedQueue is verified by C01 / C02 and appears   *)
(* here as an ABSTRACT bounded FIFO:                                       *)
(*   Q.tk     items in ticket (reservation) order                          *)
(*   Q.head   number of items popped,  Q.freed  number of slots released   *)
(*   <<"pub",k>>  publication flag of ticket k  (a WeakMem location:       *)
(*                release store by the pusher, acquire read by the popper, *)
(*                the orders C01 established for push<true,false,false> /  *)
(*                try_pop_n<false,false>)                                  *)
(*   <<"val",k>>  the payload cell of ticket k (non-atomic)                *)
(* push = reserve (ticket) ; wait until the slot is free ; fill ; publish  *)
(* try_pop_n(capacity) = at most two contiguous segments, each the longest *)
(* published prefix up to the ring end / the rest; one consume call each.  *)
(* Reserve, publish and the polls are internal (tau) steps of the model.   *)
(*                                                                         *)
(* Threads: 0 = main (after every program thread finished: quiesce, then   *)
(* signal_push_event until accepted if the last launch was refused, then   *)
(* join), 1..P program threads (ops e / s / j), P+1.. consumer threads of  *)
(* the asynchronous executor in launch order.  With the inline executor    *)
(* the consumer runs inside the launching thread.                          *)
(* Fault sequence: cfg.faults[k] = TRUE <=> the k-th submit is refused     *)
(* (SubmitOutcome); attempts beyond the sequence are accepted.             *)
(***************************************************************************)
EXTENDS Naturals, Integers, Sequences, FiniteSets, TLC, WeakMem

CONSTANTS Stale,   \* BOOLEAN: loads may read non-latest messages
          Configs  \* set of configurations [cap, mode, faults, retry, prog]

VARIABLES cfg, ms, pc, L, Q, H, ev

vars == <<cfg, ms, pc, L, Q, H, ev>>

Cap == cfg.cap
P == Len(cfg.prog)

RECURSIVE CountOps(_, _)
CountOps(s, o) == IF s = <<>> THEN 0 ELSE (IF Head(s) = o THEN 1 ELSE 0) + CountOps(Tail(s), o)
RECURSIVE SumOver(_, _)
SumOver(pr, o) == IF pr = <<>> THEN 0 ELSE CountOps(Head(pr), o) + SumOver(Tail(pr), o)
NItems(c) == SumOver(c.prog, "e")
\* main + program threads exist from the start; consumer threads of the asynchronous executor are added at launch
ThrOf(c) == 0..Len(c.prog)
Thr == DOMAIN pc
Prog == 1..P

EvLoc == <<"events", 0>>
PubLoc(k) == <<"pub", k>>
ValLoc(k) == <<"val", k>>
\* the popper's private state (pop index: plain load / store in try_pop_n<false, ..>): whoever polls must
\* have seen the previous poll -- the consumer role is handed over through the release / acquire on _events
PopIdxLoc == <<"popidx", 0>>

NoEv == [t |-> 0, k |-> "", site |-> "", mo |-> "", loc |-> "", i |-> 0, v |-> 0, a |-> 0, b |-> 0,
         ok |-> TRUE, op |-> "", item |-> 0, res |-> 0, vals |-> <<>>]

L0 == [opi |-> 1, nexe |-> 0, op |-> "", item |-> 0, res |-> 0, failed |-> FALSE, stage |-> "wait",
       tkt |-> 0, seen |-> 0, cret |-> "", base |-> 0, n |-> 0, lim |-> 0, second |-> FALSE,
       jset |-> {}, jown |-> {}, jfly |-> {}, jmiss |-> FALSE, jhard |-> FALSE, jhardown |-> FALSE]

H0 == [called |-> {}, returned |-> {}, sig |-> {}, cons |-> {}, consEnd |-> {}, inCons |-> {},
       unrec |-> FALSE, refusedEver |-> FALSE, natt |-> 0, nspawn |-> 0, bad |-> ""]

Q0 == [tk |-> <<>>, head |-> 0, freed |-> 0]

MS0(c) == WMInit(ThrOf(c),
                 [x \in {EvLoc, PopIdxLoc} \cup {PubLoc(k) : k \in 0..NItems(c) - 1} \cup {ValLoc(k) : k \in 0..NItems(c) - 1} |-> 0])
PC0(c) == [t \in ThrOf(c) |-> IF t = 0 THEN "m_wait" ELSE "idle"]
LL0(c) == [t \in ThrOf(c) |-> L0]

InitFor(c) ==
  /\ cfg = c
  /\ ms = MS0(c)
  /\ pc = PC0(c)
  /\ L = LL0(c)
  /\ Q = Q0
  /\ H = H0
  /\ ev = NoEv

Init == \E c \in Configs : InitFor(c)

(***************************************************************************)
(* Memory access helpers (as in BQ.tla)                                    *)
(***************************************************************************)
KeepAll == Stale

DoLoad(t, x, site, M(_), K(_)) ==
  \E i \in Readable(ms, t, x, Stale) :
    LET mo == M(site)
        v == ms.mem[x][i].val
    IN /\ ms' = ScAfter(LoadEff(ScBefore(ms, t, mo), t, x, i, mo), t, mo)
       /\ ev' = [NoEv EXCEPT !.t = t, !.k = "load", !.site = site, !.mo = mo, !.loc = x[1], !.v = v]
       /\ K(v)

DoRmw(t, x, kind, F(_), a, site, M(_), K(_)) ==
  LET mo == M(site)
      old == LastVal(ms, x)
  IN /\ ms' = ScAfter(RmwEff(ScBefore(ms, t, mo), t, x, F(old), mo, KeepAll), t, mo)
     /\ ev' = [NoEv EXCEPT !.t = t, !.k = kind, !.site = site, !.mo = mo, !.loc = x[1], !.v = old, !.a = a]
     /\ K(old)

DoCas(t, x, e, d, site, M(_), K(_, _)) ==
  LET mo == M(site)
      old == LastVal(ms, x)
  IN IF old = e
     THEN /\ ms' = ScAfter(RmwEff(ScBefore(ms, t, mo), t, x, d, mo, KeepAll), t, mo)
          /\ ev' = [NoEv EXCEPT !.t = t, !.k = "cas", !.site = site, !.mo = mo, !.loc = x[1], !.v = old, !.a = e, !.b = d, !.ok = TRUE]
          /\ K(TRUE, old)
     ELSE /\ ms' = CasFailEff(ms, t, x, mo)
          /\ ev' = [NoEv EXCEPT !.t = t, !.k = "cas", !.site = site, !.mo = mo, !.loc = x[1], !.v = old, !.a = e, !.b = d, !.ok = FALSE]
          /\ K(FALSE, old)

Goto(t, p) == pc' = [pc EXCEPT ![t] = p]
SetL(t, l) == L' = [L EXCEPT ![t] = l]
Tau(t) == ev' = [NoEv EXCEPT !.t = t, !.k = "tau"]

(***************************************************************************)
(* Programs: call / return                                                 *)
(***************************************************************************)
HasOp(t) == IF t = 0 THEN L[0].stage \in {"rec", "join"}
            ELSE L[t].failed \/ L[t].opi <= Len(cfg.prog[t])
ProgOp(t) == IF t = 0 THEN (IF L[0].stage = "rec" THEN "s" ELSE "j")
             ELSE IF L[t].failed THEN "s" ELSE cfg.prog[t][L[t].opi]
Finished(t) == pc[t] = "idle" /\ ~HasOp(t)
Owner(x) == x \div 100

Call(t) ==
  /\ t \in 0..P /\ pc[t] = "idle" /\ HasOp(t)
  /\ LET op == ProgOp(t)
         item == IF op = "e" THEN t * 100 + L[t].nexe + 1 ELSE 0
         before == IF H.unrec THEN {} ELSE H.returned
     IN /\ Goto(t, CASE op = "e" -> "p_res" [] op = "s" -> "s_faa" [] op = "j" -> "j_load")
        /\ SetL(t, [L[t] EXCEPT !.op = op, !.item = item, !.res = 0,
                                !.nexe = IF op = "e" THEN @ + 1 ELSE @,
                                !.jset = IF op = "j" THEN before ELSE {},
                                !.jown = IF op = "j" THEN {x \in before : t = 0 \/ Owner(x) = t} ELSE {},
                                !.jfly = IF op = "j" THEN H.called \ H.returned ELSE {},
                                !.jmiss = FALSE, !.jhard = FALSE, !.jhardown = FALSE])
        /\ H' = [H EXCEPT !.called = IF op = "e" THEN @ \cup {item} ELSE @]
        /\ ev' = [NoEv EXCEPT !.t = t, !.k = "call", !.op = op, !.item = item]
  /\ UNCHANGED <<cfg, ms, Q>>

Ret(t) ==
  /\ pc[t] = "ret"
  /\ LET l == L[t]
     IN /\ SetL(t, [l EXCEPT !.opi = IF t # 0 /\ ~l.failed THEN @ + 1 ELSE @,
                             !.failed = t # 0 /\ cfg.retry /\ l.res # 0,
                             !.stage = IF t # 0 THEN @
                                       ELSE IF l.op = "s" THEN (IF l.res = 0 THEN "join" ELSE "rec")
                                       ELSE "fin"])
        /\ H' = [H EXCEPT !.returned = IF l.op = "e" THEN @ \cup {l.item} ELSE @]
        /\ ev' = [NoEv EXCEPT !.t = t, !.k = "ret", !.op = l.op, !.item = l.item, !.res = l.res]
  /\ Goto(t, "idle")
  /\ UNCHANGED <<cfg, ms, Q>>

\* main: every program thread has been joined
Quiesce(t) ==
  /\ t = 0 /\ pc[0] = "m_wait"
  /\ \A u \in Prog : Finished(u)
  /\ LET RECURSIVE J(_, _)
         J(m, u) == IF u > P THEN m ELSE J(JoinEff(m, 0, u), u + 1)
     IN ms' = J(ms, 1)
  /\ SetL(0, [L[0] EXCEPT !.stage = IF H.unrec THEN "rec" ELSE "join"])
  /\ Goto(0, "idle")
  /\ ev' = [NoEv EXCEPT !.t = 0, !.k = "quiesce", !.ok = H.unrec]
  /\ UNCHANGED <<cfg, Q, H>>

Leftover == [j \in 1..(Len(Q.tk) - Q.head) |-> Q.tk[Q.head + j]]

Final(t) ==
  /\ t = 0 /\ pc[0] = "idle" /\ L[0].stage = "fin"
  /\ SetL(0, [L[0] EXCEPT !.stage = "done"])
  /\ ev' = [NoEv EXCEPT !.t = 0, !.k = "final", !.vals = Leftover, !.v = LastVal(ms, EvLoc)]
  /\ UNCHANGED <<cfg, ms, pc, Q, H>>

(***************************************************************************)
(* execute(): push into the inner queue, then signal_push_event()          *)
(***************************************************************************)
\* tau: take a ticket
PRes(t) ==
  /\ pc[t] = "p_res"
  /\ Q' = [Q EXCEPT !.tk = Append(@, L[t].item)]
  /\ SetL(t, [L[t] EXCEPT !.tkt = Len(Q.tk)])
  /\ Goto(t, "p_fill")
  /\ Tau(t)
  /\ UNCHANGED <<cfg, ms, H>>

SlotFree(t) == L[t].tkt < Q.freed + Cap

\* the slot of the ticket has been released: write the payload  (blocking push when full)
PFill(t) ==
  /\ pc[t] = "p_fill" /\ SlotFree(t)
  /\ ms' = NaEff(ms, t, ValLoc(L[t].tkt), L[t].item, FALSE)
  /\ ev' = [NoEv EXCEPT !.t = t, !.k = "pw", !.i = L[t].tkt % Cap, !.v = L[t].item]
  /\ Goto(t, "p_pub")
  /\ UNCHANGED <<cfg, L, Q, H>>

\* tau: publish (release store of the slot version in the inner queue)
PPub(t) ==
  /\ pc[t] = "p_pub"
  /\ ms' = StoreEff(ms, t, PubLoc(L[t].tkt), 1, "rel", KeepAll)
  /\ Goto(t, "s_faa")
  /\ Tau(t)
  /\ UNCHANGED <<cfg, L, Q, H>>

\* signal_push_event: _events.fetch_add(1, acq_rel)
SFaa(t, M(_)) ==
  /\ pc[t] = "s_faa"
  /\ DoRmw(t, EvLoc, "faa", LAMBDA o : o + 1, 1, "events_faa", M,
           LAMBDA old : IF old # 0 THEN SetL(t, [L[t] EXCEPT !.res = 0]) /\ Goto(t, "ret")
                        ELSE SetL(t, [L[t] EXCEPT !.seen = 1]) /\ Goto(t, "sc_sub"))
  /\ H' = [H EXCEPT !.sig = IF L[t].op = "e" THEN @ \cup {L[t].item} ELSE @]
  /\ UNCHANGED <<cfg, Q>>

\* start_consumer: _executor->submit(consume_until_empty)  -- outcome from the fault sequence
ScSub(t) ==
  /\ pc[t] = "sc_sub"
  /\ LET att == H.natt + 1
         refuse == att <= Len(cfg.faults) /\ cfg.faults[att]
         u == P + 1 + H.nspawn
     IN /\ ev' = [NoEv EXCEPT !.t = t, !.k = "sub", !.a = att - 1, !.ok = ~refuse]
        /\ IF refuse
           THEN /\ H' = [H EXCEPT !.natt = att, !.unrec = TRUE, !.refusedEver = TRUE]
                \* a join overlapping a refused launch is no longer judged
                /\ L' = [x \in DOMAIN L |-> [L[x] EXCEPT !.jset = {}, !.jown = {}, !.jfly = {}]]
                /\ Goto(t, "sc_cas")
                /\ UNCHANGED ms
           ELSE IF cfg.mode = "i"
           THEN /\ H' = [H EXCEPT !.natt = att, !.unrec = FALSE]
                /\ SetL(t, [L[t] EXCEPT !.cret = "ret", !.res = 0])
                /\ Goto(t, "c_load")
                /\ UNCHANGED ms
           ELSE /\ H' = [H EXCEPT !.natt = att, !.unrec = FALSE, !.nspawn = @ + 1]
                /\ L' = [x \in DOMAIN L \cup {u} |-> IF x = t THEN [L[t] EXCEPT !.res = 0]
                                                      ELSE IF x = u THEN [L0 EXCEPT !.cret = "dead"] ELSE L[x]]
                /\ pc' = [x \in DOMAIN pc \cup {u} |-> IF x = t THEN "ret" ELSE IF x = u THEN "c_load" ELSE pc[x]]
                /\ ms' = SpawnEff(ms, t, u)
  /\ UNCHANGED <<cfg, Q>>

\* refused: roll the counter back,  while (!_events.compare_exchange_strong(events, 0, acq_rel))
ScCas(t, M(_)) ==
  /\ pc[t] = "sc_cas"
  /\ DoCas(t, EvLoc, L[t].seen, 0, "rollback_cas", M,
           LAMBDA ok, old : IF ok THEN SetL(t, [L[t] EXCEPT !.res = -1]) /\ Goto(t, "ret")
                            ELSE SetL(t, [L[t] EXCEPT !.seen = old]) /\ Goto(t, "sc_sub"))
  /\ UNCHANGED <<cfg, Q, H>>

(***************************************************************************)
(* consume_until_empty()                                                   *)
(***************************************************************************)
ConsPcs == {"c_load", "c_poll", "c_cbb", "c_cbe", "c_poll2", "c_reload", "c_cas"}

CLoad(t, M(_)) ==
  /\ pc[t] = "c_load"
  /\ DoLoad(t, EvLoc, "cons_load", M, LAMBDA v : SetL(t, [L[t] EXCEPT !.seen = v]) /\ Goto(t, "c_poll"))
  /\ UNCHANGED <<cfg, Q, H>>

Published(k) == k < Len(Q.tk) /\ LastVal(ms, PubLoc(k)) = 1
\* the scan of one segment stops after n slots
PopOk(t, n, lim) ==
  /\ \A j \in 0..n - 1 : Published(Q.head + j)
  /\ \/ n = lim
     \/ ~Published(Q.head + n)
     \/ Stale /\ VGet(ms.cur[t], PubLoc(Q.head + n)) = 0
PopView(t, n) ==
  LET RECURSIVE A(_, _)
      A(m, j) == IF j >= n THEN m
                 ELSE A(LoadEff(m, t, PubLoc(Q.head + j), Len(m.mem[PubLoc(Q.head + j)]), "acq"), j + 1)
  IN A(ms, 0)

\* tau: first segment of try_pop_n(capacity): up to the end of the ring
CPoll(t) ==
  /\ pc[t] = "c_poll"
  /\ LET lim == Cap - (Q.head % Cap)
     IN \E n \in 0..lim :
          /\ PopOk(t, n, lim)
          /\ IF n = 0
             THEN /\ ms' = NaEff(ms, t, PopIdxLoc, Q.head, FALSE)
                  /\ Goto(t, "c_cas") /\ UNCHANGED <<Q, L>>
             ELSE /\ ms' = NaEff(PopView(t, n), t, PopIdxLoc, Q.head + n, FALSE)
                  /\ Q' = [Q EXCEPT !.head = @ + n]
                  /\ SetL(t, [L[t] EXCEPT !.base = Q.head, !.n = n, !.lim = lim, !.second = FALSE])
                  /\ Goto(t, "c_cbb")
  /\ Tau(t)
  /\ UNCHANGED <<cfg, H>>

\* tau: second segment (after a full first one that ended at the ring end)
CPoll2(t) ==
  /\ pc[t] = "c_poll2"
  /\ LET lim == Cap - L[t].lim
     IN \E n \in 0..lim :
          /\ PopOk(t, n, lim)
          /\ IF n = 0
             THEN /\ ms' = NaEff(ms, t, PopIdxLoc, Q.head, FALSE)
                  /\ Goto(t, "c_reload") /\ UNCHANGED <<Q, L>>
             ELSE /\ ms' = NaEff(PopView(t, n), t, PopIdxLoc, Q.head + n, FALSE)
                  /\ Q' = [Q EXCEPT !.head = @ + n]
                  /\ SetL(t, [L[t] EXCEPT !.base = Q.head, !.n = n, !.second = TRUE])
                  /\ Goto(t, "c_cbb")
  /\ Tau(t)
  /\ UNCHANGED <<cfg, H>>

SegVals(t) == [j \in 1..L[t].n |-> Q.tk[L[t].base + j]]
SeqSet(s) == {s[j] : j \in 1..Len(s)}

\* consume function entered with the range
CCbb(t) ==
  /\ pc[t] = "c_cbb"
  /\ LET vals == SegVals(t)
         n == L[t].n
         RECURSIVE A(_, _)
         A(m, j) == IF j > n THEN m ELSE A(NaEff(m, t, ValLoc(L[t].base + j - 1), vals[j], FALSE), j + 1)
         dup == \E j \in 1..n : vals[j] \in H.cons \/ \E i \in 1..j - 1 : vals[i] = vals[j]
         \* every earlier item of the same producer was delivered before
         ooo == \E j \in 1..n : \E k \in 1..(vals[j] % 100) - 1 :
                   LET y == Owner(vals[j]) * 100 + k
                   IN y \notin H.cons /\ ~\E i \in 1..j - 1 : vals[i] = y
     IN /\ ms' = A(ms, 1)
        /\ H' = [H EXCEPT !.cons = @ \cup SeqSet(vals), !.inCons = @ \cup {t},
                          !.bad = IF @ # "" THEN @ ELSE IF dup THEN "ConsumedExactlyOnce" ELSE IF ooo THEN "PerProducerOrder" ELSE ""]
        /\ ev' = [NoEv EXCEPT !.t = t, !.k = "cbb", !.vals = vals]
  /\ Goto(t, "c_cbe")
  /\ UNCHANGED <<cfg, L, Q>>

\* consume function returns; the queue releases the slots afterwards
CCbe(t) ==
  /\ pc[t] = "c_cbe"
  /\ LET vals == SegVals(t)
         n == L[t].n
         RECURSIVE A(_, _)
         A(m, j) == IF j > n THEN m ELSE A(NaEff(m, t, ValLoc(L[t].base + j - 1), -7, FALSE), j + 1)
     IN /\ ms' = A(ms, 1)
        /\ H' = [H EXCEPT !.consEnd = @ \cup SeqSet(vals), !.inCons = @ \ {t}]
        /\ ev' = [NoEv EXCEPT !.t = t, !.k = "cbe", !.vals = vals]
  /\ Q' = [Q EXCEPT !.freed = @ + L[t].n]
  /\ Goto(t, IF ~L[t].second /\ L[t].n = L[t].lim /\ L[t].lim < Cap THEN "c_poll2" ELSE "c_reload")
  /\ UNCHANGED <<cfg, L>>

CReload(t, M(_)) ==
  /\ pc[t] = "c_reload"
  /\ DoLoad(t, EvLoc, "cons_reload", M, LAMBDA v : SetL(t, [L[t] EXCEPT !.seen = v]) /\ Goto(t, "c_poll"))
  /\ UNCHANGED <<cfg, Q, H>>

\* empty poll: _events.compare_exchange_strong(events, 0, acq_rel) -> exit, else poll again
CCas(t, M(_)) ==
  /\ pc[t] = "c_cas"
  /\ DoCas(t, EvLoc, L[t].seen, 0, "cons_cas", M,
           LAMBDA ok, old : IF ok THEN UNCHANGED L /\ Goto(t, L[t].cret)
                            ELSE SetL(t, [L[t] EXCEPT !.seen = old]) /\ Goto(t, "c_poll"))
  /\ UNCHANGED <<cfg, Q, H>>

(***************************************************************************)
(* join()                                                                  *)
(***************************************************************************)
\* item x is queued behind a ticket whose execute() has not signalled yet (still in flight)
BehindInflight(x) == \E j \in 1..Len(Q.tk) : Q.tk[j] = x /\ \E i \in 1..j - 1 : Q.tk[i] \notin H.sig
JLoad(t, M(_)) ==
  /\ pc[t] = "j_load"
  /\ DoLoad(t, EvLoc, "join_load", M,
        LAMBDA v : IF v # 0 THEN UNCHANGED L /\ Goto(t, "j_sleep")
                   ELSE /\ Goto(t, "ret")
                        \* the verdict on this join is taken at the moment it decides to return
                        /\ SetL(t, [L[t] EXCEPT !.jmiss = ~(L[t].jset \subseteq H.consEnd),
                                                !.jhard = \E x \in L[t].jset \ H.consEnd : ~BehindInflight(x),
                                                !.jhardown = \E x \in L[t].jown \ H.consEnd : ~BehindInflight(x)]))
  /\ UNCHANGED <<cfg, Q, H>>

JSleep(t) ==
  /\ pc[t] = "j_sleep"
  /\ ev' = [NoEv EXCEPT !.t = t, !.k = "sleep"]
  /\ Goto(t, "j_load")
  /\ UNCHANGED <<cfg, ms, L, Q, H>>

(***************************************************************************)
TauStep(t) == PRes(t) \/ PPub(t) \/ CPoll(t) \/ CPoll2(t)

Step(t, M(_)) ==
  \/ Call(t) \/ Ret(t) \/ Quiesce(t) \/ Final(t)
  \/ PFill(t) \/ SFaa(t, M) \/ ScSub(t) \/ ScCas(t, M)
  \/ CLoad(t, M) \/ CCbb(t) \/ CCbe(t) \/ CReload(t, M) \/ CCas(t, M)
  \/ JLoad(t, M) \/ JSleep(t)
  \/ TauStep(t)

AllDone ==
  /\ pc[0] = "idle" /\ L[0].stage = "done"
  /\ \A t \in Prog : Finished(t)
  /\ \A t \in Thr : t > P => pc[t] = "dead"

(***************************************************************************)
(* L1 properties (C16) over the history                                    *)
(***************************************************************************)
NoDataRace == ~ms.race
\* delivered at most once (never twice, never invented) ...
ConsumedExactlyOnce == H.bad # "ConsumedExactlyOnce" /\ H.cons \subseteq H.called
\* ... and, with the main thread's recovery signal, at least once
AllConsumedAtEnd == AllDone => (H.called \subseteq H.consEnd /\ Q.head = Len(Q.tk))
PerProducerOrder == H.bad # "PerProducerOrder"
SingleConsumer == Cardinality(H.inCons) <= 1
\* structural form: consume_until_empty is never active (or launched) twice
ConsumerActive == {t \in Thr : pc[t] \in ConsPcs}
OneConsumerSection == Cardinality(ConsumerActive) <= 1
\* pending items always have a running or launched consumer -- or a producer that still has to signal
\* (tickets are delivered in order: what is queued behind an unpublished ticket waits for that ticket's
\* producer, whose signal launches the consumer) -- unless the last launch was refused
NoStranding ==
  (LastVal(ms, EvLoc) = 0 /\ ConsumerActive = {} /\ ~H.unrec) =>
     /\ \A j \in 1..Q.head : Q.tk[j] \in H.consEnd
     /\ Q.head < Len(Q.tk) => Q.tk[Q.head + 1] \notin H.sig
\* join() returns only after everything submitted before it was consumed -- the clause as the property
\* states it.  (Finding C16_join_behind_inflight_push: it does NOT hold when another execute() that took
\* an earlier ticket of the inner queue is still in flight: the consumer's poll stops at the unpublished
\* ticket, the counter goes back to 0 and join() returns although a submitted item is still queued.)
JoinReturnsAfterConsumed == \A t \in 0..P : ~L[t].jmiss
\* the same clause outside that witness class: what join() did not wait for is queued behind the ticket
\* of an execute() that has not signalled yet
JoinReturnsAfterConsumedNoInflight ==
  \A t \in 0..P : ~L[t].jhard
\* the part of it that does not rest on real-time order between threads (meaningful with Stale = TRUE)
JoinOwnAfterConsumed ==
  \A t \in 0..P : ~L[t].jhardown
\* safety form of JoinReturns / RecoveryAfterRefusal / no deadlock: when only joiners and blocked
\* pushers are left, the counter is 0 (the joiners leave) and nobody is blocked
Blocked(t) == pc[t] = "p_fill" /\ ~SlotFree(t)
Quiet == \A t \in Thr : \/ pc[t] \in {"j_load", "j_sleep", "dead"}
                        \/ Finished(t) /\ (t # 0 \/ L[0].stage = "done")
                        \/ Blocked(t)
                        \/ t = 0 /\ pc[0] = "m_wait" /\ \E u \in Prog : ~Finished(u)
NoHang == (Quiet /\ ~H.unrec) => (LastVal(ms, EvLoc) = 0 /\ \A t \in Thr : ~Blocked(t))
\* after the main thread's accepted signal everything pending was consumed
RecoveryAfterRefusal == (AllDone /\ H.refusedEver) => H.called \subseteq H.consEnd

=============================================================================
