------------------------------ MODULE GC_Trace ------------------------------
(***************************************************************************)
(* Trace validation of the real GarbageCollector against the L2            *)
(* specification GC.  The operations of the real epoch and the real queue  *)
(* recorded under vsched are mapped (checks/gc_common.py) to the steps of  *)
(* the abstract epoch / queue of GC.tla; every line must be explained by   *)
(* the step the thread's pc allows.  The value low_water_mark() returned   *)
(* inside the collector is not observable: the specification may choose    *)
(* any value the non-atomic scan can produce, the reclaimer invocations    *)
(* that follow decide.  Run once per loop variant (constant Drain): the    *)
(* variant that explains every execution is the one the code follows.      *)
(***************************************************************************)
EXTENDS GC, Json, IOUtils

Tr == ndJsonDeserialize(IOEnv.TRACE)

VARIABLES l
tvars == <<vars, l>>

CfgOf(e) == [cap |-> e.cap, prog |-> e.prog, nreg |-> e.nreg]

TInit ==
  /\ l = 2
  /\ Tr[1].k = "reset"
  /\ InitFor(CfgOf(Tr[1]))
  /\ TLCSet(1, 1)

Progress == TLCSet(1, IF TLCGet(1) < l' THEN l' ELSE TLCGet(1))

Matches(m, e) ==
  /\ m.t = e.t /\ m.k = e.k
  /\ CASE e.k \in {"call", "ret"} -> m.op = e.op /\ m.x = e.x
       [] e.k \in {"eload", "epub"} -> m.x = e.x /\ m.n = e.n
       [] e.k \in {"eleave", "enest", "lnest"} -> m.x = e.x
       [] e.k = "tick" -> m.n = e.n
       [] e.k = "take" -> m.n = e.n /\ m.vals = e.vals
       [] e.k = "reclaim" -> m.x = e.x
       [] e.k \in {"ticket", "fill", "join", "cbegin", "rel", "lwb", "lwe", "sleep", "exit"} -> TRUE
       [] OTHER -> FALSE

Consume ==
  /\ l <= Len(Tr)
  /\ LET e == Tr[l]
     IN /\ e.k \notin {"reset", "end"}
        /\ IF e.t = 0 THEN ColStep ELSE Step(e.t)
        /\ Matches(ev', e)
  /\ l' = l + 1

\* a try_pop_n that found nothing leaves no operation behind
SilentTake0 ==
  /\ l <= Len(Tr)
  /\ Tr[l].k \notin {"reset", "take"} /\ (Tr[l].t = 0 \/ Tr[l].k = "end")
  /\ col.pc = "c_take"
  /\ Take /\ ev'.n = 0
  /\ UNCHANGED l

End ==
  /\ l <= Len(Tr) /\ Tr[l].k = "end"
  /\ (Tr[l].status = "ok" => AllDone /\ col.pc = "exited")
  /\ l' = l + 1
  /\ UNCHANGED vars

Reset ==
  /\ l <= Len(Tr) /\ Tr[l].k = "reset"
  /\ LET c == CfgOf(Tr[l])
     IN /\ cfg' = c /\ ver' = 0 /\ reg' = [r \in 1..c.nreg |-> MAXV] /\ q' = <<>> /\ col' = Col0
        /\ pc' = [t \in 1..Len(c.prog) |-> "idle"] /\ L' = [t \in 1..Len(c.prog) |-> L0] /\ H' = H0(c) /\ ev' = NoEv
  /\ l' = l + 1

TNext == (Consume \/ SilentTake0 \/ End \/ Reset) /\ Progress

TSpec == TInit /\ [][TNext]_tvars

Post == PrintT(<<"VERIF", TLCGet(1) - 1, Len(Tr), {}>>)
DbgStop == l <= Len(Tr)

\* L1 verdicts on the observed execution (same formulas as the model-checked ones)
TReclaimedExactlyOnce == ReclaimedExactlyOnce
TNeverEarly == NeverEarly
TAllReclaimedUnlessRegionOpenDuringStop == AllReclaimedUnlessRegionOpenDuringStop
TAllReclaimedWhenStopReturns == AllReclaimedWhenStopReturns
TRetireBlocksAndResumes == RetireBlocksAndResumes
=============================================================================
