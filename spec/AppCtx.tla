------------------------------- MODULE AppCtx -------------------------------
(***************************************************************************)
(* L2 (implementation-shaped) specification of babylon::ApplicationContext *)
(* (src/babylon/application_context.{h,cpp}): component lookup, the        *)
(* singleton protocol of ComponentHolder::get / create_singleton, factory  *)
(* creation, nested (dependency) creation under the recursive holder mutex *)
(* and ApplicationContext::clear.                                          *)
(* ONE ACTION PER ATOMIC OPERATION / MUTEX OPERATION / USER CALLBACK EDGE: *)
(*                                                                         *)
(*   Call      component_accessor<T>(name)  (pure lookup)  + call marker   *)
(*   Load      get(): _singleton_state.load(acquire)          fast path    *)
(*   Acquire   create_singleton(): lock of _mutex, the plain read of the   *)
(*             state word and (UNINITIALIZED) the plain store INITIALIZING *)
(*   Ctor      create_instance(): new T              (user constructor)    *)
(*   InitBegin / InitEnd   T::initialize() begin / end; in between one     *)
(*             nested Call per dependency (autowire semantics: the first   *)
(*             failure makes initialize fail)                              *)
(*   DtorFail  instance.clear() of a failed creation  (user destructor)    *)
(*   SeqNo     _singleton = <instance or empty>; next_sequence().faa       *)
(*   Store     _singleton_state.store(INITIALIZED, release)                *)
(*   Unlock    ~lock_guard                                                 *)
(*   Ret       return _singleton (plain read) / the factory instance       *)
(*   Use       the caller reads the instance it was given                  *)
(*   Release   ~ScopedComponent of a factory instance (user destructor)    *)
(*   Clear     ApplicationContext::clear() on the main thread after join   *)
(*                                                                         *)
(* Holder 0 is the static EMPTY_COMPONENT_HOLDER every failed lookup ends  *)
(* at: it runs the same singleton protocol and latches an empty singleton. *)
(* Memory is the view-based model of WeakMem.tla; the orders of the three  *)
(* atomic sites come from M(site) (MO_AppCtx.tla, regenerated from traces).*)
(* The state word is also accessed PLAINLY under the mutex (source:        *)
(* `_singleton_state == ...`, `_singleton_state = INITIALIZING`): modelled *)
(* as relaxed accesses, they are invisible to the harness.                 *)
(***************************************************************************)
EXTENDS Naturals, Integers, Sequences, FiniteSets, TLC, WeakMem

CONSTANTS Stale,    \* BOOLEAN: loads may read non-latest messages
          Configs   \* set of [regs |-> <<[ty, nm, fac, fail, deps |-> <<[ty, nm]..>>]..>>, prog |-> << <<[ty, nm]..>> .. >>]

VARIABLES cfg,      \* the configuration of this behaviour
          ms,       \* WeakMem state
          stk,      \* stk[t]: call stack of get_or_create frames (nested through initialize())
          opi,      \* opi[t]: next operation of thread t's program
          mx,       \* mx[c] = [o |-> owner (0 free), d |-> recursion depth] of holder c's recursive mutex
          sing,     \* sing[c]: instance held by _singleton of holder c (0 = empty Any)
          sq,       \* sq[c]: _sequence of holder c (0 = never created)
          pay,      \* pay[inst]: payload of a constructed instance
          nextInst, \* instance ids in construction order
          H,        \* history for the L1 clauses
          mainpc,   \* "run" | "done"  (main thread: join, clear)
          ev        \* ghost: the event a recorded trace shows for this step

vars == <<cfg, ms, stk, opi, mx, sing, sq, pay, nextInst, H, mainpc, ev>>

DISABLED == 0
UNINIT == 1
INITING == 2
INITED == 3
POISON == 99
GOOD == 7

St(c) == <<"st", c>>
Mx(c) == <<"mx", c>>
SeqLoc == <<"seq", 0>>
SingCell(c) == <<"sing", c>>
PayCell(i) == <<"pay", i>>

NReg(c) == Len(c.regs)
Holders == 0..NReg(cfg)
Thr == 1..Len(cfg.prog)
AllThr == 0..Len(cfg.prog)
IsFac(c) == c > 0 /\ cfg.regs[c].fac
Fails(c) == c > 0 /\ cfg.regs[c].fail
Deps(c) == IF c = 0 THEN << >> ELSE cfg.regs[c].deps

(***************************************************************************)
(* register_component replayed over the registrations: the first           *)
(* registration of a key owns it, a second one sets the entry to nullptr   *)
(* for good (-1), later ones leave it there.                               *)
(***************************************************************************)
RECURSIVE ByType(_, _, _)
ByType(regs, n, ty) ==
  IF n = 0 THEN 0
  ELSE LET prev == ByType(regs, n - 1, ty)
       IN IF regs[n].ty # ty THEN prev ELSE IF prev = 0 THEN n ELSE -1
RECURSIVE ByTypeName(_, _, _, _)
ByTypeName(regs, n, ty, nm) ==
  IF n = 0 THEN 0
  ELSE LET prev == ByTypeName(regs, n - 1, ty, nm)
       IN IF regs[n].ty # ty \/ regs[n].nm # nm \/ nm = 0 THEN prev ELSE IF prev = 0 THEN n ELSE -1
Resolve(c, ty, nm) ==
  LET r == IF nm = 0 THEN ByType(c.regs, NReg(c), ty) ELSE ByTypeName(c.regs, NReg(c), ty, nm)
  IN IF r > 0 THEN r ELSE 0

NoEv == [t |-> 0, k |-> "", site |-> "", mo |-> "", loc |-> "", i |-> 0, v |-> 0, a |-> 0, c |-> 0, inst |-> 0,
         ty |-> 0, nm |-> 0, res |-> 0, ok |-> TRUE, order |-> << >>]

F0 == [c |-> 0, pc |-> "load", inst |-> 0, di |-> 1, ok |-> TRUE, res |-> 0, win |-> FALSE, ty |-> 0, nm |-> 0]

H0 == [ctors |-> {},    \* <<inst, holder>> constructed
       inited |-> {},   \* instances whose initialize() returned 0
       dead |-> {},     \* destroyed instances
       rets |-> {},     \* <<holder, result>> of singleton-mode calls
       frets |-> {},    \* instances handed out by factory-mode calls
       before |-> {},   \* <<i, j>>: singleton i had been handed out before initialize() of singleton j ended
       bad |-> ""]

MS0(c) ==
  WMInit(0..Len(c.prog),
         [x \in ({St(h) : h \in 0..NReg(c)} \cup {Mx(h) : h \in 0..NReg(c)} \cup {SeqLoc}) |->
            IF x = SeqLoc THEN 1
            ELSE IF x[1] = "mx" THEN 0
            ELSE IF x[2] > 0 /\ c.regs[x[2]].fac THEN DISABLED ELSE UNINIT])

InitFor(c) ==
  /\ cfg = c
  /\ ms = MS0(c)
  /\ stk = [t \in 1..Len(c.prog) |-> << >>]
  /\ opi = [t \in 1..Len(c.prog) |-> 1]
  /\ mx = [h \in 0..NReg(c) |-> [o |-> 0, d |-> 0]]
  /\ sing = [h \in 0..NReg(c) |-> 0]
  /\ sq = [h \in 0..NReg(c) |-> 0]
  /\ pay = << >>
  /\ nextInst = 1
  /\ H = H0
  /\ mainpc = "run"
  /\ ev = NoEv

Init == \E c \in Configs : InitFor(c)

(***************************************************************************)
KeepAll == Stale
Flag(b, name) == IF b /\ H.bad = "" THEN name ELSE H.bad
Flag2(b1, n1, b2, n2) == IF H.bad # "" THEN H.bad ELSE IF b1 THEN n1 ELSE IF b2 THEN n2 ELSE ""

Top(t) == stk[t][Len(stk[t])]
Active(t) == stk[t] # << >>
At(t, p) == Active(t) /\ Top(t).pc = p
SetTop(t, f) == stk' = [stk EXCEPT ![t] = [@ EXCEPT ![Len(@)] = f]]
\* the top frame is finished with result res: the parent's initialize() goes on with its next dependency
PopWith(t, res) ==
  LET s == stk[t]
      n == Len(s)
  IN IF n = 1 THEN stk' = [stk EXCEPT ![t] = << >>] /\ opi' = [opi EXCEPT ![t] = @ + 1]
     ELSE /\ stk' = [stk EXCEPT ![t] = [i \in 1..(n - 1) |-> IF i = n - 1 THEN [s[i] EXCEPT !.ok = (res # 0), !.di = @ + 1] ELSE s[i]]]
          /\ UNCHANGED opi

StoreMs(m, t, x, v, mo) == ScAfter(StoreEff(ScBefore(m, t, mo), t, x, v, mo, KeepAll), t, mo)
RmwMs(m, t, x, v, mo) == ScAfter(RmwEff(ScBefore(m, t, mo), t, x, v, mo, KeepAll), t, mo)

(***************************************************************************)
(* component_accessor<T>(name): pure lookup in the two hash maps           *)
(***************************************************************************)
Call(t) ==
  /\ mainpc = "run"
  /\ \/ ~Active(t) /\ opi[t] <= Len(cfg.prog[t])
     \/ At(t, "dep") /\ Top(t).ok /\ Top(t).di <= Len(Deps(Top(t).c))
  /\ LET tgt == IF Active(t) THEN Deps(Top(t).c)[Top(t).di] ELSE cfg.prog[t][opi[t]]
         c == Resolve(cfg, tgt.ty, tgt.nm)
         f == [F0 EXCEPT !.c = c, !.pc = IF IsFac(c) THEN "ctor" ELSE "load", !.ty = tgt.ty, !.nm = tgt.nm]
     IN /\ stk' = [stk EXCEPT ![t] = Append(@, f)]
        /\ ev' = [NoEv EXCEPT !.t = t, !.k = "call", !.ty = tgt.ty, !.nm = tgt.nm, !.c = c]
  /\ UNCHANGED <<cfg, ms, opi, mx, sing, sq, pay, nextInst, H, mainpc>>

\* ComponentHolder::get: the lock-free fast path
Load(t, M(_)) ==
  /\ At(t, "load")
  /\ LET f == Top(t)
         x == St(f.c)
         mo == M("get_state_load")
     IN \E i \in Readable(ms, t, x, Stale) :
          LET v == ms.mem[x][i].val
          IN /\ ms' = ScAfter(LoadEff(ScBefore(ms, t, mo), t, x, i, mo), t, mo)
             /\ SetTop(t, [f EXCEPT !.pc = IF v = INITED THEN "ret" ELSE "acq"])
             /\ ev' = [NoEv EXCEPT !.t = t, !.k = "load", !.site = "get_state_load", !.mo = mo, !.loc = "st", !.i = f.c, !.v = v]
  /\ UNCHANGED <<cfg, opi, mx, sing, sq, pay, nextInst, H, mainpc>>

\* create_singleton: lock_guard(recursive mutex); plain read of the state word; the winner marks INITIALIZING
Acquire(t) ==
  /\ At(t, "acq")
  /\ LET f == Top(t)
         c == f.c
         x == St(c)
     IN /\ mx[c].o \in {0, t}
        /\ mx' = [mx EXCEPT ![c] = [o |-> t, d |-> @.d + 1]]
        /\ LET m1 == RmwEff(ms, t, Mx(c), 0, "acq", FALSE)
           IN \E i \in Readable(m1, t, x, Stale) :
                LET v == m1.mem[x][i].val
                    m2 == LoadEff(m1, t, x, i, "rlx")
                IN IF v = UNINIT
                   THEN /\ ms' = StoreEff(m2, t, x, INITING, "rlx", KeepAll)
                        /\ SetTop(t, [f EXCEPT !.win = TRUE, !.pc = IF c = 0 THEN "seq" ELSE "ctor"])
                        /\ H' = [H EXCEPT !.bad = Flag(LastVal(m2, x) > INITING, "StateForward")]
                   ELSE /\ ms' = m2
                        /\ SetTop(t, [f EXCEPT !.pc = "unl"])
                        /\ UNCHANGED H
        /\ ev' = [NoEv EXCEPT !.t = t, !.k = "lock", !.loc = "mx", !.i = c]
  /\ UNCHANGED <<cfg, opi, sing, sq, pay, nextInst, mainpc>>

\* create_instance(): new T  (the user's constructor runs)
Ctor(t) ==
  /\ At(t, "ctor")
  /\ LET f == Top(t)
         inst == nextInst
     IN /\ nextInst' = nextInst + 1
        /\ ms' = NaWriteEff(ms, t, PayCell(inst), AllThr)
        /\ pay' = (inst :> POISON) @@ pay
        /\ H' = [H EXCEPT !.ctors = @ \cup {<<inst, f.c>>},
                          !.bad = Flag(~IsFac(f.c) /\ \E p \in H.ctors : p[2] = f.c, "CreatedAtMostOnce")]
        /\ SetTop(t, [f EXCEPT !.inst = inst, !.pc = "ib"])
        /\ ev' = [NoEv EXCEPT !.t = t, !.k = "ctor", !.c = f.c, !.inst = inst, !.v = IF IsFac(f.c) THEN DISABLED ELSE INITING]
  /\ UNCHANGED <<cfg, opi, mx, sing, sq, mainpc>>

InitBegin(t) ==
  /\ At(t, "ib")
  /\ LET f == Top(t)
     IN /\ SetTop(t, [f EXCEPT !.pc = "dep", !.di = 1, !.ok = TRUE])
        /\ ev' = [NoEv EXCEPT !.t = t, !.k = "ib", !.c = f.c, !.inst = f.inst]
  /\ UNCHANGED <<cfg, ms, opi, mx, sing, sq, pay, nextInst, H, mainpc>>

\* every dependency is a singleton that has been initialised (or a fresh factory instance was handed over)
DepsReady(c) ==
  \A k \in 1..Len(Deps(c)) :
    LET d == Resolve(cfg, Deps(c)[k].ty, Deps(c)[k].nm)
    IN d # 0 /\ (~IsFac(d) => \E p \in H.ctors : p[2] = d /\ p[1] \in H.inited /\ p[1] \notin H.dead)

\* initialize() returns: 0 when every dependency was delivered and the component itself does not fail
InitEnd(t) ==
  /\ At(t, "dep")
  /\ LET f == Top(t)
         c == f.c
         okk == f.ok /\ ~Fails(c)
     IN /\ (~f.ok \/ f.di > Len(Deps(c)))
        /\ ev' = [NoEv EXCEPT !.t = t, !.k = "ie", !.c = c, !.inst = f.inst, !.ok = okk]
        /\ IF okk
           THEN /\ ms' = NaWriteEff(ms, t, PayCell(f.inst), AllThr)
                /\ pay' = [pay EXCEPT ![f.inst] = GOOD]
                /\ H' = [H EXCEPT !.inited = @ \cup {f.inst},
                                  !.before = IF IsFac(c) THEN @ ELSE @ \cup {<<p[2], f.inst>> : p \in {q \in H.rets : q[2] # 0}},
                                  !.bad = Flag(~DepsReady(c), "DepsBeforeInit")]
                /\ SetTop(t, [f EXCEPT !.res = f.inst, !.pc = IF IsFac(c) THEN "ret" ELSE "seq"])
           ELSE /\ SetTop(t, [f EXCEPT !.res = 0, !.pc = "dtorf"])
                /\ UNCHANGED <<ms, pay, H>>
  /\ UNCHANGED <<cfg, opi, mx, sing, sq, nextInst, mainpc>>

\* instance.clear() after a failed autowire / initialize: the user's destructor runs
DtorFail(t) ==
  /\ At(t, "dtorf")
  /\ LET f == Top(t)
     IN /\ ms' = NaWriteEff(ms, t, PayCell(f.inst), AllThr)
        /\ H' = [H EXCEPT !.dead = @ \cup {f.inst}]
        /\ SetTop(t, [f EXCEPT !.pc = IF IsFac(f.c) THEN "ret" ELSE "seq"])
        /\ ev' = [NoEv EXCEPT !.t = t, !.k = "dtor", !.c = f.c, !.inst = f.inst]
  /\ UNCHANGED <<cfg, opi, mx, sing, sq, pay, nextInst, mainpc>>

\* _singleton = create(context);  _sequence = next_sequence()  (counter.fetch_add(1))
SeqNo(t, M(_)) ==
  /\ At(t, "seq")
  /\ LET f == Top(t)
         c == f.c
         mo == M("seq_faa")
         old == LastVal(ms, SeqLoc)
         m1 == NaWriteEff(ms, t, SingCell(c), AllThr)
     IN /\ ms' = RmwMs(m1, t, SeqLoc, old + 1, mo)
        /\ sing' = [sing EXCEPT ![c] = f.res]
        /\ sq' = [sq EXCEPT ![c] = old]
        /\ SetTop(t, [f EXCEPT !.pc = "store"])
        /\ ev' = [NoEv EXCEPT !.t = t, !.k = "faa", !.site = "seq_faa", !.mo = mo, !.loc = "seq", !.v = old, !.a = 1]
  /\ UNCHANGED <<cfg, opi, mx, pay, nextInst, H, mainpc>>

\* atomic_singleton_state().store(INITIALIZED, release): publication, also of a failure (empty _singleton)
Store(t, M(_)) ==
  /\ At(t, "store")
  /\ LET f == Top(t)
         x == St(f.c)
         mo == M("state_store")
     IN /\ ms' = StoreMs(ms, t, x, INITED, mo)
        /\ H' = [H EXCEPT !.bad = Flag(LastVal(ms, x) > INITED, "StateForward")]
        /\ SetTop(t, [f EXCEPT !.pc = "unl"])
        /\ ev' = [NoEv EXCEPT !.t = t, !.k = "store", !.site = "state_store", !.mo = mo, !.loc = "st", !.i = f.c, !.v = INITED]
  /\ UNCHANGED <<cfg, opi, mx, sing, sq, pay, nextInst, mainpc>>

Unlock(t) ==
  /\ At(t, "unl")
  /\ LET f == Top(t)
         c == f.c
     IN /\ ms' = StoreEff(ms, t, Mx(c), 0, "rel", FALSE)
        /\ mx' = [mx EXCEPT ![c] = [o |-> IF @.d = 1 THEN 0 ELSE t, d |-> @.d - 1]]
        /\ SetTop(t, [f EXCEPT !.pc = "ret"])
        /\ ev' = [NoEv EXCEPT !.t = t, !.k = "unlock", !.loc = "mx", !.i = c]
  /\ UNCHANGED <<cfg, opi, sing, sq, pay, nextInst, H, mainpc>>

\* get(): return _singleton  (plain read: ordered by the acquire load or by the mutex);  create(): the fresh instance
Ret(t) ==
  /\ At(t, "ret")
  /\ LET f == Top(t)
         c == f.c
         res == IF IsFac(c) THEN f.res ELSE sing[c]
         b == IF IsFac(c)
              THEN Flag2(res # 0 /\ res \in H.frets, "FactoryFresh",
                         res # 0 /\ (res \notin H.inited \/ res \in H.dead), "FullyInitialised")
              ELSE Flag2(\E q \in H.rets : q[1] = c /\ q[2] # res, "SameInstance",
                         res # 0 /\ (res \notin H.inited \/ res \in H.dead \/ <<res, c>> \notin H.ctors), "FullyInitialised")
     IN /\ ms' = IF IsFac(c) THEN ms ELSE NaReadEff(ms, t, SingCell(c))
        /\ H' = [H EXCEPT !.rets = IF IsFac(c) THEN @ ELSE @ \cup {<<c, res>>},
                          !.frets = IF IsFac(c) /\ res # 0 THEN @ \cup {res} ELSE @,
                          !.bad = b]
        /\ ev' = [NoEv EXCEPT !.t = t, !.k = "ret", !.ty = f.ty, !.nm = f.nm, !.c = c, !.res = res]
        /\ IF res # 0 THEN SetTop(t, [f EXCEPT !.res = res, !.pc = "use"]) /\ UNCHANGED opi
           ELSE PopWith(t, 0)
  /\ UNCHANGED <<cfg, mx, sing, sq, pay, nextInst, mainpc>>

\* the caller uses the component it was given
Use(t) ==
  /\ At(t, "use")
  /\ LET f == Top(t)
         v == pay[f.res]
     IN /\ ms' = NaReadEff(ms, t, PayCell(f.res))
        /\ H' = [H EXCEPT !.bad = Flag(v # GOOD, "FullyInitialised")]
        /\ ev' = [NoEv EXCEPT !.t = t, !.k = "use", !.inst = f.res, !.v = v]
        /\ IF IsFac(f.c) THEN SetTop(t, [f EXCEPT !.pc = "rel"]) /\ UNCHANGED opi
           ELSE PopWith(t, f.res)
  /\ UNCHANGED <<cfg, mx, sing, sq, pay, nextInst, mainpc>>

\* ~ScopedComponent: a factory instance belongs to the caller
Release(t) ==
  /\ At(t, "rel")
  /\ LET f == Top(t)
     IN /\ ms' = NaWriteEff(ms, t, PayCell(f.res), AllThr)
        /\ H' = [H EXCEPT !.dead = @ \cup {f.res}]
        /\ ev' = [NoEv EXCEPT !.t = t, !.k = "dtor", !.c = f.c, !.inst = f.res]
        /\ PopWith(t, f.res)
  /\ UNCHANGED <<cfg, mx, sing, sq, pay, nextInst, mainpc>>

Finished(t) == ~Active(t) /\ opi[t] > Len(cfg.prog[t])
AllDone == \A t \in Thr : Finished(t)

(***************************************************************************)
(* ApplicationContext::clear() on the main thread after joining: holders   *)
(* sorted by DESCENDING _sequence, each destroyed (its _singleton with it) *)
(***************************************************************************)
RECURSIVE SortDesc(_)
SortDesc(S) ==
  IF S = {} THEN << >>
  ELSE LET c == CHOOSE x \in S : \A y \in S : sq[x] >= sq[y]
       IN <<c>> \o SortDesc(S \ {c})
RECURSIVE JoinAll(_, _)
JoinAll(m, n) == IF n = 0 THEN m ELSE JoinAll(JoinEff(m, 0, n), n - 1)
RECURSIVE DestroyAll(_, _)
DestroyAll(m, s) == IF s = << >> THEN m ELSE DestroyAll(NaWriteEff(m, 0, PayCell(s[1]), AllThr), Tail(s))

Pos(s, x) == CHOOSE i \in 1..Len(s) : s[i] = x

Clear ==
  /\ mainpc = "run" /\ AllDone
  /\ LET live == {c \in Holders : c > 0 /\ ~IsFac(c) /\ sing[c] # 0}
         hs == SortDesc(live)
         order == [i \in 1..Len(hs) |-> sing[hs[i]]]
         insts == {order[i] : i \in 1..Len(order)}
         wrong == \E p \in H.before : p[1] \in insts /\ p[2] \in insts /\ Pos(order, p[2]) > Pos(order, p[1])
     IN /\ ms' = DestroyAll(JoinAll(ms, Len(cfg.prog)), order)
        /\ H' = [H EXCEPT !.dead = @ \cup insts,
                          !.bad = Flag2(wrong, "ClearOrder", insts \cap H.dead # {}, "DestroyedOnce")]
        /\ sing' = [c \in Holders |-> 0]
        /\ ev' = [NoEv EXCEPT !.k = "clear", !.order = order]
  /\ mainpc' = "done"
  /\ UNCHANGED <<cfg, stk, opi, mx, sq, pay, nextInst>>

Step(t, M(_)) ==
  \/ Call(t) \/ Acquire(t) \/ Ctor(t) \/ InitBegin(t) \/ InitEnd(t) \/ DtorFail(t) \/ Unlock(t) \/ Ret(t) \/ Use(t) \/ Release(t)
  \/ Load(t, M) \/ SeqNo(t, M) \/ Store(t, M)

(***************************************************************************)
(* L1 clauses over the history                                             *)
(***************************************************************************)
\* a singleton component is constructed at most once (so a failed initialisation is latched, never retried)
CreatedAtMostOnce ==
  /\ H.bad # "CreatedAtMostOnce"
  /\ \A c \in Holders : ~IsFac(c) => Cardinality({p \in H.ctors : p[2] = c}) <= 1
\* every caller of a singleton gets the same answer: the one instance, or failure for everybody
SameInstance ==
  /\ H.bad # "SameInstance"
  /\ \A c \in Holders : Cardinality({q \in H.rets : q[1] = c}) <= 1
\* what is handed out has completed initialize() successfully, is alive and belongs to the holder that was looked up
FullyInitialised == H.bad # "FullyInitialised"
FactoryFresh == H.bad # "FactoryFresh"
DepsBeforeInit == H.bad # "DepsBeforeInit"
\* the SingletonState word only moves forward
StateForward ==
  /\ H.bad # "StateForward"
  /\ \A c \in Holders : LET v == LastVal(ms, St(c)) IN IF IsFac(c) THEN v = DISABLED ELSE v \in {UNINIT, INITING, INITED}
\* clear(): every live singleton destroyed exactly once, dependents (later completions) first
ClearOrder == H.bad # "ClearOrder"
DestroyedOnce == H.bad # "DestroyedOnce"
ClearDestroysAll == mainpc = "done" => \A p \in H.ctors : p[1] \in H.dead
\* construction / initialisation / destruction of an instance happen-before every use (also on the lock-free path)
NoDataRace == ~ms.race
\* a published state is consistent with the holder
PublishedConsistent ==
  \A c \in Holders : (LastVal(ms, St(c)) = INITED /\ mainpc = "run") =>
     /\ sq[c] > 0
     /\ sing[c] # 0 => (sing[c] \in H.inited /\ sing[c] \notin H.dead)
\* the recursive mutex: owner and depth agree with the frames
MutexDiscipline ==
  \A c \in Holders : (mx[c].o = 0) = (mx[c].d = 0)
=============================================================================
