----------------------------- MODULE Flow_Mon -----------------------------
(***************************************************************************)
(* L1 monitor for babylon::anyflow (property C05) over the observable      *)
(* events of executions of the REAL library: the graph description (reset  *)
(* line), run(targets), processor invocation begin / end with the inputs   *)
(* it saw, emit attempts (who obtained the right to publish a data),       *)
(* closure finished (error code, targets), wait() returned, reset().       *)
(* The reference semantics -- needed set, values -- is evaluated HERE by   *)
(* the sequential demand-driven interpreter Flow_Abs from the graph        *)
(* description; nothing of the counter protocol is known to the monitor.   *)
(*                                                                         *)
(*   RunAtMostOnce               a processor begins at most once per run   *)
(*   RunOnlyAfterDepsReady       at begin every condition is published,    *)
(*                               every established target is published,    *)
(*                               and the inputs seen are the L1 inputs     *)
(*   OnlyNeededRun               only vertices of the L1 run set begin     *)
(*   PublishedOnce               one successful publisher per data, and    *)
(*                               the data holds what that one published    *)
(*   SuccessImpliesL1Values      code 0: every target ready with L1 value  *)
(*   ErrorJustified              code # 0 only if L1 evaluation has no     *)
(*                               result (missing input / failing vertex)   *)
(*   WaitReturnsAfterAllFinished no processor inside process() at waitret  *)
(*   QuiescentAfterWait          nothing of the run is started after wait  *)
(*   Terminates                  no deadlock / livelock, every cycle ends  *)
(* The same clauses are judged on every run/reset cycle.                   *)
(***************************************************************************)
EXTENDS Flow_Abs, Json, IOUtils

Tr == ndJsonDeserialize(IOEnv.TRACE)

VARIABLES l,
          rl,       \* line of the reset event (graph description) of the execution being judged
          cyc,      \* current cycle (1-based), 0 before the first run
          ran, running,
          pubs,     \* set of <<data, src, term>> of successful publishers in this cycle
          subm,     \* vertices handed to the executor and not yet returned from GraphVertex::run (the return comes after
                    \* the closure's count was dropped, so wait() may legitimately return first: judged are the
                    \* processor begin / end events and hand-overs after wait())
          finSeen, waitSeen, code,
          bad,      \* first violated clause of this execution ("" = none)
          viol      \* set of <<"L<line>", clause>> over all executions of the file (reported by Post)

mvars == <<l, rl, cyc, ran, running, pubs, subm, finSeen, waitSeen, code, bad, viol>>

G == Tr[rl].g
cycles == Tr[rl].cycles

Flag(b, name) == IF b /\ bad = "" THEN name ELSE bad
\* first violated clause of a list of <<condition, name>>
RECURSIVE FirstBad(_, _)
FirstBad(cs, i) == IF i > Len(cs) THEN "" ELSE IF cs[i][1] THEN cs[i][2] ELSE FirstBad(cs, i + 1)
Flags(cs) == IF bad # "" THEN bad ELSE FirstBad(cs, 1)

R == cycles[cyc]
InRun == cyc >= 1 /\ cyc <= Len(cycles)
JPub == \E p \in pubs : p[2] = "j"
PubOf(d) == {p \in pubs : p[1] = d}

Fresh(e) ==
  /\ rl' = l /\ cyc' = 0
  /\ ran' = {} /\ running' = {} /\ pubs' = {} /\ subm' = {} /\ finSeen' = FALSE /\ waitSeen' = FALSE /\ code' = 0

MInit ==
  /\ l = 2 /\ Tr[1].k = "reset"
  /\ rl = 1 /\ cyc = 0
  /\ ran = {} /\ running = {} /\ pubs = {} /\ subm = {} /\ finSeen = FALSE /\ waitSeen = FALSE /\ code = 0
  /\ bad = "" /\ viol = {}
  /\ TLCSet(1, 1) /\ TLCSet(2, {})

Keep == UNCHANGED rl

MRun(e) ==
  /\ cyc' = cyc + 1
  /\ ran' = {} /\ running' = {} /\ pubs' = {} /\ subm' = {} /\ finSeen' = FALSE /\ waitSeen' = FALSE /\ code' = 0
  /\ bad' = Flags(<< <<cyc >= 1 /\ ~waitSeen, "Terminates">>, <<e.cyc # cyc + 1 \/ cyc + 1 > Len(cycles), "Protocol">> >>)
  /\ Keep

DepOK(e, i, pi) ==
  LET dep == G.deps[e.v][i]
      holds == HoldsD(G, R, pi, dep)
  IN /\ (dep.c # 0 => e.cr[i])
     /\ (holds => e.tr[i] /\ e.dr[i])
     /\ e.ins[i] = InputOf(G, R, pi, dep)

MVBegin(e) ==
  LET wf == InRun /\ e.v \in 1..NV(G) /\ Len(e.ins) = Len(G.deps[e.v])
  IN /\ ran' = ran \cup {e.v}
     /\ running' = running \cup {e.v}
     /\ bad' = IF ~wf THEN Flag(TRUE, "Protocol")
               ELSE Flags(<< <<e.v \in ran, "RunAtMostOnce">>,
                             <<waitSeen /\ (code = 0 \/ R.ij = 0), "WaitReturnsAfterAllFinished">>,
                             <<e.v \notin RunSetAny(G, R), "OnlyNeededRun">>,
                             <<\E i \in DOMAIN G.deps[e.v] : ~DepOK(e, i, JPub), "RunOnlyAfterDepsReady">> >>)
     /\ UNCHANGED <<cyc, pubs, subm, finSeen, waitSeen, code>> /\ Keep

MVEnd(e) ==
  /\ running' = running \ {e.v}
  /\ bad' = Flag(e.v \notin running, "Protocol")
  /\ UNCHANGED <<cyc, ran, pubs, subm, finSeen, waitSeen, code>> /\ Keep

\* the executor seam: the vertex is started / GraphVertex::run has returned (its closure is done).
\* After wait() returned a successful run has to be quiescent: nothing of it may be started any more.
\* (A run that failed while another thread was still publishing one of its inputs is over: what that late input
\*  starts afterwards is outside the property -- such runs are judged up to the error code only.)
MVSub(e) ==
  /\ subm' = subm \cup {e.v}
  /\ bad' = Flags(<< <<~InRun, "Protocol">>, <<e.v \in subm, "RunAtMostOnce">>, <<waitSeen /\ (code = 0 \/ R.ij = 0), "QuiescentAfterWait">> >>)
  /\ UNCHANGED <<cyc, ran, running, pubs, finSeen, waitSeen, code>> /\ Keep

MVDone(e) ==
  /\ subm' = subm \ {e.v}
  /\ bad' = Flag(e.v \notin subm, "Protocol")
  /\ UNCHANGED <<cyc, ran, running, pubs, finSeen, waitSeen, code>> /\ Keep

MEmit(e) ==
  /\ pubs' = IF e.valid THEN pubs \cup {<<e.d, e.src, e.term>>} ELSE pubs
  /\ bad' = Flags(<< <<~InRun, "Protocol">>,
                     <<e.valid /\ PubOf(e.d) # {}, "PublishedOnce">>,
                     <<e.src = "v" /\ e.by \notin running, "Protocol">> >>)
  /\ UNCHANGED <<cyc, ran, running, subm, finSeen, waitSeen, code>> /\ Keep

MFin(e) ==
  LET pi == JPub
      okv == \A i \in DOMAIN R.tg : e.rd[i] /\ e.vals[i] = ValD(G, R, pi, R.tg[i])
  IN /\ finSeen' = TRUE /\ code' = e.code
     /\ bad' = IF ~InRun \/ Len(e.vals) # Len(R.tg) THEN Flag(TRUE, "Protocol")
               ELSE Flags(<< <<e.code = 0 /\ ~okv, "SuccessImpliesL1Values">>,
                             <<e.code # 0 /\ ~ErrOKAny(G, R), "ErrorJustified">> >>)
     /\ UNCHANGED <<cyc, ran, running, pubs, subm, waitSeen>> /\ Keep

MWaitRet(e) ==
  /\ waitSeen' = TRUE
  /\ bad' = Flags(<< <<~InRun, "Protocol">>,
                     <<running # {} /\ (code = 0 \/ R.ij = 0), "WaitReturnsAfterAllFinished">>,
                     <<~finSeen, "WaitReturnsAfterAllFinished">> >>)
  /\ UNCHANGED <<cyc, ran, running, pubs, subm, finSeen, code>> /\ Keep

\* quiescent observation of every data after wait() and after the injector is done
MObs(e) ==
  LET pi == JPub
      held == \A p \in pubs : e.rd[p[1]] /\ e.vals[p[1]] = p[3]
  IN /\ bad' = IF ~InRun \/ Len(e.vals) # G.nd THEN Flag(TRUE, "Protocol")
               ELSE Flags(<< <<~held, "PublishedOnce">>,
                             <<~(ran \subseteq RunSet(G, R, pi)), "OnlyNeededRun">> >>)
     /\ UNCHANGED <<cyc, ran, running, pubs, subm, finSeen, waitSeen, code>> /\ Keep

MGReset(e) ==
  /\ bad' = Flag(~waitSeen, "Protocol")
  /\ UNCHANGED <<cyc, ran, running, pubs, subm, finSeen, waitSeen, code>> /\ Keep

MEnd(e) ==
  /\ bad' = IF e.status \in {"deadlock", "budget"} THEN Flag(TRUE, "Terminates")
            ELSE IF e.status # "ok" THEN Flag(TRUE, "NoCrash")
            ELSE Flag(cyc # Len(cycles) \/ ~waitSeen, "Terminates")
  /\ UNCHANGED <<cyc, ran, running, pubs, subm, finSeen, waitSeen, code>> /\ Keep

MNext ==
  /\ l <= Len(Tr)
  /\ LET e == Tr[l]
     IN CASE e.k = "reset" -> Fresh(e) /\ bad' = ""
          [] e.k = "run" -> MRun(e)
          [] e.k = "vbegin" -> MVBegin(e)
          [] e.k = "vend" -> MVEnd(e)
          [] e.k = "vsub" -> MVSub(e)
          [] e.k = "vdone" -> MVDone(e)
          [] e.k = "emit" -> MEmit(e)
          [] e.k = "fin" -> MFin(e)
          [] e.k = "waitret" -> MWaitRet(e)
          [] e.k = "obs" -> MObs(e)
          [] e.k = "greset" -> MGReset(e)
          [] e.k = "end" -> MEnd(e)
          [] OTHER -> UNCHANGED <<rl, cyc, ran, running, pubs, subm, finSeen, waitSeen, code, bad>>
  /\ l' = l + 1
  /\ viol' = IF bad' # "" /\ (bad = "" \/ Tr[l].k = "reset") THEN viol \cup {<<"L" \o ToString(l), bad'>>} ELSE viol
  /\ TLCSet(1, l') /\ TLCSet(2, viol')

MSpec == MInit /\ [][MNext]_mvars

\* debugging aid (not in the cfg): stop at the first violation
Holds == bad = ""

\* <<"VERIF", lines consumed, lines, {<<"L<line of the offending event>", violated clause>>}>>
Post == PrintT(<<"VERIF", TLCGet(1) - 1, Len(Tr), TLCGet(2)>>)
=============================================================================
