------------------------------- MODULE CoTask -------------------------------
(***************************************************************************)
(* L2 specification of awaiting a child Task and awaiting a Future          *)
(* (src/babylon/coroutine/task.h, promise.h, future_awaitable.h).           *)
(* One parent coroutine P (id 0, bound to executor cfg.bound) performs       *)
(* Len(cfg.kinds) co_awaits; round r awaits                                  *)
(*   "f"  Future r directly                                                  *)
(*   "t"  a child task (id r) that awaits Future r and returns its value     *)
(*   "i"  a child task (id r) that returns at once                           *)
(* The child is bound to executor cfg.cex (0: await_transform gives it the   *)
(* parent's executor).  The future is modelled at its L1 (C08): on_finish    *)
(* either runs the callback at once (value already set) or registers it;     *)
(* set_value runs the registered callbacks on the setting thread.            *)
(*                                                                         *)
(*   Task::await_suspend : set_awaiter(parent, parent executor);             *)
(*                         inplace_resumable ? run child here : resume(child)*)
(*   FinalAwaitable      : awaiter registered ? (in place | resume_awaiter)  *)
(*                         : destroy                                         *)
(*   FutureAwaitable     : await_ready = future.ready(); await_suspend =     *)
(*                         future.on_finish([h]{ h.promise().resume(h); })   *)
(***************************************************************************)
EXTENDS Naturals, Integers, Sequences, FiniteSets, TLC

CONSTANTS Configs   \* set of [kinds, bound, cex, emode, prog]

VARIABLES cfg, cst, crnd, stk, opi, queue,
          fstate,   \* fstate[r] \in {"unset", "set"}
          fcb,      \* fcb[r]: coroutine whose resumption is registered on future r (-1: none)
          aw,       \* aw[r]: child r has the parent registered as awaiter
          cdone,    \* cdone[r]: child r has produced its value
          H

vars == <<cfg, cst, crnd, stk, opi, queue, fstate, fcb, aw, cdone, H>>

NR == Len(cfg.kinds)
R == 1..NR
NT == Len(cfg.prog)
NE == Len(cfg.emode)
Thr == 1..(NT + NE)
IsWorker(t) == t > NT
ExOf(t) == t - NT
ExecOf(c) == IF c = 0 \/ cfg.cex = 0 THEN cfg.bound ELSE cfg.cex
F0 == [k |-> "", pc |-> "", c |-> 0, r |-> 0, ex |-> 0]

InitFor(c) ==
  /\ cfg = c
  /\ cst = [x \in 0..Len(c.kinds) |-> "new"]
  /\ crnd = 1
  /\ stk = [t \in 1..(Len(c.prog) + Len(c.emode)) |-> << >>]
  /\ opi = [t \in 1..Len(c.prog) |-> 1]
  /\ queue = [e \in 1..Len(c.emode) |-> << >>]
  /\ fstate = [r \in 1..Len(c.kinds) |-> "unset"]
  /\ fcb = [r \in 1..Len(c.kinds) |-> -1]
  /\ aw = [r \in 1..Len(c.kinds) |-> FALSE]
  /\ cdone = [r \in 1..Len(c.kinds) |-> FALSE]
  /\ H = [bad |-> "", res |-> {}]

Init == \E c \in Configs : InitFor(c)

Top(t) == stk[t][Len(stk[t])]
Below(t) == SubSeq(stk[t], 1, Len(stk[t]) - 1)
SetTop(t, f) == [stk EXCEPT ![t] = Append(Below(t), f)]
Pop(t) == [stk EXCEPT ![t] = Below(t)]
Bad(h, clause) == IF h.bad = "" THEN [h EXCEPT !.bad = clause] ELSE h

\* frame with which coroutine c continues after a suspension / starts
Cont(c, pc, ex) == [F0 EXCEPT !.k = IF c = 0 THEN "co" ELSE "ch", !.pc = pc, !.c = c, !.r = c, !.ex = ex]

\* BasicPromise::resume(handle) of coroutine c through its executor; the caller's frame continues as cont
\* (cont = F0 with k = "": the caller's frame is finished)
Resume(t, c, pc, cont) ==
  LET base == IF cont.k = "" THEN Below(t) ELSE Append(Below(t), cont)
      e == ExecOf(c)
  IN IF cst[c] \notin {"susp", "new"}
     THEN /\ H' = Bad(H, "ResumedExactlyOncePerSuspension")
          /\ stk' = [stk EXCEPT ![t] = base] /\ UNCHANGED <<cst, queue>>
     ELSE /\ cst' = [cst EXCEPT ![c] = "run"]
          /\ IF cfg.emode[e] = "i"
             THEN stk' = [stk EXCEPT ![t] = Append(base, Cont(c, pc, e))] /\ UNCHANGED queue
             ELSE stk' = [stk EXCEPT ![t] = base] /\ queue' = [queue EXCEPT ![e] = Append(@, [c |-> c, pc |-> pc])]
          /\ UNCHANGED H

\* parent body
CoStep(t) ==
  LET f == Top(t)
      r == crnd
      kd == cfg.kinds[r]
      valok == IF kd = "f" THEN fstate[r] = "set" ELSE cdone[r]
      h1 == IF f.pc = "res" THEN (IF r \in H.res THEN Bad(H, "ResumedExactlyOncePerSuspension") ELSE [H EXCEPT !.res = @ \cup {r}]) ELSE H
      h2 == IF f.pc = "res" /\ ~valok THEN Bad(h1, "ReceivesAwaitedValue") ELSE h1
      h3 == IF f.ex # cfg.bound THEN Bad(h2, "ResumedOnBoundExecutor") ELSE h2
      nr == IF f.pc = "res" THEN r + 1 ELSE r
  IN /\ f.k = "co"
     /\ H' = h3
     /\ crnd' = nr
     /\ IF nr > NR
        THEN cst' = [cst EXCEPT ![0] = "done"] /\ stk' = Pop(t)
        ELSE /\ cst' = [cst EXCEPT ![0] = "susp"]
             /\ stk' = SetTop(t, IF cfg.kinds[nr] = "f" THEN [F0 EXCEPT !.k = "fa", !.pc = "ready", !.c = 0, !.r = nr, !.ex = f.ex]
                                 ELSE [F0 EXCEPT !.k = "ts", !.pc = "setaw", !.c = 0, !.r = nr, !.ex = f.ex])
     /\ UNCHANGED <<queue, fstate, fcb, aw, cdone>>

\* Task<T>::await_suspend(awaiter, awaiter_executor) for child r
TaskStep(t) ==
  LET f == Top(t) IN
  /\ f.k = "ts"
  /\ CASE f.pc = "setaw" ->
            /\ aw' = [aw EXCEPT ![f.r] = TRUE]
            /\ stk' = SetTop(t, [f EXCEPT !.pc = "start"])
            /\ UNCHANGED <<cst, crnd, queue, fstate, fcb, cdone, H>>
       [] f.pc = "start" ->
            IF f.ex = ExecOf(f.r)        \* promise.inplace_resumable(): the child runs on this thread
            THEN /\ cst' = [cst EXCEPT ![f.r] = "run"]
                 /\ stk' = SetTop(t, Cont(f.r, "begin", f.ex))
                 /\ UNCHANGED <<crnd, queue, fstate, fcb, aw, cdone, H>>
            ELSE /\ Resume(t, f.r, "begin", F0)   \* promise.resume(_handle); return noop_coroutine()
                 /\ UNCHANGED <<crnd, fstate, fcb, aw, cdone>>

\* child body
ChildStep(t) ==
  LET f == Top(t)
      r == f.r
  IN /\ f.k = "ch"
     /\ CASE f.pc = "begin" ->
               IF cfg.kinds[r] = "t"
               THEN /\ cst' = [cst EXCEPT ![r] = "susp"]
                    /\ stk' = SetTop(t, [F0 EXCEPT !.k = "fa", !.pc = "ready", !.c = r, !.r = r, !.ex = f.ex])
                    /\ UNCHANGED <<crnd, queue, fstate, fcb, aw, cdone, H>>
               ELSE /\ stk' = SetTop(t, [f EXCEPT !.pc = "res"])
                    /\ UNCHANGED <<cst, crnd, queue, fstate, fcb, aw, cdone, H>>
          [] f.pc = "res" ->     \* co_return value
               /\ cdone' = [cdone EXCEPT ![r] = TRUE]
               /\ H' = IF f.ex # ExecOf(r) THEN Bad(H, "ResumedOnBoundExecutor")
                       ELSE IF cfg.kinds[r] = "t" /\ fstate[r] # "set" THEN Bad(H, "ReceivesAwaitedValue") ELSE H
               /\ stk' = SetTop(t, [f EXCEPT !.pc = "final"])
               /\ UNCHANGED <<cst, crnd, queue, fstate, fcb, aw>>
          [] f.pc = "final" ->   \* FinalAwaitable::await_suspend
               /\ IF aw[r]
                  THEN IF f.ex = cfg.bound       \* awaiter_inplace_resumable
                       THEN IF cst[0] # "susp"
                            THEN /\ H' = Bad(H, "ResumedExactlyOncePerSuspension") /\ stk' = Pop(t)
                                 /\ cst' = [cst EXCEPT ![r] = "done"] /\ UNCHANGED queue
                            ELSE /\ cst' = [cst EXCEPT ![r] = "done", ![0] = "run"]
                                 /\ stk' = SetTop(t, Cont(0, "res", f.ex))
                                 /\ UNCHANGED <<queue, H>>
                       ELSE \* resume_awaiter(): through the parent's executor
                            LET e == cfg.bound IN
                            IF cst[0] # "susp"
                            THEN /\ H' = Bad(H, "ResumedExactlyOncePerSuspension") /\ stk' = Pop(t)
                                 /\ cst' = [cst EXCEPT ![r] = "done"] /\ UNCHANGED queue
                            ELSE /\ cst' = [cst EXCEPT ![r] = "done", ![0] = "run"]
                                 /\ IF cfg.emode[e] = "i"
                                    THEN stk' = [stk EXCEPT ![t] = Append(Below(t), Cont(0, "res", e))] /\ UNCHANGED queue
                                    ELSE stk' = Pop(t) /\ queue' = [queue EXCEPT ![e] = Append(@, [c |-> 0, pc |-> "res"])]
                                 /\ UNCHANGED H
                  ELSE /\ cst' = [cst EXCEPT ![r] = "done"] /\ stk' = Pop(t) /\ UNCHANGED <<queue, H>>   \* destroy
               /\ UNCHANGED <<crnd, fstate, fcb, aw, cdone>>

\* BasicFutureAwaitable of coroutine f.c on future f.r
FutStep(t) ==
  LET f == Top(t) IN
  /\ f.k = "fa"
  /\ CASE f.pc = "ready" ->     \* await_ready(): no suspension if the value is there
            IF fstate[f.r] = "set"
            THEN /\ cst' = [cst EXCEPT ![f.c] = "run"]
                 /\ stk' = SetTop(t, Cont(f.c, "res", f.ex))
                 /\ UNCHANGED <<crnd, queue, fstate, fcb, aw, cdone, H>>
            ELSE /\ stk' = SetTop(t, [f EXCEPT !.pc = "onfinish"])
                 /\ UNCHANGED <<cst, crnd, queue, fstate, fcb, aw, cdone, H>>
       [] f.pc = "onfinish" ->  \* future.on_finish(callback): runs it now if the value arrived meanwhile
            IF fstate[f.r] = "set"
            THEN /\ Resume(t, f.c, "res", [f EXCEPT !.pc = "ret"])
                 /\ UNCHANGED <<crnd, fstate, fcb, aw, cdone>>
            ELSE /\ fcb' = [fcb EXCEPT ![f.r] = f.c]
                 /\ stk' = Pop(t)
                 /\ UNCHANGED <<cst, crnd, queue, fstate, aw, cdone, H>>
       [] f.pc = "ret" ->
            /\ stk' = Pop(t)
            /\ UNCHANGED <<cst, crnd, queue, fstate, fcb, aw, cdone, H>>

Dispatch(t) ==
  /\ ~IsWorker(t) /\ stk[t] = << >> /\ opi[t] <= Len(cfg.prog[t])
  /\ LET o == cfg.prog[t][opi[t]] IN
     CASE o.op = "s" ->
            /\ cst[0] = "new"
            /\ Resume(t, 0, "start", F0)
            /\ opi' = [opi EXCEPT ![t] = @ + 1]
            /\ UNCHANGED <<crnd, fstate, fcb, aw, cdone>>
       [] o.op = "v" ->      \* promise.set_value: the registered callback runs on this thread
            /\ fstate' = [fstate EXCEPT ![o.r] = "set"]
            /\ IF fcb[o.r] # -1
               THEN /\ fcb' = [fcb EXCEPT ![o.r] = -1]
                    /\ LET c == fcb[o.r]
                           e == ExecOf(c)
                       IN IF cst[c] # "susp"
                          THEN H' = Bad(H, "ResumedExactlyOncePerSuspension") /\ UNCHANGED <<cst, stk, queue>>
                          ELSE /\ cst' = [cst EXCEPT ![c] = "run"]
                               /\ IF cfg.emode[e] = "i"
                                  THEN stk' = [stk EXCEPT ![t] = <<Cont(c, "res", e)>>] /\ UNCHANGED queue
                                  ELSE queue' = [queue EXCEPT ![e] = Append(@, [c |-> c, pc |-> "res"])] /\ UNCHANGED stk
                               /\ UNCHANGED H
               ELSE UNCHANGED <<fcb, cst, stk, queue, H>>
            /\ opi' = [opi EXCEPT ![t] = @ + 1]
            /\ UNCHANGED <<crnd, aw, cdone>>

Worker(t) ==
  /\ IsWorker(t) /\ stk[t] = << >> /\ cfg.emode[ExOf(t)] = "q" /\ queue[ExOf(t)] # << >>
  /\ stk' = [stk EXCEPT ![t] = <<Cont(Head(queue[ExOf(t)]).c, Head(queue[ExOf(t)]).pc, ExOf(t))>>]
  /\ queue' = [queue EXCEPT ![ExOf(t)] = Tail(@)]
  /\ UNCHANGED <<cst, crnd, opi, fstate, fcb, aw, cdone, H>>

Step(t) ==
  /\ UNCHANGED cfg
  /\ \/ Dispatch(t)
     \/ Worker(t)
     \/ /\ stk[t] # << >> /\ UNCHANGED opi
        /\ (CoStep(t) \/ TaskStep(t) \/ ChildStep(t) \/ FutStep(t))

Quiescent == /\ \A t \in Thr : stk[t] = << >>
             /\ \A e \in 1..NE : queue[e] = << >>
             /\ \A t \in 1..NT : opi[t] > Len(cfg.prog[t])
AllDone == Quiescent

ResumedExactlyOncePerSuspension == H.bad # "ResumedExactlyOncePerSuspension"
ResumedOnBoundExecutor == H.bad # "ResumedOnBoundExecutor"
ReceivesAwaitedValue == H.bad # "ReceivesAwaitedValue"
\* every round whose future was set (or that needs none) has continued once nothing runs any more
NeverLeftSuspendedAfterWakeCondition ==
  Quiescent /\ cst[0] # "new" =>
     \A r \in R : (\A q \in 1..r : cfg.kinds[q] = "i" \/ fstate[q] = "set") => r \in H.res
=============================================================================
