------------------------------ MODULE Appender ------------------------------
(***************************************************************************)
(* C20, concurrent half: L2 specification of babylon::AsyncFileAppender    *)
(* (src/babylon/logging/async_file_appender.{h,cpp}) on an ABSTRACT        *)
(* ConcurrentBoundedQueue (its exactly-once / FIFO / blocking behaviour is *)
(* properties C01 / C02 and is not re-verified here).                      *)
(*                                                                         *)
(*  logging thread t   builds an entry (pages from the allocator), then    *)
(*      write(entry, file)  = queue.push<concurrent, spin-wait, no wake>   *)
(*      discard(entry)      = pages straight back to the allocator         *)
(*  writer thread      keep_writing():                                     *)
(*      try_pop_n<non-concurrent, no wake>(batch = capacity): up to two    *)
(*      contiguous ranges of the ring; per range: scan the published       *)
(*      prefix, claim it, run the callback (marker: stop = true, BREAK;    *)
(*      else append the entry's segments to its destination), release the  *)
(*      slots; then for every destination ever seen:                       *)
(*      check_and_get_file_descriptor (may rotate), writev, pages back to  *)
(*      the allocator; back off; loop while !stop                          *)
(*  closing thread     close() = queue.push<concurrent, FUTEX wait, wake>  *)
(*      of the marker (size 0, precondition O2), then join the writer      *)
(*                                                                         *)
(* Abstract queue: tickets are handed out in push order (cells); a cell is *)
(* "claimed" (ticket taken) then "pub"lished; ticket k may be filled once  *)
(* k <= released + Cap.  A logging thread spins for that; the closer       *)
(* SLEEPS on the slot's futex, and because the writer's pop never wakes    *)
(* anybody (try_pop_n<false,false>) it then sleeps forever: observation O1 *)
(* (liveness, outside C20) -- CloseTerminates below is violated whenever   *)
(* the queue can be full when close() is called.                           *)
(*                                                                         *)
(* An entry is two segments <<e,1>>, <<e,2>> (two pages: e.g. a data page  *)
(* and a table page) so that mixing / partial writes are expressible.      *)
(***************************************************************************)
EXTENDS Naturals, Integers, Sequences, FiniteSets, TLC

VARIABLE cfg   \* the configuration of this behaviour (never changes):
               \*   prog[t]  = sequence of [k |-> "w" | "d", f |-> file] for logging thread t
               \*   cap      = queue capacity (power of two)
               \*   maxrot   = how many times the files may rotate
               \*   early    = TRUE: close() may be called while logging threads are still writing
               \*   iovmax   = IOV_MAX: the most segments one writev accepts (1024 in the kernel, small in the models)
               \* an op [k |-> "w", f, s] writes an entry of s segments (pages + page-table pages) to file f
Prog == cfg.prog
Cap == cfg.cap
MaxRot == cfg.maxrot
CloseEarly == cfg.early
IOVMax == cfg.iovmax

Loggers == 1..Len(Prog)
Files == {0, 1}
EntryOK(e) == e[1] \in Loggers /\ e[2] \in 1..Len(Prog[e[1]])
OpOf(e) == Prog[e[1]][e[2]]
SegsOf(e) == [j \in 1..OpOf(e).s |-> <<e, j>>]
PagesOf(e) == {<<e, j>> : j \in 1..OpOf(e).s}
Marker == <<0, 0>>

VARIABLES lpc, li,              \* logging threads: pc, index of the current op
          cells, popIdx, relIdx,\* the abstract queue: cells in ticket order, claimed / released by the popper
          tk,                   \* tk[t]: ticket of thread t (0 = closer)
          cpc,                  \* closer: "wait" | "ticket" | "check" | "sleep" | "join" | "done"
          wpc, wn, woff, wfull, stop, wdi, \* writer: pc, cells claimed in this range, segments of the current destination already
                                \* handed to writev, range 1 complete, stop flag, destination index
          dests, iov,           \* _destinations (registration order), per file the pending scatter list
          gen, rots,            \* current generation of each file, rotations so far
          content,              \* content[f]: what reached the file: sequence of [g, seg]
          held, pool, dfree,    \* pages out / returned; a page was returned that was not out
          wdone, must, discarded\* history: write() returned; returned before close() was called; discarded

vars == <<cfg, lpc, li, cells, popIdx, relIdx, tk, cpc, wpc, wn, woff, wfull, stop, wdi, dests, iov, gen, rots, content, held, pool, dfree, wdone, must, discarded>>

InitFor(c) ==
  /\ cfg = c
  /\ lpc = [t \in Loggers |-> "idle"] /\ li = [t \in Loggers |-> 1]
  /\ cells = << >> /\ popIdx = 0 /\ relIdx = 0
  /\ tk = [t \in Loggers \cup {0} |-> 0]
  /\ cpc = "wait"
  /\ wpc = "pop" /\ wn = 0 /\ woff = 0 /\ wfull = FALSE /\ stop = FALSE /\ wdi = 1
  /\ dests = << >> /\ iov = [f \in Files |-> << >>]
  /\ gen = [f \in Files |-> 0] /\ rots = 0
  /\ content = [f \in Files |-> << >>]
  /\ held = {} /\ pool = {} /\ dfree = FALSE
  /\ wdone = {} /\ must = {} /\ discarded = {}

Cur(t) == <<t, li[t]>>
Finished(t) == li[t] > Len(Prog[t])

Free(pages) ==   \* PageAllocator::deallocate
  /\ dfree' = (dfree \/ ~(pages \subseteq held))
  /\ held' = held \ pages
  /\ pool' = pool \cup pages

\* ---- logging thread ----------------------------------------------------------------------------
Build(t) ==
  /\ lpc[t] = "idle" /\ ~Finished(t)
  /\ held' = held \cup PagesOf(Cur(t)) /\ pool' = pool \ PagesOf(Cur(t))
  /\ lpc' = [lpc EXCEPT ![t] = "built"]
  /\ UNCHANGED <<li, cells, popIdx, relIdx, tk, cpc, wpc, wn, woff, wfull, stop, wdi, dests, iov, gen, rots, content, dfree, wdone, must, discarded>>

Discard(t) ==
  /\ lpc[t] = "built" /\ OpOf(Cur(t)).k = "d"
  /\ Free(PagesOf(Cur(t)))
  /\ discarded' = discarded \cup {Cur(t)}
  /\ lpc' = [lpc EXCEPT ![t] = "idle"] /\ li' = [li EXCEPT ![t] = @ + 1]
  /\ UNCHANGED <<cells, popIdx, relIdx, tk, cpc, wpc, wn, woff, wfull, stop, wdi, dests, iov, gen, rots, content, wdone, must>>

Ticket(t) ==   \* push: fetch_add on the push index
  /\ lpc[t] = "built" /\ OpOf(Cur(t)).k = "w"
  /\ cells' = Append(cells, [st |-> "claimed", item |-> Cur(t)])
  /\ tk' = [tk EXCEPT ![t] = Len(cells) + 1]
  /\ lpc' = [lpc EXCEPT ![t] = "ticket"]
  /\ UNCHANGED <<li, popIdx, relIdx, cpc, wpc, wn, woff, wfull, stop, wdi, dests, iov, gen, rots, content, held, pool, dfree, wdone, must, discarded>>

Fill(t) ==     \* spin until the slot is free, copy the entry, publish
  /\ lpc[t] = "ticket" /\ tk[t] <= relIdx + Cap
  /\ cells' = [cells EXCEPT ![tk[t]].st = "pub"]
  /\ lpc' = [lpc EXCEPT ![t] = "filled"]
  /\ UNCHANGED <<li, popIdx, relIdx, tk, cpc, wpc, wn, woff, wfull, stop, wdi, dests, iov, gen, rots, content, held, pool, dfree, wdone, must, discarded>>

Ret(t) ==
  /\ lpc[t] = "filled"
  /\ wdone' = wdone \cup {Cur(t)}
  /\ lpc' = [lpc EXCEPT ![t] = "idle"] /\ li' = [li EXCEPT ![t] = @ + 1]
  /\ UNCHANGED <<cells, popIdx, relIdx, tk, cpc, wpc, wn, woff, wfull, stop, wdi, dests, iov, gen, rots, content, held, pool, dfree, must, discarded>>

LoggerStep(t) == Build(t) \/ Discard(t) \/ Ticket(t) \/ Fill(t) \/ Ret(t)

\* ---- closing thread ----------------------------------------------------------------------------
CCall ==
  /\ cpc = "wait" /\ (CloseEarly \/ \A t \in Loggers : Finished(t))
  /\ must' = wdone
  /\ cpc' = "ticket"
  /\ UNCHANGED <<lpc, li, cells, popIdx, relIdx, tk, wpc, wn, woff, wfull, stop, wdi, dests, iov, gen, rots, content, held, pool, dfree, wdone, discarded>>

CTicket ==
  /\ cpc = "ticket"
  /\ cells' = Append(cells, [st |-> "claimed", item |-> Marker])
  /\ tk' = [tk EXCEPT ![0] = Len(cells) + 1]
  /\ cpc' = "check"
  /\ UNCHANGED <<lpc, li, popIdx, relIdx, wpc, wn, woff, wfull, stop, wdi, dests, iov, gen, rots, content, held, pool, dfree, wdone, must, discarded>>

\* slot free: publish the marker.  Not free: futex wait -- and nobody ever wakes it (O1)
CCheck ==
  /\ cpc = "check"
  /\ IF tk[0] <= relIdx + Cap
     THEN cells' = [cells EXCEPT ![tk[0]].st = "pub"] /\ cpc' = "join"
     ELSE cells' = cells /\ cpc' = "sleep"
  /\ UNCHANGED <<lpc, li, popIdx, relIdx, tk, wpc, wn, woff, wfull, stop, wdi, dests, iov, gen, rots, content, held, pool, dfree, wdone, must, discarded>>

CJoin ==
  /\ cpc = "join" /\ wpc = "exit"
  /\ cpc' = "done"
  /\ UNCHANGED <<lpc, li, cells, popIdx, relIdx, tk, wpc, wn, woff, wfull, stop, wdi, dests, iov, gen, rots, content, held, pool, dfree, wdone, must, discarded>>

CloserStep == CCall \/ CTicket \/ CCheck \/ CJoin

\* ---- writer thread -----------------------------------------------------------------------------
\* published prefix of the cells popIdx+1 .. popIdx+max
RECURSIVE Prefix(_, _)
Prefix(from, max) == IF max = 0 \/ from > Len(cells) \/ cells[from].st # "pub" THEN 0 ELSE 1 + Prefix(from + 1, max - 1)

\* the callback over cells a..b: marker -> stop, break; else destination(file), append_to_iovec
RECURSIVE Callback(_, _, _)
Callback(a, b, acc) ==   \* acc = [stop, dests, iov]
  IF a > b THEN acc
  ELSE LET it == cells[a].item
       IN IF it = Marker THEN [acc EXCEPT !.stop = TRUE]
          ELSE LET f == OpOf(it).f
                   d2 == IF \E i \in 1..Len(acc.dests) : acc.dests[i] = f THEN acc.dests ELSE Append(acc.dests, f)
               IN Callback(a + 1, b, [acc EXCEPT !.dests = d2, !.iov[f] = acc.iov[f] \o SegsOf(it)])

PopRange(max, nextpc) ==
  LET n == Prefix(popIdx + 1, max)
      r == Callback(popIdx + 1, popIdx + n, [stop |-> stop, dests |-> dests, iov |-> iov])
  IN /\ popIdx' = popIdx + n
     /\ stop' = r.stop /\ dests' = r.dests /\ iov' = r.iov
     /\ wn' = n /\ wfull' = (n = max)
     /\ wpc' = IF n = 0 THEN "dest" ELSE nextpc

WPop1 ==   \* first range: up to the end of the ring
  /\ wpc = "pop"
  /\ PopRange(Cap - (popIdx % Cap), "rel1")
  /\ UNCHANGED <<lpc, li, cells, relIdx, tk, cpc, woff, wdi, gen, rots, content, held, pool, dfree, wdone, must, discarded>>

WRel1 ==   \* slots of range 1 released; a second range follows if range 1 was complete and batch not exhausted
  /\ wpc = "rel1"
  /\ relIdx' = relIdx + wn
  /\ wpc' = IF wfull /\ wn < Cap THEN "pop2" ELSE "dest"
  /\ UNCHANGED <<lpc, li, cells, popIdx, tk, cpc, wn, woff, wfull, stop, wdi, dests, iov, gen, rots, content, held, pool, dfree, wdone, must, discarded>>

WPop2 ==
  /\ wpc = "pop2"
  /\ PopRange(Cap - wn, "rel2")
  /\ UNCHANGED <<lpc, li, cells, relIdx, tk, cpc, woff, wdi, gen, rots, content, held, pool, dfree, wdone, must, discarded>>

WRel2 ==
  /\ wpc = "rel2"
  /\ relIdx' = relIdx + wn
  /\ wpc' = "dest"
  /\ UNCHANGED <<lpc, li, cells, popIdx, tk, cpc, wn, woff, wfull, stop, wdi, dests, iov, gen, rots, content, held, pool, dfree, wdone, must, discarded>>

\* every destination was visited: back off
WDestDone ==
  /\ wpc = "dest" /\ wdi > Len(dests)
  /\ wpc' = "backoff" /\ wdi' = 1
  /\ UNCHANGED <<lpc, li, cells, popIdx, relIdx, tk, cpc, wn, woff, wfull, stop, dests, iov, gen, rots, content, held, pool, dfree, wdone, must, discarded>>

\* one destination: descriptor check (rotation possible); nothing pending -> next destination
WDestOne(rot) ==
  /\ wpc = "dest" /\ wdi <= Len(dests)
  /\ rot => rots < MaxRot
  /\ LET f == dests[wdi]
     IN /\ gen' = [gen EXCEPT ![f] = IF rot THEN @ + 1 ELSE @]
        /\ rots' = IF rot THEN rots + 1 ELSE rots
        /\ IF iov[f] = << >> THEN wdi' = wdi + 1 /\ wpc' = "dest" ELSE wdi' = wdi /\ wpc' = "wv"
  /\ woff' = 0
  /\ UNCHANGED <<lpc, li, cells, popIdx, relIdx, tk, cpc, wn, wfull, stop, dests, iov, content, held, pool, dfree, wdone, must, discarded>>

\* the kernel: writev with more than IOV_MAX segments fails (EINVAL) and writes nothing
KernelWritev(f, segs) ==
  content' = IF Len(segs) > IOVMax THEN content
             ELSE [content EXCEPT ![f] = @ \o [i \in 1..Len(segs) |-> [g |-> gen[f], seg |-> segs[i]]]]

\* write_use_plain_writev: the pending scatter list goes out in chunks of at most IOV_MAX segments
WWritev ==
  /\ wpc = "wv"
  /\ LET f == dests[wdi]
         n == IF Len(iov[f]) - woff < IOVMax THEN Len(iov[f]) - woff ELSE IOVMax
     IN /\ KernelWritev(f, SubSeq(iov[f], woff + 1, woff + n))
        /\ woff' = woff + n
        /\ wpc' = IF woff + n = Len(iov[f]) THEN "free" ELSE "wv"
  /\ UNCHANGED <<lpc, li, cells, popIdx, relIdx, tk, cpc, wn, wfull, stop, wdi, dests, iov, gen, rots, held, pool, dfree, wdone, must, discarded>>

\* ... then every page of the list goes back to the allocator
WFree ==
  /\ wpc = "free"
  /\ LET f == dests[wdi]
     IN /\ Free({iov[f][i] : i \in 1..Len(iov[f])})
        /\ iov' = [iov EXCEPT ![f] = << >>]
  /\ wdi' = wdi + 1 /\ wpc' = "dest" /\ woff' = 0
  /\ UNCHANGED <<lpc, li, cells, popIdx, relIdx, tk, cpc, wn, wfull, stop, dests, gen, rots, content, wdone, must, discarded>>

WDest == WDestDone \/ (\E rot \in BOOLEAN : WDestOne(rot)) \/ WWritev \/ WFree

WBackoff ==
  /\ wpc = "backoff"
  /\ wpc' = IF stop THEN "exit" ELSE "pop"
  /\ UNCHANGED <<lpc, li, cells, popIdx, relIdx, tk, cpc, wn, woff, wfull, stop, wdi, dests, iov, gen, rots, content, held, pool, dfree, wdone, must, discarded>>

WriterStep == WPop1 \/ WRel1 \/ WPop2 \/ WRel2 \/ WDest \/ WBackoff

Next == ((\E t \in Loggers : LoggerStep(t)) \/ CloserStep \/ WriterStep) /\ UNCHANGED cfg

\* ---- L1 clauses ----------------------------------------------------------------------------------
Rec(f, k) == content[f][k]
InFile(f, e) == \A j \in 1..OpOf(e).s : \E k \in 1..Len(content[f]) : Rec(f, k).seg = <<e, j>>

\* no segment reaches any file twice
WrittenAtMostOnce ==
  \A f1 \in Files, f2 \in Files : \A k1 \in 1..Len(content[f1]), k2 \in 1..Len(content[f2]) :
     (Rec(f1, k1).seg = Rec(f2, k2).seg) => (f1 = f2 /\ k1 = k2)
\* ... only into the file it was written for, and only what was handed to write()
RightFile == \A f \in Files : \A k \in 1..Len(content[f]) : LET e == Rec(f, k).seg[1] IN EntryOK(e) /\ OpOf(e).k = "w" /\ OpOf(e).f = f
\* the segments of an entry are adjacent, in order, in one generation of the file
Unmixed ==
  \A f \in Files : \A k \in 1..Len(content[f]) :
     LET e == Rec(f, k).seg[1]
         j == Rec(f, k).seg[2]
     IN /\ (j > 1 => k > 1 /\ Rec(f, k - 1).seg = <<e, j - 1>> /\ Rec(f, k - 1).g = Rec(f, k).g)
        /\ (j < OpOf(e).s /\ wpc # "wv" => k < Len(content[f]) /\ Rec(f, k + 1).seg = <<e, j + 1>>)
\* each thread's entries appear in the order it wrote them (per file; generations are ordered)
PerThreadOrder ==
  \A f \in Files : \A k1 \in 1..Len(content[f]), k2 \in 1..Len(content[f]) :
     (k1 < k2 /\ Rec(f, k1).seg[1][1] = Rec(f, k2).seg[1][1]) => (Rec(f, k1).seg[1][2] <= Rec(f, k2).seg[1][2] /\ Rec(f, k1).g <= Rec(f, k2).g)
\* pages: never returned twice / while not out; what is queued or pending is still out; after the writer
\* finished a round, every entry that reached its file or was discarded has its pages back
NoDoubleFree == ~dfree
NoEarlyFree == \A f \in Files : \A i \in 1..Len(iov[f]) : iov[f][i] \in held
PagesConserved ==
  /\ \A e \in discarded : PagesOf(e) \subseteq pool
  /\ (wpc \in {"pop", "backoff", "exit"} => \A f \in Files : \A k \in 1..Len(content[f]) : Rec(f, k).seg \in pool)
\* close() returned: everything written before it was called is in its file (once, by WrittenAtMostOnce), pages back
NothingLost == cpc = "done" => \A e \in must : InFile(OpOf(e).f, e) /\ PagesOf(e) \subseteq pool

\* O1 (liveness, NOT part of C20): close() returns.  Violated iff the queue can be full at close().
CloseTerminates == <>(cpc = "done")
=============================================================================
