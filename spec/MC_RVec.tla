------------------------------ MODULE MC_RVec ------------------------------
(* Model-checking / behaviour-generation instance of RVec.                  *)
(*  - Spec    : exhaustive BFS (optionally bounded in depth by DepthBound)  *)
(*  - GenSpec : used with `tlc -simulate`: random walks of GenDepth         *)
(*              operations; each finished walk is printed (BEH ...) and the *)
(*              state is reset, so one simulation run yields many           *)
(*              behaviours which the driver then executes on the real code. *)
EXTENDS RVec

CONSTANTS MaxDepth, GenDepth

VARIABLE hist
mcvars == <<vars, hist>>

\* buffer ids, events and the operation record are ghosts: not part of the state identity
View == <<alive, abs, [v \in Vecs |-> [sz |-> vec[v].sz, cons |-> vec[v].cons, cap |-> vec[v].cap, d |-> vec[v].d]], bad>>
DepthBound == TLCGet("level") <= MaxDepth

MCInit == Init /\ hist = <<>>
MCNext == Next /\ hist' = Append(hist, op')
MCSpec == MCInit /\ [][MCNext]_mcvars

\* a random operation of a random kind (no enumeration of the whole operation universe)
GenNames == <<"pb", "pb", "pb", "pop", "ins", "ins", "insn", "insr", "era", "erar", "rsz", "rszv", "res", "clr", "asgn", "asgr", "asgc", "swp", "mva", "cpa", "del">>
NewNames == <<"new", "new", "newn", "newnv", "newr", "newm", "cpc", "mvc">>
RSeq(n) == [k \in 1..RandomElement(0..n) |-> RandomElement(Values)]
GenOp(v) ==
  LET n == vec[v].sz
      nm == IF alive[v] THEN GenNames[RandomElement(1..Len(GenNames))] ELSE NewNames[RandomElement(1..Len(NewNames))]
      constref == nm \in {"insn", "rszv", "asgn", "newnv"}
      s == [f |-> IF constref THEN "ext" ELSE RandomElement(Forms), x |-> RandomElement(Values)]
      a == RandomElement(0..n)
      b == IF nm = "erar" THEN RandomElement(0..n) ELSE IF nm \in {"rsz", "rszv", "res"} THEN RandomElement(0..MaxCap) ELSE RandomElement(0..MaxN)
      w == IF nm \in {"swp", "mva", "cpa", "cpc", "mvc"} THEN RandomElement(Vecs) ELSE 0
  IN O(nm, v, w, IF nm \in {"ins", "insn", "insr", "era", "erar"} THEN a ELSE 0,
       IF nm \in {"insn", "erar", "rsz", "rszv", "res", "asgn", "asgc", "newn", "newnv", "newm"} THEN b ELSE 0,
       IF nm \in {"pb", "ins", "insn", "rszv", "asgn", "newnv"} THEN s ELSE NoSrc,
       IF nm \in {"insr", "asgr", "newr"} THEN RSeq(MaxN) ELSE <<>>)

\* one random operation per step (RandomElement: only the chosen successor is evaluated)
GenNext ==
  \/ /\ Len(hist) < GenDepth
     /\ \E v \in {RandomElement(Vecs)} : \E o \in {GenOp(v)} :
          IF Pre(o) /\ (\A u \in Vecs : Apply(o).vec[u].cap <= MaxCap)
          THEN Step(o) /\ hist' = Append(hist, op')
          ELSE UNCHANGED vars /\ hist' = hist
  \/ /\ Len(hist) >= GenDepth
     /\ PrintT(<<"BEH", hist>>)
     /\ alive' = [v \in Vecs |-> ~Life]
     /\ abs' = [v \in Vecs |-> <<>>]
     /\ vec' = [v \in Vecs |-> NoVec]
     /\ nb' = 0 /\ ev' = <<>> /\ bad' = {} /\ op' = NoOp /\ hist' = <<>>
GenSpec == MCInit /\ [][GenNext]_mcvars
=============================================================================
