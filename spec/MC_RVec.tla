------------------------------ MODULE MC_RVec ------------------------------
(* Model-checking / behaviour-generation instance of RVec.                  *)
(*  - Spec    : exhaustive BFS (optionally bounded in depth by DepthBound)  *)
(*  - GenSpec : used with `tlc -simulate`: random walks of GenDepth         *)
(*              operations; each finished walk is printed (BEH ...) and the *)
(*              state is reset, so one simulation run yields many           *)
(*              behaviours which the driver then executes on the real code. *)
EXTENDS RVec

CONSTANTS MaxDepth, GenDepth

VARIABLE hist
mcvars == <<vars, hist>>

\* buffer ids, events and the operation record are ghosts: not part of the state identity
View == <<alive, abs, [v \in Vecs |-> [sz |-> vec[v].sz, cons |-> vec[v].cons, cap |-> vec[v].cap, d |-> vec[v].d]], bad>>
DepthBound == TLCGet("level") <= MaxDepth

MCInit == Init /\ hist = <<>>
MCNext == Next /\ hist' = Append(hist, op')
MCSpec == MCInit /\ [][MCNext]_mcvars

GenNext ==
  \/ /\ Len(hist) < GenDepth
     /\ Next
     /\ hist' = Append(hist, op')
  \/ /\ Len(hist) >= GenDepth
     /\ PrintT(<<"BEH", hist>>)
     /\ alive' = [v \in Vecs |-> ~Life]
     /\ abs' = [v \in Vecs |-> <<>>]
     /\ vec' = [v \in Vecs |-> NoVec]
     /\ nb' = 0 /\ ev' = <<>> /\ bad' = {} /\ op' = NoOp /\ hist' = <<>>
GenSpec == MCInit /\ [][GenNext]_mcvars
=============================================================================
