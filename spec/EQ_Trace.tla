----------------------------- MODULE EQ_Trace -----------------------------
(***************************************************************************)
(* Trace validation of the real ConcurrentExecutionQueue against the L2    *)
(* specification EQ.  Every line of the normalised ndjson trace recorded   *)
(* under vsched -- the atomic operations on `_events`, the executor's      *)
(* answers, the driver's call / ret / payload-write / consume events --    *)
(* must be explained by exactly the EQ action the thread's pc allows, with *)
(* the same operands, value read and outcome.  The atomics of the inner    *)
(* bounded queue are internal (filtered by location name); the abstract    *)
(* queue's reserve / publish / poll steps are tau steps TLC places between *)
(* the observable ones.  The memory order of each step is the one the code *)
(* passed (Tr[l].mo); the <<site, order>> pairs are collected in moSeen    *)
(* from which MO_EQ.tla is regenerated.                                    *)
(***************************************************************************)
EXTENDS EQ, Json, IOUtils

Tr == ndJsonDeserialize(IOEnv.TRACE)

VARIABLES l, moSeen
tvars == <<vars, l, moSeen>>

CfgOf(e) == [cap |-> e.cap, mode |-> e.mode, faults |-> e.faults, retry |-> e.retry, prog |-> e.prog]

TInit ==
  /\ l = 2
  /\ moSeen = {}
  /\ Tr[1].k = "reset"
  /\ InitFor(CfgOf(Tr[1]))
  /\ TLCSet(1, 1)
  /\ TLCSet(2, {})

Progress == TLCSet(1, IF TLCGet(1) < l' THEN l' ELSE TLCGet(1))

Matches(m, e) ==
  /\ m.t = e.t /\ m.k = e.k
  /\ CASE e.k = "load" -> m.loc = e.loc /\ m.v = e.v
       [] e.k = "faa" -> m.loc = e.loc /\ m.v = e.v /\ m.a = e.a
       [] e.k = "cas" -> m.loc = e.loc /\ m.v = e.v /\ m.a = e.a /\ m.b = e.b /\ m.ok = e.ok
       [] e.k = "call" -> m.op = e.op /\ m.item = e.item
       [] e.k = "ret" -> m.op = e.op /\ m.item = e.item /\ m.res = e.res
       [] e.k = "sub" -> m.a = e.a /\ m.ok = e.ok
       [] e.k = "pw" -> m.i = e.i /\ m.v = e.v
       [] e.k \in {"cbb", "cbe"} -> m.vals = e.vals
       [] e.k = "sleep" -> TRUE
       [] e.k = "quiesce" -> m.ok = e.ok
       [] e.k = "final" -> m.vals = e.vals /\ m.v = e.v
       [] OTHER -> FALSE

Consume ==
  /\ l <= Len(Tr)
  /\ LET e == Tr[l]
     IN /\ e.k \notin {"reset", "end"}
        /\ e.t \in Thr
        /\ Step(e.t, LAMBDA site : e.mo)
        /\ Matches(ev', e)
        /\ moSeen' = IF ev'.site # "" THEN moSeen \cup {<<ev'.site, ev'.mo>>} ELSE moSeen
  /\ l' = l + 1

\* internal steps of the abstract inner queue: any thread, anywhere between its observable steps
Silent ==
  /\ l <= Len(Tr)
  /\ Tr[l].k \notin {"reset", "end"}
  /\ \E u \in Thr : TauStep(u)
  /\ UNCHANGED <<l, moSeen>>

End ==
  /\ l <= Len(Tr) /\ Tr[l].k = "end"
  /\ (Tr[l].status = "ok" => AllDone)
  /\ l' = l + 1
  /\ UNCHANGED <<vars, moSeen>>

Reset ==
  /\ l <= Len(Tr) /\ Tr[l].k = "reset"
  /\ LET c == CfgOf(Tr[l])
     IN /\ cfg' = c /\ ms' = MS0(c) /\ pc' = PC0(c) /\ L' = LL0(c) /\ Q' = Q0 /\ H' = H0 /\ ev' = NoEv
  /\ l' = l + 1
  /\ UNCHANGED moSeen

TNext == (Consume \/ Silent \/ End \/ Reset) /\ Progress /\ (l' > Len(Tr) => TLCSet(2, moSeen'))

TSpec == TInit /\ [][TNext]_tvars

TView == <<cfg, ms, pc, L, Q, H, l, moSeen>>

\* <<"VERIF", lines explained, lines, site/order pairs>>
Post == PrintT(<<"VERIF", TLCGet(1) - 1, Len(Tr), TLCGet(2)>>)

\* debugging aid: violated exactly when the whole (truncated) trace was explained
DbgStop == l <= Len(Tr)

\* L1 verdicts on the observed execution (same formulas as the model-checked ones)
TNoDataRace == NoDataRace
TConsumedExactlyOnce == ConsumedExactlyOnce
TPerProducerOrder == PerProducerOrder
TSingleConsumer == SingleConsumer
TNoStranding == NoStranding
TJoinReturnsAfterConsumedNoInflight == JoinReturnsAfterConsumedNoInflight
=============================================================================
