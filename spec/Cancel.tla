------------------------------- MODULE Cancel -------------------------------
(***************************************************************************)
(* L2 specification of babylon::coroutine::Cancellable<A> / BasicCancellable *)
(* (src/babylon/coroutine/cancelable.h) for ONE awaiting coroutine W that   *)
(* performs Rounds co_awaits of a cancellable wrapper one after the other   *)
(* (the DepositBox<BasicCancellable*> slot is reused from round to round).  *)
(*                                                                         *)
(*   await_suspend : emplace(this) [_promise, _handle, box.emplace], create *)
(*                   the proxy task, on_suspend(Cancellation{id}), then     *)
(*                   symmetric transfer into the proxy: co_await awaitable   *)
(*   completion    : the awaited thing finishes on some thread (inside the  *)
(*                   scope of executor cscope, 0 = a plain thread); the     *)
(*                   proxy continues there: co_return value, ~S -> resume(id)*)
(*                   = take; won: set_awaiter(handle, executor), finish;    *)
(*                   final_suspend: awaiter registered ? (in place | through *)
(*                   its executor) : destroy itself                         *)
(*   cancel(id)    : take; won: _canceled = true, _promise->resume(_handle), *)
(*                   finish (accessor destructor, AFTER the resume)          *)
(*   await_resume  : canceled ? (release proxy, empty optional) : value      *)
(*                                                                         *)
(* Deposit box at its L1: slot generation + taken flag, LIFO reuse.         *)
(***************************************************************************)
EXTENDS Naturals, Integers, Sequences, FiniteSets, TLC

CONSTANTS Configs   \* set of [rounds, bound, emode, cscope, prog]

VARIABLES cfg, box, tok, cst, crnd, stk, opi, queue,
          fset,      \* fset[r]: the awaited thing of round r has its value
          waiting,   \* waiting[r]: the proxy of round r is suspended on it
          aw,        \* aw[r]: proxy promise has W registered as awaiter (do_resume ran)
          canceled,  \* _canceled of round r's Cancellable
          pval,      \* proxy promise of round r holds the value (co_return executed)
          H

vars == <<cfg, box, tok, cst, crnd, stk, opi, queue, fset, waiting, aw, canceled, pval, H>>

Slots == 1..3
R == 1..cfg.rounds
NT == Len(cfg.prog)
NE == Len(cfg.emode)
Thr == 1..(NT + NE)
IsWorker(t) == t > NT
ExOf(t) == t - NT
NoId == <<0, 0>>
F0 == [k |-> "", pc |-> "", r |-> 0, id |-> NoId, ex |-> 0]

InitFor(c) ==
  /\ cfg = c
  /\ box = [gen |-> [s \in Slots |-> 0], taken |-> [s \in Slots |-> FALSE], free |-> << >>, n |-> 0]
  /\ tok = [r \in 1..c.rounds |-> NoId]
  /\ cst = "new" /\ crnd = 1
  /\ stk = [t \in 1..(Len(c.prog) + Len(c.emode)) |-> << >>]
  /\ opi = [t \in 1..Len(c.prog) |-> 1]
  /\ queue = [e \in 1..Len(c.emode) |-> << >>]
  /\ fset = [r \in 1..c.rounds |-> FALSE] /\ waiting = [r \in 1..c.rounds |-> FALSE]
  /\ aw = [r \in 1..c.rounds |-> FALSE] /\ canceled = [r \in 1..c.rounds |-> FALSE]
  /\ pval = [r \in 1..c.rounds |-> FALSE]
  /\ H = [bad |-> "", cancelWon |-> {}, res |-> << >>]

Init == \E c \in Configs : InitFor(c)

Top(t) == stk[t][Len(stk[t])]
Below(t) == SubSeq(stk[t], 1, Len(stk[t]) - 1)
SetTop(t, f) == [stk EXCEPT ![t] = Append(Below(t), f)]
Pop(t) == [stk EXCEPT ![t] = Below(t)]
Bad(h, clause) == IF h.bad = "" THEN [h EXCEPT !.bad = clause] ELSE h
Live(id) == box.gen[id[1]] = id[2] /\ ~box.taken[id[1]]
Finish(s) == box' = [box EXCEPT !.free = <<s>> \o @]
Scope(t) == IF stk[t] = << >> THEN 0 ELSE Top(t).ex

\* BasicPromise::resume(handle) of W by thread t, whose own frame continues as cont
Resume(t, cont) ==
  IF cst # "susp"
  THEN /\ H' = Bad(H, "ResumedExactlyOncePerSuspension")
       /\ stk' = SetTop(t, cont) /\ UNCHANGED <<cst, queue>>
  ELSE /\ cst' = "run"
       /\ IF cfg.emode[cfg.bound] = "i"
          THEN /\ stk' = [stk EXCEPT ![t] = Append(Append(Below(t), cont), [F0 EXCEPT !.k = "co", !.pc = "res", !.ex = cfg.bound])]
               /\ UNCHANGED queue
          ELSE /\ stk' = SetTop(t, cont)
               /\ queue' = [queue EXCEPT ![cfg.bound] = Append(@, "res")]
       /\ UNCHANGED H

\* W continues: await_resume of the round it waited in, then the next co_await or the end
CoStep(t) ==
  LET f == Top(t)
      r == crnd
      has == ~canceled[r]
      h1 == IF f.pc = "res" THEN [H EXCEPT !.res = [x \in DOMAIN H.res \cup {r} |-> IF x = r THEN has ELSE H.res[x]]] ELSE H
      h2 == IF f.pc = "res" /\ r \in DOMAIN H.res THEN Bad(h1, "ResumedExactlyOncePerSuspension") ELSE h1
      h3 == IF f.pc = "res" /\ has /\ ~pval[r] THEN Bad(h2, "ReceivesAwaitedValue") ELSE h2
      h4 == IF f.ex # cfg.bound THEN Bad(h3, "ResumedOnBoundExecutor") ELSE h3
      nr == IF f.pc = "res" THEN r + 1 ELSE r
  IN /\ f.k = "co"
     /\ H' = h4
     /\ crnd' = nr
     /\ IF nr > cfg.rounds
        THEN cst' = "done" /\ stk' = Pop(t)
        ELSE cst' = "susp" /\ stk' = SetTop(t, [F0 EXCEPT !.k = "as", !.pc = "emplace", !.r = nr, !.ex = f.ex])
     /\ UNCHANGED <<box, tok, queue, fset, waiting, aw, canceled, pval>>

AsStep(t) ==
  LET f == Top(t) IN
  /\ f.k = "as"
  /\ CASE f.pc = "emplace" ->
            LET reuse == box.free # << >>
                ns == IF reuse THEN Head(box.free) ELSE box.n + 1
            IN /\ ns \in Slots
               /\ box' = [box EXCEPT !.free = IF reuse THEN Tail(@) ELSE @, !.n = IF reuse THEN @ ELSE @ + 1,
                                     !.gen[ns] = @ + 1, !.taken[ns] = FALSE]
               /\ stk' = SetTop(t, [f EXCEPT !.pc = "onsusp", !.id = <<ns, box.gen[ns] + 1>>])
               /\ UNCHANGED <<tok, cst, crnd, queue, fset, waiting, aw, canceled, pval, H>>
       [] f.pc = "onsusp" ->
            /\ tok' = [tok EXCEPT ![f.r] = f.id]
            /\ stk' = SetTop(t, [f EXCEPT !.pc = "start"])
            /\ UNCHANGED <<box, cst, crnd, queue, fset, waiting, aw, canceled, pval, H>>
       [] f.pc = "start" ->   \* return proxy_handle: the proxy runs on this thread up to its co_await
            /\ IF fset[f.r]
               THEN /\ stk' = SetTop(t, [F0 EXCEPT !.k = "p", !.pc = "p_take", !.r = f.r, !.id = f.id, !.ex = f.ex])
                    /\ UNCHANGED waiting
               ELSE /\ waiting' = [waiting EXCEPT ![f.r] = TRUE]
                    /\ stk' = Pop(t)
            /\ UNCHANGED <<box, tok, cst, crnd, queue, fset, aw, canceled, pval, H>>

\* the proxy after its co_await: co_return, ~S -> BasicCancellable::resume(id), final_suspend
ProxyStep(t) ==
  LET f == Top(t) IN
  /\ f.k = "p"
  /\ CASE f.pc = "p_take" ->
            /\ pval' = [pval EXCEPT ![f.r] = TRUE]
            /\ IF Live(f.id)
               THEN /\ box' = [box EXCEPT !.taken[f.id[1]] = TRUE]
                    /\ stk' = SetTop(t, [f EXCEPT !.pc = "p_setaw"])
               ELSE /\ stk' = SetTop(t, [f EXCEPT !.pc = "p_final"]) /\ UNCHANGED box
            /\ UNCHANGED <<tok, cst, crnd, queue, fset, waiting, aw, canceled, H>>
       [] f.pc = "p_setaw" ->   \* do_resume: _proxy_promise->set_awaiter(_handle, _promise->executor())
            /\ aw' = [aw EXCEPT ![f.r] = TRUE]
            /\ stk' = SetTop(t, [f EXCEPT !.pc = "p_finish"])
            /\ UNCHANGED <<box, tok, cst, crnd, queue, fset, waiting, canceled, pval, H>>
       [] f.pc = "p_finish" ->
            /\ Finish(f.id[1])
            /\ stk' = SetTop(t, [f EXCEPT !.pc = "p_final"])
            /\ UNCHANGED <<tok, cst, crnd, queue, fset, waiting, aw, canceled, pval, H>>
       [] f.pc = "p_final" ->   \* FinalAwaitable::await_suspend
            IF aw[f.r]
            THEN IF f.ex = cfg.bound   \* awaiter_inplace_resumable: switch to W on this thread
                 THEN IF cst # "susp"
                      THEN /\ H' = Bad(H, "ResumedExactlyOncePerSuspension") /\ stk' = Pop(t)
                           /\ UNCHANGED <<box, tok, cst, crnd, queue, fset, waiting, aw, canceled, pval>>
                      ELSE /\ cst' = "run"
                           /\ stk' = SetTop(t, [F0 EXCEPT !.k = "co", !.pc = "res", !.ex = f.ex])
                           /\ UNCHANGED <<box, tok, crnd, queue, fset, waiting, aw, canceled, pval, H>>
                 ELSE /\ Resume(t, [f EXCEPT !.pc = "p_end"])
                      /\ UNCHANGED <<box, tok, crnd, fset, waiting, aw, canceled, pval>>
            ELSE /\ stk' = Pop(t)      \* nobody waits: handle.destroy()
                 /\ UNCHANGED <<box, tok, cst, crnd, queue, fset, waiting, aw, canceled, pval, H>>
       [] f.pc = "p_end" ->
            /\ stk' = Pop(t)
            /\ UNCHANGED <<box, tok, cst, crnd, queue, fset, waiting, aw, canceled, pval, H>>

CancelStep(t) ==
  LET f == Top(t) IN
  /\ f.k = "x"
  /\ CASE f.pc = "x_take" ->
            IF Live(f.id)
            THEN /\ box' = [box EXCEPT !.taken[f.id[1]] = TRUE]
                 /\ H' = [H EXCEPT !.cancelWon = @ \cup {f.r}]
                 /\ stk' = SetTop(t, [f EXCEPT !.pc = "x_flag"])
                 /\ UNCHANGED <<tok, cst, crnd, queue, fset, waiting, aw, canceled, pval>>
            ELSE /\ stk' = Pop(t)
                 /\ UNCHANGED <<box, tok, cst, crnd, queue, fset, waiting, aw, canceled, pval, H>>
       [] f.pc = "x_flag" ->
            /\ canceled' = [canceled EXCEPT ![f.r] = TRUE]
            /\ stk' = SetTop(t, [f EXCEPT !.pc = "x_resume"])
            /\ UNCHANGED <<box, tok, cst, crnd, queue, fset, waiting, aw, pval, H>>
       [] f.pc = "x_resume" ->
            /\ Resume(t, [f EXCEPT !.pc = "x_finish"])
            /\ UNCHANGED <<box, tok, crnd, fset, waiting, aw, canceled, pval>>
       [] f.pc = "x_finish" ->
            /\ Finish(f.id[1])
            /\ stk' = Pop(t)
            /\ UNCHANGED <<tok, cst, crnd, queue, fset, waiting, aw, canceled, pval, H>>

Dispatch(t) ==
  /\ ~IsWorker(t) /\ stk[t] = << >> /\ opi[t] <= Len(cfg.prog[t])
  /\ LET o == cfg.prog[t][opi[t]] IN
     CASE o.op = "s" ->
            /\ cst = "new" /\ cst' = "run"
            /\ IF cfg.emode[cfg.bound] = "i"
               THEN stk' = [stk EXCEPT ![t] = <<[F0 EXCEPT !.k = "co", !.pc = "start", !.ex = cfg.bound]>>] /\ UNCHANGED queue
               ELSE queue' = [queue EXCEPT ![cfg.bound] = Append(@, "start")] /\ UNCHANGED stk
            /\ opi' = [opi EXCEPT ![t] = @ + 1]
            /\ UNCHANGED <<box, tok, crnd, fset, waiting, aw, canceled, pval, H>>
       [] o.op = "v" ->      \* the awaited thing of round o.r completes on this thread (inside scope cscope)
            /\ fset' = [fset EXCEPT ![o.r] = TRUE]
            /\ IF waiting[o.r]
               THEN /\ waiting' = [waiting EXCEPT ![o.r] = FALSE]
                    /\ stk' = [stk EXCEPT ![t] = <<[F0 EXCEPT !.k = "p", !.pc = "p_take", !.r = o.r, !.id = tok[o.r], !.ex = cfg.cscope]>>]
               ELSE UNCHANGED <<waiting, stk>>
            /\ opi' = [opi EXCEPT ![t] = @ + 1]
            /\ UNCHANGED <<box, tok, cst, crnd, queue, aw, canceled, pval, H>>
       [] o.op = "c" ->
            /\ \/ /\ tok[o.r] # NoId
                  /\ stk' = [stk EXCEPT ![t] = <<[F0 EXCEPT !.k = "x", !.pc = "x_take", !.r = o.r, !.id = tok[o.r]]>>]
               \/ /\ tok[o.r] = NoId /\ cst = "done" /\ UNCHANGED stk
            /\ opi' = [opi EXCEPT ![t] = @ + 1]
            /\ UNCHANGED <<box, tok, cst, crnd, queue, fset, waiting, aw, canceled, pval, H>>

Worker(t) ==
  /\ IsWorker(t) /\ stk[t] = << >> /\ cfg.emode[ExOf(t)] = "q" /\ queue[ExOf(t)] # << >>
  /\ stk' = [stk EXCEPT ![t] = <<[F0 EXCEPT !.k = "co", !.pc = Head(queue[ExOf(t)]), !.ex = ExOf(t)]>>]
  /\ queue' = [queue EXCEPT ![ExOf(t)] = Tail(@)]
  /\ UNCHANGED <<box, tok, cst, crnd, opi, fset, waiting, aw, canceled, pval, H>>

Step(t) ==
  /\ UNCHANGED cfg
  /\ \/ Dispatch(t)
     \/ Worker(t)
     \/ /\ stk[t] # << >> /\ UNCHANGED opi
        /\ (CoStep(t) \/ AsStep(t) \/ ProxyStep(t) \/ CancelStep(t))

NextOp(t) == IF opi[t] > Len(cfg.prog[t]) THEN [op |-> "-", r |-> 0] ELSE cfg.prog[t][opi[t]]
Stalled(o) == o.op = "-" \/ (o.op = "s" /\ cst # "new") \/ (o.op = "c" /\ tok[o.r] = NoId /\ cst # "done")
Quiescent == /\ \A t \in Thr : stk[t] = << >>
             /\ \A e \in 1..NE : queue[e] = << >>
             /\ \A t \in 1..NT : Stalled(NextOp(t))
AllDone == Quiescent

ResumedExactlyOncePerSuspension == H.bad # "ResumedExactlyOncePerSuspension"
ResumedOnBoundExecutor == H.bad # "ResumedOnBoundExecutor"
ReceivesAwaitedValue == H.bad # "ReceivesAwaitedValue"
\* the optional W receives is empty iff a cancel won the take of that round
EmptyOptionalIffCancelWon == \A r \in DOMAIN H.res : H.res[r] = (r \notin H.cancelWon)
\* every round whose awaited thing completed or was cancelled has continued once nothing runs any more
NeverLeftSuspendedAfterWakeCondition ==
  Quiescent => \A r \in R : (fset[r] \/ r \in H.cancelWon) /\ (r = 1 \/ (r - 1) \in DOMAIN H.res) => r \in DOMAIN H.res
NoSlotLeak == Quiescent => \A s \in 1..box.n : (\E i \in 1..Len(box.free) : box.free[i] = s) \/ (\E r \in R : tok[r][1] = s /\ r = crnd /\ cst = "susp" /\ Live(tok[r]))
=============================================================================
