----------------------------- MODULE BQ_Trace -----------------------------
(***************************************************************************)
(* Trace validation of the real ConcurrentBoundedQueue against the L2      *)
(* specification BQ.  Every line of the (normalised) ndjson trace recorded *)
(* under vsched must be explained by exactly the BQ action the thread's pc *)
(* allows, with the same location, operands, value read and outcome.       *)
(* The memory order of each step is the one the running code passed        *)
(* (Tr[l].mo): the happens-before views of WeakMem therefore evolve with   *)
(* the code's real orders, NoDataRace is evaluated on every state of the   *)
(* trace, and the (site -> order) pairs seen are collected in moSeen from  *)
(* which MO_BQ.tla is regenerated.                                         *)
(***************************************************************************)
EXTENDS BQ, Json, IOUtils

Tr == ndJsonDeserialize(IOEnv.TRACE)

VARIABLES l,       \* next line to explain
          moSeen   \* set of <<site, order>> observed

tvars == <<vars, l, moSeen>>

CfgOf(e) == [cap |-> e.cap, base |-> e.base, prog |-> e.prog]

TInit ==
  /\ l = 2
  /\ moSeen = {}
  /\ Tr[1].k = "reset"
  /\ InitFor(CfgOf(Tr[1]))
  /\ TLCSet(1, 1)
  /\ TLCSet(2, {})

Progress == TLCSet(1, IF TLCGet(1) < l' THEN l' ELSE TLCGet(1))

\* does the operation the model performed equal the logged one?
Matches(m, e) ==
  /\ m.t = e.t /\ m.k = e.k
  /\ CASE e.k \in {"load", "store"} -> m.loc = e.loc /\ m.i = e.i /\ m.v = e.v
       [] e.k \in {"faa", "xchg"} -> m.loc = e.loc /\ m.i = e.i /\ m.v = e.v /\ m.a = e.a
       [] e.k = "cas" -> m.loc = e.loc /\ m.i = e.i /\ m.v = e.v /\ m.a = e.a /\ m.b = e.b /\ m.ok = e.ok
       [] e.k = "fence" -> TRUE
       [] e.k = "fwait" -> m.loc = e.loc /\ m.i = e.i /\ m.a = e.a /\ m.v = e.v /\ m.ok = e.ok
       [] e.k = "fret" -> m.loc = e.loc /\ m.i = e.i /\ m.ok = e.ok
       [] e.k = "fwake" -> m.loc = e.loc /\ m.i = e.i /\ m.v = e.v
       [] e.k \in {"sleep", "yield", "clock", "cbm", "tick", "spur"} -> TRUE
       [] e.k = "call" -> m.op = e.op /\ m.n = e.n
       [] e.k = "ret" -> m.op = e.op /\ m.n = e.n /\ m.res = e.res
       [] e.k \in {"cbb", "cbe"} -> m.op = e.op /\ m.i = e.i /\ m.n = e.n /\ m.vals = e.vals
       [] OTHER -> FALSE

Consume ==
  /\ l <= Len(Tr)
  /\ LET e == Tr[l]
     IN /\ e.k \notin {"reset", "end", "final"}
        /\ Step(e.t, LAMBDA site : IF e.k = "cas" /\ ~e.ok THEN e.mof ELSE e.mo)
        /\ Matches(ev', e)
        /\ moSeen' = IF ev'.site # "" THEN moSeen \cup {<<ev'.site, ev'.mo>>} ELSE moSeen
  /\ l' = l + 1

\* pure control steps of the model (no operation of the code corresponds to them)
Silent ==
  /\ l <= Len(Tr)
  /\ Tr[l].k \notin {"reset", "end", "final"}
  /\ (NWNext(Tr[l].t) \/ NSegDone(Tr[l].t))
  /\ UNCHANGED <<l, moSeen>>

\* a fence the model has but the code no longer executes is recorded as order "none"
SkipFence ==
  /\ l <= Len(Tr)
  /\ Tr[l].k \notin {"reset", "end", "final", "fence"}
  /\ LET t == Tr[l].t
     IN /\ pc[t] \in {"n_facq", "n_frel", "n_fsc"}
        /\ (NFAcq(t, LAMBDA site : "none") \/ NFRel(t, LAMBDA site : "none") \/ NFSc(t, LAMBDA site : "none"))
        /\ moSeen' = moSeen \cup {<<ev'.site, "none">>}
  /\ UNCHANGED l

\* quiescent observation by the driver: what was left in the queue
Final ==
  /\ l <= Len(Tr) /\ Tr[l].k = "final"
  /\ AllDone
  /\ Tr[l].push_idx = LastVal(ms, IdxLoc("push")) - cfg.base
  /\ Tr[l].pop_idx = LastVal(ms, IdxLoc("pop")) - cfg.base
  /\ Tr[l].nleft = Tr[l].push_idx - Tr[l].pop_idx
  /\ l' = l + 1
  /\ UNCHANGED <<vars, moSeen>>

End ==
  /\ l <= Len(Tr) /\ Tr[l].k = "end"
  /\ (Tr[l].status = "ok" => AllDone)
  /\ (Tr[l].status = "deadlock" => Stuck)
  /\ l' = l + 1
  /\ UNCHANGED <<vars, moSeen>>

Reset ==
  /\ l <= Len(Tr) /\ Tr[l].k = "reset"
  /\ LET c == CfgOf(Tr[l])
     IN /\ cfg' = c /\ ms' = MS0(c) /\ pc' = PC0(c) /\ L' = LL0(c) /\ H' = H0 /\ ev' = NoEv
  /\ l' = l + 1
  /\ UNCHANGED moSeen

\* register 2 always holds the pairs seen so far (also when an invariant stops the run early)
TNext == (Consume \/ Silent \/ SkipFence \/ Final \/ End \/ Reset) /\ Progress /\ TLCSet(2, moSeen')

TSpec == TInit /\ [][TNext]_tvars

\* reported at the end:  <<"VERIF", lines explained, lines, site/order pairs>>
Post == PrintT(<<"VERIF", TLCGet(1) - 1, Len(Tr), TLCGet(2)>>)

\* debugging aid: violated exactly when the whole (truncated) trace was explained
DbgStop == l <= Len(Tr)

\* L1 verdicts on the observed execution (same formulas as the model-checked ones)
TNoDataRace == NoDataRace
TNoDupNoInvent == NoDupNoInvent
TTryJustified == TryJustified
TRealTimeFIFO == RealTimeFIFO
TConservation == Conservation
TNoLostWakeup == NoLostWakeup
=============================================================================
