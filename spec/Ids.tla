-------------------------------- MODULE Ids --------------------------------
(***************************************************************************)
(* L2 (implementation-shaped) specification of babylon::IdAllocator<T>     *)
(* (src/babylon/concurrent/id_allocator.hpp): a lock-free Treiber stack of *)
(* freed values whose head carries a version tag.  ONE ACTION PER ATOMIC   *)
(* OPERATION of allocate / deallocate / for_each; the memory order of each *)
(* site comes from the operator argument M(site) -- the table MO_Ids when  *)
(* model checking, the order logged by the running code when validating    *)
(* traces.                                                                 *)
(*                                                                         *)
(*   <<"head",0>>   _free_head      record [value, version] (one 64-bit    *)
(*                                  atomic; 32-bit for IdAllocator<u16>)   *)
(*   <<"next",0>>   _next_value     values 0..next-1 were handed out once  *)
(*   <<"fnext",i>>  _free_next_value[i]   id | TAIL | ACTIVE               *)
(*                                                                         *)
(* ConcurrentVector (block table, ensure) is abstracted to a fixed array   *)
(* (property C04 is about the vector).  ThreadId is this allocator with    *)
(* allocate at a thread's first use and deallocate at its exit; thread     *)
(* generations are the per-thread sets cfg.after.                          *)
(*                                                                         *)
(* Client programs: cfg.prog[t] is a sequence of [op, n]                   *)
(*    al      id := allocate(); appended to the thread's held list         *)
(*    de k    deallocate(held[k]) (k counts from 0; no-op if there is none)*)
(*    fe      for_each                                                     *)
(*    adv k   white-box: the head's version tag jumps by k, standing for k *)
(*            allocate/deallocate rounds on other values (reaches version  *)
(*            distances such as 2^16 in one step)                          *)
(* (the DepositBox operations em / tk / tr / fr are added by Box.tla)      *)
(*                                                                         *)
(* The L1 clauses of property C14 are invariants over the history H at the *)
(* end of the module.                                                      *)
(***************************************************************************)
EXTENDS Naturals, Integers, Sequences, FiniteSets, TLC, WeakMem

CONSTANTS Stale,   \* BOOLEAN: loads may read non-latest messages (weak-memory exploration)
          Configs  \* set of initial configurations

VARIABLES cfg,     \* the configuration of this execution
          ms,      \* memory state (WeakMem)
          pc,      \* pc[t]
          L,       \* L[t]: locals of thread t
          H,       \* history record (L1 observables)
          ev       \* ghost: the operation performed by the last step

vars == <<cfg, ms, pc, L, H, ev>>

TAIL == -1
ACTIVE == -2
Id(v, ver) == [value |-> v, version |-> ver]
NONE == Id(-1, 0)

Thr == 1..Len(cfg.prog)
SeqSet(s) == {s[i] : i \in 1..Len(s)}
AfterSet(t) == SeqSet(cfg.after[t])

\* configuration: [kind, n, fr, own, prog, after, nb, smod]   (smod: see Box.tla; 0 for the real code)
\*   n    values minted by the set-up;  fr  values freed by the set-up (in this order)
\*   own  own[t]: set-up values thread t holds at the start
OpsOf(c) == UNION {{<<t, j>> : j \in 1..Len(c.prog[t])} : t \in 1..Len(c.prog)}
NumMint(c) == Cardinality({tj \in OpsOf(c) : c.prog[tj[1]][tj[2]].op \in {"al", "em"}})
MaxIdOf(c) == c.n + NumMint(c)
MaxId == MaxIdOf(cfg)
IdRange == 0..MaxId - 1

HeadLoc == <<"head", 0>>
NextLoc == <<"next", 0>>
FNext(i) == <<"fnext", i>>
SVer(i) == <<"sver", i>>
BoardLoc(s) == <<"board", s>>

FrPos(c, v) == IF \E j \in 1..Len(c.fr) : c.fr[j] = v THEN CHOOSE j \in 1..Len(c.fr) : c.fr[j] = v ELSE 0
InitHead(c) == IF c.fr = <<>> THEN Id(TAIL, 0) ELSE Id(c.fr[Len(c.fr)], Len(c.fr))
InitFNext(c, i) == LET j == FrPos(c, i)
                   IN IF j > 0 THEN (IF j = 1 THEN TAIL ELSE c.fr[j - 1]) ELSE IF i < c.n THEN ACTIVE ELSE 0
InitSVer(c, i) == IF FrPos(c, i) > 0 THEN 1 ELSE 0

NoEv == [t |-> 0, k |-> "", site |-> "", mo |-> "", loc |-> "", i |-> 0, v |-> 0, vh |-> 0, a |-> 0, ah |-> 0, b |-> 0, bh |-> 0,
         ok |-> TRUE, op |-> "", n |-> 0, id |-> 0, idh |-> 0, res |-> 0, item |-> 0, vals |-> {}]
LocName(x) == x[1]
LocIdx(x) == x[2]
Lo(x, v) == IF x = HeadLoc THEN v.value ELSE v
Hi(x, v) == IF x = HeadLoc THEN v.version ELSE 0

L0 == [opi |-> 1, held |-> <<>>, cur |-> NONE, nh |-> 0, idv |-> 0, res |-> NONE, rok |-> 0, item |-> 0,
       aret |-> "", bid |-> NONE, fe |-> {}, snapFree |-> {}, snapLive |-> {}, skip |-> FALSE,
       seen |-> 0,  \* take: the slot version its compare-exchange found (ghost, Box.tla)
       v0 |-> 0,    \* deallocate: version of the head it loaded first (ghost)
       lag |-> 0]   \* allocate between head load and CAS: by how much retried pushes that landed meanwhile lagged behind (ghost)

\* set-up values that are live at the start
InitLive(c) == (0..c.n - 1) \ SeqSet(c.fr)
IsBox(c) == c.kind = "box"

H0(c) == [active |-> {}, live |-> InitLive(c), overlap |-> [t \in 1..Len(c.prog) |-> FALSE], bad |-> {},
          emplaced |-> IF IsBox(c) THEN [id \in {Id(i, 0) : i \in 0..c.n - 1} |-> 900 + id.value] ELSE << >>,
          taken |-> IF IsBox(c) THEN {Id(i, 0) : i \in SeqSet(c.fr)} ELSE {},
          slotItem |-> [i \in 0..MaxIdOf(c) - 1 |-> IF IsBox(c) /\ i < c.n THEN 900 + i ELSE 0],
          board |-> [s \in 0..c.nb - 1 |-> IF IsBox(c) /\ s < c.n THEN Id(s, 0) ELSE NONE]]

MS0(c) == WMInit(1..Len(c.prog),
                 [x \in {HeadLoc, NextLoc} \cup {FNext(i) : i \in 0..MaxIdOf(c) - 1}
                        \cup (IF IsBox(c) THEN {SVer(i) : i \in 0..MaxIdOf(c) - 1} \cup {BoardLoc(s) : s \in 0..c.nb - 1} ELSE {})
                    |-> IF x = HeadLoc THEN InitHead(c)
                        ELSE IF x = NextLoc THEN c.n
                        ELSE IF x[1] = "fnext" THEN InitFNext(c, x[2])
                        ELSE IF x[1] = "sver" THEN InitSVer(c, x[2])
                        ELSE 0])
PC0(c) == [t \in 1..Len(c.prog) |-> "idle"]
LL0(c) == [t \in 1..Len(c.prog) |-> [L0 EXCEPT !.held = [j \in 1..Len(c.own[t]) |-> Id(c.own[t][j], 0)]]]

InitFor(c) ==
  /\ cfg = c
  /\ ms = MS0(c)
  /\ pc = PC0(c)
  /\ L = LL0(c)
  /\ H = H0(c)
  /\ ev = NoEv

Init == \E c \in Configs : InitFor(c)

(***************************************************************************)
(* Memory access helpers (as in BQ.tla).  Each yields ms', ev' and hands   *)
(* the value to a continuation that sets pc', L' (and H' where needed).    *)
(***************************************************************************)
KeepAll == Stale

DoLoad(t, x, site, M(_), K(_)) ==
  \E i \in Readable(ms, t, x, Stale) :
    LET mo == M(site)
        v == ms.mem[x][i].val
    IN /\ ms' = ScAfter(LoadEff(ScBefore(ms, t, mo), t, x, i, mo), t, mo)
       /\ ev' = [NoEv EXCEPT !.t = t, !.k = "load", !.site = site, !.mo = mo, !.loc = LocName(x), !.i = LocIdx(x), !.v = Lo(x, v), !.vh = Hi(x, v)]
       /\ K(v)

DoStore(t, x, v, site, M(_)) ==
  LET mo == M(site)
  IN /\ ms' = ScAfter(StoreEff(ScBefore(ms, t, mo), t, x, v, mo, KeepAll), t, mo)
     /\ ev' = [NoEv EXCEPT !.t = t, !.k = "store", !.site = site, !.mo = mo, !.loc = LocName(x), !.i = LocIdx(x), !.v = Lo(x, v), !.vh = Hi(x, v)]

DoRmw(t, x, kind, F(_), a, site, M(_), K(_)) ==
  LET mo == M(site)
      old == LastVal(ms, x)
  IN /\ ms' = ScAfter(RmwEff(ScBefore(ms, t, mo), t, x, F(old), mo, KeepAll), t, mo)
     /\ ev' = [NoEv EXCEPT !.t = t, !.k = kind, !.site = site, !.mo = mo, !.loc = LocName(x), !.i = LocIdx(x), !.v = old, !.a = a]
     /\ K(old)

\* compare-exchange with separate success / failure orders (sites site and site \o "_fail");
\* a failed one is a load of the last message with the failure order
FailSite(site) == site \o "_fail"
DoCas(t, x, e, d, site, M(_), K(_, _)) ==
  LET old == LastVal(ms, x)
  IN IF old = e
     THEN LET mo == M(site)
          IN /\ ms' = ScAfter(RmwEff(ScBefore(ms, t, mo), t, x, d, mo, KeepAll), t, mo)
             /\ ev' = [NoEv EXCEPT !.t = t, !.k = "cas", !.site = site, !.mo = mo, !.loc = LocName(x), !.i = LocIdx(x),
                                   !.v = Lo(x, old), !.vh = Hi(x, old), !.a = Lo(x, e), !.ah = Hi(x, e), !.b = Lo(x, d), !.bh = Hi(x, d), !.ok = TRUE]
             /\ K(TRUE, old)
     ELSE LET mo == M(FailSite(site))
          IN /\ ms' = LoadEff(ms, t, x, Len(ms.mem[x]), mo)
             /\ ev' = [NoEv EXCEPT !.t = t, !.k = "cas", !.site = FailSite(site), !.mo = mo, !.loc = LocName(x), !.i = LocIdx(x),
                                   !.v = Lo(x, old), !.vh = Hi(x, old), !.a = Lo(x, e), !.ah = Hi(x, e), !.b = Lo(x, d), !.bh = Hi(x, d), !.ok = FALSE]
             /\ K(FALSE, old)

Goto(t, p) == pc' = [pc EXCEPT ![t] = p]
SetL(t, l) == L' = [L EXCEPT ![t] = l]
Flag(h, cond, name) == IF cond THEN [h EXCEPT !.bad = @ \cup {name}] ELSE h

(***************************************************************************)
(* Call / return (driver level; also the L1 observation points)            *)
(***************************************************************************)
Op(t) == cfg.prog[t][L[t].opi]
Done(t) == pc[t] = "idle" /\ L[t].opi > Len(cfg.prog[t])
AllDone == \A t \in Thr : Done(t)
CanCall(t) ==
  /\ pc[t] = "idle"
  /\ L[t].opi <= Len(cfg.prog[t])
  /\ (L[t].opi = 1 => \A u \in AfterSet(t) : Done(u))

\* a thread created after others were joined has seen everything they did
RECURSIVE JoinViews(_, _)
JoinViews(m, S) == IF S = {} THEN EmptyView
                   ELSE LET u == CHOOSE u \in S : TRUE IN VJoin(m.cur[u], JoinViews(m, S \ {u}))
Born(t) == IF L[t].opi = 1 /\ AfterSet(t) # {}
           THEN LET v == VJoin(ms.cur[t], JoinViews(ms, AfterSet(t)))
                IN [ms EXCEPT !.cur[t] = v, !.acq[t] = VJoin(ms.acq[t], v)]
           ELSE ms

Enter(h, t) == [h EXCEPT !.active = @ \cup {t},
                         !.overlap = [u \in DOMAIN h.overlap |-> IF u = t THEN h.active # {}
                                                                  ELSE IF u \in h.active THEN TRUE ELSE h.overlap[u]]]
Leave(h, t) == [h EXCEPT !.active = @ \ {t}]
RemoveAt(s, k) == [j \in 1..Len(s) - 1 |-> IF j < k THEN s[j] ELSE s[j + 1]]

\* values the free list holds when no call is in progress
FreeNow == (0..LastVal(ms, NextLoc) - 1) \ H.live

ICall(t) ==
  /\ CanCall(t)
  /\ Op(t).op \in {"al", "de", "fe", "adv"}
  /\ LET o == Op(t)
         l == L[t]
     IN CASE o.op = "al" ->
               /\ Goto(t, "a_hload")
               /\ SetL(t, [l EXCEPT !.aret = "ret", !.snapFree = FreeNow, !.skip = FALSE])
               /\ H' = Enter(H, t)
               /\ ev' = [NoEv EXCEPT !.t = t, !.k = "call", !.op = "al", !.id = -1]
               /\ ms' = Born(t)
          [] o.op = "de" ->
               /\ IF o.n + 1 > Len(l.held)
                  THEN /\ Goto(t, "ret")
                       /\ SetL(t, [l EXCEPT !.skip = TRUE])
                       /\ H' = Enter(H, t)
                       /\ ev' = [NoEv EXCEPT !.t = t, !.k = "call", !.op = "de", !.n = o.n, !.id = -1]
                  ELSE LET id == l.held[o.n + 1]
                       IN /\ Goto(t, "d_hload")
                          /\ SetL(t, [l EXCEPT !.idv = id.value, !.held = RemoveAt(l.held, o.n + 1), !.aret = "ret", !.skip = FALSE])
                          /\ H' = [Enter(H, t) EXCEPT !.live = @ \ {id.value}]
                          /\ ev' = [NoEv EXCEPT !.t = t, !.k = "call", !.op = "de", !.n = o.n, !.id = id.value, !.idh = id.version]
               /\ ms' = Born(t)
          [] o.op = "fe" ->
               /\ Goto(t, "f_load")
               /\ SetL(t, [l EXCEPT !.snapLive = H.live, !.skip = FALSE])
               /\ H' = Enter(H, t)
               /\ ev' = [NoEv EXCEPT !.t = t, !.k = "call", !.op = "fe", !.id = -1]
               /\ ms' = Born(t)
          [] o.op = "adv" ->
               \* performed atomically with the call event
               LET m1 == Born(t)
                   h == LastVal(m1, HeadLoc)
               IN /\ Goto(t, "ret")
                  /\ SetL(t, [l EXCEPT !.skip = FALSE])
                  /\ H' = Enter(H, t)
                  /\ ms' = RmwEff(m1, t, HeadLoc, Id(h.value, h.version + o.n), "ar", KeepAll)
                  /\ ev' = [NoEv EXCEPT !.t = t, !.k = "call", !.op = "adv", !.n = o.n, !.id = h.value, !.idh = h.version + o.n]
  /\ UNCHANGED cfg

IRet(t) ==
  /\ pc[t] = "ret"
  /\ Op(t).op \in {"al", "de", "fe", "adv"}
  /\ LET o == Op(t)
         l == L[t]
     IN CASE o.op = "al" ->
               /\ H' = Flag(Flag([Leave(H, t) EXCEPT !.live = @ \cup {l.res.value}],
                                 l.res.value \in H.live, "LiveIdsUnique"),
                            ~H.overlap[t] /\ l.snapFree # {} /\ l.res.value \notin l.snapFree, "ReuseBeforeMint")
               /\ SetL(t, [l EXCEPT !.opi = @ + 1, !.held = Append(@, l.res)])
               /\ ev' = [NoEv EXCEPT !.t = t, !.k = "ret", !.op = "al", !.id = l.res.value, !.idh = l.res.version]
          [] o.op = "de" ->
               /\ H' = Leave(H, t)
               /\ SetL(t, [l EXCEPT !.opi = @ + 1])
               /\ ev' = [NoEv EXCEPT !.t = t, !.k = "ret", !.op = "de", !.n = o.n]
          [] o.op = "adv" ->
               /\ H' = Leave(H, t)
               /\ SetL(t, [l EXCEPT !.opi = @ + 1])
               /\ ev' = [NoEv EXCEPT !.t = t, !.k = "ret", !.op = "adv", !.n = o.n]
          [] o.op = "fe" ->
               /\ H' = Flag(Leave(H, t), ~H.overlap[t] /\ l.fe # l.snapLive, "ForEachReportsLive")
               /\ SetL(t, [l EXCEPT !.opi = @ + 1])
               /\ ev' = [NoEv EXCEPT !.t = t, !.k = "ret", !.op = "fe", !.id = -1, !.vals = l.fe]
  /\ Goto(t, "idle")
  /\ UNCHANGED <<cfg, ms>>

(***************************************************************************)
(* allocate():  returns L[t].res and continues at L[t].aret                *)
(***************************************************************************)
\* what allocate does with a head it has read
AfterHead(t, h) ==
  IF h.value = TAIL THEN "a_faa"
  ELSE IF h.value \in IdRange THEN "a_nload"
  ELSE "dead"     \* the code would index _free_next_value out of range

AHLoad(t, M(_)) ==
  /\ pc[t] = "a_hload"
  /\ DoLoad(t, HeadLoc, "alloc_head_load", M,
            LAMBDA v : /\ SetL(t, [L[t] EXCEPT !.cur = v, !.lag = 0])
                       /\ Goto(t, AfterHead(t, v))
                       /\ H' = Flag(H, AfterHead(t, v) = "dead", "Corrupt"))
  /\ UNCHANGED cfg

ANLoad(t, M(_)) ==
  /\ pc[t] = "a_nload"
  /\ DoLoad(t, FNext(L[t].cur.value), "alloc_next_load", M,
            LAMBDA v : SetL(t, [L[t] EXCEPT !.nh = v]) /\ Goto(t, "a_cas"))
  /\ UNCHANGED <<cfg, H>>

ACas(t, M(_)) ==
  /\ pc[t] = "a_cas"
  /\ DoCas(t, HeadLoc, L[t].cur, Id(L[t].nh, L[t].cur.version), "alloc_head_cas", M,
           LAMBDA ok, old :
             IF ok THEN UNCHANGED <<L, H>> /\ Goto(t, "a_mark")
             ELSE /\ SetL(t, [L[t] EXCEPT !.cur = old, !.lag = 0])
                  /\ Goto(t, AfterHead(t, old))
                  /\ H' = Flag(H, AfterHead(t, old) = "dead", "Corrupt"))
  /\ UNCHANGED cfg

AMark(t, M(_)) ==
  /\ pc[t] = "a_mark"
  /\ DoStore(t, FNext(L[t].cur.value), ACTIVE, "alloc_active_store", M)
  /\ SetL(t, [L[t] EXCEPT !.res = L[t].cur])
  /\ Goto(t, L[t].aret)
  /\ UNCHANGED <<cfg, H>>

AFaa(t, M(_)) ==
  /\ pc[t] = "a_faa"
  /\ DoRmw(t, NextLoc, "faa", LAMBDA o : o + 1, 1, "alloc_next_faa", M,
           LAMBDA old : SetL(t, [L[t] EXCEPT !.res = Id(old, 0)]) /\ Goto(t, "a_mstore"))
  /\ UNCHANGED <<cfg, H>>

\* _free_next_value.ensure(value).store(ACTIVE)
AMStore(t, M(_)) ==
  /\ pc[t] = "a_mstore"
  /\ DoStore(t, FNext(L[t].res.value), ACTIVE, "alloc_mint_store", M)
  /\ Goto(t, L[t].aret)
  /\ UNCHANGED <<cfg, L, H>>

AllocStep(t, M(_)) == AHLoad(t, M) \/ ANLoad(t, M) \/ ACas(t, M) \/ AMark(t, M) \/ AFaa(t, M) \/ AMStore(t, M)

(***************************************************************************)
(* deallocate(L[t].idv):  continues at L[t].aret                           *)
(***************************************************************************)
DHLoad(t, M(_)) ==
  /\ pc[t] = "d_hload"
  /\ DoLoad(t, HeadLoc, "dealloc_head_load", M,
            LAMBDA v : SetL(t, [L[t] EXCEPT !.cur = v, !.v0 = v.version]) /\ Goto(t, "d_link"))
  /\ UNCHANGED <<cfg, H>>

DLink(t, M(_)) ==
  /\ pc[t] = "d_link"
  /\ DoStore(t, FNext(L[t].idv), L[t].cur.value, "dealloc_link_store", M)
  /\ Goto(t, "d_cas")
  /\ UNCHANGED <<cfg, L, H>>

DCas(t, M(_)) ==
  /\ pc[t] = "d_cas"
  /\ DoCas(t, HeadLoc, L[t].cur, Id(L[t].idv, L[t].cur.version + 1), "dealloc_head_cas", M,
           LAMBDA ok, old :
             IF ok
             THEN \* ghost: a push that landed on a retry is `gap` versions ahead of what a version computed at its
                  \* first head load would have been; allocates parked between head load and CAS remember the sum
                  LET gap == L[t].cur.version - L[t].v0
                  IN /\ L' = [u \in DOMAIN L |-> IF u # t /\ pc[u] \in {"a_nload", "a_cas"} /\ gap > 0
                                                   THEN [L[u] EXCEPT !.lag = @ + gap] ELSE L[u]]
                     /\ Goto(t, L[t].aret)
             ELSE SetL(t, [L[t] EXCEPT !.cur = old]) /\ Goto(t, "d_link"))
  /\ UNCHANGED <<cfg, H>>

DeallocStep(t, M(_)) == DHLoad(t, M) \/ DLink(t, M) \/ DCas(t, M)

(***************************************************************************)
(* for_each: one acquire load of next_value, then plain reads of the array *)
(* (meaningful at quiescence only: the scan is one step reading the latest *)
(* values)                                                                 *)
(***************************************************************************)
Scan(n) == {i \in 0..n - 1 : i \in IdRange /\ LastVal(ms, FNext(i)) = ACTIVE}

FLoad(t, M(_)) ==
  /\ pc[t] = "f_load"
  /\ DoLoad(t, NextLoc, "foreach_next_load", M,
            LAMBDA v : SetL(t, [L[t] EXCEPT !.fe = Scan(v)]) /\ Goto(t, "ret"))
  /\ UNCHANGED <<cfg, H>>

IdsStep(t, M(_)) == ICall(t) \/ IRet(t) \/ AllocStep(t, M) \/ DeallocStep(t, M) \/ FLoad(t, M)

(***************************************************************************)
(* L1 properties (C14, allocator part) over the history                    *)
(***************************************************************************)
\* no value is held by two owners at the same time (the ABA clause)
LiveIdsUnique == "LiveIdsUnique" \notin H.bad
\* an allocation that overlapped no other call, made while freed values existed, reused one of them
\* (real-time clause: meaningful under interleaving semantics, Stale = FALSE)
ReuseBeforeMint == "ReuseBeforeMint" \notin H.bad
\* a for_each that overlapped no other call reported exactly the live values
ForEachReportsLive == "ForEachReportsLive" \notin H.bad
\* auxiliary: the head never carries a non-id (the next allocate would index out of range)
FreeListWellFormed == "Corrupt" \notin H.bad
\* at quiescence: the array marks exactly the live values, the free list holds exactly the others
RECURSIVE Chain(_, _)
Chain(v, fuel) == IF v = TAIL \/ fuel = 0 \/ v \notin IdRange THEN {} ELSE {v} \cup Chain(LastVal(ms, FNext(v)), fuel - 1)
QuiescentConsistent ==
  AllDone => /\ Scan(LastVal(ms, NextLoc)) = H.live
             /\ Chain(LastVal(ms, HeadLoc).value, MaxId + 1) = (0..LastVal(ms, NextLoc) - 1) \ H.live

=============================================================================
