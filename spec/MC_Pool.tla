------------------------------ MODULE MC_Pool ------------------------------
(* Model-checking instance of Pool: configuration families as constants.    *)
EXTENDS Pool

QCapOf(cap) == IF cap <= 0 THEN 1 ELSE IF cap = 1 THEN 2 ELSE IF cap = 2 THEN 4 ELSE 8   \* bit_ceil(2 * cap)
Cfg(auto, cap, inject, no, wake, prog) ==
  [auto |-> auto, cap |-> cap, qcap |-> QCapOf(cap), inject |-> inject, no |-> no, wake |-> wake, prog |-> prog]

PR == <<"p", "r">>
\* strict mode: more poppers than objects (blocking pop / waking push), objects travelling round the ring
Cfg_strict_quick ==
  { Cfg(FALSE, 1, 1, 1, TRUE, << PR, PR >>),
    Cfg(FALSE, 1, 1, 1, TRUE, << PR \o PR, PR >>),
    Cfg(FALSE, 1, 1, 1, TRUE, << PR, PR, PR >>) }
Cfg_strict ==
  Cfg_strict_quick \cup
  { Cfg(FALSE, 1, 1, 1, TRUE, << PR \o PR, PR \o PR >>),
    Cfg(FALSE, 1, 1, 1, TRUE, << PR \o PR \o PR, PR >>),
    Cfg(FALSE, 2, 2, 2, TRUE, << <<"p", "p", "r", "r">>, PR, PR >>),
    Cfg(FALSE, 2, 2, 2, TRUE, << PR \o PR, PR, PR >>),
    Cfg(FALSE, 2, 1, 1, TRUE, << PR, PR, PR \o PR >>) }
\* the same with a push that does not wake: BlockedPopResumes / NoLostWakeup must FAIL (the clause is not vacuous)
Cfg_strict_nowake == { Cfg(FALSE, 1, 1, 1, FALSE, << PR, PR >>) }
\* auto-create mode: creator on empty, destroy on overflow (capacity 1 -> queue of 2 slots), compensating paths
Cfg_auto_quick ==
  { Cfg(TRUE, 1, 0, 3, TRUE, << PR, PR >>),
    Cfg(TRUE, 1, 0, 4, TRUE, << <<"p", "p", "r", "r">>, PR >>) }
Cfg_auto ==
  Cfg_auto_quick \cup
  { Cfg(TRUE, 1, 1, 4, TRUE, << PR \o PR, PR >>),
    Cfg(TRUE, 2, 0, 4, TRUE, << <<"p", "p", "r", "r">>, PR >>) }
Cfg_live == { Cfg(FALSE, 1, 1, 1, TRUE, << PR, PR >>), Cfg(FALSE, 1, 1, 1, TRUE, << PR, PR, PR >>), Cfg(TRUE, 1, 0, 3, TRUE, << PR, PR >>) }

Next == \/ \E t \in Thr : Step(t)
        \/ (AllDone /\ UNCHANGED vars)
Spec == Init /\ [][Next]_vars
FairSpec == Spec /\ \A t \in 0..3 : WF_vars(t \in Thr /\ Step(t))

View == <<cfg, q, pc, L, held, nextObj, own, clean, H>>

Termination == <>[]AllDone
\* liveness form of BlockedPopResumes: a pop asleep on its slot gets out of bed
Blocked(t) == t \in DOMAIN pc /\ pc[t] = "sp_blocked"
BlockedPopResumesLive == \A t \in 1..3 : Blocked(t) ~> ~Blocked(t)
=============================================================================
