----------------------------- MODULE Swiss_Mon -----------------------------
(***************************************************************************)
(* L1 specification of the concurrent hash set / map as a monitor over the *)
(* observable events of an execution: call / return of emplace / insert /  *)
(* find / contains / operator[] (key, returned slot identity, "inserted",  *)
(* whether the argument was consumed, the element read back through the    *)
(* returned iterator), the element constructor (address -> slot identity,  *)
(* moved-from flag of its source), the key comparison (was the stored      *)
(* element fully constructed), the quiescent content of all linked tables  *)
(* and a final lookup of every key.  It knows nothing about control bytes, *)
(* tags, groups, fences or the chain of tables, so it judges property C03  *)
(* on executions of ANY implementation of the API.                         *)
(*                                                                         *)
(*  OneWinner                 for each key exactly one insertion reports   *)
(*                            success (never two; a loser has a winner)    *)
(*  SameSlot                  all insertions and lookups of a key return   *)
(*                            the same element, and it is that key's       *)
(*  FullyConstructed          nobody compares against / receives / builds  *)
(*                            over an element that is not fully built      *)
(*  NoMissAfterReturn         an operation that starts after an insertion  *)
(*                            of the key returned its element finds it     *)
(*  FullFailsWithoutConsuming a failed insertion did not move from its     *)
(*                            arguments; only a fixed table may fail       *)
(*  FullOnlyWhenFull          ... and only when every bucket is taken      *)
(*  GrowthKeepsKeys           at quiescence every inserted key is stored   *)
(*                            exactly once, where its winner said, and is  *)
(*                            found; nothing else is stored                *)
(*  NoCrash                   the execution neither crashes nor hangs      *)
(***************************************************************************)
EXTENDS Naturals, Integers, Sequences, FiniteSets, TLC, Json, IOUtils

Tr == ndJsonDeserialize(IOEnv.TRACE)

VARIABLES l,
          conf,      \* [kind, cap, fill: set of <<key, slot>> pre-filled]
          cur,       \* cur[t]: [op, key, must] of the operation thread t is executing
          slots,     \* set of <<key, slot>> handed out so far
          wins,      \* keys whose insertion reported success
          losers,    \* keys returned by an insertion that did not insert
          xk,        \* keys returned by operator[] (which does not say whether it inserted)
          invoked,   \* keys for which an insertion was invoked
          retk,      \* keys whose element has been returned by an insertion (winner or not)
          ctors,     \* slots constructed
          fullrets,  \* for every "table full" return of a fixed table: the keys whose insertion had been invoked by then
          bad

mvars == <<l, conf, cur, slots, wins, losers, xk, invoked, retk, ctors, fullrets, bad>>

Thrs == 0..8
None == [op |-> "", key |-> 0, must |-> FALSE]
IsEmp(op) == op \in {"e", "i", "x", "t"}
Range(s) == {s[j] : j \in 1..Len(s)}
ConfOf(e) == [kind |-> e.kind, cap |-> e.cap, fill |-> {<<f[1], f[2]>> : f \in Range(e.fill)}]
FillKeys == {f[1] : f \in conf.fill}
FillSlots == {f[2] : f \in conf.fill}

Fresh(e) ==
  /\ conf' = ConfOf(e)
  /\ cur' = [t \in Thrs |-> None]
  /\ slots' = {} /\ wins' = {} /\ losers' = {} /\ xk' = {} /\ invoked' = {} /\ retk' = {} /\ ctors' = {} /\ fullrets' = {}

MInit ==
  /\ l = 2 /\ Tr[1].k = "reset"
  /\ conf = ConfOf(Tr[1])
  /\ cur = [t \in Thrs |-> None]
  /\ slots = {} /\ wins = {} /\ losers = {} /\ xk = {} /\ invoked = {} /\ retk = {} /\ ctors = {} /\ fullrets = {}
  /\ bad = ""
  /\ TLCSet(1, 1)

Flag(b, name, c) == IF b /\ c = "" THEN name ELSE c

MCall(e) ==
  /\ cur' = [cur EXCEPT ![e.t] = [op |-> e.op, key |-> e.key, must |-> (e.key \in retk \/ e.key \in FillKeys)]]
  /\ invoked' = IF IsEmp(e.op) THEN invoked \cup {e.key} ELSE invoked
  /\ bad' = Flag(cur[e.t].op # "", "Protocol", bad)
  /\ UNCHANGED <<conf, slots, wins, losers, xk, retk, ctors, fullrets>>

\* res: slot identity >= 0 | -1 (end() / table full / contains() = false) | -2 (contains() = true: no identity)
MRet(e) ==
  LET emp == IsEmp(e.op)
      k == e.key
      got == e.res >= 0
      b1 == emp /\ e.ins /\ (k \in wins \/ k \in FillKeys)
      b2 == got /\ ((\E s \in slots : s[1] = k /\ s[2] # e.res) \/ (\E f \in conf.fill : f[1] = k /\ f[2] # e.res)
                    \/ e.rkey # k \/ (\E s \in slots : s[1] # k /\ s[2] = e.res) \/ (\E f \in conf.fill : f[1] # k /\ f[2] = e.res))
      b3 == got /\ ~e.rvalid
      b4 == e.res = -1 /\ cur[e.t].must
      b5 == emp /\ e.res = -1 /\ (e.consumed \/ conf.kind # "fixed")
      b6 == ~emp /\ e.res # -1 /\ k \notin invoked /\ k \notin FillKeys
  IN /\ bad' = Flag(b1, "OneWinner", Flag(b2, "SameSlot", Flag(b3, "FullyConstructed", Flag(b4, "NoMissAfterReturn",
               Flag(b5, "FullFailsWithoutConsuming", Flag(b6, "FoundNeverInserted", Flag(cur[e.t].op = "", "Protocol", bad)))))))
     /\ slots' = IF got THEN slots \cup {<<k, e.res>>} ELSE slots
     /\ wins' = IF emp /\ e.ins THEN wins \cup {k} ELSE wins
     /\ losers' = IF emp /\ got /\ ~e.ins /\ e.op # "x" THEN losers \cup {k} ELSE losers
     /\ retk' = IF emp /\ got THEN retk \cup {k} ELSE retk
     /\ xk' = IF e.op = "x" /\ got THEN xk \cup {k} ELSE xk
     /\ fullrets' = IF emp /\ e.res = -1 /\ conf.kind = "fixed" THEN fullrets \cup {invoked} ELSE fullrets
     /\ cur' = [cur EXCEPT ![e.t] = None]
     /\ UNCHANGED <<conf, invoked, ctors>>

\* an element is being constructed in slot e.i from an argument whose moved-from flag is e.srcm
MCtor(e) ==
  /\ bad' = Flag(e.i \in ctors \/ e.i \in FillSlots, "FullyConstructed", Flag(e.srcm, "FullFailsWithoutConsuming", bad))
  /\ ctors' = ctors \cup {e.i}
  /\ UNCHANGED <<conf, cur, slots, wins, losers, xk, invoked, retk, fullrets>>

\* a probe compared its key with the element stored in slot e.i
MKeq(e) ==
  /\ bad' = Flag(~e.valid, "FullyConstructed", bad)
  /\ UNCHANGED <<conf, cur, slots, wins, losers, xk, invoked, retk, ctors, fullrets>>

\* quiescent content: e.slots = sequence of <<slot, key, valid>>
MFinal(e) ==
  LET S == Range(e.slots)
      keys == {s[2] : s \in S}
      dup == \E s1 \in S, s2 \in S : s1 # s2 /\ s1[2] = s2[2]
      wrongset == keys # (FillKeys \cup wins \cup xk)
      moved == \E s \in S : (\E h \in slots : h[1] = s[2] /\ h[2] # s[1]) \/ (\E f \in conf.fill : f[1] = s[2] /\ f[2] # s[1])
      broken == \E s \in S : s[3] # 1
  IN /\ bad' = Flag(dup \/ wrongset \/ moved, "GrowthKeepsKeys", Flag(broken, "FullyConstructed", bad))
     /\ UNCHANGED <<conf, cur, slots, wins, losers, xk, invoked, retk, ctors, fullrets>>

\* quiescent lookup of every key by the driver
MFfind(e) ==
  LET k == e.key
      should == k \in wins \/ k \in FillKeys \/ k \in xk
  IN /\ bad' = Flag((should /\ e.res < 0) \/ (~should /\ e.res >= 0) \/ (\E h \in slots : h[1] = k /\ e.res >= 0 /\ h[2] # e.res),
                    "GrowthKeepsKeys", bad)
     /\ UNCHANGED <<conf, cur, slots, wins, losers, xk, invoked, retk, ctors, fullrets>>

\* quiescent re-insertion of every key by the driver: a stored key is reported as present, at its slot
MFemp(e) ==
  LET k == e.key
      should == k \in wins \/ k \in FillKeys \/ k \in xk
  IN /\ bad' = Flag(should /\ e.ins, "OneWinner",
               Flag(should /\ (e.res < 0 \/ \E h \in slots : h[1] = k /\ h[2] # e.res), "GrowthKeepsKeys", bad))
     /\ UNCHANGED <<conf, cur, slots, wins, losers, xk, invoked, retk, ctors, fullrets>>

MEnd(e) ==
  /\ bad' = IF e.status \in {"crash", "hang", "deadlock"} THEN Flag(TRUE, "NoCrash", bad)
            ELSE IF e.status = "ok"
            THEN Flag(\E k \in losers : k \notin wins /\ k \notin FillKeys /\ k \notin xk, "OneWinner",
                 Flag(\E f \in fullrets : Cardinality(conf.fill) + Cardinality(f \cap (wins \cup xk)) < conf.cap, "FullOnlyWhenFull", bad))
            ELSE bad
  /\ UNCHANGED <<conf, cur, slots, wins, losers, xk, invoked, retk, ctors, fullrets>>

MNext ==
  /\ l <= Len(Tr)
  /\ LET e == Tr[l]
     IN CASE e.k = "reset" -> Fresh(e) /\ bad' = bad
          [] e.k = "call" -> MCall(e)
          [] e.k = "ret" -> MRet(e)
          [] e.k = "ctor" -> MCtor(e)
          [] e.k = "keq" -> MKeq(e)
          [] e.k = "final" -> MFinal(e)
          [] e.k = "ffind" -> MFfind(e)
          [] e.k = "femp" -> MFemp(e)
          [] e.k = "end" -> MEnd(e)
  /\ l' = l + 1
  /\ TLCSet(1, l')

MSpec == MInit /\ [][MNext]_mvars

\* the verdict names the clause:  bad = "" means every clause held so far
Holds == bad = ""

Post == PrintT(<<"VERIF", TLCGet(1) - 1, Len(Tr), {}>>)
=============================================================================
