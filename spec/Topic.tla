------------------------------- MODULE Topic -------------------------------
(***************************************************************************)
(* L2 (implementation-shaped) specification of                             *)
(* babylon::ConcurrentTransientTopic  (src/babylon/concurrent/             *)
(* transient_topic.hpp).  ONE ACTION PER ATOMIC OPERATION / FENCE / FUTEX  *)
(* CALL / CALLBACK EDGE of the code; the memory order of every site comes  *)
(* from the operator argument M(site) -- the constant table MO_Topic when  *)
(* model checking, the order logged by the running code when validating    *)
(* traces.                                                                 *)
(*                                                                         *)
(* The slot vector is abstracted (property C04): slots exist, the only     *)
(* trace of it is the acquire load of the block table pointer and the      *)
(* splitting of index ranges at block boundaries (cfg.bs).                 *)
(*                                                                         *)
(* futex word of a slot (32 bit):  status:16 (low half) | waiters:16       *)
(*   status INITIAL = 0, PUBLISHED = 1, CLOSED = 2 ; waiters flag = 65536  *)
(* The status is stored with 16-bit stores and tested with 16-bit loads;   *)
(* the waker and the sleeper use 32-bit loads / CAS (mixed-size access:    *)
(* WeakMem.NarrowStoreEff / pend).                                         *)
(*                                                                         *)
(* Threads: 0 is the main thread; it spawns / joins the others ("s"/"j").  *)
(* The L1 clauses of C15 are stated over the history H at the end.         *)
(***************************************************************************)
EXTENDS Naturals, Integers, Sequences, FiniteSets, TLC, WeakMem

CONSTANTS Stale,   \* BOOLEAN: loads may read non-latest messages (weak-memory exploration)
          Configs  \* set of initial configurations [base, bs, slots, live, prog]

VARIABLES cfg,     \* the configuration of this execution
          ms,      \* memory state (WeakMem)
          pc,      \* pc[t]
          L,       \* L[t]: locals of thread t
          H,       \* history record (L1 observables)
          ev       \* ghost: the operation performed by the last step

vars == <<cfg, ms, pc, L, H, ev>>

INITIAL == 0
PUBLISHED == 1
CLOSED == 2
WAITER == 65536

Thr == 0..(Len(cfg.prog) - 1)
Prog(t) == cfg.prog[t + 1]
BS == cfg.bs

IdxLoc == <<"idx", 0>>
TabLoc == <<"tab", 0>>
SlotLoc(i) == <<"slot", i>>
ValLoc(i) == <<"val", i>>

Status(w) == w % WAITER
HasWaiter(w) == w >= WAITER
Min(a, b) == IF a <= b THEN a ELSE b
NextB(i) == ((i \div BS) + 1) * BS          \* first index of the next block
SegEnd(i, end) == Min(end, NextB(i))         \* Snapshot::for_each splits [begin, end) at block boundaries

Op(t) == Prog(t)[L[t].opi]
HasOp(t) == L[t].opi <= Len(Prog(t))
Done(t) == pc[t] = "idle" /\ ~HasOp(t) /\ t \in H.started

NoEv == [t |-> 0, k |-> "", site |-> "", mo |-> "", loc |-> "", i |-> 0, v |-> 0, a |-> 0, b |-> 0,
         ok |-> TRUE, op |-> "", n |-> 0, vals |-> <<>>, res |-> 0]
LocName(x) == x[1]
LocIdx(x) == x[2]

L0(c) == [opi |-> 1, cur |-> c.base, idx |-> 0, num |-> 0, i |-> 0, j |-> 0, segEnd |-> 0, seen |-> 0,
          consumed |-> 0, res |-> 0, rbeg |-> 0, item |-> 0]

\* pubval : index -> value published in the current epoch (since the last clear)
\* cell    : index -> value the payload cell holds (survives clear)
\* lo      : first index of the current epoch's log ;  closedAt : index close() was called at, or -1
PreVal(i) == 5000 + i
H0(c) == [started |-> {0}, pubval |-> << >>, cell |-> [i \in c.slots |-> IF i < c.base THEN PreVal(i) ELSE 0],
          lo |-> c.base, closedAt |-> -1, bad |-> ""]

ThrOf(c) == 0..(Len(c.prog) - 1)
MS0(c) == WMInit(ThrOf(c),
                 [x \in {IdxLoc, TabLoc} \cup {SlotLoc(i) : i \in c.slots} \cup {ValLoc(i) : i \in c.slots}
                    |-> IF x[1] = "idx" THEN c.base
                        ELSE IF x[1] = "slot" THEN (IF x[2] < c.base THEN PUBLISHED ELSE INITIAL)
                        ELSE 0])
PC0(c) == [t \in ThrOf(c) |-> "idle"]
LL0(c) == [t \in ThrOf(c) |-> L0(c)]

InitFor(c) ==
  /\ cfg = c
  /\ ms = MS0(c)
  /\ pc = PC0(c)
  /\ L = LL0(c)
  /\ H = H0(c)
  /\ ev = NoEv

Init == \E c \in Configs : InitFor(c)

(***************************************************************************)
(* Memory access helpers (same shape as BQ.tla)                            *)
(***************************************************************************)
KeepAll == Stale
Has(x) == x \in DOMAIN ms.mem

DoLoad(t, x, site, M(_), K(_)) ==
  /\ Has(x)
  /\ \E i \in Readable(ms, t, x, Stale) :
       LET mo == M(site)
           v == ms.mem[x][i].val
       IN /\ ms' = ScAfter(LoadEff(ScBefore(ms, t, mo), t, x, i, mo), t, mo)
          /\ ev' = [NoEv EXCEPT !.t = t, !.k = "load", !.site = site, !.mo = mo, !.loc = LocName(x), !.i = LocIdx(x), !.v = v]
          /\ K(v)

\* 16-bit load of the status half
DoLoadStatus(t, x, site, M(_), K(_)) ==
  /\ Has(x)
  /\ \E i \in Readable(ms, t, x, Stale) :
       LET mo == M(site)
           v == Status(ms.mem[x][i].val)
       IN /\ ms' = ScAfter(LoadEff(ScBefore(ms, t, mo), t, x, i, mo), t, mo)
          /\ ev' = [NoEv EXCEPT !.t = t, !.k = "load", !.site = site, !.mo = mo, !.loc = LocName(x), !.i = LocIdx(x), !.v = v]
          /\ K(v)

\* 32-bit load of a slot word; a thread with an unordered 16-bit store pending may combine its own
\* status half with a stale waiter half (store forwarding) -- what the seq_cst fence rules out
DoWideLoad(t, x, site, M(_), K(_)) ==
  \/ DoLoad(t, x, site, M, K)
  \/ /\ Stale /\ Has(x) /\ IsPend(ms, t, x)
     /\ \E i \in Readable(ms, t, x, Stale), j \in PendReadable(ms, t, x) :
          LET mo == M(site)
              v == Status(ms.mem[x][i].val) + (IF HasWaiter(ms.mem[x][j].val) THEN WAITER ELSE 0)
          IN /\ v # ms.mem[x][i].val
             /\ ms' = LoadEff(ms, t, x, i, mo)
             /\ ev' = [NoEv EXCEPT !.t = t, !.k = "load", !.site = site, !.mo = mo, !.loc = LocName(x), !.i = LocIdx(x), !.v = v]
             /\ K(v)

DoStore(t, x, v, site, M(_)) ==
  LET mo == M(site)
  IN /\ Has(x)
     /\ ms' = ScAfter(StoreEff(ScBefore(ms, t, mo), t, x, v, mo, KeepAll), t, mo)
     /\ ev' = [NoEv EXCEPT !.t = t, !.k = "store", !.site = site, !.mo = mo, !.loc = LocName(x), !.i = LocIdx(x), !.v = v]

\* 16-bit store of the status half: the waiter half keeps the value of the preceding message
DoStoreStatus(t, x, st, site, M(_)) ==
  LET mo == M(site)
      w == st + (IF HasWaiter(LastVal(ms, x)) THEN WAITER ELSE 0)
  IN /\ Has(x)
     /\ ms' = ScAfter(NarrowStoreEff(ScBefore(ms, t, mo), t, x, w, mo, KeepAll), t, mo)
     /\ ev' = [NoEv EXCEPT !.t = t, !.k = "store", !.site = site, !.mo = mo, !.loc = LocName(x), !.i = LocIdx(x), !.v = st]

DoRmw(t, x, kind, F(_), a, site, M(_), K(_)) ==
  LET mo == M(site)
      old == LastVal(ms, x)
  IN /\ Has(x)
     /\ ms' = ScAfter(RmwEff(ScBefore(ms, t, mo), t, x, F(old), mo, KeepAll), t, mo)
     /\ ev' = [NoEv EXCEPT !.t = t, !.k = kind, !.site = site, !.mo = mo, !.loc = LocName(x), !.i = LocIdx(x), !.v = old, !.a = a]
     /\ K(old)

DoCas(t, x, e, d, site, M(_), K(_, _)) ==
  LET mo == M(site)
      old == LastVal(ms, x)
  IN /\ Has(x)
     /\ IF old = e
        THEN /\ ms' = ScAfter(RmwEff(ScBefore(ms, t, mo), t, x, d, mo, KeepAll), t, mo)
             /\ ev' = [NoEv EXCEPT !.t = t, !.k = "cas", !.site = site, !.mo = mo, !.loc = LocName(x), !.i = LocIdx(x), !.v = old, !.a = e, !.b = d, !.ok = TRUE]
             /\ K(TRUE, old)
        ELSE /\ ms' = CasFailEff(ms, t, x, mo)
             /\ ev' = [NoEv EXCEPT !.t = t, !.k = "cas", !.site = site, !.mo = mo, !.loc = LocName(x), !.i = LocIdx(x), !.v = old, !.a = e, !.b = d, !.ok = FALSE]
             /\ K(FALSE, old)

DoFence(t, site, M(_)) ==
  LET mo == M(site)
  IN /\ ms' = FenceEff(ms, t, mo)
     /\ ev' = [NoEv EXCEPT !.t = t, !.k = "fence", !.site = site, !.mo = mo]

Goto(t, p) == pc' = [pc EXCEPT ![t] = p]
SetL(t, l) == L' = [L EXCEPT ![t] = l]
Flag(b, name) == IF b /\ H.bad = "" THEN name ELSE H.bad

(***************************************************************************)
(* Thread creation / join (main thread), call / return                     *)
(***************************************************************************)
Spawn(t) ==
  /\ pc[t] = "idle" /\ t \in H.started /\ HasOp(t) /\ Op(t).op = "s"
  /\ LET u == Op(t).n
     IN /\ u \in Thr /\ u \notin H.started
        /\ ms' = SpawnEff(ms, t, u)
        /\ H' = [H EXCEPT !.started = @ \cup {u}]
        /\ ev' = [NoEv EXCEPT !.t = t, !.k = "spawn", !.i = u]
  /\ SetL(t, [L[t] EXCEPT !.opi = @ + 1])
  /\ UNCHANGED <<cfg, pc>>

Join(t) ==
  /\ pc[t] = "idle" /\ t \in H.started /\ HasOp(t) /\ Op(t).op = "j"
  /\ LET u == Op(t).n
     IN /\ u \in Thr /\ Done(u)
        /\ ms' = JoinEff(ms, t, u)
        /\ ev' = [NoEv EXCEPT !.t = t, !.k = "join", !.i = u]
  /\ SetL(t, [L[t] EXCEPT !.opi = @ + 1])
  /\ UNCHANGED <<cfg, pc, H>>

FirstPc(o) ==
  CASE o.op = "p" -> "p_faa"
    [] o.op = "q" -> "p_iload"
    [] o.op = "c" -> "c_tab"
    [] o.op = "cl" -> "x_iload"
    [] o.op = "clr" -> "r_tab1"
    [] o.op = "sub" -> "ret"

Call(t) ==
  /\ pc[t] = "idle" /\ t \in H.started /\ HasOp(t) /\ Op(t).op \notin {"s", "j"}
  /\ LET o == Op(t)
     IN /\ Goto(t, FirstPc(o))
        /\ SetL(t, [L[t] EXCEPT !.res = 0, !.rbeg = 0, !.consumed = 0, !.num = o.n,
                                !.cur = IF o.op = "sub" THEN 0 ELSE @])
        \* close() is called when every publish has returned (contract of the API): the log is complete
        /\ H' = [H EXCEPT !.closedAt = IF o.op = "cl" THEN H.lo + Cardinality(DOMAIN H.pubval) ELSE @]
        /\ ev' = [NoEv EXCEPT !.t = t, !.k = "call", !.op = o.op, !.n = o.n]
        /\ UNCHANGED <<cfg, ms>>

\* return; a consumer reads the payload of the range it was handed
Ret(t) ==
  /\ pc[t] = "ret"
  /\ LET o == Op(t)
         l == L[t]
         k == IF o.op = "c" THEN l.res ELSE 0
         b == l.rbeg
         cells == [j \in 1..k |-> b + j - 1]
         RECURSIVE Acc(_, _)
         Acc(m, j) == IF j > k THEN m ELSE Acc(NaReadEff(m, t, ValLoc(cells[j])), j + 1)
         vals == [j \in 1..k |-> H.cell[cells[j]]]
         notLog == \E j \in 1..k : cells[j] \notin DOMAIN H.pubval
         short == o.op = "c" /\ k < o.n /\ ~(H.closedAt >= 0 /\ b + k = H.closedAt)
         beyond == o.op = "c" /\ H.closedAt >= 0 /\ b + k > H.closedAt
         notNew == o.op = "clr" /\ (LastVal(ms, IdxLoc) # 0 \/ \E s \in cfg.slots : LastVal(ms, SlotLoc(s)) # INITIAL)
     IN /\ \A j \in 1..k : cells[j] \in cfg.slots
        /\ ms' = Acc(ms, 1)
        /\ H' = [H EXCEPT !.bad = IF notLog THEN Flag(TRUE, "InOrderExactlyOnce")
                                  ELSE IF short \/ beyond THEN Flag(TRUE, "EndOnlyAtLogEnd")
                                  ELSE Flag(notNew, "ClearActsAsNew"),
                          !.pubval = IF o.op = "clr" THEN << >> ELSE @,
                          !.lo = IF o.op = "clr" THEN 0 ELSE @,
                          !.closedAt = IF o.op = "clr" THEN -1 ELSE @]
        /\ ev' = [NoEv EXCEPT !.t = t, !.k = "ret", !.op = o.op, !.n = o.n, !.res = IF o.op \in {"p", "q"} THEN o.n ELSE l.res, !.i = b, !.vals = vals]
  /\ Goto(t, "idle")
  /\ SetL(t, [L[t] EXCEPT !.opi = @ + 1])
  /\ UNCHANGED cfg

(***************************************************************************)
(* publish_n<CONCURRENT>(num, callback)                                    *)
(***************************************************************************)
StartSeg(l, b) == [l EXCEPT !.i = b, !.j = b, !.segEnd = SegEnd(b, l.idx + l.num)]

PFaa(t, M(_)) ==
  /\ pc[t] = "p_faa"
  /\ DoRmw(t, IdxLoc, "faa", LAMBDA o : o + L[t].num, L[t].num, "publish_index_faa", M,
           LAMBDA old : SetL(t, [L[t] EXCEPT !.idx = old]) /\ Goto(t, "p_tab"))
  /\ UNCHANGED <<cfg, H>>

PILoad(t, M(_)) ==
  /\ pc[t] = "p_iload"
  /\ DoLoad(t, IdxLoc, "publish_index_load", M,
            LAMBDA v : SetL(t, [L[t] EXCEPT !.idx = v]) /\ Goto(t, "p_istore"))
  /\ UNCHANGED <<cfg, H>>

PIStore(t, M(_)) ==
  /\ pc[t] = "p_istore"
  /\ DoStore(t, IdxLoc, L[t].idx + L[t].num, "publish_index_store", M)
  /\ Goto(t, "p_tab")
  /\ UNCHANGED <<cfg, L, H>>

\* reserved_snapshot(end_index): the slots exist (C04); acquire load of the block table pointer
PTab(t, M(_)) ==
  /\ pc[t] = "p_tab"
  /\ DoLoad(t, TabLoc, "table_load", M,
            LAMBDA v : SetL(t, StartSeg(L[t], L[t].idx)) /\ Goto(t, "p_cb"))
  /\ UNCHANGED <<cfg, H>>

\* the user callback fills the slots [i, segEnd) of one block
PCb(t) ==
  /\ pc[t] = "p_cb"
  /\ LET l == L[t]
         n == l.segEnd - l.i
         newvals == [j \in 1..n |-> (t + 1) * 100 + l.item + j]
         RECURSIVE Acc(_, _)
         Acc(m, j) == IF j > n THEN m ELSE Acc(NaWriteEff(m, t, ValLoc(l.i + j - 1), Thr), j + 1)
         shared == \E j \in l.i..(l.segEnd - 1) : j \in DOMAIN H.pubval
     IN /\ \A j \in l.i..(l.segEnd - 1) : j \in cfg.slots
        /\ ms' = Acc(ms, 1)
        /\ SetL(t, [l EXCEPT !.item = @ + n])
        /\ H' = [H EXCEPT !.pubval = [x \in DOMAIN H.pubval \cup (l.i..(l.segEnd - 1)) |->
                                        IF x \in l.i..(l.segEnd - 1) THEN newvals[x - l.i + 1] ELSE H.pubval[x]],
                          !.cell = [x \in DOMAIN H.cell |-> IF x \in l.i..(l.segEnd - 1) THEN newvals[x - l.i + 1] ELSE H.cell[x]],
                          !.bad = Flag(shared, "PublishersNeverShareSlot")]
        /\ ev' = [NoEv EXCEPT !.t = t, !.k = "cb", !.i = l.i, !.n = n, !.vals = newvals]
  /\ Goto(t, "p_frel")
  /\ UNCHANGED cfg

PFRel(t, M(_)) ==
  /\ pc[t] = "p_frel"
  /\ DoFence(t, "publish_fence_release", M)
  /\ Goto(t, "p_st")
  /\ UNCHANGED <<cfg, L, H>>

PStore(t, M(_)) ==
  /\ pc[t] = "p_st"
  /\ DoStoreStatus(t, SlotLoc(L[t].j), PUBLISHED, "publish_status_store", M)
  /\ IF L[t].j + 1 < L[t].segEnd
     THEN SetL(t, [L[t] EXCEPT !.j = @ + 1]) /\ UNCHANGED pc
     ELSE SetL(t, [L[t] EXCEPT !.j = L[t].i]) /\ Goto(t, "p_fsc")
  /\ UNCHANGED <<cfg, H>>

PFSc(t, M(_)) ==
  /\ pc[t] = "p_fsc"
  /\ DoFence(t, "publish_fence_seq_cst", M)
  /\ Goto(t, "w_load")
  /\ UNCHANGED <<cfg, L, H>>

(***************************************************************************)
(* SlotFutex::wakeup_waiters over the slots [i, segEnd) (cursor j)         *)
(***************************************************************************)
\* where the waker goes after slot j: next slot, next block segment (publish_n), or return
AfterWakePc(l) == IF l.j + 1 < l.segEnd THEN "w_load" ELSE IF l.segEnd < l.idx + l.num THEN "p_cb" ELSE "ret"
AfterWakeL(l) == IF l.j + 1 < l.segEnd THEN [l EXCEPT !.j = @ + 1]
                 ELSE IF l.segEnd < l.idx + l.num THEN StartSeg(l, l.segEnd)
                 ELSE l

WLoad(t, M(_)) ==
  /\ pc[t] = "w_load"
  /\ DoWideLoad(t, SlotLoc(L[t].j), "wake_load", M,
        LAMBDA v : IF HasWaiter(v)
                   THEN SetL(t, [L[t] EXCEPT !.seen = v]) /\ Goto(t, "w_cas")
                   ELSE SetL(t, AfterWakeL(L[t])) /\ Goto(t, AfterWakePc(L[t])))
  /\ UNCHANGED <<cfg, H>>

\* compare_exchange_weak(current, status): the result is ignored, wake_all follows in any case
WCas(t, M(_)) ==
  /\ pc[t] = "w_cas"
  /\ DoCas(t, SlotLoc(L[t].j), L[t].seen, Status(L[t].seen), "wake_cas", M,
        LAMBDA ok, old : UNCHANGED L /\ Goto(t, "w_wake"))
  /\ UNCHANGED <<cfg, H>>

BlockedOn(s) == {u \in DOMAIN pc : pc[u] = "c_blocked" /\ L[u].i = s}
WakeAll(s) == [u \in DOMAIN pc |-> IF u \in BlockedOn(s) THEN "c_woken" ELSE pc[u]]

WWake(t) ==
  /\ pc[t] = "w_wake"
  /\ ev' = [NoEv EXCEPT !.t = t, !.k = "fwake", !.loc = "slot", !.i = L[t].j, !.v = Cardinality(BlockedOn(L[t].j))]
  /\ pc' = [WakeAll(L[t].j) EXCEPT ![t] = AfterWakePc(L[t])]
  /\ SetL(t, AfterWakeL(L[t]))
  /\ UNCHANGED <<cfg, ms, H>>

(***************************************************************************)
(* close()                                                                 *)
(***************************************************************************)
XILoad(t, M(_)) ==
  /\ pc[t] = "x_iload"
  /\ DoLoad(t, IdxLoc, "close_index_load", M,
            LAMBDA v : SetL(t, [L[t] EXCEPT !.idx = v, !.num = 1, !.i = v, !.j = v, !.segEnd = v + 1]) /\ Goto(t, "x_tab"))
  /\ UNCHANGED <<cfg, H>>

XTab(t, M(_)) ==
  /\ pc[t] = "x_tab"
  /\ DoLoad(t, TabLoc, "table_load", M, LAMBDA v : UNCHANGED L /\ Goto(t, "x_st"))
  /\ UNCHANGED <<cfg, H>>

XStore(t, M(_)) ==
  /\ pc[t] = "x_st"
  /\ DoStoreStatus(t, SlotLoc(L[t].j), CLOSED, "close_status_store", M)
  /\ Goto(t, "x_fsc")
  /\ UNCHANGED <<cfg, L, H>>

XFSc(t, M(_)) ==
  /\ pc[t] = "x_fsc"
  /\ DoFence(t, "close_fence_seq_cst", M)
  /\ Goto(t, "w_load")
  /\ UNCHANGED <<cfg, L, H>>

(***************************************************************************)
(* Consumer::consume(num)  (cursor L.cur; current slot L.i)                *)
(***************************************************************************)
CTab(t, M(_)) ==
  /\ pc[t] = "c_tab"
  /\ DoLoad(t, TabLoc, "table_load", M,
            LAMBDA v : /\ SetL(t, [StartSeg([L[t] EXCEPT !.idx = L[t].cur], L[t].cur) EXCEPT !.consumed = 0])
                       /\ Goto(t, "c_cl"))
  /\ UNCHANGED <<cfg, H>>

\* is_closed(): 16-bit load.  A closed slot ends this and every later block segment
CClosed(t, M(_)) ==
  /\ pc[t] = "c_cl"
  /\ DoLoadStatus(t, SlotLoc(L[t].i), "consume_closed_load", M,
        LAMBDA s : UNCHANGED L /\ Goto(t, IF s = CLOSED THEN "c_facq" ELSE "c_pl"))
  /\ UNCHANGED <<cfg, H>>

CAdvL(l) == IF l.i + 1 < l.segEnd THEN [l EXCEPT !.i = @ + 1, !.consumed = @ + 1]
            ELSE IF l.segEnd < l.idx + l.num THEN [StartSeg(l, l.segEnd) EXCEPT !.consumed = @ + 1]
            ELSE [l EXCEPT !.consumed = @ + 1]
CAdvPc(l) == IF l.i + 1 < l.segEnd \/ l.segEnd < l.idx + l.num THEN "c_cl" ELSE "c_facq"

\* is_published(): 16-bit load
CPublished(t, M(_)) ==
  /\ pc[t] = "c_pl"
  /\ DoLoadStatus(t, SlotLoc(L[t].i), "consume_published_load", M,
        LAMBDA s : IF s = PUBLISHED THEN SetL(t, CAdvL(L[t])) /\ Goto(t, CAdvPc(L[t]))
                   ELSE UNCHANGED L /\ Goto(t, "c_wl"))
  /\ UNCHANGED <<cfg, H>>

SlowPc(v) == IF HasWaiter(v) THEN "c_fwait" ELSE "c_wcas"

\* wait_until_ready(): 32-bit load, slow path while the status is INITIAL
CWaitLoad(t, M(_)) ==
  /\ pc[t] = "c_wl"
  /\ DoWideLoad(t, SlotLoc(L[t].i), "wait_load", M,
        LAMBDA v : SetL(t, [L[t] EXCEPT !.seen = v]) /\ Goto(t, IF Status(v) # INITIAL THEN "c_cl" ELSE SlowPc(v)))
  /\ UNCHANGED <<cfg, H>>

CWaitCas(t, M(_)) ==
  /\ pc[t] = "c_wcas"
  /\ DoCas(t, SlotLoc(L[t].i), L[t].seen, L[t].seen + WAITER, "wait_cas", M,
        LAMBDA ok, old : IF ok THEN SetL(t, [L[t] EXCEPT !.seen = @ + WAITER]) /\ Goto(t, "c_fwait")
                         ELSE SetL(t, [L[t] EXCEPT !.seen = old]) /\ Goto(t, "c_rl"))
  /\ UNCHANGED <<cfg, H>>

\* futex_wait: the kernel compares the whole word with the expected value atomically
CFutexWait(t) ==
  /\ pc[t] = "c_fwait"
  /\ Has(SlotLoc(L[t].i))
  /\ LET cur == LastVal(ms, SlotLoc(L[t].i))
     IN /\ Goto(t, IF cur = L[t].seen THEN "c_blocked" ELSE "c_rl")
        /\ ev' = [NoEv EXCEPT !.t = t, !.k = "fwait", !.loc = "slot", !.i = L[t].i, !.a = L[t].seen, !.v = cur, !.ok = (cur = L[t].seen)]
  /\ UNCHANGED <<cfg, ms, L, H>>

CFutexRet(t) ==
  /\ pc[t] = "c_woken"
  /\ ev' = [NoEv EXCEPT !.t = t, !.k = "fret", !.loc = "slot", !.i = L[t].i, !.ok = TRUE]
  /\ Goto(t, "c_rl")
  /\ UNCHANGED <<cfg, ms, L, H>>

CReload(t, M(_)) ==
  /\ pc[t] = "c_rl"
  /\ DoWideLoad(t, SlotLoc(L[t].i), "wait_reload", M,
        LAMBDA v : SetL(t, [L[t] EXCEPT !.seen = v]) /\ Goto(t, IF Status(v) # INITIAL THEN "c_cl" ELSE SlowPc(v)))
  /\ UNCHANGED <<cfg, H>>

\* the acquire fence before the range is handed out
CFAcq(t, M(_)) ==
  /\ pc[t] = "c_facq"
  /\ DoFence(t, "consume_fence_acquire", M)
  /\ SetL(t, [L[t] EXCEPT !.res = L[t].consumed, !.rbeg = L[t].cur, !.cur = @ + L[t].consumed])
  /\ Goto(t, "ret")
  /\ UNCHANGED <<cfg, H>>

(***************************************************************************)
(* clear(): every slot word back to INITIAL, then the index                *)
(* (only the slots of cfg.slots are modelled; the others are never used)   *)
(***************************************************************************)
MinSlot == CHOOSE s \in cfg.slots : \A u \in cfg.slots : s <= u
NextSlot(s) == IF \E u \in cfg.slots : u > s
               THEN CHOOSE u \in cfg.slots : u > s /\ \A w \in cfg.slots : w > s => u <= w
               ELSE -1

RTab1(t, M(_)) ==
  /\ pc[t] = "r_tab1"
  /\ DoLoad(t, TabLoc, "table_load", M, LAMBDA v : UNCHANGED L /\ Goto(t, "r_tab2"))
  /\ UNCHANGED <<cfg, H>>

RTab2(t, M(_)) ==
  /\ pc[t] = "r_tab2"
  /\ DoLoad(t, TabLoc, "table_load", M, LAMBDA v : SetL(t, [L[t] EXCEPT !.j = MinSlot]) /\ Goto(t, "r_st"))
  /\ UNCHANGED <<cfg, H>>

RStore(t, M(_)) ==
  /\ pc[t] = "r_st"
  /\ DoStore(t, SlotLoc(L[t].j), INITIAL, "clear_reset_store", M)
  /\ IF NextSlot(L[t].j) >= 0
     THEN SetL(t, [L[t] EXCEPT !.j = NextSlot(L[t].j)]) /\ UNCHANGED pc
     ELSE UNCHANGED L /\ Goto(t, "r_idx")
  /\ UNCHANGED <<cfg, H>>

RIdx(t, M(_)) ==
  /\ pc[t] = "r_idx"
  /\ DoStore(t, IdxLoc, 0, "clear_index_store", M)
  /\ Goto(t, "ret")
  /\ UNCHANGED <<cfg, L, H>>

(***************************************************************************)
SpawnJoin(t) == Spawn(t) \/ Join(t)

Work(t, M(_)) ==
  \/ Call(t) \/ Ret(t)
  \/ PFaa(t, M) \/ PILoad(t, M) \/ PIStore(t, M) \/ PTab(t, M) \/ PCb(t) \/ PFRel(t, M) \/ PStore(t, M) \/ PFSc(t, M)
  \/ WLoad(t, M) \/ WCas(t, M) \/ WWake(t)
  \/ XILoad(t, M) \/ XTab(t, M) \/ XStore(t, M) \/ XFSc(t, M)
  \/ CTab(t, M) \/ CClosed(t, M) \/ CPublished(t, M) \/ CWaitLoad(t, M) \/ CWaitCas(t, M) \/ CFutexWait(t) \/ CFutexRet(t)
  \/ CReload(t, M) \/ CFAcq(t, M)
  \/ RTab1(t, M) \/ RTab2(t, M) \/ RStore(t, M) \/ RIdx(t, M)

Step(t, M(_)) == SpawnJoin(t) \/ Work(t, M)

AllDone == \A t \in Thr : Done(t)

(***************************************************************************)
(* L1 properties (C15) over the history                                    *)
(***************************************************************************)
\* the publisher's writes are fully visible to every consumer handed the slot (and nobody touches a
\* payload cell concurrently with its writer)
NoDataRace == ~ms.race
\* every consumer receives the log in index order, without gaps / repeats / items never published
InOrderExactlyOnce == H.bad # "InOrderExactlyOnce"
\* consume comes back short (end marker) only after close() and exactly at the end of the log; never beyond it
EndOnlyAtLogEnd == H.bad # "EndOnlyAtLogEnd"
\* no slot is handed to two publish calls of one epoch
PublishersNeverShareSlot == H.bad # "PublishersNeverShareSlot"
\* after clear() every slot is INITIAL and the index is 0: the state of a new topic
ClearActsAsNew == H.bad # "ClearActsAsNew"
\* safety form of "no lost wake-up": when nobody can move any more, no consumer sleeps on a slot whose
\* status already left INITIAL
\* (SafeOp: TLC explores both sides of a disjunction inside an action, so no partial expressions here)
SafeOp(t) == IF HasOp(t) THEN Op(t) ELSE [op |-> "", n |-> 0]
Waiting(t) == \/ pc[t] = "c_blocked"
              \/ pc[t] = "idle" /\ (~HasOp(t) \/ t \notin H.started \/ (SafeOp(t).op = "j" /\ ~Done(SafeOp(t).n)))
Stuck == \A t \in Thr : Waiting(t)
NoLostWakeup == Stuck => \A t \in Thr : pc[t] = "c_blocked" => Status(LastVal(ms, SlotLoc(L[t].i))) = INITIAL
\* programs that close after their last publish never end with a sleeping consumer
NoDeadlock == (cfg.live /\ Stuck) => \A t \in Thr : pc[t] # "c_blocked"
\* (the converse clause "blocks while nothing new is published" is EndOnlyAtLogEnd: a consume that
\*  returned short without close is flagged)

=============================================================================
