------------------------------ MODULE MC_Topic ------------------------------
(* Model-checking instance of Topic: memory orders from the table MO_Topic (generated from   *)
(* the running code by the conformance step; the committed copy documents the current       *)
(* source), program families as constants.  Vector block size 2 so that batches of 2..3     *)
(* straddle a block boundary.                                                                *)
EXTENDS Topic, MO_Topic

MOf(site) == MO[site]

P(n) == [op |-> "p", n |-> n]      \* publish_n<true>(n)
Q(n) == [op |-> "q", n |-> n]      \* publish_n<false>(n)
C(n) == [op |-> "c", n |-> n]      \* consume(n)
CL == [op |-> "cl", n |-> 0]
CLR == [op |-> "clr", n |-> 0]
SUB == [op |-> "sub", n |-> 0]
S(k) == [op |-> "s", n |-> k]
J(k) == [op |-> "j", n |-> k]
Cfg(base, bs, ns, live, prog) == [base |-> base, bs |-> bs, slots |-> 0..(ns - 1), live |-> live, prog |-> prog]

\* ---- SC families (Stale = FALSE) ----
\* one publisher (single + batch 2 across the block boundary), two consumers, main closes after joining it
Cfg_1p2c == { Cfg(0, 2, 4, TRUE, << <<S(1), S(2), S(3), J(1), CL, J(2), J(3)>>, <<P(1), P(2)>>, <<C(3), C(1)>>, <<C(2), C(2)>> >>) }
\* the last publish races with close: the publisher closes itself right after its batch
Cfg_selfclose == { Cfg(0, 2, 4, TRUE, << <<S(1), S(2), S(3), J(1), J(2), J(3)>>, <<Q(1), Q(2), CL>>, <<C(1), C(3)>>, <<C(3), C(2)>> >>) }
Cfg_selfclose1 == { Cfg(0, 2, 4, TRUE, << <<S(1), S(2), J(1), J(2)>>, <<Q(1), Q(2), CL>>, <<C(1), C(3)>> >>) }
\* two concurrent publishers (single + batch 2), one consumer
Cfg_2p1c == { Cfg(0, 2, 4, TRUE, << <<S(1), S(2), S(3), J(1), J(2), CL, J(3)>>, <<P(1)>>, <<P(2)>>, <<C(2), C(2)>> >>) }
\* two publishers, two consumers, 2 items
Cfg_2p2c == { Cfg(1, 2, 4, TRUE, << <<S(1), S(2), S(3), S(4), J(1), J(2), CL, J(3), J(4)>>, <<P(1)>>, <<P(1)>>, <<C(2), C(1)>>, <<C(1), C(2)>> >>) }
\* publish / close / clear / publish / close : two epochs, the second one consumed by new consumers
Cfg_cycle == { Cfg(1, 2, 4, TRUE, << <<S(1), S(2), J(1), J(2), CLR, S(3), S(4), J(3), J(4)>>, <<Q(1), CL>>, <<C(2)>>, <<P(2), CL>>, <<SUB, C(3)>> >>),
               Cfg(0, 2, 3, TRUE, << <<Q(1), S(1), CL, J(1), CLR, S(2), P(1), CL, J(2), CLR>>, <<C(1), C(1)>>, <<SUB, C(2)>> >>) }
\* no close: the consumer must stay blocked (never returns short)
Cfg_block == { Cfg(0, 2, 3, FALSE, << <<S(1), S(2), J(1), J(2)>>, <<P(1)>>, <<C(2)>> >>) }
Cfg_dbg == Cfg_selfclose1
Cfg_quick == Cfg_selfclose1 \cup Cfg_2p1c \cup Cfg_cycle \cup Cfg_block
Cfg_sc2 == Cfg_1p2c \cup Cfg_2p2c \cup Cfg_selfclose

\* ---- weak-memory families (Stale = TRUE): waker Dekker pattern + publication ----
Cfg_wm == { Cfg(0, 2, 3, TRUE, << <<S(1), S(2), J(1), CL, J(2)>>, <<P(1)>>, <<C(1), C(1)>> >>),
            Cfg(0, 2, 3, TRUE, << <<S(1), S(2), J(1), J(2)>>, <<Q(1), CL>>, <<C(2)>> >>) }
\* liveness (tiny): publisher + sleeping consumer + close by main
Cfg_live == { Cfg(0, 2, 3, TRUE, << <<S(1), S(2), J(1), CL, J(2)>>, <<P(1)>>, <<C(2), C(1)>> >>) }
Cfg_wm2 == { Cfg(1, 2, 4, TRUE, << <<S(1), S(2), J(1), J(2)>>, <<Q(2), CL>>, <<C(3)>> >>),
             Cfg(0, 2, 3, TRUE, << <<S(1), S(2), S(3), J(1), J(2), CL, J(3)>>, <<P(1)>>, <<P(1)>>, <<C(2), C(1)>> >>) }

\* Partial-order reduction by priority.  A LOCAL step touches only the thread's own views / locals and
\* is invisible to every invariant: spawn / join, the load of the (never written) block table pointer,
\* acquire / release fences, call (except close, which snapshots the log length) and the returns that
\* observe nothing.  It commutes with every step of the other threads, so whenever one is enabled
\* only the local step of the lowest such thread is explored (local steps always advance the pc: no
\* ignoring problem).
LocalEn(t) ==
  \/ /\ pc[t] = "idle" /\ t \in H.started /\ HasOp(t)
     /\ (Op(t).op = "s" \/ (Op(t).op = "j" /\ Done(Op(t).n)) \/ Op(t).op \notin {"s", "j", "cl"})
  \/ pc[t] \in {"p_tab", "x_tab", "c_tab", "r_tab1", "r_tab2"}
  \/ pc[t] = "p_frel" /\ MO.publish_fence_release # "sc"
  \/ pc[t] = "c_facq" /\ MO.consume_fence_acquire # "sc"
  \/ pc[t] = "ret" /\ Op(t).op \in {"p", "q", "cl", "sub"}
LocalSet == {t \in Thr : LocalEn(t)}
Next == \/ /\ LocalSet # {}
           /\ LET t == CHOOSE u \in LocalSet : \A w \in LocalSet : u <= w IN Step(t, MOf)
        \/ /\ LocalSet = {}
           /\ \E t \in Thr : Work(t, MOf)
        \/ (AllDone /\ UNCHANGED vars)
\* without the reduction (used to cross-check it on small configurations)
FullNext == (\E t \in Thr : Step(t, MOf)) \/ (AllDone /\ UNCHANGED vars)
FullSpec == Init /\ [][FullNext]_vars
Spec == Init /\ [][Next]_vars
\* liveness is checked on the unreduced next-state relation
FairSpec == FullSpec /\ \A t \in 0..4 : WF_vars(t \in Thr /\ Step(t, MOf))

\* hide the ghost event from the state identity
View == <<cfg, ms, pc, L, H>>

Termination == <>[]AllDone
=============================================================================
