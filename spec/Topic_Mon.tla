----------------------------- MODULE Topic_Mon -----------------------------
(***************************************************************************)
(* L1 specification of the transient topic as a monitor over the           *)
(* observable events of an execution: call / return of publish_n, consume, *)
(* close, clear, subscribe and the publisher's callback (which indices,    *)
(* which values).  It knows nothing about status words, futexes or blocks, *)
(* so it judges the statement of C15 on executions of ANY implementation   *)
(* of the API, also one that no longer follows the L2 specification.       *)
(*                                                                         *)
(* Abstract state (Topic_Abs): append-only log (index -> value) of the     *)
(* current epoch, closed flag (log length at the close call), one cursor   *)
(* per consumer.                                                           *)
(*                                                                         *)
(*  InOrderExactlyOnce        consume hands out exactly log[cursor ..       *)
(*                            cursor+k): index order, no gap, no repeat,    *)
(*                            the values the publisher wrote                *)
(*  EndOnlyAtLogEnd           k < num only after close() and only with      *)
(*                            cursor+k = length of the log; never beyond    *)
(*  PublishersNeverShareSlot  index ranges of callbacks are disjoint        *)
(*  BlocksOnlyWhileNothingNew at a deadlock every pending consume(num)      *)
(*                            really lacks items and close() never came     *)
(*                            (anything else is a lost wake-up)             *)
(*  NoLivelock / NoCrash      the run ends                                  *)
(*  ClearActsAsNew            after clear() all of the above with an empty  *)
(*                            log, no close, cursors of new consumers at 0  *)
(***************************************************************************)
EXTENDS Naturals, Integers, Sequences, FiniteSets, TLC, Json, IOUtils

Tr == ndJsonDeserialize(IOEnv.TRACE)

VARIABLES l,
          log,       \* index -> value, current epoch
          lo,        \* first index of the epoch
          closedAt,  \* log end when close() was called, or -1
          cursor,    \* cursor[t] of the consumer owned by thread t
          cur,       \* cur[t]: the operation thread t is executing, or None
          cleared,   \* a clear() completed in this execution
          bad

mvars == <<l, log, lo, closedAt, cursor, cur, cleared, bad>>

None == [op |-> "", n |-> 0]
Thrs == 0..15

Fresh(e) ==
  /\ log' = << >> /\ lo' = e.base /\ closedAt' = -1
  /\ cursor' = [t \in Thrs |-> e.base]
  /\ cur' = [t \in Thrs |-> None]
  /\ cleared' = FALSE

MInit ==
  /\ l = 2 /\ Tr[1].k = "reset"
  /\ log = << >> /\ lo = Tr[1].base /\ closedAt = -1
  /\ cursor = [t \in Thrs |-> Tr[1].base]
  /\ cur = [t \in Thrs |-> None]
  /\ cleared = FALSE
  /\ bad = ""
  /\ TLCSet(1, 1)

Flag(b, name) == IF b /\ bad = "" THEN name ELSE bad
End == lo + Cardinality(DOMAIN log)
Name(c) == IF cleared THEN "ClearActsAsNew_" \o c ELSE c

MCall(e) ==
  /\ cur' = [cur EXCEPT ![e.t] = [op |-> e.op, n |-> e.n]]
  /\ closedAt' = IF e.op = "cl" THEN End ELSE closedAt
  /\ cursor' = IF e.op = "sub" THEN [cursor EXCEPT ![e.t] = 0] ELSE cursor
  \* the API contract: close() only after every publish has returned
  /\ bad' = Flag(cur[e.t].op # "" \/ (e.op = "cl" /\ \E t \in Thrs : cur[t].op \in {"p", "q"}), "Protocol")
  /\ UNCHANGED <<log, lo, cleared>>

MCb(e) ==
  LET rng == e.i..(e.i + e.n - 1)
  IN /\ log' = [x \in DOMAIN log \cup rng |-> IF x \in rng THEN e.vals[x - e.i + 1] ELSE log[x]]
     /\ bad' = IF \E x \in rng : x \in DOMAIN log THEN Flag(TRUE, Name("PublishersNeverShareSlot"))
               ELSE Flag(Len(e.vals) # e.n \/ cur[e.t].op \notin {"p", "q"}, "Protocol")
     /\ UNCHANGED <<lo, closedAt, cursor, cur, cleared>>

MRet(e) ==
  LET c == cursor[e.t]
      k == e.res
      wrong == \/ Len(e.vals) # k \/ k > e.n
               \/ \E j \in 1..Len(e.vals) : (c + j - 1) \notin DOMAIN log \/ log[c + j - 1] # e.vals[j]
      short == k < e.n /\ ~(closedAt >= 0 /\ c + k = closedAt)
      beyond == closedAt >= 0 /\ c + k > closedAt
  IN /\ cur' = [cur EXCEPT ![e.t] = None]
     /\ cursor' = IF e.op = "c" THEN [cursor EXCEPT ![e.t] = c + k] ELSE cursor
     /\ bad' = IF e.op = "c" THEN (IF wrong THEN Flag(TRUE, Name("InOrderExactlyOnce"))
                                   ELSE Flag(short \/ beyond, Name("EndOnlyAtLogEnd")))
               ELSE bad
     /\ log' = IF e.op = "clr" THEN << >> ELSE log
     /\ lo' = IF e.op = "clr" THEN 0 ELSE lo
     /\ closedAt' = IF e.op = "clr" THEN -1 ELSE closedAt
     /\ cleared' = (cleared \/ e.op = "clr")

\* a consume(n) that is still pending when nothing can move any more must really lack input
Justified(t) == cur[t].op = "c" => (closedAt < 0 /\ cursor[t] + cur[t].n > End)

MEnd(e) ==
  /\ bad' = IF e.status = "deadlock" THEN Flag(\E t \in Thrs : ~Justified(t), Name("BlocksOnlyWhileNothingNew"))
            ELSE IF e.status = "budget" THEN Flag(TRUE, "NoLivelock")
            ELSE IF e.status \in {"crash", "hang"} THEN Flag(TRUE, "NoCrash")
            ELSE IF e.status = "ok" THEN Flag(\E t \in Thrs : cur[t].op # "", "Protocol")
            ELSE bad
  /\ UNCHANGED <<log, lo, closedAt, cursor, cur, cleared>>

MNext ==
  /\ l <= Len(Tr)
  /\ LET e == Tr[l]
     IN CASE e.k = "reset" -> Fresh(e) /\ bad' = bad
          [] e.k = "call" -> MCall(e)
          [] e.k = "ret" -> MRet(e)
          [] e.k = "cb" -> MCb(e)
          [] e.k = "end" -> MEnd(e)
  /\ l' = l + 1
  /\ TLCSet(1, l')

MSpec == MInit /\ [][MNext]_mvars

\* the verdict names the clause:  bad = "" means every clause held so far
Holds == bad = ""

Post == PrintT(<<"VERIF", TLCGet(1) - 1, Len(Tr), {}>>)
=============================================================================
