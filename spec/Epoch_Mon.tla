----------------------------- MODULE Epoch_Mon -----------------------------
(***************************************************************************)
(* L1 specification of C09 as a monitor over the observable events of an   *)
(* execution: call / return of lock, unlock (thread-local style: h = 0;    *)
(* accessor style: handle h), create, release, tick -> value,              *)
(* low_water_mark -> value, and the client's unlink / use / reclaim of     *)
(* objects.  It knows nothing about slots, versions or fences, so it       *)
(* judges the statement of C09 on executions of ANY implementation.        *)
(*                                                                         *)
(* A region (key = handle, or 10 + thread for the thread-local style) is   *)
(* OPEN from the return of its outermost lock to the call of the matching  *)
(* unlock (depth counts nesting); it moves between threads with its key.   *)
(*                                                                         *)
(*  MarkHeldBack / NestingCounts : a region entered before an unlink; a    *)
(*       tick taken after that unlink returned e; a low_water_mark() that  *)
(*       was called after that tick while the region is still open returns *)
(*       less than e.  (A region that entered later is not constrained:    *)
(*       the "unless" of the statement.)  Reported as NestingCounts when   *)
(*       the region is open only through nesting (an inner unlock was      *)
(*       called already).                                                  *)
(*  NoPrematureReclaim : no use of an object after the client reclaimed it *)
(*       (the client reclaims when the mark reached the tick value).       *)
(*  ReleasedAccessorNeverHoldsBack : low_water_mark() returns at least the *)
(*       smallest epoch a region that was (possibly) open at some point of *)
(*       the call can have entered with - in particular UINT64_MAX when no *)
(*       region was open: unlocked / released accessors do not count; a    *)
(*       region also ends when its accessor is released while locked       *)
(*       (reported as ReleasedWhileLockedHoldsBack once that happened).    *)
(***************************************************************************)
EXTENDS Naturals, Integers, Sequences, FiniteSets, TLC, Json, IOUtils

Tr == ndJsonDeserialize(IOEnv.TRACE)

MAXV == 1000000
Keys == 1..20
Thrs == 1..9

VARIABLES l,
          depth,     \* depth[k]: completed locks minus called unlocks of region k
          busy,      \* busy[k]: an outermost lock or the outermost unlock of k is executing
          lower,     \* lower[k]: number of ticks that had returned when the outermost lock of k was called
          nested,    \* nested[k]: an inner unlock of the open region k was called
          unl,       \* regions that were open when some object was unlinked (since they entered)
          bound,     \* bound[k]: smallest tick value taken after such an unlink
          tickSnap,  \* tickSnap[t]: unl when the tick t is executing was called
          lwSnap,    \* lwSnap[t]: {<<k, bound[k]>>} when the low_water_mark t is executing was called
          lwFloor,   \* lwFloor[t]: smallest lower[k] over regions possibly open during that call
          inLw,      \* threads executing low_water_mark
          ticks,     \* number of ticks that returned
          reclaimed, \* objects the client reclaimed
          dropped,   \* some accessor was released while locked (witness class of its own)
          bad
mvars == <<l, depth, busy, lower, nested, unl, bound, tickSnap, lwSnap, lwFloor, inLw, ticks, reclaimed, dropped, bad>>

Fresh ==
  /\ depth' = [k \in Keys |-> 0] /\ busy' = [k \in Keys |-> FALSE] /\ lower' = [k \in Keys |-> MAXV]
  /\ nested' = [k \in Keys |-> FALSE] /\ unl' = {} /\ bound' = [k \in Keys |-> MAXV]
  /\ tickSnap' = [t \in Thrs |-> {}] /\ lwSnap' = [t \in Thrs |-> {}] /\ lwFloor' = [t \in Thrs |-> MAXV]
  /\ inLw' = {} /\ ticks' = 0 /\ reclaimed' = {} /\ dropped' = FALSE

MInit ==
  /\ l = 2 /\ Tr[1].k = "reset"
  /\ depth = [k \in Keys |-> 0] /\ busy = [k \in Keys |-> FALSE] /\ lower = [k \in Keys |-> MAXV]
  /\ nested = [k \in Keys |-> FALSE] /\ unl = {} /\ bound = [k \in Keys |-> MAXV]
  /\ tickSnap = [t \in Thrs |-> {}] /\ lwSnap = [t \in Thrs |-> {}] /\ lwFloor = [t \in Thrs |-> MAXV]
  /\ inLw = {} /\ ticks = 0 /\ reclaimed = {} /\ dropped = FALSE
  /\ bad = ""
  /\ TLCSet(1, 1)

\* the first violated clause is kept; the class ReleasedWhileLockedHoldsBack yields to any other clause
Flag(b, name) == IF b /\ (bad = "" \/ (bad = "ReleasedWhileLockedHoldsBack" /\ name # bad)) THEN name ELSE bad
KeyOf(e) == IF e.h = 0 THEN 10 + e.t ELSE e.h
MinOf(a, b) == IF a <= b THEN a ELSE b
PossiblyOpen == {k \in Keys : depth[k] >= 1 \/ busy[k]}
SetMin(S) == IF S = {} THEN MAXV ELSE CHOOSE x \in S : \A y \in S : x <= y

Same(vs) == UNCHANGED vs /\ UNCHANGED dropped

MCall(e) ==
  LET k == KeyOf(e) IN
  CASE e.op = "lock" ->
         /\ busy' = [busy EXCEPT ![k] = (depth[k] = 0)]
         /\ lower' = [lower EXCEPT ![k] = IF depth[k] = 0 THEN ticks ELSE @]
         \* a region that begins to enter while a scan runs may already be seen by it
         /\ lwFloor' = [t \in Thrs |-> IF t \in inLw /\ depth[k] = 0 THEN MinOf(lwFloor[t], ticks) ELSE lwFloor[t]]
         /\ bad' = bad
         /\ Same(<<depth, nested, unl, bound, tickSnap, lwSnap, inLw, ticks, reclaimed>>)
    [] e.op = "unlock" ->
         /\ depth' = [depth EXCEPT ![k] = IF @ > 0 THEN @ - 1 ELSE 0]
         /\ busy' = [busy EXCEPT ![k] = (depth[k] = 1)]
         /\ nested' = [nested EXCEPT ![k] = (depth[k] >= 2)]
         /\ unl' = IF depth[k] <= 1 THEN unl \ {k} ELSE unl
         /\ bound' = [bound EXCEPT ![k] = IF depth[k] <= 1 THEN MAXV ELSE @]
         /\ bad' = Flag(depth[k] = 0, "Protocol")
         /\ Same(<<lower, tickSnap, lwSnap, lwFloor, inLw, ticks, reclaimed>>)
    [] e.op = "tick" ->
         /\ tickSnap' = [tickSnap EXCEPT ![e.t] = unl]
         /\ bad' = bad
         /\ Same(<<depth, busy, lower, nested, unl, bound, lwSnap, lwFloor, inLw, ticks, reclaimed>>)
    [] e.op = "lwm" ->
         /\ lwSnap' = [lwSnap EXCEPT ![e.t] = {<<x, bound[x]>> : x \in {y \in Keys : depth[y] >= 1 /\ bound[y] < MAXV}}]
         /\ lwFloor' = [lwFloor EXCEPT ![e.t] = SetMin({lower[x] : x \in PossiblyOpen})]
         /\ inLw' = inLw \cup {e.t}
         /\ bad' = bad
         /\ Same(<<depth, busy, lower, nested, unl, bound, tickSnap, ticks, reclaimed>>)
    [] e.op = "release" ->
         \* a region that is still open ends with the release of its accessor
         /\ depth' = [depth EXCEPT ![k] = 0]
         /\ busy' = [busy EXCEPT ![k] = TRUE]
         /\ nested' = [nested EXCEPT ![k] = FALSE]
         /\ unl' = unl \ {k}
         /\ bound' = [bound EXCEPT ![k] = MAXV]
         /\ dropped' = (dropped \/ depth[k] >= 1)
         /\ bad' = bad
         /\ UNCHANGED <<lower, tickSnap, lwSnap, lwFloor, inLw, ticks, reclaimed>>
    [] OTHER -> bad' = bad /\ Same(<<depth, busy, lower, nested, unl, bound, tickSnap, lwSnap, lwFloor, inLw, ticks, reclaimed>>)

MRet(e) ==
  LET k == KeyOf(e) IN
  CASE e.op = "lock" ->
         /\ depth' = [depth EXCEPT ![k] = @ + 1]
         /\ busy' = [busy EXCEPT ![k] = FALSE]
         /\ bad' = bad
         /\ Same(<<lower, nested, unl, bound, tickSnap, lwSnap, lwFloor, inLw, ticks, reclaimed>>)
    [] e.op = "unlock" ->
         /\ busy' = [busy EXCEPT ![k] = FALSE]
         /\ lower' = [lower EXCEPT ![k] = IF depth[k] = 0 THEN MAXV ELSE @]
         /\ bad' = bad
         /\ Same(<<depth, nested, unl, bound, tickSnap, lwSnap, lwFloor, inLw, ticks, reclaimed>>)
    [] e.op = "tick" ->
         \* regions open at an unlink that preceded the call of this tick must keep the mark below its value
         /\ bound' = [x \in Keys |-> IF x \in tickSnap[e.t] /\ x \in unl THEN MinOf(bound[x], e.res) ELSE bound[x]]
         /\ ticks' = ticks + 1
         /\ bad' = bad
         /\ Same(<<depth, busy, lower, nested, unl, tickSnap, lwSnap, lwFloor, inLw, reclaimed>>)
    [] e.op = "lwm" ->
         LET held == {p \in lwSnap[e.t] : depth[p[1]] >= 1 /\ bound[p[1]] = p[2] /\ p[2] <= e.res}
         IN /\ bad' = IF held # {} THEN Flag(TRUE, IF \A p \in held : nested[p[1]] THEN "NestingCounts" ELSE "MarkHeldBack")
                      ELSE Flag(e.res < lwFloor[e.t], IF dropped THEN "ReleasedWhileLockedHoldsBack" ELSE "ReleasedAccessorNeverHoldsBack")
            /\ inLw' = inLw \ {e.t}
            /\ Same(<<depth, busy, lower, nested, unl, bound, tickSnap, lwSnap, lwFloor, ticks, reclaimed>>)
    [] e.op = "release" ->
         /\ busy' = [busy EXCEPT ![k] = FALSE]
         /\ lower' = [lower EXCEPT ![k] = MAXV]
         /\ bad' = bad
         /\ Same(<<depth, nested, unl, bound, tickSnap, lwSnap, lwFloor, inLw, ticks, reclaimed>>)
    [] OTHER -> bad' = bad /\ Same(<<depth, busy, lower, nested, unl, bound, tickSnap, lwSnap, lwFloor, inLw, ticks, reclaimed>>)

MUnlink(e) ==
  /\ unl' = unl \cup {k \in Keys : depth[k] >= 1}
  /\ bad' = bad
  /\ Same(<<depth, busy, lower, nested, bound, tickSnap, lwSnap, lwFloor, inLw, ticks, reclaimed>>)

MDeref(e) ==
  /\ bad' = Flag(e.obj \in reclaimed \/ e.freed, "NoPrematureReclaim")
  /\ Same(<<depth, busy, lower, nested, unl, bound, tickSnap, lwSnap, lwFloor, inLw, ticks, reclaimed>>)

MReclaim(e) ==
  /\ reclaimed' = reclaimed \cup {e.objs[j] : j \in 1..Len(e.objs)}
  /\ bad' = bad
  /\ Same(<<depth, busy, lower, nested, unl, bound, tickSnap, lwSnap, lwFloor, inLw, ticks>>)

\* quiescent: every thread is through its program (all regions closed by the programs' construction)
MFinal(e) ==
  /\ bad' = Flag((\A k \in Keys : depth[k] = 0) /\ e.res # MAXV, IF dropped THEN "ReleasedWhileLockedHoldsBack" ELSE "ReleasedAccessorNeverHoldsBack")
  /\ Same(<<depth, busy, lower, nested, unl, bound, tickSnap, lwSnap, lwFloor, inLw, ticks, reclaimed>>)

MEnd(e) ==
  /\ bad' = IF e.status \in {"crash", "hang"} THEN Flag(TRUE, "NoCrash") ELSE bad
  /\ Same(<<depth, busy, lower, nested, unl, bound, tickSnap, lwSnap, lwFloor, inLw, ticks, reclaimed>>)

MNext ==
  /\ l <= Len(Tr)
  /\ LET e == Tr[l]
     IN CASE e.k = "reset" -> Fresh /\ bad' = bad
          [] e.k = "call" -> MCall(e)
          [] e.k = "ret" -> MRet(e)
          [] e.k = "unlink" -> MUnlink(e)
          [] e.k = "deref" -> MDeref(e)
          [] e.k = "reclaim" -> MReclaim(e)
          [] e.k = "final" -> MFinal(e)
          [] e.k = "end" -> MEnd(e)
  /\ l' = l + 1
  /\ TLCSet(1, l')

MSpec == MInit /\ [][MNext]_mvars

Holds == bad = ""
\* the witness class "an accessor released while locked keeps holding the mark back" is reported separately
HoldsOther == bad \in {"", "ReleasedWhileLockedHoldsBack"}
Post == PrintT(<<"VERIF", TLCGet(1) - 1, Len(Tr), {}>>)
=============================================================================
