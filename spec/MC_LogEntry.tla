---------------------------- MODULE MC_LogEntry ----------------------------
(* Model-checking instance of LogEntry: one entry per behaviour, every size *)
(* 0..NMax(P) reached through every chunking (MaxChunk = 0) or through all  *)
(* chunks <= MaxChunk plus jumps to the neighbourhood of every boundary.    *)
EXTENDS LogEntry

MCNext == (st = "idle" /\ Begin) \/ (\E k \in Chunks \cup Jumps : Write(k)) \/ End \/ Release
MCSpec == Init /\ [][MCNext]_vars

\* behaviours for the spec -> code direction (tlc -simulate): chunk sequences ending with end / release
SimNext == MCNext
SimSpec == Init /\ [][SimNext]_vars
=============================================================================
