"""anyflow (C05): graph family generator, compact descriptions <-> TLA+ / JSON, trace normalisation.

compact description (driver params, see harness/drivers/flow_driver.cc):
  g   vertices '_'-separated, each "v" + deps '.'-separated; dep = <t>[c<c>|u<c>][e]
  nd  number of data;  x executor (0 inplace, 1|2 pool workers)
  cy  cycles '_'-separated: t<targets>-p<preset>-j<inject|0>-k<kinds>-f<failing>
"""
import itertools
import os
import random
import re

# ----------------------------------------------------------------------------- descriptions


def parse_g(g):
    g = str(g)
    deps = []
    for vs in g.split("_"):
        dl = []
        for ds in vs[1:].split("."):
            if not ds:
                continue
            m = re.match(r"(\d)(?:([cu])(\d))?(e)?$", ds)
            dl.append({"t": int(m.group(1)), "c": int(m.group(3) or 0), "ev": m.group(2) == "c", "ess": bool(m.group(4))})
        deps.append(dl)
    return deps


def fmt_g(deps):
    out = []
    for dl in deps:
        out.append("v" + ".".join("%d%s%s" % (d["t"], ("%s%d" % ("c" if d["ev"] else "u", d["c"])) if d["c"] else "", "e" if d["ess"] else "") for d in dl))
    return "_".join(out)


def parse_cy(cy, nd):
    cycles = []
    for cs in str(cy).split("_"):
        c = {"tg": [], "ps": [], "ij": 0, "kd": [], "fl": []}
        for f in cs.split("-"):
            if not f:
                continue
            r = f[1:]
            if f[0] == "t":
                c["tg"] = [int(x) for x in r if x != "0"]
            elif f[0] == "p":
                c["ps"] = [int(x) for x in r if x != "0"]
            elif f[0] == "j":
                c["ij"] = int(r[0]) if r else 0
            elif f[0] == "k":
                c["kd"] = [x.upper() for x in r]
            elif f[0] == "f":
                c["fl"] = [int(x) for x in r if x != "0"]
        while len(c["kd"]) < nd:
            c["kd"].append("T")
        cycles.append(c)
    return cycles


def fmt_cy(cycles):
    return "_".join("t%s-p%s-j%d-k%s-f%s" % ("".join(map(str, c["tg"])), "".join(map(str, c["ps"])), c["ij"], "".join(c["kd"]).lower(), "".join(map(str, c["fl"]))) for c in cycles)


def config_of_params(p):
    nd = int(p["nd"])
    return {"g": {"nd": nd, "deps": parse_g(p["g"])}, "x": int(p.get("x", 0)), "cycles": parse_cy(p["cy"], nd)}


def params_of(cfg):
    return "g=%s,nd=%d,x=%d,cy=%s" % (fmt_g(cfg["g"]["deps"]), cfg["g"]["nd"], cfg["x"], fmt_cy(cfg["cycles"]))


# ----------------------------------------------------------------------------- TLA+ literals
def tla_bool(b):
    return "TRUE" if b else "FALSE"


def tla_seq(xs):
    return "<<" + ", ".join(xs) + ">>"


def tla_dep(d):
    return "[t |-> %d, c |-> %d, ev |-> %s, ess |-> %s]" % (d["t"], d["c"], tla_bool(d["ev"]), tla_bool(d["ess"]))


def tla_graph(g):
    return "[nd |-> %d, deps |-> %s]" % (g["nd"], tla_seq(tla_seq(tla_dep(d) for d in dl) for dl in g["deps"]))


def tla_cycle(c):
    return "[tg |-> %s, ps |-> %s, ij |-> %d, kd |-> %s, fl |-> %s]" % (
        tla_seq(map(str, c["tg"])), tla_seq(map(str, c["ps"])), c["ij"], tla_seq('"%s"' % k for k in c["kd"]), tla_seq(map(str, c["fl"])))


def tla_config(cfg):
    return "[g |-> %s, x |-> %d, cycles |-> %s]" % (tla_graph(cfg["g"]), cfg["x"], tla_seq(tla_cycle(c) for c in cfg["cycles"]))


# ----------------------------------------------------------------------------- graph family
def _canon(deps, nv):
    """canonical form under renaming of vertices (topological orders), of inputs (order of first use) and
    of the order of the dependencies of a vertex"""
    best = None
    for perm in itertools.permutations(range(1, nv + 1)):
        vmap = {i + 1: perm[i] for i in range(nv)}
        ok = True
        for v in range(1, nv + 1):
            for d in deps[v - 1]:
                for x in (d[0], d[1]):
                    if 1 <= x <= nv and vmap[x] >= vmap[v]:
                        ok = False
        if not ok:
            continue
        inv = {vmap[v]: v for v in vmap}
        # try both orders of the dependencies when numbering the inputs: take the smaller key
        cands = [None]
        imap = {}

        def ren(x):
            if x == 0:
                return 0
            if x <= nv:
                return vmap[x]
            if x not in imap:
                imap[x] = nv + 1 + len(imap)
            return imap[x]
        new = []
        for nvid in range(1, nv + 1):
            dl = sorted(deps[inv[nvid] - 1], key=lambda d: (d[0] > nv, d[0] if d[0] <= nv else 0, d[1] > nv, d[1] if d[1] <= nv else 0))
            new.append(tuple(sorted((ren(d[0]), ren(d[1])) for d in dl)))
        key = tuple(new)
        if best is None or key < best:
            best = key
    return best


def shapes(max_v=3, max_d=5, max_deps=2):
    """wiring shapes of the family up to isomorphism: <= max_v vertices, <= max_d data, <= max_deps dependencies per
    vertex, each dependency with an optional condition data; single producer (vertex v emits data v); every input is
    referenced.  The decorations (on / unless, essential) are applied by `decorate`."""
    seen = set()
    out = []

    def rec(nv, v, deps, nin):
        if v > nv:
            key = _canon(deps, nv)
            if key in seen:
                return
            seen.add(key)
            out.append({"nd": nv + nin, "deps": [[dict(t=t, c=c, ev=True, ess=False) for (t, c) in dl] for dl in key]})
            return
        for k in range(0, max_deps + 1):
            def add(i, cur, n0):
                if i == k:
                    rec(nv, v + 1, deps + [cur], n0)
                    return
                fresh = nv + n0 + 1
                for t in list(range(1, v)) + list(range(nv + 1, nv + n0 + 1)) + ([fresh] if fresh <= max_d else []):
                    n1 = n0 + (1 if t == fresh else 0)
                    fresh2 = nv + n1 + 1
                    for c in [0] + list(range(1, v)) + list(range(nv + 1, nv + n1 + 1)) + ([fresh2] if fresh2 <= max_d else []):
                        if c == t:
                            continue
                        add(i + 1, cur + [(t, c)], n1 + (1 if c == fresh2 else 0))
            add(0, [], nin)

    for nv in range(1, max_v + 1):
        rec(nv, 1, [], 0)
    return out


def decorate(g, rng):
    """a member of the family with the wiring of g: each condition on / unless, each dependency optionally essential,
    dependencies of a vertex in random order"""
    deps = []
    for dl in g["deps"]:
        nl = [dict(d, ev=rng.random() < 0.5, ess=rng.random() < 0.3) for d in dl]
        rng.shuffle(nl)
        deps.append(nl)
    return {"nd": g["nd"], "deps": deps}


def random_graph(rng, max_v=3, max_d=5, max_deps=2):
    """a random member of the family (same constraints as `shapes`), generated directly"""
    while True:
        nv = rng.choice([1, 2, 2, 3, 3, 3])
        nin = 0
        deps = []
        for v in range(1, nv + 1):
            dl = []
            for _ in range(rng.choice([0, 1, 1, 2, 2]) if v > 1 else rng.choice([0, 1, 1, 2])):
                def pick(exclude):
                    nonlocal nin
                    pool = [x for x in list(range(1, v)) + list(range(nv + 1, nv + nin + 1)) if x != exclude]
                    if nv + nin + 1 <= max_d and (not pool or rng.random() < 0.35):
                        nin += 1
                        return nv + nin
                    return rng.choice(pool) if pool else 0
                t = pick(0)
                if t == 0:
                    continue
                c = pick(t) if rng.random() < 0.45 else 0
                dl.append({"t": t, "c": c, "ev": rng.random() < 0.5, "ess": rng.random() < 0.3})
            deps.append(dl)
        g = {"nd": nv + nin, "deps": deps}
        try:
            return check_graph(g)
        except AssertionError:
            continue


def check_graph(g, allow_unused=False):
    """numbering convention of the family: vertex k emits data k, dependencies refer to inputs or to data of smaller vertices"""
    nv = len(g["deps"])
    used = set()
    for v, dl in enumerate(g["deps"], 1):
        for d in dl:
            for x in (d["t"], d["c"]):
                if x:
                    assert (x < v or nv < x <= g["nd"]), ("bad reference", v, x)
                    used.add(x)
            assert d["t"] != d["c"]
    assert allow_unused or all(i in used for i in range(nv + 1, g["nd"] + 1)), "unused input"
    return g


def inputs_of(g):
    nv = len(g["deps"])
    return list(range(nv + 1, g["nd"] + 1))


def sinks_of(g):
    nv = len(g["deps"])
    used = {x for dl in g["deps"] for d in dl for x in (d["t"], d["c"]) if x}
    return [v for v in range(1, nv + 1) if v not in used]


def cond_data(g):
    return sorted({d["c"] for dl in g["deps"] for d in dl if d["c"]})


def run_configs(g, rng, n, inject=True):
    """n run configurations (targets, preset, inject, kinds) for graph g, varied but relevant:
    conditions get both truth values, essential targets are sometimes empty, an input or a produced data is injected"""
    nv = len(g["deps"])
    nd = g["nd"]
    ins = inputs_of(g)
    sinks = sinks_of(g) or [nv]
    out = []
    for _ in range(n):
        tg = sorted(set(rng.sample(sinks, 1) + ([rng.randint(1, nv)] if rng.random() < 0.35 else [])))
        kd = []
        for d in range(1, nd + 1):
            r = rng.random()
            kd.append("T" if r < 0.5 else ("F" if r < 0.85 else "E"))
        ij = 0
        ps = list(ins)
        if inject and ins and rng.random() < 0.5:
            # the injected data is a pure input (no producer vertex: multiple producers are outside the property):
            # another thread publishes it concurrently with Graph::run instead of before it
            ij = rng.choice(ins)
            ps.remove(ij)
        if rng.random() < 0.15 and nv > 1:
            extra = rng.randint(1, nv)
            if extra != ij and extra not in tg:
                ps.append(extra)      # a produced data published before the run: its producer is not needed
        if rng.random() < 0.08 and ps:
            ps.remove(rng.choice(ps))  # a missing input: the run has to report an error if it is demanded
        out.append({"tg": tg, "ps": sorted(ps), "ij": ij, "kd": kd, "fl": []})
    return out


# hand-picked graphs every run exercises: chains, fan-in / fan-out, conditions on / unless with both outcomes,
# essential dependencies on empty / unestablished targets, condition = data with its own producer, shared targets
FIXED = [
    # g, nd   (vertex k emits data k; inputs are numbered from <number of vertices> + 1)
    ("v2", 2),
    ("v2.3", 3),
    ("v3_v1", 3),
    ("v4_v1_v2", 4),
    ("v4_v4_v1.2", 4),
    ("v4_v1_v1.2", 4),
    ("v2c3", 3),
    ("v2u3", 3),
    ("v2c3e", 3),
    ("v3_v4c1", 4),
    ("v3_v4u1e", 4),
    ("v4_v5_v1c2", 5),
    ("v4_v5_v2u1e", 5),
    ("v4_v5_v1c2.2u1", 5),
    ("v4_v1e_v2e", 4),
    ("v4_v1c5_v2e.1", 5),
    ("v3c4.4_v1", 4),
    ("v4_v1c4_v2.1", 4),
    ("v4_v4_v1c2e.2u1", 4),
    ("v2.3c2", 3),
    ("v4_v4_v1u2", 4),
    ("v4_v4u1_v2c1e", 4),
    ("v4_v5_v2c1", 5),
    ("v4_v5_v2u1", 5),
    ("v3_v4", 4),
]


def fixed_configs(rng, per_graph=3, cycles=1, execs=(0, 1, 2)):
    out = []
    for gs, nd in FIXED:
        g = check_graph({"nd": nd, "deps": parse_g(gs)})
        for _ in range(per_graph):
            rcs = run_configs(g, rng, cycles)
            out.append({"g": g, "x": rng.choice(execs), "cycles": rcs})
    return out


def sample_configs(rng, n, cycles=(1, 2), execs=(0, 1, 2), wiring=None):
    """n configurations of random members of the family (or decorated members of the given wiring shapes)"""
    out = []
    for _ in range(n):
        g = decorate(rng.choice(wiring), rng) if wiring else random_graph(rng)
        out.append({"g": g, "x": rng.choice(execs), "cycles": run_configs(g, rng, rng.choice(cycles))})
    return out


def write_family_module(path, name, families):
    """families: {operator name: [config]} -> TLA+ module"""
    lines = ["%s MODULE %s %s" % ("-" * 30, name, "-" * 30), "(* generated by checks/flow_common.py -- graph family of property C05 *)"]
    for fam, cfgs in families.items():
        lines.append("%s == {" % fam)
        lines.append(",\n".join("  " + tla_config(c) for c in cfgs))
        lines.append("}")
    lines.append("=" * 77)
    os.makedirs(os.path.dirname(path), exist_ok=True)
    open(path, "w").write("\n".join(lines) + "\n")


# ----------------------------------------------------------------------------- traces
MON_DEF = {"t": 0, "k": "", "v": 0, "d": 0, "src": "", "by": 0, "valid": False, "term": "", "ins": [], "dr": [], "de": [], "cr": [], "tr": [],
           "code": 0, "rd": [], "vals": [], "cyc": 0, "status": "", "x": 0, "g": {"nd": 0, "deps": []}, "cycles": []}
MON_KINDS = {"run", "vbegin", "vend", "vsub", "vdone", "emit", "fin", "waitret", "obs", "greset"}


def monitor_lines(events):
    """vsched trace of one execution -> lines for Flow_Mon.tla (L1 observables only)"""
    out = []
    for e in events:
        k = e.get("k")
        if k == "reset":
            cfg = config_of_params(e["params"])
            out.append(dict(MON_DEF, k="reset", g=cfg["g"], x=cfg["x"], cycles=cfg["cycles"]))
        elif k in MON_KINDS:
            n = dict(MON_DEF)
            for f in MON_DEF:
                if f in e and f not in ("g", "cycles"):
                    n[f] = e[f]
            n["t"] = max(0, e.get("t", 0))
            out.append(n)
        elif k == "end":
            out.append(dict(MON_DEF, k="end", status=e.get("status", "?")))
    return out


def hb_lines(events):
    """vsched trace -> lines for the generic HBMon.tla: every atomic operation of the library (dependency / vertex /
    data / closure words, the promises behind get() / wait()) and of the driver's hand-over (gate) with its real
    order, thread create / join, and the payload accesses of the data values (processor / injector write,
    dependents and the caller read).  Unnamed locations (logger, allocator) carry no edge the clauses rely on."""
    out = []
    D = {"t": 0, "k": "", "loc": "", "i": 0, "mo": "", "mof": "", "ok": True}
    for e in events:
        k = e.get("k")
        t = max(0, e.get("t", 0))
        if k == "reset":
            out.append(dict(D, k="reset"))
        elif k in ("load", "store", "xchg", "faa", "fand", "for", "fxor", "cas"):
            loc = e.get("loc", "?")
            if loc in ("?", "intern"):
                continue
            loc += ":%d" % e["off"] if "off" in e else ""
            if k == "cas":
                out.append(dict(D, t=t, k=k, loc=loc, i=e.get("i", 0), mo=e["mo"], mof=e.get("mof", e["mo"]), ok=e["ok"]))
            else:
                out.append(dict(D, t=t, k=k, loc=loc, i=e.get("i", 0), mo=e["mo"]))
        elif k == "fence":
            out.append(dict(D, t=t, k=k, mo=e["mo"]))
        elif k in ("spawn", "join"):
            out.append(dict(D, t=t, k=k, i=e["child"]))
        elif k == "acc":
            out.append(dict(D, t=t, k="acc", loc=e["loc"], i=e["i"], ok=bool(e["w"])))
    return out


# ----------------------------------------------------------------------------- L2 trace (Flow_Trace.tla)
L2_DEF = {"t": 0, "k": "", "loc": "", "i": 0, "j": 0, "v": 0, "a": 0, "b": 0, "ok": True, "mo": "", "x": 0, "g": {"nd": 0, "deps": []}, "cycles": []}
L2_LOCS = {"wdn", "wvn", "cb", "dclo", "dacq", "dds", "dwn", "vact", "vwn"}
INTERNED_BASE = 2000000000


def normalise(events):
    """vsched trace of one execution -> lines for Flow_Trace.tla: the atomic operations on the words of the
    dependency / vertex / data / closure protocol plus the driver's schedule points.  Dropped: driver-level
    synchronisation (gate, promise futexes), the driver's own ready() observations (between dobs_b / dobs_e),
    the relaxed stores of Graph::reset (the model resets in one step at the greset event)."""
    out = []
    interned = {}      # recorder code -> negative counter value (fixed by the driver's "intern" stores: -2, -3, ...)
    nxt = -2
    obs = set()        # threads inside a driver observation
    resetting = False  # thread 0 between waitret and greset
    diag = set()       # threads inside ClosureContext::log_unfinished_data (diagnostic ready() loads after the vertex
    #                    count reached 0 without a result: between the callback CAS and notify_flush)
    last_faa = {}

    def val(loc, x):
        if x >= INTERNED_BASE:
            if x in interned:
                return interned[x]
            return 1 if loc in ("dclo", "cb") else x   # a pointer: the bound closure / a callback
        return x

    for e in events:
        k = e.get("k")
        if k == "reset":
            cfg = config_of_params(e["params"])
            out.append(dict(L2_DEF, k="reset", g=cfg["g"], x=cfg["x"], cycles=cfg["cycles"]))
            continue
        if k == "end":
            out.append(dict(L2_DEF, k="end"))
            continue
        t = e.get("t", -1)
        if t < 0:
            continue
        if k == "dobs_b":
            obs.add(t)
            continue
        if k == "dobs_e":
            obs.discard(t)
            continue
        if k in ("load", "store", "faa", "xchg", "cas"):
            name = e.get("loc", "?")
            if name == "intern" and k == "store":
                interned[e["v"]] = nxt
                nxt -= 1
                continue
            parts = name.split(".")
            if parts[0] == "pflu":
                diag.discard(t)
            if parts[0] not in L2_LOCS or "off" in e:
                continue
            if t in obs or (t == 0 and resetting):
                continue
            loc = parts[0]
            if k == "faa":
                last_faa[t] = (loc, e["v"], e["a"])
            if k == "cas" and loc == "cb" and e["ok"] and last_faa.get(t) == ("wvn", 1, -1):
                diag.add(t)
            elif t in diag and k == "load" and loc == "dclo":
                continue
            n = dict(L2_DEF, t=t, k=k, loc=loc, i=int(parts[1]) if len(parts) > 1 else 0, j=int(parts[2]) if len(parts) > 2 else 0, mo=e.get("mo", ""))
            n["v"] = val(loc, e["v"])
            if k in ("faa", "xchg"):
                n["a"] = val(loc, e["a"])
            elif k == "cas":
                n["a"], n["b"], n["ok"] = val(loc, e["a"]), val(loc, e["b"]), e["ok"]
            out.append(n)
        elif k == "run":
            out.append(dict(L2_DEF, t=t, k=k, v=e["cyc"]))
        elif k in ("vbegin", "vend"):
            out.append(dict(L2_DEF, t=t, k=k, v=e["v"]))
        elif k == "fin":
            out.append(dict(L2_DEF, t=t, k=k, a=e["code"]))
        elif k == "pt":
            if t not in obs:
                out.append(dict(L2_DEF, t=t, k=k))
        elif k == "waitret":
            resetting = True
            out.append(dict(L2_DEF, t=t, k=k))
        elif k == "greset":
            resetting = False
            out.append(dict(L2_DEF, t=t, k=k))
    return out


# ----------------------------------------------------------------------------- committed family module
def no_inject(cfg):
    """the same configuration without the external injector (an injected input is published before the run)"""
    nv = len(cfg["g"]["deps"])
    for cy in cfg["cycles"]:
        if cy["ij"] > nv and cy["ij"] not in cy["ps"]:
            cy["ps"] = sorted(cy["ps"] + [cy["ij"]])
        cy["ij"] = 0
    return cfg


def committed_families():
    rng = random.Random(20260922)
    quick, deep, inj = [], [], []
    for k, (gs, nd) in enumerate(FIXED):
        g = check_graph({"nd": nd, "deps": parse_g(gs)})
        quick.append(no_inject({"g": g, "x": (0, 1, 2)[k % 3], "cycles": run_configs(g, rng, 2 if k % 4 == 0 else 1)}))
        for _ in range(3):
            deep.append(no_inject({"g": g, "x": rng.choice((1, 2, 2)), "cycles": run_configs(g, rng, 2)}))
    for gs, nd, cy in (("v2", 2, "t1-p-j2-ktt-f"), ("v3_v1", 3, "t2-p-j3-kttt-f_t2-p3-j0-kttt-f"), ("v4_v5_v1c2.2u1", 5, "t3-p4-j5-kfttft-f"),
                       ("v4_v4_v1c2e.2u1", 4, "t3-p-j4-ktftt-f"), ("v3_v4u1e", 4, "t2-p3-j4-kfttt-f"), ("v4_v5_v2u1e", 5, "t13-p5-j4-kfttft-f")):
        inj.append({"g": check_graph({"nd": nd, "deps": parse_g(gs)}), "x": 1, "cycles": parse_cy(cy, nd)})
    live = [{"g": check_graph({"nd": nd, "deps": parse_g(gs)}), "x": x, "cycles": parse_cy(cy, nd)}
            for gs, nd, x, cy in (("v2", 2, 0, "t1-p2-j0-ktt-f_t1-p2-j0-ktt-f"), ("v3_v1", 3, 1, "t2-p3-j0-kttt-f"), ("v2c3", 3, 1, "t1-p23-j0-kttf-f"),
                                  ("v3_v4u1e", 4, 2, "t2-p34-j0-kfttt-f"), ("v4_v4_v1.2", 4, 2, "t3-p4-j0-ktttt-f"))]
    # one conditional dependency whose condition and target are published by different threads (two pool workers /
    # a worker and the injector), both target orders; two targets one of which is an input published during run()
    for gs, nd, x, cy in (("v4_v5_v2c1", 5, 2, "t23-p45-j0-kttttt-f"), ("v4_v5_v2c1", 5, 2, "t32-p45-j0-kfttft-f"), ("v4_v5_v2u1", 5, 2, "t23-p45-j0-kfttff-f")):
        quick.append({"g": check_graph({"nd": nd, "deps": parse_g(gs)}), "x": x, "cycles": parse_cy(cy, nd)})
    for gs, nd, x, cy in (("v3_v4c1", 4, 1, "t2-p3-j4-ktttt-f"), ("v3_v4u1", 4, 1, "t2-p3-j4-kfttt-f"), ("v3_v4", 4, 1, "t41-p3-j4-ktttt-f"), ("v3_v4", 4, 0, "t14-p3-j4-ktttt-f")):
        inj.append({"g": check_graph({"nd": nd, "deps": parse_g(gs)}), "x": x, "cycles": parse_cy(cy, nd)})
    # smallest witness of finding C05_concurrent_input_emit_not_counted: I -> V -> T, the input published by another thread
    finding = [{"g": check_graph({"nd": 2, "deps": parse_g("v2")}), "x": 1, "cycles": parse_cy("t1-p-j2-ktt-f", 2)}]
    return {"Fam_quick": quick, "Fam_inj": inj, "Fam_finding": finding, "Fam_live": live, "Fam_deep": deep}


if __name__ == "__main__":
    here = os.path.dirname(os.path.abspath(__file__))
    write_family_module(os.path.join(os.path.dirname(here), "spec", "Flow_Graphs.tla"), "Flow_Graphs", committed_families())
    print("spec/Flow_Graphs.tla written")
