"""babylon::Any (X02): TLC state graph -> operation scripts, driver invocation, trace normalisation and validation.
Nothing here judges an observation: TLC (spec/AnyBox.tla through MC_AnyBox / AnyBox_Trace) is the oracle."""
import json
import os
import re
import sys

sys.path.insert(0, os.path.join(os.path.dirname(os.path.abspath(__file__)), "..", "tools"))
import vlib

SPEC = vlib.SPEC
MC_TLA = os.path.join(SPEC, "MC_AnyBox.tla")
TRACE_TLA = os.path.join(SPEC, "AnyBox_Trace.tla")

# model family -> (NVars, external objects, trace cfg)
FAMILIES = {
    "none1": (1, []), "p2": (2, ["P"]), "pq2": (2, ["P", "Q"]), "pq3": (3, ["P", "Q"]), "ps3": (3, ["P", "S"]), "pqs3": (3, ["P", "Q", "S"]),
}
# API variants per operation (the model does not distinguish them: same action)
NHOW = {"val": 3, "ptr": 4, "ref": 3, "refany": 2, "copy": 4, "move": 2, "clear": 2, "rel": 1, "relany": 1, "poke": 1, "pokex": 1}

DEF = {"k": "", "id": "", "op": "none", "a": 0, "b": 0, "ty": "-", "c": "-", "o": [], "lv": [0, 0, 0], "xs": [], "nc": 0, "nd": 0, "rl": 0, "rv": 0,
       "er": 0, "status": "ok"}


def trace_cfg(fam):
    return os.path.join(SPEC, "mc", "AnyBox_Trace_%s.cfg" % fam)


# ----------------------------------------------------------------------------- TLC state graph
def _split_top(s):
    """split the inside of << ... >> at top-level commas"""
    out, depth, cur, instr = [], 0, [], False
    i = 0
    while i < len(s):
        ch = s[i]
        if instr:
            cur.append(ch)
            if ch == '"':
                instr = False
        elif ch == '"':
            instr = True
            cur.append(ch)
        elif s.startswith("<<", i):
            depth += 1
            cur.append("<<")
            i += 1
        elif s.startswith(">>", i):
            depth -= 1
            cur.append(">>")
            i += 1
        elif ch == "," and depth == 0:
            out.append("".join(cur).strip())
            cur = []
        else:
            cur.append(ch)
        i += 1
    if cur:
        out.append("".join(cur).strip())
    return out


def graph(cfg, timeout=1500, workers=4):
    """run MC_AnyBox with EmitT = TRUE; returns (TlcResult, init key, edges {(src, op tuple, dst)}); cached on spec + cfg"""
    cfgp = os.path.join(SPEC, "mc", cfg)
    key = vlib._hash_files(vlib.spec_closure(MC_TLA) + [cfgp], "graph")
    cdir = os.path.join(vlib.BUILD, "tlc_cache")
    os.makedirs(cdir, exist_ok=True)
    cp = os.path.join(cdir, "any_graph_%s.json" % key)
    if os.path.exists(cp):
        d = json.load(open(cp))
        r = vlib.TlcResult()
        r.__dict__.update(d["res"])
        r.cached = True
        return r, d["states"], [tuple(e) for e in d["edges"]]
    r = vlib.tlc(MC_TLA, cfgp, workers=workers, timeout=timeout)
    if not r.ok:
        raise vlib.Broken("TLC failed on %s (%s): %s" % (cfg, r.violation, r.error_trace[:3000]))
    ids = {}
    edges = set()
    for line in r.out.splitlines():
        if not line.startswith('"<<\\"T\\", '):
            continue
        line = line.strip()[1:-1].replace('\\"', '"')          # printed through ToString: one line per transition
        parts = _split_top(line.strip()[2:-2])
        if len(parts) != 4:
            raise vlib.Broken("unparsable transition line: %s" % line[:400])
        src = ids.setdefault(parts[1], len(ids))
        dst = ids.setdefault(parts[3], len(ids))
        op = tuple(x.strip().strip('"') for x in _split_top(parts[2].strip()[2:-2]))
        edges.add((src, op, dst))
    states = sorted(ids, key=ids.get)
    edges = sorted(edges)
    if not edges:
        raise vlib.Broken("no transitions emitted by %s" % cfg)
    d = {k: v for k, v in r.__dict__.items() if k not in ("cached", "out")}
    json.dump({"res": d, "states": states, "edges": edges}, open(cp, "w"))
    return r, states, edges


def init_state(states, edges):
    """the state without incoming edges from others that every path starts from: all variables empty (first emitted source)"""
    return 0


def cover_scripts(edges, want, rng, max_len=80):
    """operation sequences (from the initial state 0) that together execute every edge index in `want`.
    Greedy: shortest path (BFS tree) to the source of an uncovered edge, then keep walking over uncovered edges."""
    out_of = {}
    for i, (s, op, d) in enumerate(edges):
        out_of.setdefault(s, []).append(i)
    # BFS tree from 0
    parent = {0: None}
    order = [0]
    for s in order:
        for i in out_of.get(s, []):
            d = edges[i][2]
            if d not in parent:
                parent[d] = i
                order.append(d)

    def path_to(s):
        p = []
        while parent[s] is not None:
            i = parent[s]
            p.append(i)
            s = edges[i][0]
        return p[::-1]

    def nearest(s, todo):
        """shortest edge path from s to a state with an uncovered out-edge (BFS), or None"""
        par = {s: None}
        q = [s]
        for u in q:
            if u != s and any(i in todo for i in out_of.get(u, [])):
                p = []
                while par[u] is not None:
                    i = par[u]
                    p.append(i)
                    u = edges[i][0]
                return p[::-1]
            if len(q) > 400:
                return None
            for i in out_of.get(u, []):
                d = edges[i][2]
                if d not in par:
                    par[d] = i
                    q.append(d)
        return None

    want = set(want)
    todo = set(want)
    scripts = []
    pending = sorted(todo)
    rng.shuffle(pending)
    for i0 in pending:
        if i0 not in todo:
            continue
        seq = path_to(edges[i0][0]) + [i0]
        todo.difference_update(seq)
        s = edges[i0][2]
        while len(seq) < max_len:
            cand = [i for i in out_of.get(s, []) if i in todo]
            if not cand:
                hop = nearest(s, todo)
                if hop is None or len(seq) + len(hop) >= max_len:
                    break
                seq += hop
                todo.difference_update(hop)
                s = edges[hop[-1]][2]
                continue
            i = rng.choice(cand)
            seq.append(i)
            todo.discard(i)
            s = edges[i][2]
        scripts.append(seq)
    return scripts


def tokens(seq, edges, rng):
    """edge index sequence -> driver tokens (API variant chosen at random per operation)"""
    toks = []
    for i in seq:
        op, a, b, ty, c = edges[i][1]
        toks.append("%s,%s,%s,%s,%s,%d" % (op, a, b, ty, c, rng.randrange(NHOW[op])))
    return toks


# ----------------------------------------------------------------------------- driver / traces
def run_driver(scripts, tag, binary="any_driver"):
    """scripts: list of (id, family, [tokens]) -> (executions (lists of raw events), summary)"""
    d = os.path.join(vlib.BUILD, "traces")
    os.makedirs(d, exist_ok=True)
    sp = os.path.join(d, "any_%s_%d.scripts" % (tag, os.getpid()))
    tp = os.path.join(d, "any_%s_%d.ndjson" % (tag, os.getpid()))
    with open(sp, "w") as f:
        for sid, fam, toks in scripts:
            nv, ext = FAMILIES[fam]
            f.write("%s|%d|%s|%s\n" % (sid, nv, ",".join(ext), ";".join(toks)))
    summary = vlib.driver(binary, ["--scripts", sp, "--out", tp])
    execs = list(vlib.split_traces(tp))
    os.unlink(sp)
    os.unlink(tp)
    if len(execs) != len(scripts):
        raise vlib.Broken("driver produced %d executions for %d scripts" % (len(execs), len(scripts)))
    return execs, summary


def normalise(events):
    out = []
    for e in events:
        n = dict(DEF)
        n.update({f: e[f] for f in DEF if f in e})
        out.append(n)
    if not out or out[-1]["k"] != "end":
        out.append(dict(DEF, k="end", status="truncated"))
    return out


def check_traces(execs, fam, name, timeout=1800, chunk=4000):
    """Validate executions of one model family with TLC against AnyBox_Trace.tla.
    Returns (entries [(clause, exec id, line, fields)], expected {(id, line): text}, stats)."""
    entries = []
    expected = {}
    stats = {"states": 0, "wall": 0.0, "lines": 0, "runs": 0}
    d = os.path.join(vlib.BUILD, "traces")
    os.makedirs(d, exist_ok=True)
    for off in range(0, len(execs), chunk):
        part = execs[off:off + chunk]
        path = os.path.join(d, "%s.%d.%d.ndjson" % (name, os.getpid(), off))
        n = 0
        with open(path, "w") as f:
            for ex in part:
                for e in normalise(ex):
                    f.write(json.dumps(e, separators=(",", ":")) + "\n")
                    n += 1
        r = vlib.validate_trace(TRACE_TLA, trace_cfg(fam), path, timeout=timeout)
        os.unlink(path)
        stats["states"] += r.distinct
        stats["wall"] += r.wall
        stats["lines"] += n
        stats["runs"] += 1
        i = r.out.rfind('"VERIF"')
        m = re.match(r'"VERIF",\s*(\d+),\s*(\d+),', r.out[i:]) if i >= 0 else None
        if not r.ok or not m:
            raise vlib.Broken("trace validation of %s failed (%s): %s" % (name, r.violation, (r.error_trace or r.out)[-3000:]))
        explained, total = int(m.group(1)), int(m.group(2))
        if explained < total or total != n:
            k = 0
            where = None
            for ex in part:
                k += len(normalise(ex))
                if k > explained:
                    where = ex[0]
                    break
            raise vlib.Broken("trace %s not explained by AnyBox_Trace beyond line %d of %d (script generator and specification disagree): %s" % (name, explained, total, json.dumps(where)[:600]))
        tail = re.sub(r"\s*\n\s+", " ", r.out[i:])
        for t, eid, ln, fields in re.findall(r'<<\s*"bad_(\w+)",\s*"(\w+)",\s*(\d+),\s*\{([^}]*)\}\s*>>', tail):
            entries.append((t, eid, int(ln), [x.strip().strip('"') for x in fields.split(",") if x.strip()]))
        flat = re.sub(r"\s*\n\s+", " ", r.out)
        for eid, ln, rest in re.findall(r'<<"EXPECTED", "(\w+)", (\d+), (.*)', flat):
            expected[(eid, int(ln))] = rest[:2500]
    return entries, expected, stats
