"""C17: page allocators / object pool - resources conserved, never shared, never lost.
Pipeline:
   1. TLC model-checks the L2 specs Pages.tla (CachedPageAllocator on the compensating queue operations, spill,
      destructor drain, BatchPageAllocator, CountingPageAllocator) and Pool.tla (ObjectPool strict / auto-create
      mode) exhaustively on the bounded configuration families of MC_Pages / MC_Pool (+ liveness, thorough tier)
   2. the REAL allocators / pool are run under vsched (random / PCT / preemption-bounded schedules) on top of a
      recording upstream allocator (pages = tags) resp. with logging creator / recycler / destructor
   3. every recorded execution is judged by the L1 monitors Pages_Mon / Pool_Mon (the clauses of the property
      statement) and by the generic happens-before monitor HBMon (page / object payload handed over race-free);
      executions of the cached allocator are additionally validated step by step against the L2 spec
      (Pages_Trace: conformance of the model that was model-checked; a rejected trace is SPEC-DRIFT)
   a violation is reported only after the same schedule fails again on re-execution.
"""
import json
import os
import random
import re
import sys

sys.path.insert(0, os.path.dirname(os.path.abspath(__file__)))
import pages_common as pc
import vlib
from vlib import log

SPEC = vlib.SPEC
DRIVER = "pages_driver"
# a normal execution takes a few hundred schedule points; a spinning compensating loop under a strict-priority (PCT)
# schedule would otherwise burn the whole default budget
MAX_STEPS = "2500"
MAX_STEPS_PB = "1200"

# (stack, cap, batch, prog)
FIXED_PAGES = [
    ("c", 1, 2, "a2.d2_a1.d1"),
    ("c", 1, 2, "a.d.a.d_a.d.a.d"),
    ("c", 1, 2, "a1.a1.d2_a1.d1_a2.d1.d1"),
    ("c", 2, 2, "a2.d2.a2.d2_a1.d1.a2.d2"),
    ("c", 2, 2, "a3.d3_a3.d3_a1.d1"),
    ("c", 2, 2, "a2_a2/d2_d2/a1_a1.d1"),
    ("c", 2, 2, "a2.d1_a2.d1/d1_d1.a1/a3.e3"),
    ("c", 4, 2, "a4.d4_a3.d2.d1_a2.e2"),
    ("c", 4, 2, "a2.a2/d4.a3_a3.d3"),
    ("bc", 2, 2, "a1.a1.d2_a3.d3"),
    ("bc", 1, 3, "a2.d1_a1.d1/a1_d1.a2"),
    ("bc", 4, 2, "a.a.a.d3_a2.d/a_a"),
    ("b", 2, 2, "a3.d1_a1.d1/a1_a2"),
    ("b", 2, 1, "a2.d2_a.d"),
    ("b", 2, 3, "a1_a1_a1/d1_d1_d1"),
    ("kc", 2, 2, "a2.d1_a3.d3/a1_d1"),
    ("kc", 2, 2, "a2.d1.d1_a3.d3_a1.d1"),
    ("kbc", 2, 3, "a2.d2_a1.d1.a1/a1_d3"),
    ("kb", 2, 2, "a2.d_a.d1/a2"),
    ("k", 2, 2, "a2.d2_a.d_a3.d2"),
    ("h", 2, 2, "a2.d2_a3.d1.d2"),
    ("h", 1, 2, "a1.d1.a1_a2.d2/a1_d1"),
]
# (mode, cap, inject, rec, prog)
FIXED_POOL = [
    (0, 1, 1, 1, "p.r_p.r"),
    (0, 1, 1, 1, "p.r_p.r_p.r"),
    (0, 1, 1, 1, "p.r.p.r_p.u.p.r"),
    (0, 2, 2, 1, "p.p.r.r_p.r_p.r"),
    (0, 2, 1, 1, "p.r.p.r_p.u_p.r"),
    (0, 2, 2, 1, "t.r_p.r_t.t.r"),
    (0, 2, 2, 1, "p.r_p.r/p.p.r.r/p.u_p.u_p.u"),
    (0, 4, 3, 0, "p.p.r.r_p.r.p.r_p.u"),
    (1, 1, 0, 1, "p.r_p.r"),
    (1, 1, 0, 1, "p.p.r.r_p.r"),
    (1, 1, 0, 1, "p.p.p.r.r.r"),
    (1, 1, 0, 1, "p.p.p.r.r.r/p.p.r.r"),
    (1, 1, 0, 1, "p.p_p.p_p/r_r"),
    (1, 2, 0, 1, "p.p.p_p.p/r.p_r.u"),
    (1, 1, 1, 1, "p.u.p.u_p.p.r.r_p.r"),
    (1, 1, 2, 1, "p.r_p.r"),
    (1, 2, 0, 0, "p.r.p.r_p.p.r.r"),
    (1, 1, 0, 1, "t.p.r_t.p.u"),
]
PB_PAGES = [("c", 1, 2, "a1.d1_a1.d1"), ("c", 2, 2, "a2.d2_a2.d1"), ("bc", 1, 2, "a1.d1_a1")]
# auto-create pool, the queue (2 x capacity slots) completely full at push_n time: more than `capacity` threads return
# an object at once and all pass the `_capacity <= size()` pre-check before any push lands -> the compensating
# reverse callback of push_n evicts (destroys) an object.  The window is three schedule points wide, so these programs
# run under the random strategy with a high switch probability (param sw, carried in the params for re-execution).
# (mode, cap, inject, rec, prog, switch permille)
WINDOW_POOL = [(1, 1, 0, 1, "p_p_p", 850), (1, 1, 0, 1, "p_p_p_p", 500), (1, 1, 0, 1, "p_p_p_p", 850), (1, 1, 1, 1, "p.r_p_p_p", 700),
               (1, 2, 0, 1, "p_p_p_p_p_p", 850)]
PB_POOL = [(0, 1, 1, 1, "p.r_p.r"), (1, 1, 0, 1, "p.p.r.r_p.r")]


def gen_pages(rng):
    stack = rng.choice(["c", "c", "c", "bc", "b", "kc", "kbc", "h", "kb"])
    cap = rng.choice([1, 2, 2, 4])
    batch = rng.choice([1, 2, 3])
    nph = rng.choice([1, 1, 2, 3])
    nth = rng.choice([1, 2, 2, 3, 3])
    phases = []
    for _ in range(nph):
        ths = []
        for _ in range(nth):
            ops = []
            for _ in range(rng.choice([1, 2, 3])):
                k = rng.choice(["a", "a", "d", "d", "e"])
                n = rng.choice([0, 1, 1, 2, 2, 3, cap, cap + 1])
                ops.append(k + (str(n) if n else ""))
            ths.append(".".join(ops))
        phases.append("_".join(ths))
    return stack, cap, batch, "/".join(phases)


def gen_pool(rng):
    mode = rng.choice([0, 1])
    cap = rng.choice([1, 1, 2, 4])
    nth = rng.choice([1, 2, 2, 3, 3])
    nph = rng.choice([1, 1, 2])
    maxhold = rng.choice([1, 1, 2, 3])
    phases = []
    worst = 1
    for _ in range(nph):
        ths = []
        need = 1
        for _ in range(nth):
            ops, cur, mx = [], 0, 0
            for _ in range(rng.choice([2, 3, 4, 5, 6])):
                if cur < maxhold and (cur == 0 or rng.random() < 0.5):
                    ops.append(rng.choice(["p", "p", "p", "t"]))
                    cur += 1
                    mx = max(mx, cur)
                else:
                    ops.append(rng.choice(["r", "r", "u"]))
                    cur -= 1
            need += max(0, mx - 1)
            ths.append(".".join(ops))
        worst = max(worst, need)
        phases.append("_".join(ths))
    if mode == 0:
        # strict: enough objects that hold-and-wait cannot deadlock legitimately, never more than the capacity
        inject = min(max(worst, rng.choice([1, 1, 2])), 2 * cap)
        if inject < worst:
            cap = 4
            inject = min(worst, 8)
    else:
        inject = rng.choice([0, 0, 0, 1, cap + 1])
    return mode, cap, inject, rng.choice([1, 1, 1, 0]), "/".join(phases)


def params_pages(p):
    return "stack=%s,cap=%d,batch=%d,prog=%s" % p


def params_pool(p):
    return "mode=%d,cap=%d,inject=%d,rec=%d,prog=%s" % p


def record(scn, plist, seeds, strategy, out, jobs=None, extra=None):
    execs, status = [], {}
    os.makedirs(os.path.dirname(out), exist_ok=True)
    for idx, params in enumerate(plist):
        raw = "%s.%d.ndjson" % (out, idx)
        args = ["--scenario", scn, "--params", params, "--strategy", strategy, "--seeds", "%d:%d" % seeds, "--out", raw, "--max-steps", MAX_STEPS_PB if strategy == "pb" else MAX_STEPS]
        if strategy != "pb":
            args += ["-j", str(jobs or 8)]
        if extra:
            args += extra
        s = vlib.driver_status(vlib.driver(DRIVER, args))
        for k, v in s["status"].items():
            status[k] = status.get(k, 0) + v
        execs += list(vlib.split_traces(raw))
        os.unlink(raw)
    return execs, status


def exec_key(ex):
    h = ex[0]
    return {"scenario": h["scn"], "params": h["params"], "seed": h["seed"], "strategy": h["strategy"], "script": h.get("script", [])}


def rerun(key):
    """re-execute one recorded execution deterministically"""
    p = key["params"]
    params = ",".join("%s=%s" % (k, v) for k, v in p.items())
    raw = os.path.join(vlib.BUILD, "traces", "c17_rerun.%d.ndjson" % os.getpid())
    st = key["strategy"]
    args = ["--scenario", key["scenario"], "--params", params, "--seeds", "%d:%d" % (key["seed"], key["seed"] + 1), "--out", raw, "--max-steps", MAX_STEPS_PB if st == "pb" else MAX_STEPS]
    if key.get("script") and st == "pb":
        args += ["--strategy", "pb", "--script", ",".join(map(str, key["script"])), "--max-execs", "1"]
    elif st == "random" and "sw" in p:
        args += ["--strategy", "random", "--switch", str(p["sw"])]
    elif st in ("pct", "random"):
        args += ["--strategy", "mix"]
    else:
        args += ["--strategy", st]
    vlib.driver(DRIVER, args)
    ex = list(vlib.split_traces(raw))
    os.unlink(raw)
    return ex[0] if ex else None


MC_QUICK = [("pages_quick", "MC_Pages.tla", "Pages_quick.cfg"), ("pool_strict_quick", "MC_Pool.tla", "Pool_strict_quick.cfg"),
            ("pool_auto_quick", "MC_Pool.tla", "Pool_auto_quick.cfg")]
MC_THOROUGH = [("pages_c2", "MC_Pages.tla", "Pages_c2.cfg"), ("pages_c3", "MC_Pages.tla", "Pages_c3.cfg"), ("pages_b", "MC_Pages.tla", "Pages_b.cfg"),
               ("pages_live", "MC_Pages.tla", "Pages_live.cfg"), ("pool_strict", "MC_Pool.tla", "Pool_strict.cfg"), ("pool_auto", "MC_Pool.tla", "Pool_auto.cfg"),
               ("pool_live", "MC_Pool.tla", "Pool_live.cfg")]


def run(pid, tier, seed, replay=None):
    V = vlib.Verdict(pid, tier, seed)
    rng = random.Random(seed * 104729 + 17)
    vlib.build([DRIVER])
    quick = tier == "quick"

    # ---- 1. model checking of the L2 specifications
    if not replay:
        for name, tla, cfg in MC_QUICK + ([] if quick else MC_THOROUGH):
            r = vlib.tlc(os.path.join(SPEC, tla), os.path.join(SPEC, "mc", cfg), cache=True, timeout=2400, heap="12g")
            V.add_tlc(name, r)
            if not r.ok:
                # the models carry no table read from the code: a counterexample here means spec and clauses disagree
                raise vlib.Broken("TLC failed on %s: %s %s" % (cfg, r.violation, r.error_trace[:1500]))
        # the wake-less push must violate the clause (BlockedPopResumes is not vacuous)
        r = vlib.tlc(os.path.join(SPEC, "MC_Pool.tla"), os.path.join(SPEC, "mc", "Pool_strict_nowake.cfg"), cache=True, timeout=600)
        if r.ok or r.violation not in ("NoLostWakeup", "BlockedPopResumes"):
            raise vlib.Broken("Pool.tla without the wake-up does not violate BlockedPopResumes/NoLostWakeup: %s" % r.violation)
        V.extra["nonvacuity_nowake"] = r.violation
        V.cov["exhaustive"] = True

    # ---- 2. executions of the real code
    if replay:
        V.write_evidence = False
        key = json.load(open(replay))
        ex = rerun(key["exec"])
        execs, status = [ex], {}
    else:
        base = seed * 1000 + 1
        nseeds = 6 if quick else 100
        nrand = 10 if quick else 150
        rseeds = 5 if quick else 8
        tr = os.path.join(vlib.BUILD, "traces")
        status = {}
        execs = []
        # C17_SUBSET=pages|pool (self-test aid): only the fixed programs of one scenario on the first seeds of the quick tier
        subset = os.environ.get("C17_SUBSET", "")
        if subset:
            nseeds, nrand = 4, 0
        for scn, fixed, conv, gen, pbl in (("pages", FIXED_PAGES, params_pages, gen_pages, PB_PAGES), ("pool", FIXED_POOL, params_pool, gen_pool, PB_POOL)):
            if subset and scn != subset:
                continue
            if subset:
                pbl = []
            e1, s1 = record(scn, [conv(p) for p in fixed], (base, base + nseeds), "mix", os.path.join(tr, "%s_%s_fixed" % (pid, scn)))
            e2, s2 = record(scn, [conv(gen(rng)) for _ in range(nrand)], (base, base + rseeds), "mix", os.path.join(tr, "%s_%s_rand" % (pid, scn)), jobs=4)
            e3, s3 = record(scn, [conv(p) for p in pbl], (1, 2), "pb", os.path.join(tr, "%s_%s_pb" % (pid, scn)),
                            extra=["--pb-bound", "2" if quick else "3", "--max-execs", "40" if quick else "2500"])
            e4, s4 = [], {}
            if scn == "pool":
                nwin = 60 if quick else 600
                for w in WINDOW_POOL:
                    ew, sw_ = record(scn, [params_pool(w[:5]) + ",sw=%d" % w[5]], (base, base + nwin), "random", os.path.join(tr, "%s_%s_win" % (pid, scn)), extra=["--switch", str(w[5])])
                    e4 += ew
                    for k, v in sw_.items():
                        s4[k] = s4.get(k, 0) + v
            execs += e1 + e2 + e3 + e4
            for s in (s1, s2, s3, s4):
                for k, v in s.items():
                    status[k] = status.get(k, 0) + v
    V.extra["executions"] = len(execs)
    V.extra["exec_status"] = status
    pages_ex = [ex for ex in execs if ex[0]["scn"] == "pages"]
    pool_ex = [ex for ex in execs if ex[0]["scn"] == "pool"]
    # the happens-before monitor handles 16 threads; every execution of the driver stays below that
    hb_ex = [ex for ex in execs if pc.max_thread(ex) <= 15 and ex[-1].get("status") == "ok"]
    hb_max = 160 if quick else 3000
    if len(hb_ex) > hb_max:
        step = len(hb_ex) / float(hb_max)
        hb_ex = [hb_ex[int(i * step)] for i in range(hb_max)]

    l2_ex = [ex for ex in pages_ex if pc.l2_eligible(ex)]
    l2_max = 80 if quick else 3000
    if len(l2_ex) > l2_max:
        step = len(l2_ex) / float(l2_max)
        l2_ex = [l2_ex[int(i * step)] for i in range(l2_max)]

    # ---- 3. judge them
    total_acc = 0
    for name, tla, cfg, conv, sel in (
        ("L1_pages", os.path.join(SPEC, "Pages_Mon.tla"), os.path.join(SPEC, "mc", "Pages_Mon.cfg"), pc.pages_lines, pages_ex),
        ("L1_pool", os.path.join(SPEC, "Pool_Mon.tla"), os.path.join(SPEC, "mc", "Pool_Mon.cfg"), pc.pool_lines, pool_ex),
        ("HB", os.path.join(SPEC, "lib", "HBMon.tla"), os.path.join(SPEC, "mc", "HBMon.cfg"), pc.hb_lines, hb_ex),
        ("L2_pages", os.path.join(SPEC, "Pages_Trace.tla"), os.path.join(SPEC, "mc", "Pages_Trace.cfg"), pc.l2_lines, l2_ex),
    ):
        if not sel:
            continue
        lines = [conv(ex) for ex in sel]
        acc, issues, st = vlib.check_traces(tla, cfg, lines, pid + "_" + name, max_rounds=3)
        total_acc += acc
        V.cov["transitions"] += st["states"]
        V.extra["trace_" + name] = {"executions": len(sel), "accepted": acc, "issues": len(issues), "tlc_states": st["states"], "wall_s": round(st["wall"], 1), "unchecked": st["unchecked"]}
        for iss in issues:
            ex = sel[iss.exec_index]
            key = exec_key(ex)
            if iss.kind == "rejected" and name == "L2_pages":
                V.drift += 1
                log("SPEC-DRIFT component=page_allocator exec=%s seed=%s line=%d %s" % (json.dumps(key["params"]), key["seed"], iss.line, iss.detail))
                continue
            if iss.kind == "rejected":
                raise vlib.Broken("%s monitor rejected a trace (monitors must accept every well-formed trace): %s %s" % (name, json.dumps(key["params"]), iss.detail))
            what = iss.kind.split(":", 1)[1]
            if name == "L2_pages":
                what = what[1:] if what.startswith("T") else what
            elif name != "HB":
                m = re.findall(r'bad = "(\w+)"', iss.detail)
                what = m[-1] if m and m[-1] else what
            else:
                what = "NoDataRace"
            if what == "Protocol":
                raise vlib.Broken("driver / monitor protocol error on %s line %d" % (json.dumps(key), iss.line))
            if not replay:
                ex2 = rerun(key)
                lines2 = [conv(ex2)] if ex2 else []
                _, iss2, _ = vlib.check_traces(tla, cfg, lines2, pid + "_re") if lines2 else (0, [], {})
                if not iss2:
                    raise vlib.Broken("violation %s did not reproduce on re-execution of %s" % (what, json.dumps(key)))
            rp = vlib.save_replay(pid, "%s_%s_%d.json" % (name, what, iss.exec_index), {"exec": key, "clause": what, "layer": name, "line": iss.line, "trace": [e for e in ex if e.get("k") not in pc.ATOMIC and e.get("k") != "fence"][:300]})
            V.violation("%s violated on an execution of the real code (%s) scenario=%s params=%s seed=%s strategy=%s" % (what, name, key["scenario"], json.dumps(key["params"], sort_keys=True), key["seed"], key["strategy"]), rp)
    V.cov["traces_validated_against_impl"] = total_acc
    V.extra["l2_conformant"] = V.drift == 0
    for ex in (pages_ex[:1] + pool_ex[:1]):
        V.sample({"scenario": ex[0]["scn"], "params": ex[0]["params"], "strategy": ex[0]["strategy"], "events": len(ex),
                  "first_events": [e for e in ex if e.get("k") in ("call", "ret", "up", "create", "recycle", "dtor", "quiesce")][:10]})
    V.extra["clauses"] = {"pages": ["SingleOwner", "Conservation", "CountingExact", "DestructorReturnsCache", "NoCrash"],
                          "pool": ["SingleOwner", "StrictNeverExceedsInjected", "BlockedPopResumes", "PopYieldsObject", "RecyclerOncePerReturn", "OverflowDestroyedNotLeaked", "Conservation", "NoCrash"],
                          "hb": ["NoDataRace (page / object payload)"]}
    V.assumptions += [
        "Pages.tla / Pool.tla use sequentially consistent memory over an abstract ticket queue; publication of slots under the C++ memory model is covered by BQ.tla (C01) and, on the recorded executions, by HBMon",
        "the recording upstream allocator never reuses a page tag; pages are never dereferenced by the allocators under test",
        "executions are serialised by vsched: one thread runs between two atomic operations",
        "an execution that exhausts the step budget (status budget) is not judged for termination",
    ]
    return V.finish()
