"""C12 helpers: operation-program generation (seeded), conversion of TLC-generated behaviours into
programs for the driver (spec -> code), normalisation of the driver's ndjson for the trace
specifications, and a one-pass trace validation that returns every L1 verdict of a file."""
import json
import os
import re

import vlib

SPEC = vlib.SPEC
VEC_KINDS = ["elem", "relem", "int", "str", "mstr", "nest", "pb"]
STR_KINDS = ["sstr", "smstr"]

DEF = {"k": "", "n": "", "v": 0, "w": 0, "a": 0, "b": 0, "f": "def", "x": 0, "q": [], "nb": 0, "o": [], "ref": [], "ev": [], "mode": "", "status": ""}
MDEF2 = {"k": "", "mode": "", "status": "", "cyc": 0, "r": 0, "w": [], "need": [], "o0": [], "o1": [], "o2": [], "used0": 0, "used1": 0, "used2": 0, "alloc2": 0, "rel": 0, "live1": 0, "live2": 0}


# ----------------------------------------------------------------------------- TLA+ value parser
def parse_tla(text, pos=0):
    """parse one TLA+ value printed by TLC (ints, strings, <<..>>, {..}, [a |-> ..], TRUE/FALSE); returns (value, next_pos)"""
    n = len(text)

    def ws(i):
        while i < n and text[i] in " \t\r\n":
            i += 1
        return i

    def val(i):
        i = ws(i)
        c = text[i]
        if text.startswith("<<", i):
            i += 2
            out = []
            i = ws(i)
            if text.startswith(">>", i):
                return out, i + 2
            while True:
                v, i = val(i)
                out.append(v)
                i = ws(i)
                if text.startswith(">>", i):
                    return out, i + 2
                if text[i] != ",":
                    raise ValueError("tuple: expected , at %d: %r" % (i, text[i:i + 30]))
                i += 1
        if c == "{":
            i += 1
            out = []
            i = ws(i)
            if text[i] == "}":
                return out, i + 1
            while True:
                v, i = val(i)
                out.append(v)
                i = ws(i)
                if text[i] == "}":
                    return out, i + 1
                if text[i] != ",":
                    raise ValueError("set: expected , at %d" % i)
                i += 1
        if c == "[":
            i += 1
            out = {}
            while True:
                i = ws(i)
                m = re.compile(r"(\w+)\s*\|->").match(text, i)
                if not m:
                    raise ValueError("record: expected field at %d: %r" % (i, text[i:i + 30]))
                i = m.end()
                v, i = val(i)
                out[m.group(1)] = v
                i = ws(i)
                if text[i] == "]":
                    return out, i + 1
                if text[i] != ",":
                    raise ValueError("record: expected , at %d" % i)
                i += 1
        if c == '"':
            j = text.index('"', i + 1)
            return text[i + 1:j], j + 1
        m = re.compile(r"-?\d+").match(text, i)
        if m:
            return int(m.group(0)), m.end()
        if text.startswith("TRUE", i):
            return True, i + 4
        if text.startswith("FALSE", i):
            return False, i + 5
        raise ValueError("cannot parse TLA+ value at %d: %r" % (i, text[i:i + 40]))

    return val(pos)


# ----------------------------------------------------------------------------- programs
def op_str(n, v=1, w=0, a=0, b=0, f="def", x=0, q=()):
    return "%s,%d,%d,%d,%d,%s,%d,%s" % (n, v, w, a, b, f, x, ".".join(str(i) for i in q) if q else "-")


def prog_line(kind, pid, src, ops):
    return "kind=%s;pid=%d;src=%s;ops=%s" % (kind, pid, src, "|".join(ops))


def tla_op_to_str(o):
    """operation record of RVec.tla (as printed by TLC) -> driver syntax"""
    return op_str(o["n"], o["v"], o["w"], o["a"], o["b"], o["s"]["f"], o["s"]["x"], o["q"])


def gen_ops(rng, nops, alias=0.0, nv=4, two=True, big=False, lo=1):
    """seeded generator of RAW operations (the driver resolves positions against the real sizes and skips
    what the interface does not allow in the current state)"""
    forms = ["ext", "ext", "val", "extm"]

    def src():
        if alias and rng.random() < alias:
            return "self", rng.randrange(0, 50)
        return rng.choice(forms), rng.randint(lo, nv)

    def cnt():
        r = rng.random()
        if r < 0.15:
            return 0
        if r < 0.8:
            return rng.randint(1, 3)
        return rng.randint(4, 9 if not big else 40)

    def seq():
        return [rng.randint(lo, nv) for _ in range(cnt() if rng.random() < 0.8 else 0)]

    ops = []
    # creation
    def create(v):
        c = rng.choice(["new", "new", "newn", "newnv", "newr", "newm", "cpc", "mvc"])
        f, x = rng.choice(["ext"]), rng.randint(lo, nv)
        return op_str(c, v, 0, 0, cnt(), f, x, seq())

    ops.append(create(1))
    if two and rng.random() < 0.7:
        ops.append(create(2))
    weights = [("pb", 14), ("pop", 4), ("ins", 10), ("insn", 7), ("insr", 7), ("era", 6), ("erar", 6), ("rsz", 6), ("rszv", 5), ("res", 4),
               ("clr", 5), ("asgn", 3), ("asgr", 3), ("asgc", 2), ("swp", 2), ("mva", 2), ("cpa", 2), ("del", 1), ("create", 2)]
    names = [n for n, k in weights for _ in range(k)]
    for _ in range(nops):
        n = rng.choice(names)
        v = 1 if (not two or rng.random() < 0.65) else 2
        if n == "create":
            ops.append(create(v))
            continue
        f, x = src()
        a = rng.randrange(0, 60)
        b = rng.randrange(0, 60) if n == "erar" else cnt()
        if n == "res":
            b = rng.randint(0, 12 if not big else 64)
        if n == "rsz" or n == "rszv":
            b = rng.randint(0, 9 if not big else 40)
        ops.append(op_str(n, v, 0, a, b, f, x, seq() if n in ("insr", "asgr") else ()))
    return ops


# fixed programs: boundary shapes worth hitting on every run (exact fill, stale reuse, gaps between size/constructed/capacity)
def fixed_programs():
    P = []
    o = op_str
    # exact fill then growth by doubling, stale elements moved by reserve
    P.append([o("new"), o("res", b=2), o("pb", f="ext", x=1), o("pb", f="val", x=2), o("pb", f="extm", x=3), o("pop"), o("pop"), o("res", b=5), o("pb", f="ext", x=1), o("rsz", b=5), o("clr"), o("rsz", b=3)])
    # insert with size < constructed < size + count  (part assign-over-stale, part move-construct, part construct-into-raw)
    P.append([o("newr", q=[1, 2, 3, 1]), o("res", b=8), o("pop"), o("insn", a=0, b=2, f="ext", x=2), o("insr", a=1, q=[3, 3, 3]), o("ins", a=7, f="val", x=1), o("erar", a=1, b=6), o("insn", a=2, b=4, f="ext", x=3)])
    # insert at end into stale / raw, empty insertions (self move assignment of every element)
    P.append([o("newnv", b=3, x=2), o("clr"), o("insn", a=0, b=0, f="ext", x=1), o("insr", a=0, q=[1, 2]), o("insr", a=1, q=[]), o("insn", a=2, b=3, f="ext", x=3), o("era", a=0), o("erar", a=0, b=0), o("erar", a=1, b=4)])
    # resize up over stale then raw, resize down keeps, assign family, metadata construction
    P.append([o("newm", b=3), o("rsz", b=2), o("rszv", b=5, f="ext", x=2), o("rsz", b=1), o("asgn", b=4, f="ext", x=3), o("asgr", q=[1, 2]), o("asgc", b=6), o("asgc", b=1), o("pb", f="ext", x=2)])
    # two vectors: copy / move / swap, stale elements travel with the buffer
    P.append([o("newr", q=[1, 2, 3]), o("cpc", v=2), o("pop", v=2), o("swp", v=1), o("pb", v=1, f="ext", x=3), o("mva", v=2), o("cpa", v=1), o("clr", v=2), o("cpa", v=1), o("del", v=2), o("mvc", v=2), o("pb", v=1, f="val", x=1), o("pb", v=2, f="val", x=2)])
    # payload classes on the fresh and on the reused path: 3 = short with embedded NUL, 8 = long with embedded NUL, 0 = empty, 6 = long
    P.append([o("new"), o("pb", f="ext", x=3), o("pb", f="ext", x=8), o("pb", f="ext", x=0), o("pb", f="val", x=3), o("pb", f="val", x=8), o("pb", f="extm", x=8), o("clr"),
              o("pb", f="ext", x=8), o("pb", f="ext", x=3), o("pb", f="val", x=8), o("pb", f="val", x=3), o("pb", f="ext", x=0), o("pb", f="ext", x=6), o("pop"), o("pop"), o("pop"),
              o("ins", a=1, f="ext", x=3), o("insn", a=0, b=2, f="ext", x=8), o("clr"), o("rszv", b=3, f="ext", x=3), o("asgn", b=4, f="ext", x=8), o("asgr", q=[3, 0, 8]), o("clr"), o("insr", a=0, q=[8, 3, 0, 6])])
    # capacity 1 and 2
    P.append([o("newn", b=1), o("pb", f="ext", x=1), o("ins", a=0, f="ext", x=2), o("era", a=1), o("era", a=0), o("ins", a=0, f="extm", x=3), o("pop"), o("pop"), o("ins", a=0, f="val", x=1)])
    return P


def alias_programs():
    """argument refers to an element of the same vector (std::vector must handle these calls) - hypothesis H6"""
    o = op_str
    return [
        [o("new"), o("res", b=2), o("pb", f="ext", x=1), o("pb", f="ext", x=2), o("pb", f="self", x=0)],            # push_back(v[0]) at size == capacity
        [o("newr", q=[1, 2, 3]), o("res", b=8), o("ins", a=1, f="self", x=2)],                                     # insert(pos, v[i]), i >= pos: shifted before read
        [o("newr", q=[1, 2, 3]), o("res", b=8), o("insn", a=0, b=2, f="self", x=1)],
        [o("newr", q=[1, 2]), o("rszv", b=5, f="self", x=1)],                                                     # resize(n, v[i]) with reallocation
        [o("newr", q=[1, 2, 3]), o("res", b=8), o("pb", f="self", x=1), o("ins", a=3, f="self", x=0)],            # harmless aliasing (no reallocation, source before pos)
    ]


# ----------------------------------------------------------------------------- driver / traces
def run_driver(lines, tag):
    """execute programs on the real code; returns list of executions (lists of raw events)"""
    d = os.path.join(vlib.BUILD, "traces")
    os.makedirs(d, exist_ok=True)
    pf = os.path.join(d, "%s.%d.prog" % (tag, os.getpid()))
    out = os.path.join(d, "%s.%d.ndjson" % (tag, os.getpid()))
    with open(pf, "w") as f:
        for ln in lines:
            f.write(ln + "\n")
    s = vlib.driver("rvec_driver", ["--programs", pf, "--out", out], timeout=900)
    execs = list(vlib.split_traces(out))
    os.unlink(out)
    os.unlink(pf)
    if len(execs) != len(lines):
        raise vlib.Broken("driver produced %d executions for %d programs" % (len(execs), len(lines)))
    return execs, s


def normalise(ex, default=DEF):
    out = []
    for e in ex:
        d = dict(default)
        d.update({k: v for k, v in e.items() if k in default})
        out.append(d)
    return out


def validate(tla, cfg, execs, name, default=DEF, timeout=1500):
    """one TLC pass over all executions. Returns dict(explained, total, drift=[(exec_idx, line_in_exec, op)],
    verdicts=[(exec_idx, clause, line_in_exec, op, form)], states, wall)"""
    d = os.path.join(vlib.BUILD, "traces")
    os.makedirs(d, exist_ok=True)
    path = os.path.join(d, "%s.%d.n.ndjson" % (name, os.getpid()))
    starts = []
    n = 0
    with open(path, "w") as f:
        for ex in execs:
            starts.append(n + 1)
            for e in normalise(ex, default):
                f.write(json.dumps(e, separators=(",", ":")) + "\n")
            n += len(ex)
    # short runs: the C1 compiler alone warms up faster than the tiered pipeline
    r = vlib.validate_trace(tla, cfg, path, timeout=timeout, extra_env={"JAVA_TOOL_OPTIONS": "-XX:TieredStopAtLevel=1 -Xss512m"})
    try:
        os.unlink(path)
    except OSError:
        pass
    i = r.out.find('<< "VERIF"')
    if i < 0:
        i = r.out.find('<<"VERIF"')
    if i < 0 or not r.ok:
        et = r.error_trace or r.out
        raise vlib.Broken("trace validation %s failed: %s\n ... \n%s" % (name, et[:1500], et[-2500:]))
    v, _ = parse_tla(r.out, i)

    def locate(line):
        line = int(line)
        j = 0
        for idx, st in enumerate(starts):
            if st <= line:
                j = idx
        return j, line - starts[j] + 1

    res = {"explained": v[1], "total": v[2], "drift": [], "verdicts": [], "states": r.distinct, "wall": r.wall}
    for dr in v[3]:
        j, ln = locate(dr[0])
        res["drift"].append((j, ln, dr[1]))
    for vd in v[4]:
        j, ln = locate(vd[2])
        res["verdicts"].append((j, vd[1], ln) + tuple(vd[3:]))
    if res["explained"] < res["total"]:
        raise vlib.Broken("trace specification %s got stuck at line %d of %d (the trace specs must explain every well-formed line)" % (name, res["explained"] + 1, res["total"]))
    for vd in res["verdicts"]:
        if vd[1] == "SpecL1DiffersFromStdVector":
            raise vlib.Broken("the L1 of RVec.tla disagrees with a real std::vector at event %d (op %s) of %s" % (vd[2], vd[3], execs[vd[0]][0].get("prog", "")[:300]))
    res["drift"].sort()
    res["verdicts"].sort()
    return res


def behaviours(out):
    """<<"BEH", hist>> lines printed by MC_RVec!GenNext -> list of lists of operation records"""
    res = []
    for m in re.finditer(r'<<\s*"BEH"\s*,', out):
        try:
            v, _ = parse_tla(out, m.start())
        except Exception:
            continue
        res.append(v[1])
    return res


def hist_of_error_trace(trace):
    """operation sequence of a TLC counterexample (the hist variable of its last state)"""
    k = trace.rfind("/\\ hist = ")
    if k < 0:
        return None
    v, _ = parse_tla(trace, k + len("/\\ hist = "))
    return v
