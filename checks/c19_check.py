"""C19: counters / enumerable thread-locals - aggregates exact across thread and instance churn.
Pipeline:
  1. API histories (targeted + seeded random + TLC -simulate behaviours of MC_Counters: spec -> code) are executed on
     the REAL classes by counters_driver (real threads created / joined by script, counters constructed / destroyed /
     moved by script); every call and its result is logged
  2. Counters_Trace.tla replays every history on the specification Counters.tla: the L1 clauses are evaluated by TLC with
     the results the real code returned (-> V1 verdicts), the model's predictions are compared with the code (-> drift)
  3. counting threads + a reader run under vsched; Counters_Mon.tla (L1 monitor) decides ConcurrentReadBounds
  4. TLC model-checks MC_Counters exhaustively over bounded histories (L2 model |= L1 clauses), incl. the split
     count / value() steps for the concurrent-read clause; the ExtremeOfCurrentPeriod counterexample (H5), if the model
     variant conformant with the code has one, is replayed into the real code
"""
import concurrent.futures
import json
import os
import random
import re
import sys
import time

sys.path.insert(0, os.path.dirname(os.path.abspath(__file__)))
import counters_common as cc
import vlib
from vlib import log

SPEC = vlib.SPEC
TRACE_TLA = os.path.join(SPEC, "Counters_Trace.tla")
TRACE_CFG = os.path.join(SPEC, "mc", "Counters_Trace.cfg")
MON_TLA = os.path.join(SPEC, "Counters_Mon.tla")
MON_CFG = os.path.join(SPEC, "mc", "Counters_Mon.cfg")
MC_TLA = os.path.join(SPEC, "MC_Counters.tla")

DESCR = {
    "QuiescentExact": "value() differs from the sum (and count) of everything added",
    "ExtremeOfCurrentPeriod": "value() is not the extreme of the values recorded in the current period",
    "ExtremeOfCurrentPeriod_OnlyTypeExtreme": "a period in which only the type's own extreme was recorded is reported as 'no result' (value(x) false, value() 0)",
    "ContributionsOfDeadThreadsKept": "a slot does not hold what the threads that lived in it (dead ones included) contributed",
    "LocalIsPrivateAndStable": "local() returned an address that changed, or that another live thread / counter owns",
    "ForEachCoversEverUsed": "for_each missed a slot that was used",
    "ForEachAliveExactlyLive": "for_each_alive visited a dead thread's slot or missed a live thread's slot",
    "NewCounterStartsAtZero": "a newly created counter does not start from zero",
    "ConcurrentReadBounds": "a read concurrent with counting is outside [completed before, started before]",
    "ConcurrentReadBounds_TornFirstCountOfPeriod": "a read concurrent with a thread's first count of a period returned a value nobody recorded in that period (the slot's value of the previous period)",
    "NoCrash": "the real code crashed / hung",
}

# concurrent programs: (kind, per-thread value lists, values of a thread that exits before, reads)
CONC = [
    ("adder", "1.2.1_-1.3", "2", 3), ("adder", "1.1.1_2.2_3", "", 2), ("summer", "1.2_3.-1.2", "1.1", 3),
    ("maxer", "1.2_-1.0_2", "-2", 2), ("miner", "1.-2_2.0", "1", 3), ("cetl", "1.2_3", "1", 2), ("etl", "2.1_1.1", "3", 2),
    ("summer", "1_1_1", "", 3), ("maxer", "-2.-1.0.1", "2", 3),
]
CONC_PB = [("adder", "1.2_3", "1", 1), ("summer", "1_2", "", 2), ("maxer", "1.2_0", "", 1)]


def batch_judge(hists, name):
    """run histories on the real code and judge them in ONE TLC run -> [(raw events, lines, bad items, drift items, well_formed)]"""
    if not hists:
        return []
    execs, _ = cc.run_histories(hists, name)
    wf = [not any(e.get("status") == "bad_history" for e in ex) for ex in execs]
    lines = [cc.normalise(ex) if ok else cc.normalise(ex[:1] + [{"k": "info", "npl": 1}, {"k": "end", "status": "ok"}]) for ex, ok in zip(execs, wf)]
    _, bad, drift, _ = cc.judge(TRACE_TLA, TRACE_CFG, lines, name)
    return [(execs[i], lines[i], bad.get(i, []), drift.get(i, []), wf[i]) for i in range(len(hists))]


def rerun_history(kind, h):
    ex, lines, bad, drift, _ = batch_judge([(kind, h)], "C19_re")[0]
    return ex, lines, bad, drift


def describe_line(line):
    keep = {k: v for k, v in line.items() if k in ("k", "t", "o", "p", "v", "r1", "r2", "has", "v0", "tid", "addr", "cells", "status") and v not in ("", [], -1) or k == "k"}
    return json.dumps(keep, separators=(",", ":"))[:300]


def history_prefix(h, ln):
    """the history up to (and including) the call that produced normalised line `ln` (line 1 = reset; one line per call)"""
    return ".".join(h.split(".")[:max(1, ln - 1)])


def reproduce_and_minimise(found, shorten=None):
    """found: [(kind, history, clause)]; shorten[f]: also minimise finding f.  Two batched rounds: (1) the history itself (reproducibility: the same history
    must fail the same clause again) and every single-call deletion, (2) all deletable calls removed at once.
    Returns [(history, observed line, raw events)]"""
    cands, owner = [], []
    for f, (k, h, clause) in enumerate(found):
        toks = h.split(".")
        cands.append((k, h))
        owner.append((f, -1))
        for i in range(len(toks) if shorten is None or shorten[f] else 0):
            cands.append((k, ".".join(toks[:i] + toks[i + 1:])))
            owner.append((f, i))
    res = batch_judge(cands, "C19_min1")
    fails = lambda r, clause: r[4] and any(c == clause for c, _ in r[2])
    removable = [[] for _ in found]
    for (f, i), r in zip(owner, res):
        k, h, clause = found[f]
        if i < 0:
            if not fails(r, clause):
                raise vlib.Broken("violation %s did not reproduce on re-execution of %s %s" % (clause, k, h))
        elif fails(r, clause):
            removable[f].append(i)
    if not any(removable):
        out = []
        for (f, i), r in zip(owner, res):
            if i < 0:
                at = [x for x in r[2] if x[0] == found[f][2]][0][1]
                out.append((found[f][1], r[1][at - 1], r[0]))
        return out
    second = []
    for f, (k, h, clause) in enumerate(found):
        toks = h.split(".")
        second.append((k, ".".join(t for i, t in enumerate(toks) if i not in removable[f])))
        second.append((k, ".".join(t for i, t in enumerate(toks) if i not in removable[f][-1:])))
        second.append((k, h))
    res2 = batch_judge(second, "C19_min2")
    out = []
    for f, (k, h, clause) in enumerate(found):
        for j in range(3):
            r = res2[3 * f + j]
            if fails(r, clause):
                at = [x for x in r[2] if x[0] == clause][0][1]
                out.append((second[3 * f + j][1], r[1][at - 1], r[0]))
                break
        else:
            raise vlib.Broken("violation %s did not reproduce on re-execution of %s %s" % (clause, k, h))
    return out


def mc_cfg(name, strict, verfirst):
    """committed cfgs describe the pinned commit (StrictExt = TRUE, VerFirst = TRUE); when the running code behaves
    otherwise the model is checked in the variant that describes it"""
    p = os.path.join(SPEC, "mc", name)
    if strict and verfirst:
        return p
    d = os.path.join(vlib.BUILD, "gen", "cfg_C19")
    os.makedirs(d, exist_ok=True)
    q = os.path.join(d, name)
    t = open(p).read()
    if not strict:
        t = t.replace("StrictExt = TRUE", "StrictExt = FALSE")
    if not verfirst:
        t = t.replace("VerFirst = TRUE", "VerFirst = FALSE")
    open(q, "w").write(t)
    return q


DTOR = [("adder", 2, "2.1"), ("summer", 2, "1.2"), ("maxer", 1, "1.2"), ("cetl", 2, "3")]
TEAR = [("maxer", 2, 1), ("miner", -2, 1), ("maxer", 1, -cc.EXT + 1), ("miner", -1, 2)]


def run(pid, tier, seed, replay=None):
    V = vlib.Verdict(pid, tier, seed)
    rng = random.Random(seed * 104729 + 19)
    vlib.build(["counters_driver"])
    quick = tier == "quick"

    # which variant of the model describes the running code (the analogue of reading the order table from the code):
    # does value() compare strictly against an extreme-initialised result?  (a period holding only the type's minimum)
    probe, _ = cc.run_histories([("maxer", "S1.C1.K1:1:-%d.V1" % cc.EXT)], "C19_probe", jobs=1)
    strict = not [e for e in probe[0] if e.get("k") == "value"][0]["has"]
    # ... and in which order does the first count of a new period store (version, value)?  (the counting thread is
    # pre-empted after its first store into the slot; a reader thread looks)
    tp = [e for e in cc.run_tear("maxer", 2, 1, "C19_probe2") if e.get("k") == "ret" and e.get("op") == "value"]
    verfirst = bool(tp) and tp[0]["has"] and tp[0]["r1"] == 2
    V.extra["model_variant"] = "StrictExt=%s VerFirst=%s (read from the running code)" % (strict, verfirst)

    # ------------------------------------------------------------------ 0. TLC: exhaustive over bounded histories (in the background)
    futures, pool = {}, None
    if not replay:
        sfx = "_q" if quick else ""
        mcs = [("adder_summer", "Counters_add%s.cfg" % sfx), ("maxer_miner", "Counters_cmp%s.cfg" % sfx), ("cetl_etl", "Counters_raw%s.cfg" % sfx),
               ("split_reads", "Counters_split%s.cfg" % sfx), ("split_destructor", "Counters_dtor.cfg"), ("extreme_every_value", "Counters_cmp_ext.cfg"),
               ("torn_period_switch", "Counters_torn.cfg")]
        pool = concurrent.futures.ThreadPoolExecutor(max_workers=len(mcs))
        for name, cfg in mcs:
            futures[name] = (cfg, pool.submit(vlib.tlc, MC_TLA, mc_cfg(cfg, strict, verfirst), cache=True, deadlock=False, timeout=2400, heap="8g"))
            time.sleep(0.12)     # vlib names TLC's metadir by pid + millisecond

    # ------------------------------------------------------------------ 1. histories on the real code
    if replay:
        rp = json.load(open(replay))
        if rp.get("layer") == "conc":
            hists = []
        else:
            hists = [(rp["kind"], rp["history"])]
    else:
        hists = cc.fixed_histories()
        nrand = 10 if quick else 250
        for k in cc.KINDS:
            for _ in range(nrand):
                hists.append((k, cc.gen_history(rng, k, length=rng.choice([18, 30, 44]))))
        sim = cc.tlc_histories(50 if quick else 1500, 26 if quick else 40, seed, os.path.join(vlib.BUILD, "sim_C19"))
        V.extra["tlc_behaviours_replayed"] = {"generated": len(sim), "ops": sum(len(h.split(".")) for _, h in sim)}
        hists += sim
    execs, status = cc.run_histories(hists, "C19_hist") if hists else ([], {})
    for ex, (k, h) in zip(execs, hists):
        if any(e.get("status") == "bad_history" for e in ex):
            raise vlib.Broken("driver rejected history %s %s" % (k, h))
    V.extra["histories"] = {"n": len(hists), "ops": sum(len(h.split(".")) for _, h in hists), "exec_status": status,
                            "per_kind": {k: sum(1 for kk, _ in hists if kk == k) for k in cc.KINDS}}
    lines = [cc.normalise(ex) for ex in execs]
    strict_seen = False
    if lines:
        acc, bad, drift, st = cc.judge(TRACE_TLA, TRACE_CFG, lines, "C19_L2L1")
        V.cov["traces_validated_against_impl"] += acc
        V.cov["transitions"] += st["states"]
        V.extra["trace_validation"] = {"accepted": acc, "lines": sum(len(x) for x in lines), "tlc_states": st["states"], "wall_s": round(st["wall"], 1),
                                       "executions_with_L1_failures": len(bad), "executions_with_drift": len(drift)}
        for j, items in sorted(drift.items()):
            V.drift += 1
            k, h = hists[j]
            if V.drift > 5:
                continue
            log("SPEC-DRIFT component=counters kind=%s what=%s line=%s history=%s" % (k, items[0][0], describe_line(lines[j][items[0][1] - 1]), h))
        reported, found, where, where_ln = {}, [], [], []
        for j, items in sorted(bad.items()):
            k, h = hists[j]
            clause, ln = sorted(items, key=lambda x: x[1])[0]
            if clause == "ExtremeOfCurrentPeriod_OnlyTypeExtreme":
                strict_seen = True
            key = (clause, k)
            reported[key] = reported.get(key, 0) + 1
            if reported[key] > (1 if clause.endswith("_OnlyTypeExtreme") else 2):
                continue
            found.append((k, history_prefix(h, ln), clause))
            where.append(j)
            where_ln.append(ln)
        # witnesses of a recorded finding are re-executed (reproducibility) but not shortened
        known = vlib.load_known(pid)
        shorten = [vlib.match_known(known, "%s: %s %s; history=%s observed={\"k\":\"%s\",\"has\":false" % (clause, k, DESCR.get(clause, clause), hp,
                                    lines[j][ln0 - 1]["k"])) is None for (k, hp, clause), j, ln0 in zip(found, where, where_ln)]
        for (k, hp, clause), j, (hm, obs, ex3) in zip(found, where, reproduce_and_minimise(found, shorten)):
            rp = vlib.save_replay(pid, "%s_%s_%d.json" % (clause, k, j), {"layer": "hist", "kind": k, "history": hm, "clause": clause, "observed": obs, "original_history": hists[j][1], "trace": ex3[:200]})
            V.violation("%s: %s %s; history=%s observed=%s" % (clause, k, DESCR.get(clause, clause), hm, describe_line(obs)), rp)
        V.extra["L1_failures_by_clause_kind"] = {"%s/%s" % k: n for k, n in reported.items()}
        for j in (0, len(cc.fixed_histories()) if not replay else 0):
            if j < len(hists):
                V.sample({"kind": hists[j][0], "history": hists[j][1], "first_events": lines[j][1:6]})

    # ------------------------------------------------------------------ 2. concurrent reads under vsched, L1 monitor
    cexecs, stale_seen, creported, dtor_bad = [], False, {}, False
    if not replay or json.load(open(replay)).get("layer") == "conc":
        if replay:
            rp = json.load(open(replay))
            progs = [] if rp.get("scn", "conc") != "conc" or rp.get("strategy") == "tear" else [(rp["params"]["kind"], rp["params"]["prog"], rp["params"].get("pre", ""), int(rp["params"]["nr"]), (rp["seed"], rp["seed"] + 1), rp["strategy"], rp.get("script"))]
        else:
            ns = 10 if quick else 150
            progs = [(k, pr, pre, nr, (seed * 1000 + 1, seed * 1000 + 1 + ns), "mix", None) for k, pr, pre, nr in CONC]
            progs += [(k, pr, pre, nr, (1, 2), "pb", None) for k, pr, pre, nr in CONC_PB]
        cstat = {}
        for i, (k, pr, pre, nr, sds, strat, script) in enumerate(progs):
            extra = None
            if strat == "pb":
                extra = ["--pb-bound", "2", "--max-execs", "60" if quick else "1500"]
                if script:
                    extra = ["--script", ",".join(map(str, script)), "--max-execs", "1"]
            elif strat in ("pct", "random"):
                strat = "mix"
            ex, s = cc.run_conc(k, pr, pre, nr, sds, strat, "C19_conc%d" % i, extra)
            cexecs += ex
            for kk, v in s.items():
                cstat[kk] = cstat.get(kk, 0) + v
        def dtor_again(h0):
            pb = h0["strategy"] == "pb"
            extra = ["--script", ",".join(map(str, h0.get("script", []))), "--max-execs", "1", "--pb-bound", "2"] if pb else None
            return cc.run_dtor(h0["params"]["kind"], int(h0["params"]["nw"]), str(h0["params"]["prog"]), (h0["seed"], h0["seed"] + 1), "pb" if pb else "mix", "C19_dtor_re", extra)[0]

        if replay:
            if rp.get("strategy") == "tear":
                cexecs = [cc.run_tear(rp["params"]["kind"], int(rp["params"]["old"]), int(rp["params"]["nw"]), "C19_tear")]
            elif rp.get("scn") == "dtor":
                cexecs = dtor_again(rp)
        else:
            cexecs += [cc.run_tear(k, o, n, "C19_tear") for k, o, n in TEAR]
            # one counter destroyed WHILE another of the same type is constructed / counted into / read
            for i, (k, nw, pr) in enumerate(DTOR):
                ex, sd = cc.run_dtor(k, nw, pr, (1, 2), "pb", "C19_dtor%d" % i, ["--pb-bound", "1", "--max-execs", "400" if quick else "4000"])
                ex2, sd2 = cc.run_dtor(k, nw, pr, (seed * 1000 + 1, seed * 1000 + (7 if quick else 120)), "mix", "C19_dtorm%d" % i)
                cexecs += ex + ex2
                for dd in (sd, sd2):
                    for kk, v in dd.items():
                        cstat[kk] = cstat.get(kk, 0) + v
        mlines = [cc.mon_lines(ex) for ex in cexecs]
        acc, bad, _, st = cc.judge(MON_TLA, MON_CFG, mlines, "C19_mon")
        V.cov["traces_validated_against_impl"] += acc
        V.cov["transitions"] += st["states"]
        V.extra["concurrent_reads"] = {"executions": len(cexecs), "exec_status": cstat, "accepted": acc, "tlc_states": st["states"], "wall_s": round(st["wall"], 1), "with_L1_failures": len(bad)}
        for n, (j, items) in enumerate(sorted(bad.items(), key=lambda x: (cexecs[x[0]][0]["scn"] != "tear", x[0]))):
            ex = cexecs[j]
            h0 = ex[0]
            clause, ln = sorted(items, key=lambda x: x[1])[0]
            if h0["scn"] == "tear" and clause == "ConcurrentReadBounds_TornFirstCountOfPeriod":
                stale_seen = True
            ckey = (clause, h0["scn"])
            creported[ckey] = creported.get(ckey, 0) + 1
            if creported[ckey] > 1 or len(creported) > 4:
                continue
            tear = h0["scn"] == "tear"
            key = {"layer": "conc", "scn": h0["scn"], "params": h0["params"], "seed": h0["seed"], "strategy": "tear" if tear else h0["strategy"], "script": h0.get("script", []), "clause": clause}
            if not replay:
                if tear:
                    ex2 = [cc.run_tear(h0["params"]["kind"], int(h0["params"]["old"]), int(h0["params"]["nw"]), "C19_tear_re")]
                elif h0["scn"] == "dtor":
                    ex2 = dtor_again(h0)
                else:
                    extra = ["--script", ",".join(map(str, key["script"])), "--max-execs", "1", "--pb-bound", "2"] if h0["strategy"] == "pb" else None
                    ex2, _ = cc.run_conc(h0["params"]["kind"], h0["params"]["prog"], h0["params"].get("pre", ""), int(h0["params"]["nr"]), (h0["seed"], h0["seed"] + 1),
                                         "pb" if h0["strategy"] == "pb" else "mix", "C19_conc_re", extra)
                _, bad2, _, _ = cc.judge(MON_TLA, MON_CFG, [cc.mon_lines(x) for x in ex2], "C19_mon_re")
                if not bad2:
                    raise vlib.Broken("concurrent violation %s did not reproduce: %s" % (clause, json.dumps(key)))
            rp = vlib.save_replay(pid, "conc_%s_%d.json" % (clause, j), dict(key, trace=[e for e in ex if e.get("k") in ("call", "ret", "creset", "final", "end")][:200]))
            if tear:
                V.violation("%s: %s %s (the counting thread is pre-empted between the plain stores of its first count in a new period - single-stepped -, a reader thread calls value() in between) previous period={%s} current period={%s} observed=%s" % (
                    clause, h0["params"]["kind"], DESCR.get(clause, clause), h0["params"]["old"], h0["params"]["nw"], describe_line(mlines[j][ln - 1])), rp)
            elif h0["scn"] == "dtor":
                dtor_bad = True
                V.violation("%s: %s %s (thread A destroys a counter WHILE thread B constructs another counter of the same type, counts into it and reads it; under vsched) prog=%s dead-thread slots=%s strategy=%s seed=%s observed=%s" % (
                    clause, h0["params"]["kind"], DESCR.get(clause, clause), h0["params"]["prog"], h0["params"]["nw"], h0["strategy"], h0["seed"], describe_line(mlines[j][ln - 1])), rp)
            else:
                V.violation("%s: %s %s (counting threads + reader under vsched) prog=%s pre=%s seed=%s observed=%s" % (
                    clause, h0["params"]["kind"], DESCR.get(clause, clause), h0["params"]["prog"], h0["params"].get("pre", ""), h0["seed"], describe_line(mlines[j][ln - 1])), rp)
        if cexecs:
            V.sample({"concurrent_program": cexecs[0][0]["params"], "events": [e for e in cexecs[0] if e.get("k") in ("call", "ret", "final")][:8]})

    # ------------------------------------------------------------------ 3. results of the model checking
    if not replay:
        if strict != strict_seen:
            raise vlib.Broken("model variant probe (strict=%s) disagrees with the L1 findings of the histories (only-extreme witness seen: %s)" % (strict, strict_seen))
        for name, (cfg, fut) in futures.items():
            r = fut.result()
            V.add_tlc(name, r)
            if name in ("extreme_every_value", "torn_period_switch"):
                continue
            if not r.ok:
                raise vlib.Broken("the model violates its own L1 clause %s in %s (specification error): %s" % (r.violation, cfg, r.error_trace[:1500]))
        # the full clause ExtremeOfCurrentPeriod (every representable value): a counterexample is replayed into the code
        r = futures["extreme_every_value"][1].result()
        if not r.ok:
            if r.violation != "ExtremeOfCurrentPeriod":
                raise vlib.Broken("TLC failed on Counters_cmp_ext.cfg: %s" % r.error_trace[:1500])
            kh = cc.history_of_tlc_text(r.error_trace)
            if kh is None:
                raise vlib.Broken("cannot read the TLC counterexample")
            k, h = kh
            # the model of this run has TMin = -1, TMax = 1: its extremes are the type's extremes for the driver
            h = re.sub(r"(K\d+:\d+:)(-?)1\b", lambda m: m.group(1) + m.group(2) + str(cc.EXT), h)
            ex, ln, bad, drift = rerun_history(k, h)
            hit = [c for c, _ in bad if c.startswith("ExtremeOfCurrentPeriod")]
            V.extra["extreme_counterexample_replayed"] = {"kind": k, "history": h, "reproduced_on_real_code": bool(hit)}
            if hit:
                at = [x for x in bad if x[0] == hit[0]][0][1]
                rp = vlib.save_replay(pid, "tlc_%s_%s.json" % (hit[0], k), {"layer": "hist", "kind": k, "history": h, "clause": hit[0], "tlc_error_trace": r.error_trace[:6000]})
                V.violation("%s: %s %s; history=%s observed=%s" % (hit[0], k, DESCR.get(hit[0], hit[0]), h, describe_line(ln[at - 1])), rp)
            else:
                V.drift += 1
                log("SPEC-DRIFT component=counters the model's ExtremeOfCurrentPeriod counterexample does not reproduce on the code: %s %s" % (k, h))
        elif strict:
            raise vlib.Broken("the code shows the only-extreme witness but the strict model variant has no counterexample")
        # the two plain stores of a period switch (split model): a counterexample must show on the pre-empted real thread
        r = futures["torn_period_switch"][1].result()
        V.extra["torn_period_switch"] = {"model_counterexample": not r.ok, "VerFirst": verfirst, "stale_value_seen_on_real_code": stale_seen}
        if not r.ok and r.violation != "ConcurrentReadBounds":
            raise vlib.Broken("TLC failed on Counters_torn.cfg: %s" % r.error_trace[:1500])
        if (not r.ok) != verfirst or stale_seen != verfirst:
            V.drift += 1
            log("SPEC-DRIFT component=counters period switch: model variant VerFirst=%s, model counterexample=%s, stale value observed on the pre-empted real thread=%s" % (verfirst, not r.ok, stale_seen))
        # a counter corrupted by the concurrent destruction of another one: does the model with the other order of the
        # destructor's steps (instance id released before the clearing walk) explain it?
        if dtor_bad:
            q = os.path.join(vlib.BUILD, "gen", "cfg_C19", "Counters_dtor_idfirst.cfg")
            os.makedirs(os.path.dirname(q), exist_ok=True)
            open(q, "w").write(open(mc_cfg("Counters_dtor.cfg", strict, verfirst)).read().replace("IdFirst = FALSE", "IdFirst = TRUE"))
            r = vlib.tlc(MC_TLA, q, cache=True, deadlock=False, timeout=1200, heap="4g")
            V.add_tlc("split_destructor_id_released_first", r)
            V.extra["split_destructor_variant"] = {"IdFirst": True, "model_counterexample": r.violation, "events": re.findall(r'op \|-> "(\w+)"', r.error_trace)}
            log("NOTE: model variant IdFirst=TRUE (id released before the clearing walk): TLC %s" % ("violates " + str(r.violation) if not r.ok else "has no counterexample"))
        V.cov["exhaustive"] = True
        pool.shutdown()
    V.assumptions += [
        "one family (item type) per history: the code keeps separate thread-id / instance-id allocators, storage vectors and per-thread caches per type, so families cannot interact",
        "values are mapped order-preservingly onto a small range (the type's extremes SSIZE_MIN / SSIZE_MAX stay the extremes); adder / summer overflow is outside the property",
        "plain (non-atomic) cell accesses are not schedule points of vsched: concurrent reads are interleaved with counting at call / return and at the atomic steps of local() / for_each only; the finer interleavings are covered by the split actions of the model",
        "for_each_alive: the const overload (the non-const one does not clip to the vector size)",
    ]
    return V.finish()
