"""C13: coroutines - each suspension resumed exactly once, on its executor, right result; coroutine futex wake/cancel.
Pipeline:
   1. real C++20 coroutines (co_driver) run under vsched: fixed programs, generated programs, preemption-bounded
      exploration and DIRECTED schedules staged at function boundaries of the unmodified code
      (Futex::remove_awaiter entry, IdAllocator::deallocate return; -finstrument-functions seam)
   2. every execution is judged by the L1 monitor Co_Mon.tla (TLC) - the only source of execution-level verdicts
   3. TLC model-checks the L2 specs CoFutex / Cancel / CoTask.  The variant of CoFutex that is checked follows the
      code: a repair switch (Fix) is on exactly when the directed witness of that defect no longer shows up in the
      running code, so a counterexample is always one of the model that matches what the code does.
"""
import concurrent.futures
import json
import os
import random
import re
import sys

sys.path.insert(0, os.path.dirname(os.path.abspath(__file__)))
import co_common as co
import vlib
from vlib import log

SPEC = vlib.SPEC
MON = os.path.join(SPEC, "Co_Mon.tla")

# (wt, em, cex, prog, park)
FIXED = [
    ("0:mm-1:m", "iq", "u", "s0.s1_k.k_a", ""),
    ("0:m-0:m", "ii", "u", "s0.s1_k_c10", ""),
    ("0:m-1:m-0:m", "iq", "u", "s0.s1.s2_a_k_c10", ""),
    ("0:mm-1:mm", "qi", "u", "s0_s1_k.a_c00.c11", ""),
    ("0:mm-0:mm-1:m", "ii", "u", "s0.s1_a.a_s2.k", ""),
    ("0:c-0:m", "ii", "u", "s0.s1_k", ""),
    ("0:cm-1:mc", "qi", "u", "s0.s1_k.a_c01", ""),
    ("0:mm-1:m", "qq", "u", "s0.s1_k.k_c00.c01_a", ""),
    ("0:nn", "iq", "u", "s0_v00.v01_c00.c01", ""),
    ("0:nn", "qi", "1", "s0_v01.v00_c00.c01_c00", ""),
    ("0:n-1:n", "iq", "1", "s0.s1_c00.v10_v00.c10_c10", ""),
    ("0:tf-1:it", "iq", "1", "s0.s1_v00.v11_v01", ""),
    ("0:ff-1:t", "qq", "u", "s0_v00.s1_v01.v10", ""),
    ("0:ti-1:ft", "qi", "0", "s0.s1_v00_v10.v11", ""),
    ("0:mn-1:tm", "iq", "0", "s0.s1_k.v01.k_c01.v10.a", ""),
    # the futex word changes: wakers store a new value, then wake; waiters wait for the old / the current value
    ("0:m-1:d", "iq", "u", "s0.s1_u.a", ""),
    ("0:md-0:dm", "ii", "u", "s0_s1_u.k.u.a", ""),
    ("0:d-1:d-0:m", "qi", "u", "s0.s1_u.a_s2.u.k", ""),
    ("0:dd-1:m", "ii", "u", "s0_u.a_s1.u.a_c00", ""),
    ("0:m-0:m-0:mm-0:m", "ii", "u", "s0.s1.s2_c10.c20_a.s3.a.k", ""),
    ("0:nn", "qi", "u", "s0_t00.h0.v00.c00.r0.v01_c01", ""),
]
# executions whose only purpose is to show the mismatch path (kept apart: every one of them trips the known slot leak)
MISMATCH = [
    ("0:x-1:mx", "iq", "u", "s0.s1_k", ""),
    ("0:xm-0:x", "ii", "u", "s0_s1_a", ""),
]
# directed schedules: name -> (program, what it stages)
STAGED = {
    "h3a": ("0:m-0:m", "ii", "u", "s0.s1.p2_w2.c10_w1.k.p1", "rm:c:1:1"),           # canceller owns the first node, has not unlinked it; wake_one
    "h3b": ("0:m-0:m-0:m-0:m", "ii", "u", "s0.s1.s2.p2_w2.a_w1.s3.p1", "de:a:1:1"),  # newcomer re-emplaces the slot wake_all just released
    "h3c": ("0:x", "ii", "u", "s0", ""),                                             # one wait with a non-matching value
    "h3a_q": ("0:m-1:m", "qq", "u", "s0.s1.p2_w2.c10_w1.k.p1", "rm:c:1:1"),
    "h3b_f": ("0:m-0:m-0:m-0:m-0:m", "ii", "u", "s0.s1.s2.p2_w2.a_w1.s3.s4.p1", "de:a:1:1"),
    "h3b_k": ("0:m-0:m-0:m", "ii", "u", "s0.s1.p2_w2.k.k_w1.s2.p1", "de:k:1:1"),     # same window in wake_one: must be harmless
    "cx_wall": ("0:m-0:m-0:m", "iq", "u", "s0.s1.s2.p2_w2.c10_w1.a.p1", "rm:c:1:1"),  # canceller parked while wake_all runs
    # cancel-vs-wake_all overlap FOLLOWED by new waits and wakes on the same futex (stale links / freed nodes spliced back)
    "cx_wall_then": ("0:m-0:m-0:m-0:m-0:m", "ii", "u", "s0.s1.s2.p2_w2.c20.p3_w1.a.p1.w3.s3.s4.a.k", "rm:c:1:1"),
    "cx_wall_then_q": ("0:m-1:m-0:m-1:mm-0:m", "iq", "u", "s0.s1.s2.p2_w2.c10.p3_w1.a.p1.w3.s3.s4.k.a", "rm:c:1:1"),
    # cancellable on a backlogged queued executor: the inner awaitable completes (proxy finishes standalone and frees its
    # frame) before the cancelled awaiter's queued resumption runs
    "cq_stale": ("0:n", "qi", "u", "s0.t00.h0.v00.c00.r0", ""),
    "cq_stale2": ("0:nn-0:n", "qi", "u", "s0.s1.t00.t10.h0.v00.c00.c10.v10.r0.v01", ""),
    "cx_two": ("0:m-0:m", "ii", "u", "s0.s1.p2_w2.c00_w1.c10.k.p1", "rm:c:1:1"),     # two cancellers and a wake_one
}
EXPECT = {"h3a": "WakeOneWakesOneIfAnyNotCancelling/cancel_of_other_waiter_overlaps",
          "h3b": "WakeAllWakesAll/slot_reuse_during_wake_all",
          "h3c": "NoSlotLeak/mismatching_wait_keeps_slot"}
ASIS_CLAUSE = {"h3a": "WakeOneWakesOneIfAnyNotCancelling", "h3b": "WakeAllWakesAll", "h3c": "NoSlotLeak"}
PB = [("0:m-0:m", "ii", "u", "s0.s1_k_c10", ""), ("0:m", "ii", "u", "s0_u.a", ""), ("0:d-0:m", "ii", "u", "s0.s1_u.k", "")]
ALL_INV = "ResumedExactlyOncePerSuspension NeverLeftSuspendedAfterWakeCondition WakeOneWakesOneIfAnyNotCancelling WakeAllWakesAll MismatchDoesNotSuspend ResumedOnBoundExecutor NoSlotLeak"


def pstr(p):
    s = co.params_of(p[0], p[1], p[2], p[3])
    return s + (",park=" + p[4] if p[4] else "")


def record(progs, seeds, strategy, tag, jobs=8, extra=None):
    execs, status = [], {}
    d = os.path.join(vlib.BUILD, "traces")
    os.makedirs(d, exist_ok=True)
    for idx, p in enumerate(progs):
        raw = os.path.join(d, "C13_%s.%d.%d.ndjson" % (tag, os.getpid(), idx))
        args = ["--scenario", "co", "--params", pstr(p), "--strategy", strategy, "--seeds", "%d:%d" % seeds, "--out", raw, "--max-steps", "30000"]
        if strategy != "pb" and seeds[1] - seeds[0] > 1:
            args += ["-j", str(min(jobs, seeds[1] - seeds[0]))]
        if extra:
            args += extra
        s = vlib.driver_status(vlib.driver("co_driver", args))
        for k, v in s["status"].items():
            status[k] = status.get(k, 0) + v
        execs += list(vlib.split_traces(raw))
        os.unlink(raw)
    return execs, status


def judge(execs, name):
    """run the L1 monitor over all executions at once; returns the verdict string of each ('' = every clause held)"""
    if not execs:
        return [], 0
    path = os.path.join(vlib.BUILD, "traces", "C13_%s.%d.mon.ndjson" % (name, os.getpid()))
    n = 0
    with open(path, "w") as f:
        for ex in execs:
            for e in co.monitor_lines(ex):
                f.write(json.dumps(e, separators=(",", ":")) + "\n")
                n += 1
    r = vlib.validate_trace(MON, os.path.join(SPEC, "mc", "Co_MonAll.cfg"), path)
    os.unlink(path)
    pv = vlib.parse_verif(r.out)
    if not r.ok or not pv or pv[0] < pv[1]:
        raise vlib.Broken("L1 monitor did not accept the traces (monitors must accept every well-formed trace): %s" % (r.error_trace or r.out)[-2500:])
    verdicts = re.findall(r'<<"C13V", "([^"]*)">>', r.out)
    if len(verdicts) != len(execs):
        raise vlib.Broken("L1 monitor reported %d verdicts for %d executions" % (len(verdicts), len(execs)))
    return verdicts, r.distinct


def rerun(key):
    p = key["params"]
    params = ",".join("%s=%s" % (k, v) for k, v in p.items() if v != "")
    raw = os.path.join(vlib.BUILD, "traces", "C13_rerun.%d.ndjson" % os.getpid())
    st = key["strategy"]
    args = ["--scenario", key["scenario"], "--params", params, "--seeds", "%d:%d" % (key["seed"], key["seed"] + 1), "--out", raw, "--max-steps", "30000",
            "--strategy", "mix" if st in ("pct", "random", "mix") else st]
    vlib.driver("co_driver", args)
    ex = list(vlib.split_traces(raw))
    os.unlink(raw)
    return ex[0] if ex else None


def gen_cfg(name, fixset, family, invariants):
    d = os.path.join(vlib.BUILD, "gen", "c13cfg")
    os.makedirs(d, exist_ok=True)
    p = os.path.join(d, name + ".cfg")
    text = "SPECIFICATION Spec\nCONSTANTS\n  Fix = {%s}\n  Configs <- %s\nINVARIANTS %s\nCHECK_DEADLOCK FALSE\n" % (
        ", ".join('"%s"' % f for f in sorted(fixset)), family, invariants)
    if not os.path.exists(p) or open(p).read() != text:
        open(p, "w").write(text)
    return p


def run(pid, tier, seed, replay=None):
    import time
    T0 = time.time()
    phase = {}
    V = vlib.Verdict(pid, tier, seed)
    rng = random.Random(seed * 7919 + 13)
    vlib.build(["co_driver"])

    if replay:
        try:
            key = json.load(open(replay))
        except ValueError:
            raise vlib.Broken("%s is a TLC counterexample of the L2 model (text); it is re-derived by running the check without --replay" % replay)
        ex = rerun(key["exec"])
        verdicts, _ = judge([ex], "replay")
        if verdicts[0]:
            V.violation("%s violated on an execution of the real code (L1 monitor, replay) params=%s" % (verdicts[0], json.dumps(key["exec"]["params"])), replay)
        V.cov["traces_validated_against_impl"] = 1
        V.cov["states"] = V.cov["transitions"] = 1
        V.sample({"replayed": key["exec"]})
        return V.finish()

    # ---- 1. executions of the real code
    base = seed * 1000 + 1
    nseeds = 6 if tier == "quick" else 120
    nrand = 24 if tier == "quick" else 400
    groups = []  # (tag, execs)
    staged_execs, status = record([STAGED[k] for k in STAGED], (base, base + 1), "mix", "staged")
    groups.append(("staged", staged_execs))
    e, s = record(FIXED, (base, base + nseeds), "mix", "fixed")
    groups.append(("fixed", e))
    for k, v in s.items():
        status[k] = status.get(k, 0) + v
    e, s = record(MISMATCH, (base, base + (3 if tier == "quick" else 40)), "mix", "mismatch")
    groups.append(("mismatch", e))
    for k, v in s.items():
        status[k] = status.get(k, 0) + v
    rprogs = [co.gen_program(rng) + ("",) for _ in range(nrand)]
    e, s = record(rprogs, (base, base + (3 if tier == "quick" else 8)), "mix", "rand", jobs=3 if tier == "quick" else 8)
    groups.append(("rand", e))
    for k, v in s.items():
        status[k] = status.get(k, 0) + v
    e, s = record(PB, (1, 2), "pb", "pb", extra=["--pb-bound", "1" if tier == "quick" else "2", "--max-execs", "100" if tier == "quick" else "6000"])
    groups.append(("pb", e))
    for k, v in s.items():
        if not k.startswith("_"):
            status[k] = status.get(k, 0) + v
    execs = [ex for _, g in groups for ex in g]
    V.extra["executions"] = {t: len(g) for t, g in groups}
    V.extra["exec_status"] = status

    phase['record_s'] = round(time.time() - T0, 1)
    # ---- 2. L1 verdicts
    verdicts, mon_states = judge(execs, "all")
    V.cov["transitions"] += mon_states
    V.cov["traces_validated_against_impl"] = len(execs)
    V.extra["l1_monitor"] = {"executions": len(execs), "tlc_states": mon_states, "violating": sum(1 for v in verdicts if v)}
    staged_verdict = {k: verdicts[i] for i, k in enumerate(STAGED)}
    V.extra["staged_verdicts"] = staged_verdict
    seen = {}
    for i, v in enumerate(verdicts):
        if v:
            seen.setdefault(v, []).append(i)
    # reproducibility: the first execution of every witness class is executed again and judged again (one monitor run)
    classes = sorted(seen.items())
    again = []
    for v, idxs in classes:
        key = co.exec_key(execs[idxs[0]])
        again.append(rerun(key) if key["strategy"] != "pb" else execs[idxs[0]])
    v2, st2 = judge(again, "re") if again else ([], 0)
    V.cov["transitions"] += st2
    for (v, idxs), got in zip(classes, v2):
        ex = execs[idxs[0]]
        key = co.exec_key(ex)
        if got != v:
            raise vlib.Broken("violation %s did not reproduce on re-execution of %s (got '%s')" % (v, json.dumps(key), got))
        rp = vlib.save_replay(pid, "L1_%s_%d.json" % (re.sub(r"\W+", "_", v), idxs[0]), {"exec": key, "clause": v, "layer": "L1", "occurrences": len(idxs), "trace": [x for x in ex if x.get("k") in co.L1_KINDS or x.get("k") in ("reset", "end", "parked")][:300]})
        V.violation("%s violated on an execution of the real code (L1 monitor; %d executions of this class) params=%s seed=%s strategy=%s" % (v, len(idxs), json.dumps(key["params"]), key["seed"], key["strategy"]), rp)
    for ex in (staged_execs[0], groups[1][1][0]):
        V.sample({"program": ex[0]["params"], "strategy": ex[0]["strategy"], "events": len(ex), "l1_events": [x for x in ex if x.get("k") in co.L1_KINDS][:10]})

    phase['judge_s'] = round(time.time() - T0, 1)
    # ---- 3. TLC on the L2 models; CoFutex in the variant the code exhibits
    exhibits = {k: staged_verdict[k] == EXPECT[k] for k in EXPECT}
    for k in EXPECT:
        if staged_verdict[k] and not exhibits[k]:
            log("NOTE: directed schedule %s ended with %s" % (k, staged_verdict[k]))
    fixset = {k for k in EXPECT if not exhibits[k]}
    V.extra["code_exhibits"] = exhibits
    V.extra["model_variant_Fix"] = sorted(fixset)
    allfix = {"h3a", "h3b", "h3c"}
    mc = os.path.join(SPEC, "mc")
    jobs = []  # (name, tla, cfg, expected violation or None, tag)
    for k in sorted(EXPECT):
        jobs.append(("cofutex_witness_" + k, "MC_CoFutex.tla", gen_cfg("w_%s_%s" % (k, "".join(sorted(fixset)) or "asis"), fixset, "Cfg_" + k, ALL_INV), None if k in fixset else ASIS_CLAUSE[k], k))
    jobs.append(("cofutex_witness_repaired", "MC_CoFutex.tla", os.path.join(mc, "CoFutex_witness_fixed_sc.cfg"), None, ""))
    if tier == "thorough":
        jobs.append(("cofutex_small_repaired", "MC_CoFutex.tla", os.path.join(mc, "CoFutex_small_fixed_sc.cfg"), None, ""))
    else:
        jobs.append(("cofutex_quick_repaired", "MC_CoFutex.tla", os.path.join(mc, "CoFutex_quick_fixed_sc.cfg"), None, ""))
        jobs.append(("cofutex_valq_repaired", "MC_CoFutex.tla", os.path.join(mc, "CoFutex_valq_fixed_sc.cfg"), None, ""))
    jobs.append(("cancel_quick", "MC_Cancel.tla", os.path.join(mc, "Cancel_quick_sc.cfg"), None, ""))
    jobs.append(("cotask_quick", "MC_CoTask.tla", os.path.join(mc, "CoTask_quick_sc.cfg"), None, ""))
    if tier == "thorough":
        for n in ("3w", "reuse", "2k2c", "val"):
            jobs.append(("cofutex_%s_repaired" % n, "MC_CoFutex.tla", os.path.join(mc, "CoFutex_%s_fixed_sc.cfg" % n), None, ""))
        jobs.append(("cancel_2c", "MC_Cancel.tla", os.path.join(mc, "Cancel_2c_sc.cfg"), None, ""))
        jobs.append(("cotask_3r", "MC_CoTask.tla", os.path.join(mc, "CoTask_3r_sc.cfg"), None, ""))
    par = 4 if tier == "quick" else 3
    wk = max(2, vlib._auto_workers() // par)
    with concurrent.futures.ThreadPoolExecutor(max_workers=par) as pool:
        futs = {name: pool.submit(vlib.tlc, os.path.join(SPEC, tla), cfg, cache=True, workers=wk, timeout=2400, heap="6g") for name, tla, cfg, _, _ in jobs}
        results = {name: f.result() for name, f in futs.items()}
    for name, tla, cfg, expected, tag in jobs:
        r = results[name]
        V.add_tlc(name, r)
        if not r.ok and r.violation in ("tlc_error", "timeout", "assert"):
            raise vlib.Broken("TLC failed on %s: %s" % (cfg, r.error_trace[:2000]))
        if expected is not None:
            # the code shows this defect under the directed schedule; the model of the code as it is must show it too
            if r.ok:
                V.drift += 1
                log("SPEC-DRIFT component=coroutine_futex the code exhibits %s but the as-is model %s does not" % (tag, cfg))
                continue
            rp = vlib.save_replay(pid, "tlc_%s.txt" % name, "model variant Fix=%s\n\n%s" % (sorted(fixset), r.error_trace))
            V.violation("%s/model:%s violated in the L2 model CoFutex describing the code as it is (Fix=%s, %s); the same witness was reached on the real code by the directed schedule" % (r.violation, tag, sorted(fixset), os.path.basename(cfg)), rp)
        elif not r.ok:
            rp = vlib.save_replay(pid, "tlc_%s.txt" % name, r.error_trace)
            V.violation("%s violated in the L2 model %s (%s)" % (r.violation, tla, os.path.basename(cfg)), rp)
    phase['tlc_s'] = round(time.time() - T0, 1)
    V.extra['phase_end_s'] = phase
    V.cov["exhaustive"] = True
    V.assumptions += [
        "deposit box and future are modelled at their L1 (C14 / C08 decide their internals); sequentially consistent interleavings (the futex list is mutex protected, take is one CAS)",
        "executions are serialised by vsched; schedule points are interposed atomics, mutex operations, driver events and the return of IdAllocator::deallocate (-finstrument-functions seam, no source change)",
        "the repaired-model families (Fix = {h3a,h3b,h3c}) describe the proposed patches of findings/C13_*.md, the witness families the code as the directed schedules show it to behave",
        "awaitables are owned by the driver: Futex::Awaitable::await_suspend still reads *this after the node is published (observation O3 in the report), which is outside the statement of C13",
    ]
    return V.finish()
