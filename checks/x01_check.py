"""X01 (extra component): babylon::ApplicationContext - lookup, singleton / factory creation, nested dependency
creation under the recursive holder mutex, clear().  Pipeline (DESIGN.md 2.4, same as c08_check.py):
   1. TLC model-checks the L2 spec AppCtx.tla (SC family exhaustively + weak-memory family, Stale = TRUE) with the
      committed order table spec/mo/MO_AppCtx.tla (in the background while the real code is exercised)
   2. the real ApplicationContext is run under vsched (random / PCT / preemption-bounded schedules; fixed + generated
      registration sets and client programs) and TLC-generated behaviours of the model are replayed with the script strategy
   3. every recorded execution is validated against AppCtx_Mon (L1 clauses), HBMon (generic happens-before over the
      code's real orders, the holder mutexes and the plain accesses to _singleton / the component) and AppCtx_Trace
      (L2 conformance, the same L1 clauses on the L2 state, collects site -> order)
   4. the order table read from the running code is compared with the committed one; if it differs the model is
      re-checked with the code's orders (conformant L2 + TLC counterexample = V2)
"""
import concurrent.futures
import json
import os
import random
import re
import sys
import time

sys.path.insert(0, os.path.dirname(os.path.abspath(__file__)))
import appctx_common as ac
import vlib
from vlib import log

SPEC = vlib.SPEC
DRIVER = ac.DRIVER
JOBS = 4
TLC_WORKERS = int(os.environ.get("VERIF_TLC_WORKERS", "3"))

# (regs, prog) exercised on every run
FIXED = [
    ("10s0", "p10_10_10_10"),
    ("10s0", "p10.10_10.10_10"),
    ("10s0-20_20s0", "p10_20_10.20"),
    ("10s0-20_20s0-30_30s0", "p10_30.20_20.10_30"),
    ("10s1", "p10_10.10_10"),
    ("10s0-20_20s1", "p10.10_20.10_10"),
    ("10s0-20-30_20s0_30s1", "p10_20.30_10.20"),
    ("10s0-20_20s0-10", "p10_10.10_10"),            # dependency cycle, every thread enters at the same end
    ("10s0-10", "p10_10"),                           # self dependency
    ("11s0_12s0", "p10.11_12.10_11.12"),             # same type, names a / b: by type alone is ambiguous
    ("11s0_11s0_20s0-11", "p11.20_10.20"),           # same type and name twice
    ("30f0-10_10s0", "p30.30_30.10_30"),             # factory with a singleton dependency
    ("30f1_10s0-30", "p30.10_10"),                   # failing factory as a dependency
    ("10s0-20-30_20s0-40_30s0-40_40s0", "p10_30_20.40"),  # diamond
    ("10s0-20", "p10_20.10"),                        # dependency that is not registered
    ("10s0_20s0_31f0-10-20", "p10.20_20.10_31.30"),
    ("11s0-22_22s0_13f0-11", "p11_22.13_10.13_21"),
]
PB = {
    "quick": [("10s0", "p10_10", 2, 90), ("10s0-20_20s0", "p10_20", 2, 90), ("10s1", "p10_10.10", 2, 70), ("10s0-20_20s0-10", "p10_10", 1, 50)],
    "thorough": [("10s0", "p10_10", 3, 1500), ("10s0-20_20s0", "p10_20", 3, 1500), ("10s1", "p10_10.10", 3, 1200), ("10s0-20_20s0-10", "p10_10", 2, 600),
                 ("10s0", "p10_10_10", 2, 1500), ("30f0-10_10s0", "p30_10", 2, 800)],
}

CLAUSES = {"LookupCorrect", "FoundAndCreated", "FailureNeverHandedOut", "CreatedAtMostOnce", "InitExactlyOnce", "SameInstance", "FullyInitialised",
           "FactoryFresh", "DepsBeforeInit", "SingletonOutlivesUse", "DestroyedOnce", "ClearDestroysAll", "ClearEmpties", "ClearOrder",
           "NoDeadlock", "NoLivelock", "NoCrash", "Protocol", "StateForward", "NoDataRace", "PublishedConsistent", "MutexDiscipline", "deadlock", "Holds"}


def gen_program(rng):
    """random registrations (1-4, types 1-3, optional names, singleton / factory, failing, dependencies) and 2-4 client threads"""
    for _ in range(100):
        n = rng.choice([1, 2, 2, 3, 3, 4])
        regs = []
        for i in range(n):
            regs.append({"ty": rng.choice([1, 1, 2, 2, 3]), "nm": rng.choice([0, 0, 0, 1, 2]), "fac": rng.random() < 0.2, "fail": rng.random() < 0.15, "deps": []})
        keys = [(r["ty"], 0) for r in regs] + [(r["ty"], r["nm"]) for r in regs if r["nm"]] + [(4, 0)]
        for r in regs:
            for _ in range(rng.choice([0, 0, 1, 1, 2])):
                ty, nm = rng.choice(keys)
                r["deps"].append({"ty": ty, "nm": nm})
        if ac.factory_cycle(regs):
            continue
        prog = [[dict(zip(("ty", "nm"), rng.choice(keys))) for _ in range(rng.choice([1, 1, 2, 3]))] for _ in range(rng.choice([2, 2, 3, 3, 4]))]
        if ac.cross_thread_cycle(regs, prog):
            continue
        return ac.fmt_regs(regs), ac.fmt_prog(prog)
    return "10s0", "p10_10"


def record(progs, seeds, strategy, out, extra=None):
    execs, status = [], {}
    os.makedirs(os.path.dirname(out), exist_ok=True)
    for idx, (regs, prog) in enumerate(progs):
        raw = "%s.%d.ndjson" % (out, idx)
        args = ["--scenario", "appctx", "--params", ac.params_of(regs, prog), "--strategy", strategy, "--seeds", "%d:%d" % seeds, "--out", raw, "--max-steps", "20000", "--timeout-ms", "60000"]
        if strategy != "pb":
            args += ["-j", str(JOBS)]
        if extra:
            args += extra
        s = vlib.driver_status(vlib.driver(DRIVER, args))
        for k, v in s["status"].items():
            status[k] = status.get(k, 0) + v
        execs += list(vlib.split_traces(raw))
        os.unlink(raw)
    return execs, status


def replay_behaviours(behs, out):
    """replay TLC behaviours of the model in the real code: one `params|script` line per behaviour"""
    os.makedirs(os.path.dirname(out), exist_ok=True)
    sf = out + ".scripts"
    with open(sf, "w") as f:
        for regs, prog, steps in behs:
            f.write("%s|%s\n" % (ac.params_of(regs, prog), ",".join(map(str, steps))))
    raw = out + ".ndjson"
    s = vlib.driver_status(vlib.driver(DRIVER, ["--scenario", "appctx", "--scripts-file", sf, "--out", raw, "-j", str(JOBS), "--max-steps", "20000", "--timeout-ms", "60000"]))
    execs = list(vlib.split_traces(raw))
    os.unlink(raw)
    os.unlink(sf)
    return execs, s["status"]


def followed(ex):
    """did the real code perform its logged steps in exactly the thread order of the behaviour"""
    script = ex[0].get("script", [])
    if ex[-1].get("status") != "ok":
        return False
    got = [e["t"] for e in ex if e.get("t", 0) > 0 and e.get("k") in ("call", "ret", "ctor", "ib", "ie", "dtor", "use", "load", "store", "faa")]
    return got[:len(script)] == script and len(got) >= len(script)


def regen_mo(pairs, committed_path, out_dir):
    text = open(committed_path).read()
    committed = dict(re.findall(r"(\w+) \|-> \"(\w+)\"", text))
    rank = {"none": 0, "rlx": 1, "con": 2, "acq": 2, "rel": 2, "ar": 3, "sc": 4}
    seen = {}
    for site, mo in pairs:
        if site in seen and seen[site] != mo:
            a, b = seen[site], mo
            seen[site] = "rlx" if rank[a] == rank[b] else (a if rank[a] < rank[b] else b)
        else:
            seen[site] = mo
    table = dict(committed)
    table.update({k: v for k, v in seen.items() if k in committed})
    changed = {k: (committed[k], table[k]) for k in committed if table[k] != committed[k]}
    unobserved = sorted(k for k in committed if k not in seen)
    path = None
    if changed:
        os.makedirs(out_dir, exist_ok=True)
        path = os.path.join(out_dir, "MO_AppCtx.tla")
        body = ", ".join('%s |-> "%s"' % (k, table[k]) for k in committed)
        open(path, "w").write("----------------------------- MODULE MO_AppCtx -----------------------------\n(* generated from the running code *)\nMO == [\n  %s\n]\n=============================================================================\n" % body)
    return table, changed, unobserved, path


def exec_key(ex):
    h = ex[0]
    return {"scenario": h["scn"], "params": h["params"], "seed": h["seed"], "strategy": h["strategy"], "script": h.get("script", [])}


def rerun(key):
    """re-execute one recorded execution deterministically"""
    p = key["params"]
    params = ",".join("%s=%s" % (k, v) for k, v in p.items())
    raw = os.path.join(vlib.BUILD, "traces", "x01_rerun.%d.ndjson" % os.getpid())
    os.makedirs(os.path.dirname(raw), exist_ok=True)
    st = key["strategy"]
    args = ["--scenario", key["scenario"], "--params", params, "--seeds", "%d:%d" % (key["seed"], key["seed"] + 1), "--out", raw, "--max-steps", "20000", "--timeout-ms", "60000"]
    if st == "pb":
        for regs, prog, bound, mx in PB["quick"] + PB["thorough"]:
            if str(p.get("prog")) != prog or str(p.get("regs")) != regs:
                continue
            vlib.driver(DRIVER, args + ["--strategy", "pb", "--pb-bound", str(bound), "--max-execs", str(mx)])
            found = [ex for ex in vlib.split_traces(raw) if ex[0].get("script", []) == key.get("script", [])]
            os.unlink(raw)
            if found:
                return found[0]
        return None
    if st == "script":
        args += ["--strategy", "script", "--script", ",".join(map(str, key.get("script", [])))]
    else:
        args += ["--strategy", "mix"]
    vlib.driver(DRIVER, args)
    ex = list(vlib.split_traces(raw))
    os.unlink(raw)
    return ex[0] if ex else None


def mc_list(tier):
    mcs = [("sc", "AppCtx_sc.cfg"), ("wm", "AppCtx_wm.cfg")]
    if tier == "thorough":
        mcs += [("sc3", "AppCtx_sc3.cfg"), ("wm3", "AppCtx_wm3.cfg")]
    return mcs


def run_mc(name, cfg, tag, lib, workers):
    return name, cfg, vlib.tlc(os.path.join(SPEC, "MC_AppCtx.tla"), os.path.join(SPEC, "mc", cfg), cache=True, extra_hash=tag, lib_dirs=lib, timeout=3000, heap="6g", workers=workers)


def submit_all(pool, jobs):
    futs = []
    for fn, args in jobs:
        futs.append(pool.submit(fn, *args))
        time.sleep(0.25)
    return futs


def clause_name(what):
    return what[1:] if what.startswith("T") and what[1:] in CLAUSES else what


def run(pid, tier, seed, replay=None):
    V = vlib.Verdict(pid, tier, seed)
    rng = random.Random(seed * 7919 + 101)
    vlib.NCPU = min(vlib.NCPU, 4)          # shared machine: -j4 builds
    vlib.build([DRIVER])
    mo_committed = os.path.join(SPEC, "mo", "MO_AppCtx.tla")
    committed = dict(re.findall(r"(\w+) \|-> \"(\w+)\"", open(mo_committed).read()))
    tag0 = json.dumps(committed, sort_keys=True)

    pool = concurrent.futures.ProcessPoolExecutor(max_workers=4)
    pending = []
    if not replay:
        pending = submit_all(pool, [(run_mc, (name, cfg, tag0, [], TLC_WORKERS)) for name, cfg in mc_list(tier)])

    tdir = os.path.join(vlib.BUILD, "traces")
    nfollowed = nbeh = 0
    if replay:
        V.write_evidence = False
        key = json.load(open(replay))
        ex = rerun(key["exec"])
        if ex is None:
            raise vlib.Broken("cannot re-execute %s" % replay)
        execs, status = [ex], {}
    else:
        nseeds = 8 if tier == "quick" else 80
        nrand = 12 if tier == "quick" else 150
        base = seed * 1000 + 1
        execs, status = record(FIXED, (base, base + nseeds), "mix", os.path.join(tdir, pid + "_fixed"))
        rprogs = [gen_program(rng) for _ in range(nrand)]
        e2, s2 = record(rprogs, (base, base + (3 if tier == "quick" else 6)), "mix", os.path.join(tdir, pid + "_rand"))
        execs += e2
        stats = [s2]
        for i, (regs, prog, bound, mx) in enumerate(PB[tier if tier in PB else "quick"]):
            e3, s3 = record([(regs, prog)], (1, 2), "pb", os.path.join(tdir, "%s_pb%d" % (pid, i)), extra=["--pb-bound", str(bound), "--max-execs", str(mx)])
            execs += e3
            stats.append(s3)
        # spec -> code: behaviours of the model (replayable restriction of Next) drive the real code
        behs = ac.tlc_behaviours(os.path.join(SPEC, "MC_AppCtx.tla"), os.path.join(SPEC, "mc", "AppCtx_replay.cfg"), 40 if tier == "quick" else 600, 400, seed, os.path.join(vlib.BUILD, "sim_" + pid))
        e4, s4 = replay_behaviours(behs, os.path.join(tdir, pid + "_replay"))
        nbeh = len(e4)
        nfollowed = sum(1 for ex in e4 if followed(ex))
        execs += e4
        stats.append(s4)
        for s in stats:
            for k, v in s.items():
                status[k] = status.get(k, 0) + v
        if nbeh and nfollowed < nbeh:
            # the code left the thread order the model predicted: conformance (drift) is decided below by L2 trace validation
            log("NOTE: %d of %d TLC behaviours were not followed exactly by the real code" % (nbeh - nfollowed, nbeh))
    V.extra["executions"] = len(execs)
    V.extra["exec_status"] = status
    V.extra["tlc_behaviours_replayed"] = nbeh
    V.extra["tlc_behaviours_followed_exactly"] = nfollowed
    timing = {"record_s": round(time.time() - V.t0, 1)}

    layers = (
        ("L1", os.path.join(SPEC, "AppCtx_Mon.tla"), os.path.join(SPEC, "mc", "AppCtx_Mon.cfg"), ac.monitor_lines),
        ("HB", os.path.join(SPEC, "lib", "HBMon.tla"), os.path.join(SPEC, "mc", "HBMon.cfg"), ac.hb_lines),
        ("L2", os.path.join(SPEC, "AppCtx_Trace.tla"), os.path.join(SPEC, "mc", "AppCtx_Trace.cfg"), ac.normalise),
        ("L2C", os.path.join(SPEC, "AppCtx_Trace.tla"), os.path.join(SPEC, "mc", "AppCtx_TraceConf.cfg"), ac.normalise),
    )
    # the conformance-only run (no invariants: never stops at a clause violation, so it decides drift for every execution) is
    # needed only when the run with the L1 clauses reported something
    futs = dict(zip([x[0] for x in layers[:3]], submit_all(pool, [(vlib.check_traces, (tla, cfg, [conv(ex) for ex in execs], pid + "_" + name, 4)) for name, tla, cfg, conv in layers[:3]])))

    def judge(name, tla, cfg, conv, exs, issues):
        for iss in issues:
            ex = exs[iss.exec_index]
            key = exec_key(ex)
            if iss.kind == "rejected":
                if name == "L2":
                    continue            # counted by the conformance-only run
                if name == "L2C":
                    V.drift += 1
                    log("SPEC-DRIFT component=appctx exec=%s seed=%s strategy=%s line=%d %s" % (json.dumps(key["params"]), key["seed"], key["strategy"], iss.line, iss.detail))
                    continue
                raise vlib.Broken("%s monitor rejected a trace (monitors must accept every well-formed trace): %s" % (name, iss.detail))
            clause = iss.kind.split(":", 1)[1]
            what = clause
            if name == "L1":
                m = re.findall(r'bad = "(\w+)"', iss.detail)
                what = m[-1] if m and m[-1] else clause
            if name == "HB":
                what = "NoDataRace"
            what = clause_name(what)
            if what not in CLAUSES:
                raise vlib.Broken("unknown clause %s reported by %s" % (what, name))
            if not replay:
                ex2 = rerun(key)
                lines2 = [conv(ex2)] if ex2 else []
                _, iss2, _ = vlib.check_traces(tla, cfg, lines2, pid + "_re") if lines2 else (0, [], {})
                if not iss2 and what == "NoCrash" and ex2 and ex2[-1].get("status") == "ok":
                    V.extra["transient_process_faults"] = V.extra.get("transient_process_faults", 0) + 1
                    log("NOTE: execution %s ended with %s but the same schedule re-executes cleanly; skipped" % (json.dumps(key), json.dumps(ex[-1])))
                    continue
                if not iss2:
                    raise vlib.Broken("violation %s did not reproduce on re-execution of %s" % (what, json.dumps(key)))
            pr = key["params"]
            rp = vlib.save_replay(pid, "%s_%s_%d.json" % (name, what, iss.exec_index), {"exec": key, "clause": what, "layer": name, "line": iss.line, "trace": ex[:300]})
            V.violation("%s violated on an execution of the real code (%s layer) regs=%s prog=%s seed=%s strategy=%s" % (what, name, pr.get("regs"), pr.get("prog"), key["seed"], key["strategy"]), rp)

    results = {}
    for name, tla, cfg, conv in layers:
        if name == "L2C":
            if results["L2"][1]:
                results[name] = vlib.check_traces(tla, cfg, [conv(ex) for ex in execs], pid + "_" + name, 4)
            else:
                results[name] = results["L2"]
            acc, issues, st = results[name]
        else:
            acc, issues, st = futs[name].result()
        results[name] = (acc, issues, st)
        V.cov["transitions"] += st["states"]
        V.extra["trace_" + name] = {"accepted": acc, "issues": len(issues), "tlc_states": st["states"], "wall_s": round(st["wall"], 1), "unchecked": st["unchecked"]}
        judge(name, tla, cfg, conv, execs, issues)
    timing["validated_s"] = round(time.time() - V.t0, 1)
    V.cov["traces_validated_against_impl"] = results["L1"][0] + results["L2C"][0] + results["HB"][0]
    for ex in execs[:2]:
        V.sample({"program": ex[0]["params"], "strategy": ex[0]["strategy"], "events": len(ex), "first_events": [e for e in ex[1:40] if e.get("t", 0) > 0][:8]})

    table, changed, unobserved, mo_path = regen_mo(sorted(set(map(tuple, results["L2"][2]["pairs"])) | set(map(tuple, results["L2C"][2]["pairs"]))), mo_committed, os.path.join(vlib.BUILD, "gen", "mo_" + pid))
    V.extra["mo_table"] = table
    V.extra["mo_changed_vs_committed"] = {k: list(v) for k, v in changed.items()}
    V.extra["mo_sites_unobserved"] = unobserved
    V.extra["l2_conformant"] = V.drift == 0

    if not replay:
        done = [f.result() for f in pending]
        if changed:
            lib = [os.path.dirname(mo_path)]
            tag = json.dumps(table, sort_keys=True)
            done = [f.result() for f in submit_all(pool, [(run_mc, (name, cfg, tag, lib, TLC_WORKERS)) for name, cfg in mc_list(tier)])]
        for name, cfg, r in done:
            V.add_tlc(name, r)
            if not r.ok:
                if r.violation in ("tlc_error", "timeout"):
                    raise vlib.Broken("TLC failed on %s: %s" % (cfg, r.error_trace[:2000]))
                clause = r.violation
                if clause not in CLAUSES:
                    raise vlib.Broken("TLC reports an unknown clause %s on %s" % (clause, cfg))
                if V.drift:
                    log("NOTE: TLC counterexample for %s ignored for the verdict because the L2 spec drifted from the code" % clause)
                    continue
                if not changed:
                    raise vlib.Broken("TLC counterexample for %s with the COMMITTED order table on %s: the specification is wrong" % (clause, cfg))
                rp = vlib.save_replay(pid, "tlc_%s_%s.txt" % (name, clause), "order table (from the running code): %s\nchanged vs committed: %s\n\n%s" % (json.dumps(table), json.dumps(changed), r.error_trace))
                V.violation("%s violated in the L2 model %s with the memory orders the code executes (changed: %s)" % (clause, cfg, json.dumps(changed)), rp)
        V.cov["exhaustive"] = True
    pool.shutdown(wait=False)
    timing["mc_done_s"] = round(time.time() - V.t0, 1)
    V.extra["timing"] = timing
    log("%s %s: %d executions (%d/%d TLC behaviours followed exactly), drift %d, phases %s" % (pid, tier, len(execs), nfollowed, nbeh, V.drift, json.dumps(timing)))
    V.extra["constants"] = {"sc": "16 configurations: 1-4 registrations (chain, diamond, failing, cyclic, self-dependent, named / ambiguous / doubly registered, factory, missing dependency), 2-3 threads with 1-2 get_or_create each",
                            "wm": "Stale=TRUE: 7 configurations, 2-3 threads (double-checked fast path, chain, failure, ambiguity on the EMPTY holder, factory, cycle)",
                            "thorough": "3-thread versions of chain / failing dependency / diamond / factory / cycle / ambiguity, Stale=TRUE with 3 threads"}
    V.assumptions += [
        "WeakMem.tla is a subset of ISO C++ (promise-free release/acquire, stores at the end of mo)",
        "the plain accesses to _singleton_state under the holder mutex (read, store INITIALIZING, support_singleton()) are modelled as relaxed atomic accesses; they are invisible to the harness (the constructor event reports the value it sees)",
        "registration happens before the threads start (register_component is not thread safe by design)",
        "components follow the BABYLON_AUTOWIRE discipline: initialize() fetches its dependencies with get_or_create and fails on the first missing one; the macro expansion itself is not exercised",
        "one type per component (convertible base types BS... are not modelled)",
        "programs in which two threads enter one dependency cycle from different ends are excluded from the deadlock clause (findings/X01_cross_thread_cycle_deadlock.md)",
        "executions are serialised by vsched: weak-memory outcomes are decided on the model and by the happens-before monitor, not on the host",
    ]
    return V.finish()
