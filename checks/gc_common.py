"""Trace normalisation for the GarbageCollector driver (C10): vsched trace -> lines for GC_Trace.tla (L2 over
the abstract epoch / abstract queue) and GC_Mon.tla (L1)."""
import re

MAXV = 1000000
OPS = {"rt": "retire", "en": "enter", "lv": "leave", "st": "stop", "dt": "dtor"}
DEF = {"t": 0, "k": "", "op": "", "x": 0, "n": 0, "vals": []}
COLLECTOR = 1   # vsched id of the collector thread (first thread created after vrun::begin())


def parse_prog(s):
    prog = []
    for th in s.split("_"):
        ops = []
        for tok in th.split("."):
            if not tok:
                continue
            m = re.match(r"([a-z]+)(\d*)$", tok)
            if m.group(1) in ("sg", "wt", "sl"):
                continue   # scheduling helpers of the driver: not operations of the history
            ops.append({"op": OPS[m.group(1)], "x": int(m.group(2) or 0)})
        prog.append(ops)
    return prog


def big(v):
    return MAXV if v == -1 else v


def qcap_of(events):
    for e in events[:6]:
        if e.get("k") == "info":
            return e["qcap"]
    return int(events[0]["params"].get("cap", 1))


def normalise(events):
    """-> lines for GC_Trace.tla.  Client threads are renumbered 1..N, the collector is thread 0.
    The operations of the real epoch / queue are mapped to the steps of the abstract ones:
      client : version load in lock -> eload(value) ; slot store -> epub(value) / eleave ; version faa -> tick(value)
               push_idx faa -> ticket ; release store of the queue slot -> fill ; join of the collector -> join
      collector: pop_idx load -> cbegin ; pop_idx store -> take(n, ids moved out) ; queue slot store -> rel
               count load -> lwb ; last load of that scan -> lwe ; reclaimer invocation -> reclaim(id) ; usleep -> sleep ; exit"""
    out = []
    head = events[0]
    p = head["params"]
    out.append(dict(DEF, k="reset", cap=qcap_of(events), prog=parse_prog(p["prog"]), nreg=int(p.get("nreg", 1))))
    cur_op = {}
    touched = {}
    pop_idx = 0
    # position of the last scan load of every low_water_mark of the collector
    lwe_at = set()
    n = len(events)
    for i, e in enumerate(events):
        if e.get("t") == COLLECTOR and e.get("k") == "load" and e.get("loc") == "count":
            last = i
            for j in range(i + 1, n):
                f = e2 = events[j]
                if f.get("t") != COLLECTOR:
                    continue
                if f.get("k") == "load" and f.get("loc") in ("tcount", "slot"):
                    last = j
                    continue
                if f.get("k") == "load" and f.get("loc") == "?":
                    continue
                break
            lwe_at.add(last)
    pending_take = None
    for i, e in enumerate(events):
        k = e.get("k")
        t = e.get("t", 0)
        if k == "end":
            if pending_take is not None:
                out.append(pending_take)
                pending_take = None
            out.append(dict(DEF, k="end", status=e.get("status", "?")))
            continue
        if k in ("reset", "info", "final") or t <= 0:
            continue
        if t == COLLECTOR:
            loc = e.get("loc")
            if k == "load" and loc == "pop_idx":
                pop_idx = e["v"]
                out.append(dict(DEF, k="cbegin"))
            elif k == "store" and loc == "pop_idx":
                pending_take = dict(DEF, k="take", n=e["v"] - pop_idx, vals=[])
                pop_idx = e["v"]
            elif k == "rmove" and pending_take is not None:
                pending_take["vals"].append(e["id"])
            elif k == "store" and loc == "qslot":
                if pending_take is not None:
                    out.append(pending_take)
                    pending_take = None
                out.append(dict(DEF, k="rel"))
            elif k == "load" and loc == "count":
                out.append(dict(DEF, k="lwb"))
                if i in lwe_at:
                    out.append(dict(DEF, k="lwe"))
            elif k == "load" and loc in ("tcount", "slot") and i in lwe_at:
                out.append(dict(DEF, k="lwe"))
            elif k == "reclaim":
                out.append(dict(DEF, k="reclaim", x=e["id"]))
            elif k == "sleep":
                out.append(dict(DEF, k="sleep"))
            elif k == "exit":
                out.append(dict(DEF, k="exit"))
            continue
        u = t - 1
        if k in ("call", "ret"):
            if k == "ret" and e["op"] in ("enter", "leave") and not touched.get(t):
                # a lock / unlock that neither published nor reset the slot: nested
                out.append(dict(DEF, t=u, k="enest" if e["op"] == "enter" else "lnest", x=e["x"]))
            cur_op[t] = (e["op"], e["x"]) if k == "call" else None
            touched[t] = False
            if e["op"] in ("retire", "stop", "dtor"):
                out.append(dict(DEF, t=u, k=k, op=e["op"], x=e["x"]))
            continue
        loc = e.get("loc")
        cop = cur_op.get(t)
        if cop is None:
            continue
        if loc in ("version", "slot") and cop[0] in ("enter", "leave"):
            touched[t] = True
        if k == "load" and loc == "version" and cop[0] == "enter":
            out.append(dict(DEF, t=u, k="eload", x=cop[1], n=e["v"]))
        elif k == "store" and loc == "slot" and cop[0] in ("enter", "leave"):
            if e["v"] == -1:
                out.append(dict(DEF, t=u, k="eleave", x=cop[1]))
            else:
                out.append(dict(DEF, t=u, k="epub", x=cop[1], n=e["v"]))
        elif k == "faa" and loc == "version":
            out.append(dict(DEF, t=u, k="tick", n=e["v"] + 1))
        elif k == "faa" and loc == "push_idx":
            out.append(dict(DEF, t=u, k="ticket"))
        elif k == "store" and loc == "qslot":
            out.append(dict(DEF, t=u, k="fill"))
        elif k == "join" and e.get("child") == COLLECTOR:
            out.append(dict(DEF, t=u, k="join"))
    return out


def monitor_lines(events):
    """-> lines for GC_Mon.tla: call / return of retire, stop, destructor, region enter / leave; reclaimer invocations;
    how the execution ended"""
    out = []
    D = {"t": 0, "k": "", "op": "", "x": 0, "n": 0, "cap": 0, "batch": 0, "status": "", "cnt": []}
    for e in events:
        k = e.get("k")
        if k == "reset":
            cap = qcap_of(events)
            out.append(dict(D, k="reset", cap=cap, batch=min(1024, cap)))
        elif k in ("call", "ret"):
            out.append(dict(D, k=k, t=e["t"], op=e["op"], x=e["x"]))
        elif k == "reclaim":
            out.append(dict(D, k="reclaim", t=e["t"], x=e["id"], n=e["n"]))
        elif k == "final":
            out.append(dict(D, k="final", cnt=e["cnt"][:12]))
        elif k == "end":
            out.append(dict(D, k="end", status=e.get("status", "?")))
    return out


# ----------------------------------------------------------------------------- programs
# (prog, cap, nreg, style).  The owner thread retires, stops and destroys; regions are opened / closed by OTHER
# threads (a stop() issued inside one's own region is a self-deadlock once stop() waits for the regions).
# The collector (and its epoch) is destroyed only after every region thread is through (flag 3 + r): destroying
# the epoch under an open region is a use-after-free of the client, whatever the collector does.
def make(owner, regions, cap, nreg, style):
    """owner: op string without the final dt; regions: one op string per region thread r = 1.."""
    waits = "".join("wt%d." % (3 + r) for r in range(1, len(regions) + 1))
    threads = [owner + "." + waits + "dt"]
    for r, ops in enumerate(regions, 1):
        threads.append(ops + ".sg%d" % (3 + r))
    return "_".join(threads), cap, nreg, style


FIXED = [
    make("rt1.rt2.st", ["en1.lv1"], 2, 1, 0),
    make("rt1.rt2.rt3.st", ["en1.lv1"], 1, 1, 0),
    make("rt1.rt2.rt3.rt4.st", ["en1.lv1", "en2.lv2"], 2, 2, 0),
    make("rt1.rt2.rt3.rt4", ["en1.lv1"], 4, 1, 0),
    make("rt1.rt2.st", ["en1.lv1.en1.lv1"], 1, 1, 0),
    make("rt1.rt2.rt3.rt4.rt5.rt6", ["en1.lv1", "en2.lv2"], 2, 2, 1),
    make("rt1.rt2.rt3.st", [], 0, 0, 0),                     # default queue capacity, no region at all
    make("rt1.rt2.rt3.rt4.st.st", [], 4, 0, 0),
    # stop() while a region is open: the region thread leaves 5 ms (virtual) later - hypothesis H2
    make("wt1.rt1.st", ["en1.sg1.sl5.lv1"], 2, 1, 0),
    make("wt1.rt1.rt2.rt3.st", ["en1.sg1.sl5.lv1"], 4, 1, 0),
    make("rt1.wt1.rt2.st", ["en1.sg1.sl5.lv1"], 1, 1, 1),
    # retire blocks: capacity 1, a region open for 20 ms holds everything back
    make("wt1.rt1.rt2.rt3.rt4.st", ["en1.sg1.sl20.lv1"], 1, 1, 0),
]
# several retiring threads (ids 1.. / 5.. / 9..).  Flag 6 / 7: the other retirers are through (stop() must not overlap a
# retire()), flag 4 / 5: the region threads are through (the epoch is destroyed afterwards).
MULTI = [
    # a thread that retires inside its own region, next to the owner's retirements: batches not sorted by epoch
    ("rt1.rt2.wt6.st.wt4.dt_en1.rt5.sg6.sl8.lv1.sg4", 2, 1, 0),
    ("rt1.rt2.rt3.wt6.st.wt4.dt_en1.rt5.rt6.sg6.sl8.lv1.sg4", 4, 1, 0),
    ("rt1.wt6.st.wt4.dt_en1.rt5.sg6.sl5.lv1.sg4", 2, 1, 1),
    # the second retirer starts 3 ms later: the pop index is odd, its two tasks are consumed across the ring wrap
    ("rt1.wt6.st.wt4.dt_sl3.en1.rt5.rt6.sg6.sl8.lv1.sg4", 2, 1, 0),
    # pure retirers contending for tickets
    ("rt1.rt2.rt3.wt6.st.dt_rt5.rt6.rt7.sg6", 2, 0, 0),
    ("rt1.rt2.wt6.wt7.st.dt_rt5.rt6.sg6_rt9.rt10.sg7", 4, 0, 0),
    ("rt1.rt2.rt3.wt6.dt_rt5.rt6.rt7.sg6", 1, 0, 0),
    # two retirers and a separate region thread
    ("rt1.rt2.wt6.st.wt4.dt_wt1.rt5.rt6.sg6_en1.sg1.sl8.lv1.sg4", 2, 1, 0),
]
# nested regions (depth 2): outer enter, retirements by the owner, inner enter / leave, the reclaimers must still wait
NEST = [
    make("wt1.rt1.rt2.st", ["en1.sg1.sl3.en1.lv1.sl5.lv1"], 2, 1, 0),
    make("wt1.rt1.rt2.st", ["en1.sg1.sl3.en1.lv1.sl5.lv1"], 2, 1, 1),
    make("rt1.wt1.rt2.rt3", ["en1.en1.sg1.sl3.lv1.sl3.lv1", "en2.lv2"], 4, 2, 0),
]
# the 16-bit slot versions of the queue wrap at round 32768: retire blocks on a full queue exactly there (a region held
# open keeps the collector from draining: it holds one batch, the queue one capacity, the next retire must wait)
WRAP = [
    make("wt1.rt1.rt2.rt3.rt4.st", ["en1.sg1.sl20.lv1"], 1, 1, 0) + (32766,),
    make("wt1.rt1.rt2.rt3.rt4.st", ["en1.sg1.sl20.lv1"], 1, 1, 0) + (32767,),
    make("wt1.rt1.rt2.rt3.rt4.rt5.rt6.rt7", ["en1.sg1.sl20.lv1"], 2, 1, 0) + (32766 * 2,),
    make("wt1.rt1.rt2.rt3.rt4.rt5.rt6.st", ["en1.sg1.sl20.lv1"], 2, 1, 1) + (32767 * 2,),
]
PB = [
    make("rt1.st", ["en1.lv1"], 1, 1, 0),
    make("rt1.rt2", ["en1.lv1"], 2, 1, 0),
    MULTI[0],
    MULTI[3],
    MULTI[4],
]
# explored much harder when the code no longer follows the L2 specification
STRESS = [MULTI[0], MULTI[3], MULTI[4], MULTI[5], NEST[0], WRAP[0]]


def gen_program(rng):
    cap = rng.choice([1, 1, 2, 2, 4])
    n = rng.randint(1, 7)
    nreg = rng.choice([0, 1, 1, 2])
    style = rng.choice([0, 0, 1])
    owner = ["rt%d" % i for i in range(1, n + 1)]
    if nreg and rng.random() < 0.5:
        owner.insert(rng.randrange(len(owner)), "wt1")   # some retirements certainly inside region 1
    tail = rng.choice(["st", "", "st", "st.st"])
    if tail:
        owner.append(tail)
    regions = []
    for r in range(1, nreg + 1):
        body = "en%d.%s%slv%d" % (r, "sg1." if r == 1 else "", rng.choice(["", "", "sl3.", "sl12.", "sl2.en%d.lv%d.sl2." % (r, r)]), r)
        regions.append(".".join([body] * rng.choice([1, 1, 2])))
    if nreg == 0:
        owner = [o for o in owner if o != "wt1"]
    prog, cap, nreg, style = make(".".join(owner), regions, cap, nreg, style)
    shape = rng.random()
    if shape < 0.35:
        # a second thread retiring concurrently (ids 5..): the owner waits for it (flag 6) before stop() / the destructor
        n2 = rng.randint(1, 3)
        other = ".".join("rt%d" % (4 + i) for i in range(1, n2 + 1)) + ".sg6"
        if nreg and rng.random() < 0.5:
            other = "wt1." + other
        threads = prog.split("_")
        own = threads[0].split(".")
        k = next(i for i, o in enumerate(own) if o.startswith("st") or o.startswith("wt4") or o.startswith("wt5") or o == "dt")
        own.insert(k, "wt6")
        n = min(n, 4)
        own = [o for o in own if not (o.startswith("rt") and int(o[2:]) > 4)]
        prog = "_".join([".".join(own)] + threads[1:] + [other])
    elif shape < 0.6 and nreg >= 1:
        # region thread 1 retires inside its region
        threads = prog.split("_")
        # never more retirements than queue + one batch can hold: a retire() inside a region that blocks for good
        # would be a deadlock of the client
        own = [o for o in threads[0].split(".") if not (o.startswith("rt") and int(o[2:]) > min(4, 2 * cap - 1))]
        k = next(i for i, o in enumerate(own) if o.startswith("st") or o.startswith("wt4") or o.startswith("wt5") or o == "dt")
        own.insert(k, "wt6")
        r1 = threads[1].split(".")
        j = r1.index("lv1")
        r1[j:j] = ["rt5", "sg6"] if cap > 1 else ["sg6"]
        prog = "_".join([".".join(own), ".".join(r1)] + threads[2:])
    if rng.random() < 0.25:
        return prog, cap, nreg, style, rng.choice([32766, 32767]) * cap
    return prog, cap, nreg, style


def params_of(prog, cap, nreg, style, qbase=0):
    return "prog=%s,cap=%d,nreg=%d,style=%d,qbase=%d" % (prog, cap, nreg, style, qbase)
