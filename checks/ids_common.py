"""Trace normalisation for the id allocator / thread id / deposit box driver (property C14; reusable by C13, C17-C20)."""
import glob
import os
import re
import shutil
import subprocess

TAIL = -1
ACTIVE = -2
UNKNOWN = -9

DEF = {"t": 0, "k": "", "loc": "", "i": 0, "v": 0, "vh": 0, "a": 0, "ah": 0, "b": 0, "bh": 0, "ok": True, "mo": "", "mof": "",
       "op": "", "n": 0, "id": 0, "idh": 0, "res": 0, "item": 0, "vals": []}
L2_LOCS = {"head", "next", "fnext", "sver"}
DROP_LOCS = {"ftab", "stab", "dict"}


# ----------------------------------------------------------------------------- parameters <-> configuration
def int_list(s):
    s = str(s)
    return [int(x) for x in s.split(".") if x not in ("", "x", "-")]


def int_lists(s, nthr):
    r = [int_list(x) for x in str(s).split("_")]
    r = r[:nthr] + [[] for _ in range(nthr - len(r))]
    return r


def parse_prog(s):
    prog = []
    for th in str(s).split("_"):
        ops = []
        for tok in th.split("."):
            if tok in ("", "x", "-"):
                continue
            m = re.match(r"([a-z]+)(\d*)$", tok)
            ops.append({"op": m.group(1), "n": int(m.group(2) or 0)})
        prog.append(ops)
    return prog


def prog_str(prog):
    def tok(o):
        return o["op"] + (str(o["n"]) if o["op"] in ("de", "em", "tk", "tr", "fr", "adv") else "")
    return "_".join(".".join(tok(o) for o in th) or "x" for th in prog)


def lists_str(ll):
    return "_".join(".".join(map(str, x)) or "x" for x in ll)


def config_of(scn, p):
    """driver parameters -> the configuration record of Ids.tla / Box.tla"""
    prog = parse_prog(p.get("prog", ""))
    nthr = len(prog)
    c = {"kind": scn, "n": int(p.get("n", 0)) if scn != "tid" else 0, "fr": int_list(p.get("fr", "x")) if scn != "tid" else [],
         "own": int_lists(p.get("own", "x"), nthr) if scn == "ids" else [[] for _ in range(nthr)],
         "prog": prog, "after": int_lists(p.get("after", "x"), nthr), "nb": 0}
    if scn == "box":
        c["nb"] = max(int(p.get("nb", 4)), c["n"])
    return c


def params_of(c, dv=8, dn=16):
    """configuration -> (scenario, driver parameter string)"""
    kind = c["kind"]
    s = "prog=%s,after=%s" % (prog_str(c["prog"]), lists_str(c["after"]))
    if kind != "tid":
        s += ",n=%d,fr=%s,dv=%d,dn=%d" % (c["n"], ".".join(map(str, c["fr"])) or "x", dv, dn)
        # version bases the value dictionary has to cover: every sum of white-box version jumps
        adv = [o["n"] for th in c["prog"] for o in th if o["op"] == "adv"]
        bases = set()
        for k in adv:
            bases |= {k} | {b + k for b in bases}
        if bases:
            s += ",db=%s" % ".".join(map(str, sorted(bases)[:8]))
    if kind == "ids":
        s += ",own=%s" % lists_str(c["own"])
    if kind == "box":
        s += ",nb=%d" % c["nb"]
    return kind, s


def dict_need(c):
    """how many versions / values the value dictionary of an execution has to cover"""
    ops = [o for th in c["prog"] for o in th]
    nver = len(c["fr"]) + sum(1 for o in ops if o["op"] in ("de", "tk", "fr")) + 4
    nval = c["n"] + sum(1 for o in ops if o["op"] in ("al", "em")) + 2
    return nval, nver


# ----------------------------------------------------------------------------- value decoding
def compact(events):
    """drop the value dictionary (kept as header field _tm) and the scheduler's decision records"""
    tm = token_map(events)
    h = dict(events[0], _tm=[[k, v[0], v[1]] for k, v in tm.items()])
    out = [h]
    for e in events[1:]:
        k = e.get("k")
        if k in ("dict", "dec") or (k == "store" and e.get("loc") == "dict"):
            continue
        out.append(e)
    return out


def token_map(events):
    """interned token -> (hi, lo) from the dictionary the driver writes at the end of an execution"""
    if "_tm" in events[0]:
        return {k: (hi, lo) for k, hi, lo in events[0]["_tm"]}
    tm = {}
    pend = None
    for e in events:
        k = e.get("k")
        if k == "dict":
            pend = (e["hi"], e["lo"])
        elif k == "store" and e.get("loc") == "dict" and pend is not None:
            if e["v"] >= 2000000000:
                tm[e["v"]] = pend
            pend = None
    return tm


def lo32(x):
    return TAIL if x == 0xFFFFFFFF else ACTIVE if x == 0xFFFFFFFE else x


def lo16(x):
    return TAIL if x == 0xFFFF else ACTIVE if x == 0xFFFE else x


def decode(v, sz, loc, tm):
    """logged value -> (lo, hi): head words are (value, version), link words are value | TAIL | ACTIVE"""
    if loc == "head":
        if sz == 8:
            if v == -1:
                return TAIL, UNKNOWN
            if v < 2000000000:
                return v, 0
            if v in tm:
                hi, lo = tm[v]
                return lo, hi
            return UNKNOWN, UNKNOWN
        if v == -1:
            return TAIL, 0xFFFF
        if v >= 2000000000:
            return UNKNOWN, UNKNOWN
        return lo16(v & 0xFFFF), v >> 16
    if loc == "fnext":
        if sz == 4:
            if v == -1:
                return TAIL, 0
            if v >= 2000000000:
                if v in tm and tm[v] == (0, ACTIVE):
                    return ACTIVE, 0
                return UNKNOWN, 0
            return v, 0
        return lo16(v), 0
    if v >= 2000000000 or v < 0:
        return UNKNOWN, 0
    return v, 0


# ----------------------------------------------------------------------------- L2 lines
def normalise(events):
    """vsched trace of one execution -> lines for Ids_Trace.tla; None if the execution cannot be decoded
    (no value dictionary because it crashed / was cut off)"""
    h = events[0]
    scn = h["scn"]
    c = config_of(scn, h["params"])
    out = [dict(DEF, k="reset", **c)]
    tm = token_map(events)
    status = events[-1].get("status", "?") if events[-1].get("k") == "end" else "cut"
    if scn != "tid" and not tm and status != "ok":
        return None
    open_de = {}
    for e in events[1:]:
        k = e.get("k")
        t = e.get("t", 0)
        if k == "end":
            out.append(dict(DEF, k="end", op=e.get("status", "?")))
            continue
        if k == "final":
            out.append(dict(DEF, k="final", vals=e["vals"], n=e["end"]))
            continue
        if k == "exit" and t in open_de:
            out.append(dict(DEF, t=t, k="ret", op="de", n=open_de.pop(t)))
            continue
        if t <= 0:
            continue
        if k in ("load", "store", "faa", "cas", "xchg", "fand", "for", "fxor"):
            loc = e.get("loc", "?")
            if loc not in L2_LOCS:
                continue
            n = dict(DEF, t=t, k=k, loc=loc, i=e.get("i", 0), mo=e.get("mo", ""))
            sz = e.get("sz", 4)
            if k in ("load", "store"):
                n["v"], n["vh"] = decode(e["v"], sz, loc, tm)
            elif k == "faa":
                n["v"], n["a"] = e["v"], e["a"]
            elif k == "cas":
                n["v"], n["vh"] = decode(e["v"], sz, loc, tm)
                n["a"], n["ah"] = decode(e["a"], sz, loc, tm)
                n["b"], n["bh"] = decode(e["b"], sz, loc, tm)
                n["ok"] = e["ok"]
                n["mof"] = e.get("mof", "")
            out.append(n)
        elif k in ("call", "ret", "got"):
            n = dict(DEF, t=t, k=k, op=e["op"], n=e.get("n", 0), id=e.get("id", 0), idh=e.get("idh", 0), res=e.get("res", 0), item=e.get("item", 0), vals=e.get("vals", []))
            if k == "call" and e["op"] == "de" and scn == "tid" and e.get("id", -1) >= 0:
                open_de[t] = e.get("n", 0)
            out.append(n)
    return out


# ----------------------------------------------------------------------------- L1 lines
def monitor_lines(events):
    """vsched trace of one execution -> lines for Ids_Mon.tla (L1 observables only)"""
    D = {"t": 0, "k": "", "op": "", "n": 0, "id": 0, "idh": 0, "res": 0, "item": 0, "vals": [], "live": [], "em": [], "tk": []}
    h = events[0]
    scn = h["scn"]
    c = config_of(scn, h["params"])
    live = [i for i in range(c["n"]) if i not in c["fr"]]
    em = [[i, 0, 900 + i] for i in range(c["n"])] if scn == "box" else []
    tk = [[i, 0] for i in c["fr"]] if scn == "box" else []
    out = [dict(D, k="reset", op=scn, n=c["n"], live=live, em=em, tk=tk)]
    open_de = {}
    for e in events[1:]:
        k = e.get("k")
        t = e.get("t", 0)
        if k in ("call", "ret", "got") and t > 0:
            out.append(dict(D, t=t, k=k, op=e["op"], n=e.get("n", 0), id=e.get("id", 0), idh=e.get("idh", 0), res=e.get("res", 0), item=e.get("item", 0), vals=e.get("vals", [])))
            if k == "call" and e["op"] == "de" and scn == "tid" and e.get("id", -1) >= 0:
                open_de[t] = e.get("n", 0)
        elif k == "exit" and t in open_de:
            out.append(dict(D, t=t, k="ret", op="de", n=open_de.pop(t)))
        elif k == "final":
            out.append(dict(D, k="final", vals=e["vals"], n=e["end"]))
        elif k == "end":
            out.append(dict(D, k="end", op=e.get("status", "?")))
    if out[-1]["k"] != "end":
        out.append(dict(D, k="end", op="hang"))
    return out


# ----------------------------------------------------------------------------- spec -> code
def steps_of(m):
    """how many logged steps of the real code one model step stands for (element access of the
    concurrent vector loads the block table first)"""
    if m["k"] in ("load", "store", "cas") and m["loc"] in ("fnext", "sver"):
        return 2
    if m["k"] == "load" and m["loc"] == "next":
        return 2      # for_each: snapshot of the vector, then next_value
    if m["k"] == "ret" and m["op"] == "em":
        return 2      # unsafe_get indexes the slot vector before the driver's ret event
    if m["k"] == "call" and m["op"] == "adv":
        return 1      # the schedule point before the jump
    return 1


def tla_value(txt):
    """tiny parser for the TLC value syntax used in dumped behaviours (records, tuples, sets, ints, strings, booleans)"""
    pos = 0

    def ws():
        nonlocal pos
        while pos < len(txt) and txt[pos] in " \n\t\r":
            pos += 1

    def val():
        nonlocal pos
        ws()
        if txt.startswith("<<", pos):
            pos += 2
            items = []
            ws()
            if txt.startswith(">>", pos):
                pos += 2
                return items
            while True:
                items.append(val())
                ws()
                if txt.startswith(">>", pos):
                    pos += 2
                    return items
                assert txt[pos] == ",", txt[pos:pos + 30]
                pos += 1
        if txt[pos] == "[":
            pos += 1
            rec = {}
            while True:
                ws()
                m = re.match(r"(\w+)\s*\|->\s*", txt[pos:])
                assert m, txt[pos:pos + 40]
                pos += m.end()
                rec[m.group(1)] = val()
                ws()
                if txt[pos] == "]":
                    pos += 1
                    return rec
                assert txt[pos] == ",", txt[pos:pos + 30]
                pos += 1
        if txt[pos] == "{":
            pos += 1
            items = []
            ws()
            if txt[pos] == "}":
                pos += 1
                return items
            while True:
                items.append(val())
                ws()
                if txt[pos] == "}":
                    pos += 1
                    return items
                assert txt[pos] == ",", txt[pos:pos + 30]
                pos += 1
        if txt[pos] == '"':
            j = txt.index('"', pos + 1)
            s = txt[pos + 1:j]
            pos = j + 1
            return s
        m = re.match(r"-?\d+|TRUE|FALSE", txt[pos:])
        assert m, txt[pos:pos + 40]
        pos += m.end()
        g = m.group(0)
        return True if g == "TRUE" else False if g == "FALSE" else int(g)

    return val()


def behaviour_of(txt):
    """one dumped TLC behaviour (or error trace) -> (configuration, [ghost events])"""
    m = re.search(r"/\\ cfg = (.*?)\n(?=/\\ |\n|$)", txt, re.S)
    if not m:
        return None
    c = tla_value(m.group(1))
    evs = []
    for sm in re.finditer(r"/\\ ev = (\[.*?\])\s*(?=\n\n|\n/\\|\nState|\Z)", txt, re.S):
        e = tla_value(sm.group(1))
        if e["k"]:
            evs.append(e)
    return c, evs


def script_of(c, evs):
    """thread per logged step of the real code (a thread id's deallocate returns with the thread's exit,
    which is not a logged step; exits, joins and spawns are run by the scheduler as soon as they are pending)"""
    st = []
    for e in evs:
        t = e["t"]
        if c["kind"] == "tid" and e["k"] == "ret" and e["op"] == "de":
            continue
        st += [t] * steps_of(e)
    return st


def tlc_behaviours(mc_tla, cfg, num, depth, seed, workdir, lib_dirs=None):
    """TLC -simulate on the L2 model: returns [(configuration, script)] (cached per specification / seed)"""
    import json
    import vlib
    key = vlib._hash_files(vlib.spec_closure(mc_tla) + [cfg], "sim%d_%d_%d" % (num, depth, seed))
    cp = os.path.join(vlib.BUILD, "tlc_cache", "sim_" + key + ".json")
    if os.path.exists(cp) and not lib_dirs:
        return [(c, st) for c, st in json.load(open(cp))]
    shutil.rmtree(workdir, ignore_errors=True)
    os.makedirs(workdir)
    libs = (lib_dirs or []) + [os.path.dirname(mc_tla), os.path.join(vlib.SPEC, "lib"), os.path.join(vlib.SPEC, "mo")]
    cmd = ["java", "-XX:+UseParallelGC", "-Xmx4g", "-DTLA-Library=" + ":".join(libs), "-cp", vlib.JAR, "tlc2.TLC", "-metadir", os.path.join(workdir, "meta"),
           "-config", cfg, "-simulate", "file=%s,num=%d" % (os.path.join(workdir, "tr"), num), "-depth", str(depth), "-workers", "1", "-seed", str(seed), mc_tla]
    r = subprocess.run(cmd, capture_output=True, text=True, timeout=900, cwd=os.path.dirname(mc_tla))
    if "Error:" in r.stdout:
        raise vlib.Broken("TLC simulation failed: " + r.stdout[-2000:])
    out = []
    for f in sorted(glob.glob(os.path.join(workdir, "tr_*"))):
        b = behaviour_of(open(f).read())
        if b:
            out.append((b[0], script_of(*b)))
    shutil.rmtree(workdir, ignore_errors=True)
    if not lib_dirs:
        os.makedirs(os.path.dirname(cp), exist_ok=True)
        json.dump(out, open(cp, "w"))
    return out


def logged_order(events):
    """threads of the logged steps of a recorded execution (to compare with a script)"""
    out = []
    for e in events[1:]:
        k = e.get("k")
        t = e.get("t", 0)
        if t <= 0:
            continue
        if k in ("load", "store", "faa", "cas", "xchg"):
            out.append(t)
        elif k in ("sp", "got", "ret"):
            out.append(t)
        elif k == "call" and e.get("op") not in ("tk", "tr", "adv"):
            out.append(t)
    return out


# ----------------------------------------------------------------------------- trace validation
def check_traces(tla, cfg, execs, name, max_rounds=4, timeout=1800):
    """Validate executions (lists of normalised lines, each starting with a reset line) against a trace / monitor
    specification that PRINTS <<"VERIFBAD", line, clause(s)>> where a clause fails and goes on (so a violating
    execution does not hide the ones behind it, and no error trace has to be searched for the place).
    Returns (n_accepted, issues, stats) like vlib.check_traces; issue kinds: "invariant:<clause>", "rejected"."""
    import json
    import vlib
    issues = []
    stats = {"states": 0, "wall": 0.0, "rounds": 0, "pairs": set()}
    offset = 0
    todo = list(execs)
    bad_execs = set()
    os.makedirs(os.path.join(vlib.BUILD, "traces"), exist_ok=True)
    while todo and stats["rounds"] < max_rounds:
        stats["rounds"] += 1
        path = os.path.join(vlib.BUILD, "traces", "%s.%d.ndjson" % (name, os.getpid()))
        starts = []
        n = 0
        with open(path, "w") as f:
            for ex in todo:
                starts.append(n + 1)
                for e in ex:
                    f.write(json.dumps(e, separators=(",", ":")) + "\n")
                n += len(ex)
        r = vlib.validate_trace(tla, cfg, path, timeout=timeout)
        stats["states"] += r.distinct
        stats["wall"] += r.wall
        pv = vlib.parse_verif(r.out)
        try:
            os.unlink(path)
        except OSError:
            pass
        if not pv:
            raise vlib.Broken("trace validation of %s failed: %s" % (name, (r.error_trace or r.out)[-3000:]))
        stats["pairs"].update(pv[2])

        def exec_at(line):
            j = 0
            for idx, st in enumerate(starts):
                if st <= line:
                    j = idx
            return j

        for m in re.finditer(r'<<"VERIFBAD", (\d+), (.*?)>>', r.out):
            line = int(m.group(1))
            if line > pv[0]:
                continue
            j = exec_at(line)
            for clause in re.findall(r'"(\w+)"', m.group(2)):
                issues.append(vlib.TraceIssue(offset + j, "invariant:" + clause, "line %d of the execution: clause %s" % (line - starts[j] + 1, clause), line - starts[j] + 1))
                bad_execs.add(offset + j)
        if pv[0] >= pv[1]:
            todo = []
            break
        line = min(pv[0] + 1, n)
        j = exec_at(line)
        issues.append(vlib.TraceIssue(offset + j, "rejected", "explained %d of %d lines" % (pv[0], pv[1]), line - starts[j] + 1))
        bad_execs.add(offset + j)
        offset += j + 1
        todo = todo[j + 1:]
    stats["pairs"] = sorted(stats["pairs"])
    stats["unchecked"] = len(todo)
    return len(execs) - len(bad_execs) - len(todo), issues, stats
