"""C06: monotonic buffer resources.  Pipeline (DESIGN.md, section C06):
   1. TLC model-checks spec/Mono.tla (MC_Mono + spec/mc/Mono_*.cfg): every request sequence up to a small
      length over the boundary request set, plus macro requests that cross the 15-entry array boundaries
   2. spec -> code: TLC (-simulate) generates behaviours of MC_Mono; their operation sequences are executed by
      the driver on the REAL ExclusiveMonotonicBufferResource (recording PageAllocator / upstream)
   3. code -> spec: those executions, a fixed list that walks the case split of allocate, and seeded sequences
      biased to the boundaries are validated line by line against Mono (Mono_Trace.tla: same address, same page
      allocator / upstream / destructor calls, same position of every intrusive array) with the L1 invariants
      evaluated on every state, and against the L1 monitor Mono_Mon.tla (the only source of V1 verdicts besides
      the invariants of the trace specification)
   4. Shared / Swiss variants: <= 3 threads under vsched (threads created and recycled while others allocate),
      judged by the same L1 monitor
"""
import concurrent.futures as cf
import json
import os
import random
import re
import sys
import time

sys.path.insert(0, os.path.dirname(os.path.abspath(__file__)))
import mono_common as mc
import vlib
from vlib import log

SPEC = vlib.SPEC
TRACE_TLA = os.path.join(SPEC, "Mono_Trace.tla")
TRACE_CFG = os.path.join(SPEC, "mc", "Mono_Trace.cfg")
MON_TLA = os.path.join(SPEC, "Mono_Mon.tla")
MON_CFG = os.path.join(SPEC, "mc", "Mono_Mon.cfg")
MC_TLA = os.path.join(SPEC, "MC_Mono.tla")

CLAUSES = {"Aligned", "InsideOwnedMemory", "Disjoint", "ContentsStable", "ReleaseRunsEachDestructorOnce", "EachPageReturnedOnce",
           "OversizeReturnedWithSameBytesAlign", "AccountingZero", "ReusableAfterRelease", "ContainsLive", "NoCrash"}

MC_QUICK = ["Mono_quick.cfg"]          # each .cfg explores a set of (page size, request family, length) configurations
MC_THOROUGH = ["Mono_thorough.cfg"]
MC_FINDING = "Mono_mvc.cfg"


def tlc_job(delay, *a, **kw):
    time.sleep(delay)  # vlib.tlc names its scratch directory by pid + millisecond
    return vlib.tlc(*a, **kw)


def driver_ok(status):
    """exit codes other than the scheduler's own mean the driver gave up (window exhausted, unknown op): the check is broken"""
    bad = [k for k in status if k.startswith("exit")]
    if bad:
        raise vlib.Broken("mono_driver gave up: %s" % status)


def run_seq(progs, tag, scenario="seq"):
    """execute operation sequences on the real exclusive resource; one forked child per sequence
    (scenario real: items are (P, prog, stack) and the pages come from babylon's own allocator stack)"""
    d = os.path.join(vlib.BUILD, "traces")
    os.makedirs(d, exist_ok=True)
    f = os.path.join(d, "%s.%d.scripts" % (tag, os.getpid()))
    with open(f, "w") as fh:
        for it in progs:
            fh.write("P=%d,prog=%s%s|\n" % (it[0], it[1], ",stack=%s" % it[2] if len(it) > 2 else ""))
    raw = f + ".ndjson"
    s = vlib.driver_status(vlib.driver("mono_driver", ["--scenario", scenario, "--scripts-file", f, "--out", raw, "--no-atomics", "-j", "8", "--timeout-ms", "60000"]))
    driver_ok(s["status"])
    execs = list(vlib.split_traces(raw))
    os.unlink(raw)
    os.unlink(f)
    if len(execs) != len(progs):
        raise vlib.Broken("driver produced %d executions for %d programs" % (len(execs), len(progs)))
    return execs, s["status"]


def run_shared(P, prog, variant, seeds, tag, strategy="mix", extra=None):
    d = os.path.join(vlib.BUILD, "traces")
    os.makedirs(d, exist_ok=True)
    raw = os.path.join(d, "%s.%d.ndjson" % (tag, os.getpid()))
    args = ["--scenario", "shared", "--params", "P=%d,variant=%s,prog=%s" % (P, variant, prog), "--strategy", strategy, "--seeds", "%d:%d" % seeds, "--out", raw,
            "--no-atomics", "--max-steps", "200000"]
    if strategy != "pb":
        args += ["-j", "4"]
    if extra:
        args += extra
    s = vlib.driver_status(vlib.driver("mono_driver", args))
    driver_ok(s["status"])
    execs = list(vlib.split_traces(raw))
    os.unlink(raw)
    return execs, s["status"]


def exec_key(ex):
    h = ex[0]
    return {"scenario": h["scn"], "params": h["params"], "seed": h["seed"], "strategy": h["strategy"], "script": h.get("script", [])}


_PB_CACHE = {}


def rerun(key):
    p = key["params"]
    if key["scenario"] == "seq":
        return run_seq([(int(p["P"]), p["prog"])], "rerun")[0][0]
    if key["scenario"] == "real":
        return run_seq([(int(p["P"]), p["prog"], p.get("stack", "nd"))], "rerun", scenario="real")[0][0]
    st = key["strategy"]
    if st == "pb":
        # vrun cannot be handed a preemption script: the (deterministic) exploration is repeated once per program
        # and the execution with the same script is picked
        ck = json.dumps(p, sort_keys=True)
        for bound, mx in (("1", "80"), ("2", "500")):
            if (ck, bound) not in _PB_CACHE:
                exs, _ = run_shared(int(p["P"]), p["prog"], p.get("variant", "shared"), (key["seed"], key["seed"] + 1), "rerun", strategy="pb",
                                    extra=["--pb-bound", bound, "--max-execs", mx])
                _PB_CACHE[(ck, bound)] = {json.dumps(ex[0].get("script", [])): ex for ex in exs}
            ex = _PB_CACHE[(ck, bound)].get(json.dumps(key.get("script", [])))
            if ex is not None:
                return ex
        return None
    if st in ("pct", "random"):
        st = "mix"
    ex, _ = run_shared(int(p["P"]), p["prog"], p.get("variant", "shared"), (key["seed"], key["seed"] + 1), "rerun", strategy=st)
    return ex[0] if ex else None


def describe(key):
    p = key["params"]
    s = "scenario=%s P=%s prog=%s" % (key["scenario"], p["P"], p["prog"])
    if key["scenario"] == "real":
        s += " stack=%s" % p.get("stack")
    elif key["scenario"] != "seq":
        s += " variant=%s seed=%s strategy=%s" % (p.get("variant"), key["seed"], key["strategy"])
    return s


def merge(a, b):
    for k, v in b.items():
        a[k] = a.get(k, 0) + v


def run(pid, tier, seed, replay=None):
    V = vlib.Verdict(pid, tier, seed)
    if replay and not replay.endswith(".json"):
        replay = None      # a TLC counterexample: the whole check re-derives it
    rng = random.Random(seed * 104729 + 6)
    quick = tier == "quick"
    vlib.build(["mono_driver"])
    pool = cf.ThreadPoolExecutor(max_workers=6)

    # ---- 1. model checking (results are cached per spec + cfg)
    mc_jobs = {}
    if not replay:
        for cfg in (MC_QUICK if quick else MC_QUICK + MC_THOROUGH) + [MC_FINDING]:
            p = os.path.join(SPEC, "mc", cfg)
            if os.path.exists(p):
                mc_jobs[cfg] = pool.submit(tlc_job, 0.05 * len(mc_jobs), MC_TLA, p, cache=True, workers=4 if quick else 8, timeout=3000, heap="8g")

    # ---- 2. programs: fixed, seeded, generated by TLC from the specification
    status = {}
    if replay:
        key = json.load(open(replay))["exec"]
        seq_execs, sh_execs = ([rerun(key)], []) if key["scenario"] == "seq" else ([], [rerun(key)])
        wit_execs = []
        real_execs = []
    else:
        progs = list(mc.FIXED)
        sources = ["fixed"] * len(progs)
        nrand = 45 if quick else 500
        for i in range(nrand):
            P = rng.choice([128, 256, 256, 256, 512, 4096] if not quick else [128, 256, 256, 256, 512])
            progs.append((P, mc.gen_program(rng, P, rng.choice([4, 8, 14, 24]))))
            sources.append("seeded")
        sims = [("Mono_sim_p256.cfg", 30 if quick else 200)]
        if not quick:
            sims += [("Mono_sim_p128.cfg", 100), ("Mono_sim_p512.cfg", 100)]
        nsim = 0
        for cfg, num in sims:
            r = vlib.tlc(MC_TLA, os.path.join(SPEC, "mc", cfg), simulate="num=%d" % num, depth=14, seed=seed, workers=1, timeout=900, heap="4g")
            V.add_tlc("simulate:" + cfg, r)
            if not r.ok:
                if r.violation in (None, "tlc_error", "timeout"):
                    raise vlib.Broken("TLC simulation failed on %s: %s" % (cfg, (r.error_trace or r.out)[-2000:]))
                raise vlib.Broken("the specification violates %s in simulation (%s) - the specification is wrong:\n%s" % (r.violation, cfg, r.error_trace[:3000]))
            got = mc.parse_tlc_programs(r.out)
            if not got:
                raise vlib.Broken("TLC simulation printed no behaviours (%s)" % cfg)
            nsim += len(got)
            progs += got
            sources += ["tlc"] * len(got)
        V.extra["program_counts"] = {"fixed": len(mc.FIXED), "seeded": nrand, "tlc_generated": nsim}
        seq_execs, st = run_seq(progs, pid + "_seq")
        merge(status, st)
        wit_execs, st = run_seq(mc.MVC_WITNESS, pid + "_mvc")
        merge(status, st)
        # ---- the same resource on babylon's own page allocator stack behind a recording decorator (L1 only)
        real_execs, st = run_seq(mc.real_programs(quick), pid + "_real", scenario="real")
        merge(status, st)
        # ---- shared / swiss under vsched
        sh_execs = []
        shp = [(P, prog, "shared") for P, prog in mc.FIXED_SHARED] + [(mc.FIXED_SHARED[0][0], mc.FIXED_SHARED[0][1], "swiss")]
        for i in range(5 if quick else 30):
            P = rng.choice([128, 256, 256, 512])
            shp.append((P, mc.gen_shared(rng, P), rng.choice(["shared", "shared", "swiss"])))
        nseeds = 6 if quick else 16
        for i, (P, prog, variant) in enumerate(shp):
            ex, st = run_shared(P, prog, variant, (seed * 1000 + 1, seed * 1000 + 1 + nseeds), "%s_sh%d" % (pid, i))
            sh_execs += ex
            merge(status, st)
        ex, st = run_shared(256, "a:8:8.s2.a:300:8.d_a:8:8.d.s3_a:8:8", "shared", (1, 2), pid + "_pb", strategy="pb",
                            extra=["--pb-bound", "1" if quick else "2", "--max-execs", "80" if quick else "500"])
        sh_execs += ex
        merge(status, {k: v for k, v in st.items() if not k.startswith("_")})
    execs = seq_execs + wit_execs + real_execs + sh_execs
    V.extra["executions"] = {"sequential": len(seq_execs), "move_construct_witness": len(wit_execs), "real_allocator_stack": len(real_execs), "shared_swiss": len(sh_execs)}
    V.extra["exec_status"] = status

    # ---- 3. validation: L2 conformance (sequential executions) and the L1 monitor (everything), one TLC pass each
    l2_execs = seq_execs + wit_execs
    f_l2 = pool.submit(mc.validate, TRACE_TLA, TRACE_CFG, [mc.trace_lines(ex) for ex in l2_execs], pid + "_L2")
    f_l1 = pool.submit(mc.validate, MON_TLA, MON_CFG, [mc.monitor_lines(ex) for ex in execs], pid + "_L1")
    results = {"L2": (l2_execs, mc.trace_lines, TRACE_TLA, TRACE_CFG) + f_l2.result(), "L1": (execs, mc.monitor_lines, MON_TLA, MON_CFG) + f_l1.result()}
    accepted = 0
    reported = set()
    reproduced = set()
    for name, (exs, conv, tla, cfg, acc, issues, st) in results.items():
        accepted += acc
        V.cov["transitions"] += st["states"]
        V.extra["trace_" + name] = {"executions": len(exs), "accepted": acc, "issues": len(issues), "lines": st["lines"], "tlc_states": st["states"], "wall_s": round(st["wall"], 1)}
        for j, clause, line in st.get("env", []):
            V.extra.setdefault("environment_assumption_violated", []).append({"clause": clause, "exec": describe(exec_key(exs[j])), "line": line})
            if len(V.extra["environment_assumption_violated"]) <= 3:
                log("ENV-ASSUMPTION %s does not hold (page pointer %% page size != 0): %s" % (clause, describe(exec_key(exs[j]))))
        redo = []
        for iss in issues:
            ex = exs[iss.exec_index]
            key = exec_key(ex)
            if iss.kind == "rejected":
                if name == "L2":
                    V.drift += 1
                    lines = conv(ex)
                    if V.drift <= 5:
                        log("SPEC-DRIFT component=monotonic_resource %s line=%d :: %s" % (describe(key), iss.line, json.dumps(lines[iss.line - 1])[:900] if 0 < iss.line <= len(lines) else ""))
                    continue
                raise vlib.Broken("the L1 monitor rejected a trace: %s" % describe(key))
            if iss.clause not in CLAUSES:
                raise vlib.Broken("unexpected clause %s reported by %s for %s" % (iss.clause, name, describe(key)))
            if len(redo) < 8:      # the first few are re-executed and reported; the rest is counted in the evidence
                redo.append(iss)
        # reproducibility: the same sequence / schedule must fail again with the same clause
        ident_of = lambda iss: (iss.clause, json.dumps(exec_key(exs[iss.exec_index]), sort_keys=True))
        todo = [iss for iss in redo if ident_of(iss) not in reproduced]   # (the other layer may have reproduced it already)
        if todo and not replay:
            again = [rerun(exec_key(exs[iss.exec_index])) for iss in todo]
            _, iss2, _ = mc.validate(tla, cfg, [conv(ex) for ex in again], pid + "_re_" + name)
            got = {i.exec_index: i.clause for i in iss2}
            for j, iss in enumerate(todo):
                if got.get(j) != iss.clause:
                    raise vlib.Broken("violation %s did not reproduce on re-execution of %s (got %s)" % (iss.clause, describe(exec_key(exs[iss.exec_index])), got.get(j)))
                reproduced.add(ident_of(iss))
        for iss in redo:
            ex = exs[iss.exec_index]
            key = exec_key(ex)
            ident = (iss.clause, json.dumps(key, sort_keys=True))
            if ident in reported:
                continue       # the same execution already reported with this clause by the other layer
            reported.add(ident)
            rp = vlib.save_replay(pid, "%s_%s_%d.json" % (name, iss.clause, iss.exec_index), {"exec": key, "clause": iss.clause, "layer": name, "line": iss.line, "trace": ex[:300]})
            V.violation("%s violated on an execution of the real code (%s layer) %s" % (iss.clause, name, describe(key)), rp)
    V.cov["traces_validated_against_impl"] = accepted
    for ex in (seq_execs[:1] + seq_execs[len(mc.FIXED) + 1:len(mc.FIXED) + 2] + seq_execs[-1:] + sh_execs[:1]):
        if ex:
            V.sample({"scenario": ex[0]["scn"], "params": ex[0]["params"], "events": len(ex), "first_events": [e for e in ex[1:60] if e.get("k") in ("call", "ret", "palloc", "ualloc")][:8]})
    V.extra["l2_conformant"] = V.drift == 0

    # ---- model checking verdicts
    for cfg, fut in mc_jobs.items():
        r = fut.result()
        V.add_tlc(cfg, r)
        if r.ok:
            continue
        if r.violation in ("tlc_error", "timeout", None):
            raise vlib.Broken("TLC failed on %s: %s" % (cfg, (r.error_trace or r.out)[-2000:]))
        if r.violation not in CLAUSES:
            raise vlib.Broken("the specification violates its own sanity invariant %s (%s):\n%s" % (r.violation, cfg, r.error_trace[:3000]))
        if V.drift:
            log("NOTE: TLC counterexample for %s (%s) ignored for the verdict because the specification drifted from the code" % (r.violation, cfg))
            continue
        rp = vlib.save_replay(pid, "tlc_%s_%s.txt" % (cfg, r.violation), r.error_trace)
        what = "%s violated in the model %s, which conforms to the code" % (r.violation, cfg)
        if cfg == MC_FINDING:
            what += " (move construction: the new object keeps new_delete_resource() as upstream; prog=mc)"
        V.violation(what, rp)
    if not replay:
        V.cov["exhaustive"] = True
    V.assumptions += [
        "page sizes are powers of two >= 128 (NewDeletePageAllocator rounds to bit_ceil; set_page_allocator asserts >= sizeof(PageArray)); the page allocator returns pages aligned to the page size",
        "alignments are powers of two; the upstream returns blocks aligned as requested",
        "exclusive resource: one thread; shared/swiss: executions are serialised by vsched (one thread runs between two atomic operations)",
        "struct sizes 128/368/248 and capacity 15 are those of the LP64 build (checked against the running code by the position of every array in trace validation)",
    ]
    pool.shutdown()
    return V.finish()
