"""Trace normalisation for the transient-topic driver (C15)."""
import json
import os
import re

import vlib

BS = 128  # ConcurrentVector<Slot, 128>
DEF = {"t": 0, "k": "", "loc": "", "i": 0, "v": 0, "a": 0, "b": 0, "ok": True, "mo": "", "op": "", "n": 0, "vals": [], "res": 0}
OPMAP = {"pv": ("p", 1), "qv": ("q", 1)}


def parse_prog(s):
    """'s1.j1_p2.pv' -> [[{op,n},..],..]  (thread 0 first); pv/qv are publish(value) = publish_n(1)"""
    prog = []
    for th in s.split("_"):
        ops = []
        for tok in th.split("."):
            if not tok:
                continue
            m = re.match(r"([a-z]+)(\d*)$", tok)
            name, n = m.group(1), int(m.group(2) or 0)
            if name in OPMAP:
                name, n = OPMAP[name]
            ops.append({"op": name, "n": n})
        prog.append(ops)
    return prog


def model_slots(base, prog):
    """the slot indices the L2 model keeps (the others are never touched by the program)"""
    total = sum(o["n"] for th in prog for o in th if o["op"] in ("p", "q"))
    slots = set(range(base, base + total + 3))
    if any(o["op"] == "clr" for th in prog for o in th):
        slots |= set(range(0, total + 3))
    return sorted(slots)


def slot_index(e):
    m = re.match(r"slotB(\d+)$", e.get("loc", ""))
    if not m:
        return None
    return int(m.group(1)) * BS + e.get("i", 0)


def config_of(reset):
    p = reset["params"]
    prog = parse_prog(p["prog"])
    base = int(p.get("pre", 0))
    return {"base": base, "bs": BS, "slots": model_slots(base, prog), "live": bool(int(p.get("live", 1))), "prog": prog}


def normalise(events):
    """vsched trace of one execution -> lines for Topic_Trace.tla"""
    out = []
    slots = set()
    ended = False
    for e in events:
        k = e.get("k")
        if k == "reset":
            c = config_of(e)
            slots = set(c["slots"])
            out.append(dict(DEF, k="reset", **c))
            continue
        if k == "mainend":
            ended = True
            continue
        if k in ("start", "exit", "tick", "ret0", "dec", "crash"):
            continue
        if k == "end":
            out.append(dict(DEF, k="end", status=e.get("status", "?")))
            continue
        if k == "final":
            out.append(dict(DEF, k="final", v=e["next"]))
            continue
        t = e.get("t", 0)
        if t < 0:
            continue
        n = dict(DEF, t=t, k=k)
        if k in ("spawn", "join"):
            if ended:
                continue  # the real pthread_join calls at the end of the scenario
            n["i"] = e["child"]
        elif k in ("load", "store", "xchg", "faa", "cas", "fwait", "fret", "fwake"):
            si = slot_index(e)
            if si is not None:
                if k == "store" and e.get("sz") == 4 and si not in slots:
                    continue  # clear() resets every allocated slot; only the modelled ones are kept
                n["loc"], n["i"] = "slot", si
            else:
                n["loc"], n["i"] = e.get("loc", ""), e.get("i", 0)
            if k in ("load", "store", "xchg", "faa", "cas"):
                n["mo"] = e.get("mo", "")
            if k in ("load", "store"):
                n["v"] = 0 if n["loc"] == "tab" else e["v"]
            elif k in ("xchg", "faa"):
                n["v"], n["a"] = e["v"], e["a"]
            elif k == "cas":
                n["v"], n["a"], n["b"], n["ok"] = e["v"], e["a"], e["b"], e["ok"]
            elif k == "fwait":
                n["a"], n["v"], n["ok"] = e["exp"], e["cur"], e["res"] == "block"
            elif k == "fret":
                n["ok"] = e["res"] == "woken"
            elif k == "fwake":
                n["v"] = e["woken"]
        elif k == "fence":
            n["mo"] = e.get("mo", "")
        elif k in ("call", "ret"):
            op, cnt = OPMAP.get(e["op"], (e["op"], e["n"]))
            n["op"], n["n"] = op, cnt
            if k == "ret":
                n["res"], n["i"], n["vals"] = e.get("res", 0), e.get("idx", 0), e.get("vals", [])
        elif k == "cb":
            n["i"], n["n"], n["vals"] = e["idx"], e["n"], e["vals"]
        out.append(n)
    return out


def monitor_lines(events):
    """vsched trace of one execution -> lines for Topic_Mon.tla (L1 observables only)"""
    out = []
    D = dict(DEF, base=0, status="")
    for e in events:
        k = e.get("k")
        if k == "reset":
            out.append(dict(D, k="reset", base=int(e["params"].get("pre", 0))))
        elif k in ("call", "ret"):
            op, cnt = OPMAP.get(e["op"], (e["op"], e["n"]))
            out.append(dict(D, k=k, t=e["t"], op=op, n=cnt, res=e.get("res", 0), vals=e.get("vals", [])))
        elif k == "cb":
            out.append(dict(D, k="cb", t=e["t"], i=e["idx"], n=e["n"], vals=e["vals"]))
        elif k == "end":
            out.append(dict(D, k="end", status=e.get("status", "?")))
    return out


def topic_acc(e):
    """payload accesses for HBMon: the publisher callback writes, the consumer reads what it was handed"""
    k = e.get("k")
    if k == "cb":
        return [("val", e["idx"] + j, True) for j in range(e["n"])]
    if k == "ret" and e.get("op") == "c":
        return [("val", e["idx"] + j, False) for j in range(e.get("res", 0))]
    return None


def check_traces(tla, cfg, execs, name, max_rounds=4, timeout=1800):
    """vlib.check_traces, but the offending line is taken from the complete TLC output (vlib keeps only the
    first 20000 characters of the counterexample, which for a long concatenated trace with large states no
    longer contains the last value of `l`)."""
    issues = []
    accepted = 0
    stats = {"states": 0, "wall": 0.0, "rounds": 0, "pairs": set()}
    offset = 0
    todo = list(execs)
    os.makedirs(os.path.join(vlib.BUILD, "traces"), exist_ok=True)
    while todo and stats["rounds"] < max_rounds:
        stats["rounds"] += 1
        path = os.path.join(vlib.BUILD, "traces", "%s.%d.ndjson" % (name, os.getpid()))
        starts = []
        n = 0
        with open(path, "w") as f:
            for ex in todo:
                starts.append(n + 1)
                for e in ex:
                    f.write(json.dumps(e, separators=(",", ":")) + "\n")
                n += len(ex)
        r = vlib.validate_trace(tla, cfg, path, timeout=timeout)
        stats["states"] += r.distinct
        stats["wall"] += r.wall
        pv = vlib.parse_verif(r.out)
        if pv:
            stats["pairs"].update(pv[2])
        try:
            os.unlink(path)
        except OSError:
            pass
        if r.ok and pv and pv[0] >= pv[1]:
            accepted += len(todo)
            todo = []
            break
        if r.violation and r.violation not in ("tlc_error", "timeout", "postcondition"):
            m = re.findall(r"/\\ l = (\d+)", r.out)
            line = max(1, (int(m[-1]) if m else 2) - 1)  # l points at the next line; the offending event is the previous one
            kind = "invariant:" + r.violation
            k = r.out.rfind("\nState ")
            detail = r.out[k:k + 12000] if k >= 0 else r.out[-6000:]
        elif pv:
            line = min(pv[0] + 1, n)
            kind = "rejected"
            detail = "explained %d of %d lines" % (pv[0], pv[1])
        else:
            raise vlib.Broken("trace validation of %s failed: %s" % (name, (r.error_trace or r.out)[-3000:]))
        j = 0
        for idx, st in enumerate(starts):
            if st <= line:
                j = idx
        issues.append(vlib.TraceIssue(offset + j, kind, detail, line - starts[j] + 1))
        accepted += j
        offset += j + 1
        todo = todo[j + 1:]
    stats["pairs"] = sorted(stats["pairs"])
    stats["unchecked"] = len(todo)
    return accepted, issues, stats
