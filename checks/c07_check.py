"""C07: executors.  Pipeline (DESIGN.md 2.4 / C07):
   1. TLC model-checks the L2 spec Exec.tla (queue operations atomic - the bounded queue is C01/C02's) for the
      clauses AcceptedBeforeStopRunsOnce, RunsOnOwnExecutorThread, FutureReadyWithResult, StopWaits,
      FailedSubmitNeverRuns and the restricted deadlock check, over the configuration families of MC_Exec.tla
   2. the real ThreadPoolExecutor / InplaceExecutor / AlwaysUseNewThreadExecutor / a refusing Executor run client
      programs under vsched (worker and balance threads through the pthread shim, virtual sleeps)
   3. every recorded execution is validated by TLC against Exec_Mon (the L1 clauses of the property statement on
      call / return / task begin / end events), a sample against Exec_Trace (the observable events are a behaviour
      of the L2 model, hidden queue steps chosen by TLC) and HBMon (task payload and result are published)
   4. an L1 / HB issue is re-executed; if it reproduces it is a violation of C07 (V1)
"""
import concurrent.futures
import json
import os
import random
import re
import sys
import threading
import time

sys.path.insert(0, os.path.dirname(os.path.abspath(__file__)))
import exec_common as ec
import vlib
from vlib import log

SPEC = vlib.SPEC
CLAUSES = {"AcceptedBeforeStopRunsOnce", "RunsOnOwnExecutorThread", "FutureReadyWithResult", "StopWaits",
           "FailedSubmitNeverRuns", "NoDeadlock", "NoCrash", "NoDataRace"}
MAX_STEPS = 20000

# (scenario, params) exercised on every run.  g=16: nothing the program pushes can fill the global queue, so
# the run must reach its end (judged); small g: queue-full blocking of submitters, stop markers behind tasks
FIXED = [
    ("pool", "w=2,g=16,l=1,steal=1,bal=-1,fin=dtor,prog=e2.g_s11.x"),
    ("pool", "w=2,g=16,l=2,steal=1,bal=150,fin=dtor,prog=e2.g_s1.x"),
    ("pool", "w=3,g=16,l=1,steal=1,bal=100,fin=dtor,prog=y.x_e21.e_s2.g"),
    ("pool", "w=2,g=16,l=1,steal=0,bal=100,fin=dtor,prog=_e2.s1_e1.g"),
    ("pool", "w=1,g=16,l=2,steal=0,bal=-1,fin=stop,prog=e22_s"),
    ("pool", "w=3,g=16,l=0,steal=1,bal=-1,fin=dtor,prog=e2.u.g_s1.x"),
    ("pool", "w=2,g=16,l=1,steal=1,bal=60,fin=dtor,prog=e1.e1.y.x_s1.s1"),
    ("pool", "w=2,g=16,l=2,steal=0,bal=40,slp=150,fin=dtor,prog=e2.x_s2"),
    ("pool", "w=2,g=16,l=1,steal=1,bal=30,slp=100,fin=dtor,prog=e1.e1.x_s1"),
    ("pool", "w=3,g=16,l=2,steal=1,bal=-1,slp=200,fin=dtor,prog=e2.g_s2.x"),
    # local queues on both sides of a 128-slot block of the EnumerableThreadLocal (for_each calls back once per
    # block): two parents in different blocks sleep with a child in their local queue while a third worker sweeps
    # (i: all workers wait in the global pop first; hold: a parent waits until its child was started by somebody;
    # w: until the parents have queued their children; then a wake-up sends the third worker sweeping)
    ("pool", "w=3,g=16,l=1,steal=1,bal=-1,hold=1,idoff=127,fin=dtor,prog=i.e1.e1.w.u.g"),
    ("pool", "w=4,g=16,l=1,steal=1,bal=-1,hold=1,idoff=126,fin=dtor,prog=i.e1.e1.e1.w.u.g_x"),
    # stop() / the destructor begins while a child still sits in its parent's local queue and only the balancer
    # (in its sleep when _running flips) can move it: its last sweep must still deliver the task
    ("pool", "w=2,g=16,l=1,steal=0,bal=400,hold=1,fin=dtor,prog=i.e1.w.x"),
    ("pool", "w=2,g=16,l=2,steal=0,bal=300,hold=1,fin=dtor,prog=i.e2.w_y"),
    ("pool", "w=1,g=16,l=1,steal=0,bal=-1,fin=dtor,prog=e3.g"),
    ("pool", "w=2,g=16,l=1,steal=0,bal=-1,fin=dtor,prog=e32_s.x"),
    ("pool", "w=2,g=0,l=1,steal=1,bal=-1,fin=dtor,prog=e.e.g_s.s"),
    ("pool", "w=2,g=1,l=0,steal=0,bal=-1,fin=stop,prog=e.s.e.g_s.e.g"),
    ("pool", "w=1,g=0,l=1,steal=0,bal=80,fin=dtor,prog=e.s.e_s.e.g_u.e"),
    ("pool", "w=2,g=1,l=1,steal=1,bal=100,fin=dtor,prog=e2.g_s2.x"),
    ("pool", "w=3,g=2,l=2,steal=1,bal=-1,fin=dtor,prog=e21_s2.x"),
    ("inplace", "prog=e21.s1_e11.g"),
    ("newthread", "prog=e11.g_s1.e"),
    ("refuse", "pat=r,prog=e1.s1_e.s.g"),
    ("refuse", "pat=ra,prog=e11.s2.g_s1.e"),
    ("refuse", "pat=raar,prog=e21.s.e1.g"),
]


def gen_program(rng):
    """random client program: a pool configuration from the bounds of the property's quantifier"""
    kind = rng.choice(["pool"] * 7 + ["inplace", "newthread", "refuse"])
    nthr = rng.choice([1, 2, 2, 3])
    budget = rng.choice([3, 5, 8])     # tasks in total
    threads = []
    used = 0
    roots = 0
    for t in range(nthr):
        ops = []
        for _ in range(rng.choice([1, 2, 3])):
            if roots >= 4 or used >= budget:
                break
            c = rng.choice([0, 0, 1, 2, 3])
            g = rng.choice([0, 0, 1]) if c else 0
            if used + 1 + c + c * g > budget:
                c, g = 0, 0
            used += 1 + c + c * g
            roots += 1
            ops.append(rng.choice("es") + (str(c) if c else "") + (str(g) if g else ""))
            if rng.random() < 0.3:
                ops.append("g")
        threads.append(ops)
    if kind != "pool":
        prog = "_".join(".".join(t) for t in threads)
        if kind == "refuse":
            return kind, "pat=%s,prog=%s" % (rng.choice(["r", "ra", "ar", "raar", "a"]), prog)
        return kind, "prog=" + prog
    w = rng.choice([1, 2, 2, 3])
    has_kids = any(len(o) > 1 for t in threads for o in t if o[0] in "es")
    # small capacities only where the program cannot wedge itself on a full global queue for good
    g = rng.choice([0, 1, 2, 16]) if not has_kids else rng.choice([16, 16, 2])
    l = rng.choice([0, 1, 1, 2])
    fin = "dtor"
    stop = rng.choice(["none", "x", "x", "fin"])
    if stop == "x":
        t = rng.randrange(len(threads))
        threads[t].insert(rng.randint(0, len(threads[t])), "x")
    elif stop == "fin":
        fin = "stop"
    if rng.random() < 0.3:
        t = rng.randrange(len(threads))
        threads[t].insert(rng.randint(0, len(threads[t])), rng.choice("uy"))
    # programs in which pool threads push to the global queue, or submitters race with stop(), get a global
    # queue that holds everything they push (otherwise they may wedge themselves for good: not C07's business)
    pushes = used + w + sum(1 for t in threads for o in t if o == "u")
    cap = 1 if g == 0 else 1 << (2 * g - 1).bit_length()
    if (has_kids or stop == "x") and pushes > cap:
        g = 16
    prog = "_".join(".".join(t) for t in threads)
    return kind, "w=%d,g=%d,l=%d,steal=%d,bal=%d,slp=%d,fin=%s,prog=%s" % (w, g, l, rng.choice([0, 1, 1]), rng.choice([-1, -1, 40, 120, 400]), rng.choice([0, 0, 100, 250]), fin, prog) + (
        ",idoff=%d,hold=%d" % (rng.choice([125, 126, 127]), rng.choice([0, 1])) if w >= 2 and rng.random() < 0.12 else "")


def steps_for(params, base=MAX_STEPS):
    m = re.search(r"idoff=(\d+)", params)
    return base * 5 if m and int(m.group(1)) > 0 else base


def run_driver(idx, scn, params, seeds, out, jobs, max_steps=MAX_STEPS):
    max_steps = steps_for(params, max_steps)
    raw = "%s.%d.ndjson" % (out, idx)
    args = ["--scenario", scn, "--params", params, "--strategy", "mix", "--seeds", "%d:%d" % seeds, "--out", raw, "--max-steps", str(max_steps), "-j", str(jobs)]
    s = vlib.driver_status(vlib.driver("exec_driver", args))
    ex = list(vlib.split_traces(raw))
    os.unlink(raw)
    return ex, s["status"]


def record(items, out, par=4, jobs=4):
    """items: [(scn, params, (seed_lo, seed_hi))]"""
    os.makedirs(os.path.dirname(out), exist_ok=True)
    execs, status = [], {}
    with concurrent.futures.ThreadPoolExecutor(par) as pool:
        futs = [pool.submit(run_driver, i, scn, params, seeds, out, jobs) for i, (scn, params, seeds) in enumerate(items)]
        for f in futs:
            ex, st = f.result()
            execs += ex
            for k, v in st.items():
                status[k] = status.get(k, 0) + v
    return execs, status


def exec_key(ex):
    h = ex[0]
    return {"scenario": h["scn"], "params": h["params"], "seed": h["seed"], "strategy": h["strategy"]}


def rerun(key, max_steps=MAX_STEPS):
    params = ",".join("%s=%s" % (k, v) for k, v in key["params"].items())
    raw = os.path.join(vlib.BUILD, "traces", "c07_rerun.%d" % os.getpid())
    ex, _ = run_driver(0, key["scenario"], params, (key["seed"], key["seed"] + 1), raw, 1, max_steps)
    return ex[0] if ex else None


def l2_validate(execs, name, timeout=600, max_rounds=4):
    """observable-trace inclusion in the L2 model (Exec_Trace.tla): returns (accepted, [(index, line)], stats)"""
    tla, cfg = os.path.join(SPEC, "Exec_Trace.tla"), os.path.join(SPEC, "mc", "Exec_Trace.cfg")
    todo = list(range(len(execs)))
    accepted, drift, st = 0, [], {"states": 0, "wall": 0.0, "unchecked": 0, "rounds": 0}
    os.makedirs(os.path.join(vlib.BUILD, "traces"), exist_ok=True)
    while todo and st["rounds"] < max_rounds:
        st["rounds"] += 1
        tls = [ec.trace_lines(execs[i]) for i in todo]
        path = os.path.join(vlib.BUILD, "traces", "%s.%d.ndjson" % (name, os.getpid()))
        vlib.write_ndjson(path, [x for t in tls for x in t])
        r = vlib.tlc(tla, cfg, workers=1, env={"TRACE": path}, timeout=timeout, dfs=True, deadlock=False, heap="6g")
        os.unlink(path)
        st["states"] += r.distinct
        st["wall"] += r.wall
        if r.violation == "NotDone":       # every line explained
            accepted += len(todo)
            todo = []
            break
        if r.violation == "timeout":
            break
        pv = vlib.parse_verif(r.out)
        if r.violation or not pv:
            raise vlib.Broken("L2 trace validation failed: %s" % (r.error_trace or r.out)[-3000:])
        n = 0
        for k, t in enumerate(tls):
            if n + len(t) >= pv[0] + 1:
                drift.append((todo[k], pv[0] + 1 - n))
                accepted += k
                todo = todo[k + 1:]
                break
            n += len(t)
        else:
            raise vlib.Broken("L2 trace validation: cannot locate the stuck execution")
    st["unchecked"] = len(todo)
    return accepted, drift, st


LAYERS = {
    "L1": (os.path.join(SPEC, "Exec_Mon.tla"), os.path.join(SPEC, "mc", "Exec_Mon.cfg"), ec.monitor_lines),
    "HB": (os.path.join(SPEC, "lib", "HBMon.tla"), os.path.join(SPEC, "mc", "HBMon.cfg"), ec.hb_lines),
}


def run(pid, tier, seed, replay=None):
    V = vlib.Verdict(pid, tier, seed)
    rng = random.Random(seed * 104729 + 7)
    vlib.build(["exec_driver"])
    quick = tier == "quick"
    busy = False
    try:
        busy = os.getloadavg()[0] > 2 * vlib.NCPU
    except OSError:
        pass

    # ---- 1. model checking of the L2 specification (runs next to the recording)
    mc = [("quick", "Exec_quick_sc.cfg")]
    if not quick:
        # measured: dtor 1.86M, w3b 0.46M, main 0.34M, live 29k distinct states.  The families t2, t3, w3 (MC_Exec.tla,
        # spec/mc/Exec_{t2,t3,w3}_sc.cfg) are several million states each: VERIF_DEEP=1 adds them
        mc += [("dtor", "Exec_dtor_sc.cfg"), ("main", "Exec_main_sc.cfg"), ("w3b", "Exec_w3b_sc.cfg"), ("live", "Exec_live.cfg")]
        if os.environ.get("VERIF_DEEP"):
            mc += [("t2", "Exec_t2_sc.cfg"), ("w3", "Exec_w3_sc.cfg"), ("t3", "Exec_t3_sc.cfg")]
    mc_res = {}

    def model_check():
        for name, cfg in mc:
            mc_res[name] = vlib.tlc(os.path.join(SPEC, "MC_Exec.tla"), os.path.join(SPEC, "mc", cfg), cache=True, timeout=3000, heap="8g",
                                    workers=4)

    th = None
    if not replay:
        th = threading.Thread(target=model_check)
        th.start()

    # ---- 2. executions of the real code
    if replay:
        key = json.load(open(replay))["exec"]
        ex = rerun(key)
        execs, status = ([ex] if ex else []), {}
    else:
        nfix = (10 if quick else 150) // (2 if busy and quick else 1)
        nrand = (36 if quick else 700) // (2 if busy and quick else 1)
        rseeds = 6 if quick else 12
        base = seed * 1000 + 1
        items = [(scn, params, (base, base + nfix)) for scn, params in FIXED]
        items += [gen_program(rng) + ((base, base + rseeds),) for _ in range(nrand)]
        execs, status = record(items, os.path.join(vlib.BUILD, "traces", pid + "_rec"), par=4, jobs=4)
    V.extra["executions"] = len(execs)
    V.extra["exec_status"] = status
    for ex in execs:
        if ec.max_thread(ex) > 15:
            raise vlib.Broken("execution with more than 16 threads: %s" % json.dumps(ex[0]))

    # ---- 3. validation against the L1 monitor (all executions) and the happens-before monitor (a sample)
    V.extra["wall_record_s"] = round(time.time() - V.t0, 1)
    hb_n = len(execs) if (replay or not quick) else (40 if busy else 100)
    hb_idx = list(range(len(execs)))
    if hb_n < len(execs):
        hb_idx = sorted(random.Random(seed).sample(hb_idx, hb_n))
    if not replay and not quick:
        # the HB monitor is one TLC run over the concatenated traces (~100 k lines / min): keep it inside a line budget
        # (programs with idoff sweep 130 queues per steal and log thousands of atomics each); the rest is counted as unchecked
        order = list(hb_idx)
        random.Random(seed + 2).shuffle(order)
        budget, keep = 900000, []
        for i in order:
            n = len(ec.hb_lines(execs[i]))
            if n <= budget:
                budget -= n
                keep.append(i)
        V.extra["hb_not_sampled"] = len(hb_idx) - len(keep)
        hb_idx = sorted(keep)
    total_acc = 0
    l2_n = len(execs) if replay else ((8 if busy else 16) if quick else 400)
    l2_idx = sorted(random.Random(seed + 1).sample(range(len(execs)), min(l2_n, len(execs))))
    plan = {"L1": list(range(len(execs))), "HB": hb_idx, "L2": l2_idx}
    results = {}

    def validate(name):
        try:
            if name == "L2":
                results[name] = l2_validate([execs[i] for i in l2_idx], pid + "_L2", timeout=300 if quick else 2400)
            else:
                tla, cfg, conv = LAYERS[name]
                results[name] = vlib.check_traces(tla, cfg, [conv(execs[i]) for i in plan[name]], pid + "_" + name)
        except Exception as e:  # re-raised in the main thread
            results[name] = e

    vts = [threading.Thread(target=validate, args=(n,)) for n in plan]
    for t in vts:
        t.start()
    for t in vts:
        t.join()
    for name in ("L1", "HB"):
        tla, cfg, conv = LAYERS[name]
        idx = plan[name]
        if isinstance(results[name], Exception):
            raise results[name]
        acc, issues, st = results[name]
        total_acc += acc
        V.cov["transitions"] += st["states"]
        V.extra["trace_" + name] = {"executions": len(idx), "accepted": acc, "issues": len(issues), "tlc_states": st["states"], "wall_s": round(st["wall"], 1), "unchecked": st["unchecked"]}
        for iss in issues:
            ex = execs[idx[iss.exec_index]]
            key = exec_key(ex)
            if iss.kind == "rejected":
                raise vlib.Broken("%s monitor rejected a trace (monitors must accept every well-formed trace): %s %s" % (name, iss.detail, json.dumps(key)))
            clause = iss.kind.split(":", 1)[1]
            if clause not in CLAUSES:
                raise vlib.Broken("unknown clause %s" % clause)
            if not replay:
                # reproducibility: the same schedule must fail again (a hang must survive a five times larger step budget)
                ex2 = rerun(key, MAX_STEPS * 5 if clause == "NoDeadlock" else MAX_STEPS)
                lines2 = [conv(ex2)] if ex2 else []
                _, iss2, _ = vlib.check_traces(tla, cfg, lines2, pid + "_re") if lines2 else (0, [], {})
                if not iss2:
                    if clause == "NoDeadlock":
                        log("NOTE: step budget exhausted but the execution finishes with a larger budget (not a hang): %s" % json.dumps(key))
                        V.extra.setdefault("budget_only", []).append(key)
                        continue
                    raise vlib.Broken("violation %s did not reproduce on re-execution of %s" % (clause, json.dumps(key)))
            l1 = [e for e in ec.monitor_lines(ex) if e["k"] != "sub"]
            rp = vlib.save_replay(pid, "%s_%s_%d.json" % (name, clause, idx[iss.exec_index]), {"exec": key, "clause": clause, "layer": name, "line": iss.line, "events": [{k: v for k, v in e.items() if v not in (0, "", False, [])} for e in l1][:200]})
            V.violation("%s violated on an execution of the real code (%s layer) scenario=%s params=%s seed=%s" % (clause, name, key["scenario"], json.dumps(key["params"]), key["seed"]), rp)
    # L2 conformance: an execution the model cannot explain is SPEC-DRIFT, never a violation
    if isinstance(results["L2"], Exception):
        raise results["L2"]
    acc2, drift, st2 = results["L2"]
    total_acc += acc2
    V.cov["transitions"] += st2["states"]
    V.extra["trace_L2"] = {"executions": len(l2_idx), "accepted": acc2, "drift": len(drift), "tlc_states": st2["states"], "wall_s": round(st2["wall"], 1), "unchecked": st2["unchecked"]}
    for k, line in drift:
        V.drift += 1
        log("SPEC-DRIFT component=executor exec=%s line=%d of the observable trace is not a behaviour of Exec.tla" % (json.dumps(exec_key(execs[l2_idx[k]])), line))
    V.extra["l2_conformant"] = V.drift == 0
    V.extra["wall_validate_s"] = round(time.time() - V.t0, 1)
    V.cov["traces_validated_against_impl"] = total_acc
    for ex in execs[:2] + execs[-2:]:
        V.sample({"scenario": ex[0]["scn"], "params": ex[0]["params"], "strategy": ex[0]["strategy"], "seed": ex[0]["seed"], "events": len(ex),
                  "l1_events": [{k: v for k, v in e.items() if v not in (0, "", False, [])} for e in ec.monitor_lines(ex)[1:10]]})

    # ---- model checking results
    if th is not None:
        th.join()
        for name, _ in mc:
            r = mc_res.get(name)
            if r is None:
                raise vlib.Broken("model checking run %s missing" % name)
            V.add_tlc(name, r)
            if not r.ok:
                if r.violation in ("tlc_error", "timeout"):
                    raise vlib.Broken("TLC failed on %s: %s" % (name, (r.error_trace or r.out)[:2000]))
                # the L2 model is not regenerated from the code: a counterexample here is an error of the specification
                raise vlib.Broken("TLC counterexample on the committed L2 model (%s, %s): the specification is wrong\n%s" % (name, r.violation, r.error_trace[:3000]))
        V.cov["exhaustive"] = True
    V.assumptions += [
        "queue operations are atomic in Exec.tla (ConcurrentBoundedQueue is covered by C01/C02); the non-concurrent local push is two steps",
        "executions are serialised by vsched: one thread runs between two schedule points; weak-memory effects on the task payload are judged by HBMon on the recorded orders",
        "termination is judged only for programs that cannot sit on a full global queue (everything pushed fits the documented capacity, or only outside threads push and stop() comes after them)",
        "InplaceExecutor has no flat re-entry mode in the pinned commit; the flat mode exists in the model only",
    ]
    return V.finish()
