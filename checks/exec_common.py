"""Trace normalisation for the executor driver (property C07): vsched trace -> lines for
Exec_Mon.tla (L1 observables), Exec_Trace.tla (L2 observable-trace inclusion) and HBMon.tla."""
import re

DEF = {"k": "", "t": 0, "id": 0, "par": 0, "ok": False, "valid": False, "rin": False, "val": 0, "ret": 0,
       "loc": "", "via": "", "ready": False, "phase": "", "op": "", "status": "", "judge": False, "runs": []}
ATOMIC = {"load", "store", "xchg", "faa", "fand", "for", "fxor", "cas"}
RMW = {"xchg", "faa", "fand", "for", "fxor", "cas"}


def parse_prog(s):
    """'e2.g_s11.x' -> list of threads, each a list of dict(op, c, g, r)"""
    prog, root = [], 0
    for th in s.split("_"):
        ops = []
        for tok in th.split("."):
            if not tok:
                continue
            o = {"op": tok[0], "c": 0, "g": 0, "r": 0}
            if len(tok) > 1 and tok[1].isdigit():
                o["c"] = int(tok[1])
            if len(tok) > 2 and tok[2].isdigit():
                o["g"] = int(tok[2])
            if o["op"] in "es":
                root += 1
                o["r"] = root
            ops.append(o)
        prog.append(ops)
    return prog


def count_tasks(prog):
    n = 0
    for th in prog:
        for o in th:
            if o["op"] in "es":
                n += 1 + o["c"] + o["c"] * o["g"]
    return n


def judged(scn, params):
    """programs that can never sit on a full global queue (the only ones whose termination C07 vouches for):
    (1) everything ever pushed fits into the documented capacity, or
    (2) only threads outside the pool push (no task has children) and all of them are done before stop() starts"""
    if scn != "pool":
        return True
    prog = parse_prog(str(params.get("prog", "")))
    w, g = int(params.get("w", 1)), int(params.get("g", 1))
    pushes = count_tasks(prog) + w + sum(1 for th in prog for o in th if o["op"] == "u")
    if pushes <= max(1, g):
        return True
    has_kids = any(o["c"] > 0 for th in prog for o in th if o["op"] in "es")
    has_x = any(o["op"] == "x" for th in prog for o in th)
    return not has_kids and not has_x


def monitor_lines(events):
    """vsched trace of one execution -> lines for Exec_Mon.tla"""
    out = []
    scn = ""
    window = {}  # thread -> stack of [id, went through the global ticket]
    for e in events:
        k = e.get("k")
        t = e.get("t", 0)
        if k == "reset":
            scn = e["scn"]
            out.append(dict(DEF, k="reset", op=scn, judge=judged(scn, e["params"])))
        elif k in RMW and e.get("loc") == "g_push":
            if window.get(t):
                window[t][-1][1] = True
        elif k == "sub":
            window.setdefault(t, []).append([e["id"], False])
            out.append(dict(DEF, k="sub", t=t, id=e["id"], par=e["par"], via=e["via"]))
        elif k == "refuse":
            out.append(dict(DEF, k="refuse", t=t, id=e["id"]))
        elif k == "subret":
            st = window.get(t) or [[e["id"], False]]
            _, glob = st.pop()
            loc = ("global" if glob else "local") if scn == "pool" else "inline"
            out.append(dict(DEF, k="subret", t=t, id=e["id"], ok=e["ok"], valid=e["valid"], ret=e["ret"], loc=loc))
        elif k == "tb":
            out.append(dict(DEF, k="tb", t=t, id=e["id"], rin=e["rin"]))
        elif k == "te":
            out.append(dict(DEF, k="te", t=t, id=e["id"], ret=e["ret"], rin=e.get("rin", True)))
        elif k == "fut":
            out.append(dict(DEF, k="fut", t=t, id=e["id"], ready=e["ready"], val=e["val"], phase=e["phase"]))
        elif k in ("stopcall", "stopret"):
            out.append(dict(DEF, k=k, t=t, op=e.get("op", "")))
        elif k in ("destroyed", "progend", "joincall", "joinret"):
            out.append(dict(DEF, k=k, t=t))
        elif k == "final":
            out.append(dict(DEF, k="final", runs=e["runs"]))
        elif k == "end":
            out.append(dict(DEF, k="end", status=e.get("status", "?")))
    return out


def hb_lines(events):
    """vsched trace of one execution -> lines for the generic HBMon.tla.
    Locations: named ones, heap addresses as ("h", byte offset); anonymous static storage ("?") cannot take
    part in the chains that publish a task or a result and is left out, as are locations only one thread touches.
    Payload: closure state written by the submitter (sub) and read by the task (tb); result written by the
    task (te) and read through the future (fut ready)."""
    D = {"t": 0, "k": "", "loc": "", "i": 0, "mo": "", "mof": "", "ok": True}

    def loc_of(e):
        loc = e.get("loc", "")
        if loc == "?" or loc == "":
            return None
        if loc == "heap":
            return ("h", e.get("off", 0))
        return (loc, e.get("i", 0))

    users = {}
    for e in events:
        if e.get("k") in ATOMIC:
            lc = loc_of(e)
            if lc is not None:
                users.setdefault(lc, set()).add(e.get("t", 0))
    out = []
    for e in events:
        k = e.get("k")
        t = max(0, e.get("t", 0))
        if k == "reset":
            out.append(dict(D, k="reset"))
        elif k in ATOMIC:
            lc = loc_of(e)
            if lc is None or len(users[lc]) < 2:
                continue
            n = dict(D, t=t, k=k, loc=lc[0], i=lc[1], mo=e["mo"])
            if k == "cas":
                n["ok"] = e["ok"]
                n["mof"] = e.get("mof", e["mo"])
            out.append(n)
        elif k == "fence":
            out.append(dict(D, t=t, k=k, mo=e["mo"]))
        elif k in ("lock", "unlock"):
            out.append(dict(D, t=t, k=k, loc="mutex:" + e.get("loc", ""), i=e.get("i", 0)))
        elif k == "trylock":
            out.append(dict(D, t=t, k=k, loc="mutex:" + e.get("loc", ""), i=e.get("i", 0), ok=e["ok"]))
        elif k in ("spawn", "join"):
            out.append(dict(D, t=t, k=k, i=e["child"]))
        elif k == "sub":
            out.append(dict(D, t=t, k="acc", loc="in", i=e["id"], ok=True))
        elif k == "tb":
            out.append(dict(D, t=t, k="acc", loc="in", i=e["id"], ok=False))
        elif k == "te":
            out.append(dict(D, t=t, k="acc", loc="out", i=e["id"], ok=True))
        elif k == "fut" and e.get("ready"):
            out.append(dict(D, t=t, k="acc", loc="out", i=e["id"], ok=False))
    return out


def max_thread(events):
    return max([e.get("t", 0) for e in events] + [e.get("child", 0) for e in events if e.get("k") == "spawn"] + [0])


DEFT = {"k": "", "role": "", "n": 0, "id": 0, "loc": "", "kind": "", "W": 0, "G": 0, "L": 0, "steal": False, "bal": False,
        "accs": [], "tree": [], "prog": []}


def all_ids(prog):
    ids = []
    for th in prog:
        for o in th:
            if o["op"] in "es":
                r = o["r"]
                ids.append(r)
                for k in range(1, o["c"] + 1):
                    ids.append(r * 10 + k)
                    for j in range(1, o["g"] + 1):
                        ids.append((r * 10 + k) * 10 + j)
    return ids


def trace_lines(events):
    """vsched trace of one execution -> lines for Exec_Trace.tla (observable events of the L2 model).
    Returns None when the execution is outside the model's vocabulary (more than 9 children ...)."""
    h = events[0]
    scn, p = h["scn"], h["params"]
    prog = parse_prog(str(p.get("prog", "")))
    tree = []
    for th in prog:
        for o in th:
            if o["op"] in "es":
                tree.append({"c": o["c"], "g": o["g"]})
    mprog = [[{"op": o["op"], "r": o["r"]} for o in th if o["op"] in "esgxu" and not (o["op"] in "xu" and scn != "pool")] for th in prog]
    W = int(p.get("w", 0)) if scn == "pool" else 0
    bal = scn == "pool" and int(p.get("bal", -1)) >= 0
    gcap = 1
    for e in events:
        if e.get("k") == "started":
            gcap = e["gcap"]
    accs = []
    if scn == "refuse":
        pat = str(p.get("pat", "r"))
        accs = [i for i in all_ids(prog) if pat[i % len(pat)] == "a"]
    out = [dict(DEFT, k="reset", kind=scn, W=W, G=64 if scn == "pool" else 0, L=int(p.get("l", 0)) if scn == "pool" else 0, steal=bool(int(p.get("steal", 0))) if scn == "pool" else False,
                bal=bal, accs=accs, tree=tree, prog=mprog)]
    # real thread -> role: pool threads are created by start() first, then the submitters in program order
    role = {0: ("s", 1)}
    spawns0 = [e["child"] for e in events if e.get("k") == "spawn" and e.get("t") == 0]
    npool = W + (1 if bal else 0)
    for i, c in enumerate(spawns0[:npool]):
        role[c] = ("w", i + 1) if i < W else ("b", 0)
    for i, c in enumerate(spawns0[npool:npool + len(prog) - 1]):
        role[c] = ("s", i + 2)
    inline = scn in ("inplace", "refuse")
    # which queue: from the monitor normalisation (ticket of the global queue seen inside the call or not)
    locs = {e["id"]: e["loc"] for e in monitor_lines(events) if e["k"] == "subret"}
    window = {}    # thread -> id of the submission in progress
    ticketed = set()
    for e in events:
        k = e.get("k")
        t = e.get("t", 0)
        r = role.get(t, ("t", 0))
        if k == "sub":
            window[t] = e["id"]
        elif k in RMW and e.get("loc") == "g_push" and window.get(t) and scn == "pool":
            # the ticket of the global queue fixes the FIFO position: the model's push happens here
            if window[t] not in ticketed:
                ticketed.add(window[t])
                out.append(dict(DEFT, k="acc", role=r[0], n=r[1], id=window[t], loc="global"))
        elif k == "subret":
            window[t] = 0
            if e["ok"]:
                if not inline and e["id"] not in ticketed:
                    out.append(dict(DEFT, k="acc", role=r[0], n=r[1], id=e["id"], loc=locs.get(e["id"], "")))
            else:
                out.append(dict(DEFT, k="ref", role=r[0], n=r[1], id=e["id"]))
        elif k in ("tb", "te"):
            out.append(dict(DEFT, k=k, role=r[0], n=r[1], id=e["id"]))
        elif k in ("stopcall", "stopret") and e.get("op") != "dtor2":
            out.append(dict(DEFT, k=k, role=r[0], n=r[1]))
        elif k == "end":
            out.append(dict(DEFT, k="end"))
    # the model accepts at the push; a task may be taken and started before the submitting call has returned
    for e in list(out):
        if e["k"] == "tb":
            i = out.index(e)
            for j in range(i + 1, len(out)):
                if out[j]["k"] == "acc" and out[j]["id"] == e["id"]:
                    out.insert(i, out.pop(j))
                    break
    return out
