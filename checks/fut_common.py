"""Trace normalisation for the Future / Promise / CountDownLatch driver (C08)."""
import re

import bq_common as bq

DEF = {"t": 0, "k": "", "loc": "", "i": 0, "v": 0, "a": 0, "b": 0, "ok": True, "mo": "", "mof": "", "op": "", "n": 0, "res": 0, "id": 0, "now": 0}
SCHED = {"spawn", "start", "exit", "join", "crash", "dec"}
READY = 65536            # READY_MASK in the specification's number space
HUGE_US = 500000000      # "huge" timeouts (INT64_MAX/2, INT64_MAX ns) in the monitor's clock unit (TLC ints are 32 bit)
NOW_CAP = 1500000000     # virtual time is clipped here (a fired huge timer moves the clock by centuries)

TIMEOUTS = {"z": 0, "n": -1, "N": -HUGE_US, "h": HUGE_US, "H": HUGE_US}


def op_n(name, arg):
    """numeric parameter of an operation as the specifications see it"""
    if name == "wf":
        return TIMEOUTS[arg] if arg in TIMEOUTS else int(arg)
    if name in ("sv", "cd", "sl"):
        return int(arg or 0)
    return 0


def parse_prog(s):
    prog = []
    for th in s.split("_"):
        ops = []
        for tok in th.split("."):
            if not tok:
                continue
            m = re.match(r"(get|sv|cd|wf|of|th|rd|sl)(.*)$", tok)
            ops.append({"op": m.group(1), "n": op_n(m.group(1), m.group(2))})
        prog.append(ops)
    return prog


def clip(us):
    return min(int(us), NOW_CAP)


def will_set(mode, count, prog):
    if mode == "latch":
        return sum(o["n"] for th in prog for o in th if o["op"] == "cd") >= count
    return any(o["op"] == "sv" for th in prog for o in th)


def must_finish(mode, count, prog):
    """a deadlock at the end of the execution is a violation: either the value gets set (every
    sleeper must be woken) or nobody blocks without a timeout"""
    return will_set(mode, count, prog) or not any(o["op"] == "get" for th in prog for o in th)


def header(e):
    p = e["params"]
    mode = p.get("mode", "fut")
    count = int(p.get("count", 1)) if mode == "latch" else 0
    return mode, count, parse_prog(p["prog"])


def is_huge_jump(e):
    return e.get("k") in ("tick", "spur") and e.get("now_us", 0) > NOW_CAP


def cut(events):
    """A fired huge timer (INT64_MAX/2 ns and more) moves the virtual clock by centuries, which the 32 bit
    integers of TLC cannot represent next to microsecond timeouts: such an execution is validated up to
    (not including) that timer event."""
    for i, e in enumerate(events):
        if is_huge_jump(e):
            return events[:i]
    return events


def has_huge(prog_text):
    return "wfh" in prog_text or "wfH" in prog_text


def symbols(events):
    """interned tokens -> numbers: the driver stores READY_MASK + k into sym32 and -(k) into sym64"""
    s32, s64 = {}, {}
    for e in events:
        if e.get("k") == "store" and e.get("loc") == "sym32":
            s32[e["v"]] = READY + len(s32) if len(s32) < 12 else READY - 16 + (len(s32) - 12)
        elif e.get("k") == "store" and e.get("loc") == "sym64":
            s64[e["v"]] = -(2 + len(s64))
    return s32, s64


def normalise(events):
    """vsched trace of one execution -> lines for Fut_Trace.tla"""
    out = []
    events = cut(events)
    s32, s64 = symbols(events)
    node_of = {}     # pointer token -> node id (latest owner)
    lasthead = {}    # thread -> (raw, mapped) head value it saw last
    cur_id = {}
    now = 0

    def fv(x):
        return s32.get(x, x)

    def hv(x):
        if x in (0, -1):
            return x
        return node_of.get(x, x)

    for e in events:
        k = e.get("k")
        if k == "reset":
            mode, count, prog = header(e)
            wbase = int(e["params"].get("wbase", 0))
            out.append(dict(DEF, k="reset", mode=mode, count=count, fx0=(READY - wbase) if wbase > 0 else 0, prog=prog))
            continue
        if k in ("tick", "spur"):
            now = clip(e["now_us"])
            out.append(dict(DEF, k=k, t=e["wakes"], now=now))
            continue
        if k in SCHED:
            continue
        if k == "end":
            out.append(dict(DEF, k="end", status=e.get("status", "?")))
            continue
        if k == "final":
            out.append(dict(DEF, k="final", ready=e["ready"], v=e["value"]))
            continue
        t = e.get("t", 0)
        if t <= 0:
            continue
        loc = e.get("loc", "")
        if loc in ("?", "sym32", "sym64"):
            continue           # the context of a then()-future: another instance of the same protocol
        n = dict(DEF, t=t, k=k, now=now)
        if k in ("load", "xchg", "faa", "for", "cas"):
            n["loc"], n["mo"] = loc, e.get("mo", "")
        if loc == "futex":
            if k == "load":
                n["v"] = fv(e["v"])
            elif k in ("xchg", "faa", "for"):
                n["v"], n["a"] = fv(e["v"]), fv(e["a"])
            elif k == "fwait":
                n["loc"], n["a"], n["v"], n["ok"] = loc, fv(e["exp"]), fv(e["cur"]), e["res"] == "block"
            elif k == "fret":
                n["loc"], n["ok"] = loc, e["res"] in ("woken", "spurious", "eintr")
            elif k == "fwake":
                n["loc"], n["v"] = loc, e["woken"]
            else:
                n["v"] = e.get("v", 0)
        elif loc == "head":
            if k == "load":
                n["v"] = hv(e["v"])
                lasthead[t] = (e["v"], n["v"])
            elif k == "xchg":
                n["v"], n["a"] = hv(e["v"]), hv(e["a"])
            elif k == "cas":
                lh = lasthead.get(t)
                n["a"] = lh[1] if lh and lh[0] == e["a"] else hv(e["a"])
                n["ok"], n["mof"] = e["ok"], e.get("mof", "")
                if e["ok"]:
                    n["v"] = n["a"]
                    node_of[e["b"]] = cur_id.get(t, 0)
                    n["b"] = hv(e["b"])
                else:
                    n["v"] = hv(e["v"])
                    node_of[e["b"]] = cur_id.get(t, 0)
                    n["b"] = cur_id.get(t, 0)
                    lasthead[t] = (e["v"], n["v"])
            else:
                n["v"] = e.get("v", 0)
        elif loc == "count":
            n["v"] = e.get("v", 0)
            a = e.get("a", 0)
            n["a"] = s64.get(a, a)
        elif k in ("load", "store", "xchg", "faa", "for", "cas", "fwait", "fret", "fwake"):
            n["loc"] = loc
            n["v"] = e.get("v", 0)
        elif k == "clock":
            n["now"] = clip(e["now_us"])
        elif k == "sleep":
            n["n"] = int(e["us"])
        elif k in ("call", "ret"):
            n["op"], n["n"], n["id"], n["res"] = e["op"], op_n(e["op"], e["arg"]), e["id"], e.get("res", 0)
            if k == "call":
                cur_id[t] = e["id"]
        elif k in ("vw", "vr"):
            n["v"] = e["v"]
        elif k == "cbb":
            n["id"], n["v"] = e["id"], e["v"]
        elif k == "cbe":
            n["id"] = e["id"]
        out.append(n)
    return out


def monitor_lines(events):
    """vsched trace of one execution -> lines for Fut_Mon.tla (L1 observables only; virtual time from the timer events)"""
    out = []
    D = {"t": 0, "k": "", "op": "", "n": 0, "id": 0, "res": 0, "v": 0, "now": 0, "mode": "", "count": 0, "must": False, "ready": 0, "thens": [], "status": ""}
    now = 0
    for e in cut(events):
        k = e.get("k")
        if k == "reset":
            mode, count, prog = header(e)
            now = 0
            out.append(dict(D, k="reset", mode=mode, count=count, must=must_finish(mode, count, prog)))
        elif k in ("tick", "spur"):
            now = clip(e["now_us"])       # a spurious return of a timed wait happens some virtual time into the wait
        elif k in ("call", "ret"):
            out.append(dict(D, k=k, t=e["t"], op=e["op"], n=op_n(e["op"], e["arg"]), id=e["id"], res=e.get("res", 0), now=now))
        elif k in ("cbb", "cbe"):
            out.append(dict(D, k=k, t=e["t"], id=e["id"], v=e.get("v", 0), op=e["op"], now=now))
        elif k == "vr":
            out.append(dict(D, k=k, t=e["t"], v=e["v"], now=now))
        elif k == "final":
            out.append(dict(D, k=k, ready=e["ready"], v=e["value"], thens=e["thens"], now=now))
        elif k == "end":
            out.append(dict(D, k=k, status=e.get("status", "?"), now=now))
    return out


def fut_acc(e):
    k = e.get("k")
    if k == "vw":
        return [("val", 0, True)]
    if k in ("vr", "cbb"):
        return [("val", 0, False)]
    return None


def hb_lines(events):
    """lines for the generic HBMon.tla: the atomics of the future under test, thread create/join and the
    payload accesses (construction of the value = write, callbacks / get() = reads).  The atomics of
    then()-futures (unnamed) are left out: they could only add ordering."""
    ev = [e for e in cut(events) if e.get("loc") not in ("?", "sym32", "sym64")]
    return bq.hb_lines(ev, fut_acc)
