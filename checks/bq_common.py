"""Trace normalisation for the bounded-queue driver (shared by C01 / C02 / C16 / C17 ...)."""
import re

DEF = {"t": 0, "k": "", "loc": "", "i": 0, "v": 0, "a": 0, "b": 0, "ok": True, "mo": "", "mof": "", "op": "", "n": 0, "vals": [], "res": 0}
SCHED = {"spawn", "start", "exit", "join", "tick", "timed", "crash"}


def parse_prog(s):
    prog = []
    for th in s.split("_"):
        ops = []
        for tok in th.split("."):
            if not tok:
                continue
            m = re.match(r"([a-z]+)(\d*)(?::([01]{3}))?$", tok)
            name, n, fl = m.group(1), int(m.group(2) or 1), m.group(3) or "111"
            ops.append({"op": name, "n": n, "c": fl[0] == "1", "w": fl[1] == "1", "k": fl[2] == "1"})
        prog.append(ops)
    return prog


def norm_loc(e):
    loc = e.get("loc", "")
    if loc == "push_idx":
        return "idx", 0
    if loc == "pop_idx":
        return "idx", 1
    return loc, e.get("i", 0)


def normalise(events):
    """vsched trace of one execution -> lines for BQ_Trace.tla"""
    out = []
    last_kind = {}
    for e in events:
        k = e.get("k")
        if k == "reset":
            p = e["params"]
            out.append(dict(DEF, k="reset", cap=int(p["cap"]), base=int(p.get("base", 0)), prog=parse_prog(p["prog"])))
            continue
        if k == "tick" and last_kind.get(e.get("wakes")) == "fwait_block":
            out.append(dict(DEF, k="tick", t=e["wakes"]))
            last_kind[e["wakes"]] = "tick"
            continue
        if k == "spur":
            out.append(dict(DEF, k="spur", t=e["wakes"]))
            last_kind[e["wakes"]] = "spur"
            continue
        if k in SCHED:
            continue
        if k == "end":
            out.append(dict(DEF, k="end", status=e.get("status", "?")))
            continue
        if k == "final":
            out.append(dict(DEF, k="final", push_idx=e["push_idx"], pop_idx=e["pop_idx"], nleft=len(e["left"]), vals=e["left"]))
            continue
        t = e.get("t", 0)
        if t <= 0:
            continue
        if k == "clock" and last_kind.get(t) == "clock":
            continue
        last_kind[t] = "fwait_block" if (k == "fwait" and e.get("res") == "block") else k
        n = dict(DEF, t=t, k=k)
        if k in ("load", "store", "xchg", "faa", "cas", "fwait", "fret", "fwake"):
            n["loc"], n["i"] = norm_loc(e)
        if k in ("load", "store", "xchg", "faa", "cas", "fence"):
            n["mo"] = e.get("mo", "")
        if k in ("load", "store"):
            n["v"] = e["v"]
        elif k in ("xchg", "faa"):
            n["v"], n["a"] = e["v"], e["a"]
        elif k == "cas":
            n["v"], n["a"], n["b"], n["ok"] = e["v"], e["a"], e["b"], e["ok"]
            n["mof"] = e.get("mof", "")
        elif k == "fwait":
            n["a"], n["v"], n["ok"] = e["exp"], e["cur"], e["res"] == "block"
        elif k == "fret":
            n["ok"] = e["res"] in ("woken", "spurious", "eintr")
        elif k == "fwake":
            n["v"] = e["woken"]
        elif k in ("call", "ret"):
            n["op"], n["n"] = e["op"], e["n"]
            n["res"] = e.get("res", 0)
        elif k in ("cbb", "cbe"):
            n["op"], n["i"], n["n"], n["vals"] = e["role"], e["slot"], e["n"], e["vals"]
        out.append(n)
    return out


PUSH_OPS = {"pu", "tpu", "pun", "tpun", "cpun"}


def is_balanced(prog):
    """role-pure threads, blocking operations only, as many elements pushed as popped:
    every blocking call must then return (first sentence of C02)"""
    pushed = popped = 0
    for th in prog:
        roles = set()
        for o in th:
            if o["op"] in ("pu", "pun"):
                roles.add("p")
                pushed += o["n"]
            elif o["op"] in ("po", "pon"):
                roles.add("c")
                popped += o["n"]
            else:
                return False
        if len(roles) > 1:
            return False
    return pushed == popped


def monitor_lines(events):
    """vsched trace of one execution -> lines for BQ_Mon.tla (L1 observables only)"""
    out = []
    D = dict(DEF, intact=True, t0=0, t1=0, to=0, slack=0, cap=0, balanced=False, status="")
    for e in events:
        k = e.get("k")
        if k == "reset":
            p = e["params"]
            prog = parse_prog(p["prog"])
            out.append(dict(D, k="reset", cap=int(p["cap"]), balanced=is_balanced(prog)))
        elif k == "call":
            out.append(dict(D, k="call", t=e["t"], op=e["op"], n=e["n"]))
        elif k == "ret":
            out.append(dict(D, k="ret", t=e["t"], op=e["op"], n=e["n"], res=e["res"]))
        elif k == "cbb":
            out.append(dict(D, k="cbb", t=e["t"], op=e["role"], i=e["slot"], n=e["n"], vals=e["vals"]))
        elif k == "cbe":
            out.append(dict(D, k="cbe", t=e["t"], op=e["role"], i=e["slot"], n=e["n"], vals=e["vals"], intact=e["intact"]))
        elif k == "final":
            out.append(dict(D, k="final", vals=e["left"]))
        elif k == "timed":
            out.append(dict(D, k="timed", t=e["t"], t0=e["t0_us"], t1=e["t1_us"], to=e["to_us"], slack=1000))
        elif k == "end":
            out.append(dict(D, k="end", status=e.get("status", "?")))
    return out


def hb_lines(events, acc_of=None):
    """vsched trace of one execution -> lines for the generic HBMon.tla.
    acc_of(e) -> list of (cell, index, is_write) for driver payload events"""
    out = []
    D = {"t": 0, "k": "", "loc": "", "i": 0, "mo": "", "mof": "", "ok": True}
    for e in events:
        k = e.get("k")
        t = max(0, e.get("t", 0))
        if k == "reset":
            out.append(dict(D, k="reset"))
        elif k in ("load", "store", "xchg", "faa", "fand", "for", "fxor"):
            out.append(dict(D, t=t, k=k, loc=e["loc"], i=e.get("i", 0), mo=e["mo"]))
        elif k == "cas":
            out.append(dict(D, t=t, k=k, loc=e["loc"], i=e.get("i", 0), mo=e["mo"], mof=e.get("mof", e["mo"]), ok=e["ok"]))
        elif k == "fence":
            out.append(dict(D, t=t, k=k, mo=e["mo"]))
        elif k in ("lock", "unlock"):
            out.append(dict(D, t=t, k=k, loc="mutex:" + e.get("loc", ""), i=e.get("i", 0)))
        elif k == "trylock":
            out.append(dict(D, t=t, k=k, loc="mutex:" + e.get("loc", ""), i=e.get("i", 0), ok=e["ok"]))
        elif k in ("spawn", "join"):
            out.append(dict(D, t=t, k=k, i=e["child"]))
        elif acc_of is not None:
            for cell, idx, w in acc_of(e) or []:
                out.append(dict(D, t=t, k="acc", loc=cell, i=idx, ok=bool(w)))
    return out


def bq_acc(cap):
    def f(e):
        if e.get("k") in ("cbb", "cbe"):
            return [("val", (e["slot"] + j) % cap, True) for j in range(e["n"])]
        return None
    return f


def tlc_behaviours(mc_tla, cfg, num, depth, seed, workdir, lib_dirs=None):
    """TLC -simulate on the L2 model: returns [(cap, base, prog_string, [thread per logged step, -1 = timer])]"""
    import glob, os, re, shutil, subprocess, vlib
    shutil.rmtree(workdir, ignore_errors=True)
    os.makedirs(workdir)
    libs = (lib_dirs or []) + [os.path.dirname(mc_tla), os.path.join(vlib.SPEC, "lib"), os.path.join(vlib.SPEC, "mo")]
    cmd = ["java", "-XX:+UseParallelGC", "-Xmx4g", "-DTLA-Library=" + ":".join(libs), "-cp", vlib.JAR, "tlc2.TLC", "-metadir", os.path.join(workdir, "meta"),
           "-config", cfg, "-simulate", "file=%s,num=%d" % (os.path.join(workdir, "tr"), num), "-depth", str(depth), "-workers", "1", "-seed", str(seed), mc_tla]
    r = subprocess.run(cmd, capture_output=True, text=True, timeout=900, cwd=os.path.dirname(mc_tla))
    if "Error:" in r.stdout:
        raise vlib.Broken("TLC simulation failed: " + r.stdout[-2000:])
    out = []
    for f in sorted(glob.glob(os.path.join(workdir, "tr_*"))):
        txt = open(f).read()
        m = re.search(r"/\\ cfg = \[(.*?)\n/\\ ", txt, re.S) or re.search(r"/\\ cfg = \[(.*?)\]\s*\n\n", txt, re.S)
        if not m:
            continue
        c = m.group(1)
        cap = int(re.search(r"cap \|-> (\d+)", c).group(1))
        base = int(re.search(r"base \|-> (\d+)", c).group(1))
        pm = c[c.index("prog |->"):]
        # threads are the top-level tuples of prog: split on ">>," at depth 1
        depth_, cur, threads = 0, "", []
        i = pm.index("<<")
        j = i
        while j < len(pm):
            if pm.startswith("<<", j):
                depth_ += 1
                if depth_ == 2:
                    cur = ""
                j += 2
                continue
            if pm.startswith(">>", j):
                depth_ -= 1
                if depth_ == 1:
                    threads.append(cur)
                if depth_ == 0:
                    break
                j += 2
                continue
            if depth_ >= 2:
                cur += pm[j]
            j += 1
        prog = []
        for th in threads:
            ops = []
            for om in re.finditer(r"\[([^\]]*)\]", th):
                o = om.group(1)
                name = re.search(r'op \|-> "(\w+)"', o).group(1)
                n = int(re.search(r"n \|-> (\d+)", o).group(1))
                fl = "".join("1" if re.search(r"\b%s \|-> TRUE" % k, o) else "0" for k in ("c", "w", "k"))
                ops.append("%s%s:%s" % (name, n if name.endswith("n") else "", fl))
            prog.append(".".join(ops))
        steps = []
        for sm in re.finditer(r"/\\ ev = \[(.*?)\]\s*(?=\n\n|\n/\\|\Z)", txt, re.S):
            e = sm.group(1)
            k = re.search(r'\bk \|-> "(\w*)"', e).group(1)
            t = int(re.search(r"\bt \|-> (\d+)", e).group(1))
            if k == "":
                continue
            steps.append(-1 if k == "tick" else (-2 - t) if k == "spur" else t)
        out.append((cap, base, "_".join(prog), steps))
    shutil.rmtree(workdir, ignore_errors=True)
    return out
