"""Trace normalisation for the bounded-queue driver (shared by C01 / C02 / C16 / C17 ...)."""
import re

DEF = {"t": 0, "k": "", "loc": "", "i": 0, "v": 0, "a": 0, "b": 0, "ok": True, "mo": "", "op": "", "n": 0, "vals": [], "res": 0}
SCHED = {"spawn", "start", "exit", "join", "tick", "timed", "crash"}


def parse_prog(s):
    prog = []
    for th in s.split("_"):
        ops = []
        for tok in th.split("."):
            if not tok:
                continue
            m = re.match(r"([a-z]+)(\d*)(?::([01]{3}))?$", tok)
            name, n, fl = m.group(1), int(m.group(2) or 1), m.group(3) or "111"
            ops.append({"op": name, "n": n, "c": fl[0] == "1", "w": fl[1] == "1", "k": fl[2] == "1"})
        prog.append(ops)
    return prog


def norm_loc(e):
    loc = e.get("loc", "")
    if loc == "push_idx":
        return "idx", 0
    if loc == "pop_idx":
        return "idx", 1
    return loc, e.get("i", 0)


def normalise(events):
    """vsched trace of one execution -> lines for BQ_Trace.tla"""
    out = []
    last_kind = {}
    for e in events:
        k = e.get("k")
        if k == "reset":
            p = e["params"]
            out.append(dict(DEF, k="reset", cap=int(p["cap"]), base=int(p.get("base", 0)), prog=parse_prog(p["prog"])))
            continue
        if k == "tick" and last_kind.get(e.get("wakes")) == "fwait_block":
            out.append(dict(DEF, k="tick", t=e["wakes"]))
            last_kind[e["wakes"]] = "tick"
            continue
        if k in SCHED:
            continue
        if k == "end":
            out.append(dict(DEF, k="end", status=e.get("status", "?")))
            continue
        if k == "final":
            out.append(dict(DEF, k="final", push_idx=e["push_idx"], pop_idx=e["pop_idx"], nleft=len(e["left"]), vals=e["left"]))
            continue
        t = e.get("t", 0)
        if t <= 0:
            continue
        if k == "clock" and last_kind.get(t) == "clock":
            continue
        last_kind[t] = "fwait_block" if (k == "fwait" and e.get("res") == "block") else k
        n = dict(DEF, t=t, k=k)
        if k in ("load", "store", "xchg", "faa", "cas", "fwait", "fret", "fwake"):
            n["loc"], n["i"] = norm_loc(e)
        if k in ("load", "store", "xchg", "faa", "cas", "fence"):
            n["mo"] = e.get("mo", "")
        if k in ("load", "store"):
            n["v"] = e["v"]
        elif k in ("xchg", "faa"):
            n["v"], n["a"] = e["v"], e["a"]
        elif k == "cas":
            n["v"], n["a"], n["b"], n["ok"] = e["v"], e["a"], e["b"], e["ok"]
        elif k == "fwait":
            n["a"], n["v"], n["ok"] = e["exp"], e["cur"], e["res"] == "block"
        elif k == "fret":
            n["ok"] = e["res"] == "woken"
        elif k == "fwake":
            n["v"] = e["woken"]
        elif k in ("call", "ret"):
            n["op"], n["n"] = e["op"], e["n"]
            n["res"] = e.get("res", 0)
        elif k in ("cbb", "cbe"):
            n["op"], n["i"], n["n"], n["vals"] = e["role"], e["slot"], e["n"], e["vals"]
        out.append(n)
    return out
