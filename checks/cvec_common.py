"""Trace normalisation for the ConcurrentVector driver (property C04).

vsched trace of one execution ->
  l2_lines       lines for CVec_Trace.tla  (L2 conformance, site -> order extraction, L1 clauses on the L2 state)
  monitor_lines  lines for CVec_Mon.tla    (L1 observables only)
  hb_lines       lines for lib/HBMon.tla   (atomics with their real orders + element / table cell accesses)
"""
import re

OPS = "erxsufgw"
CLOCK_BASE = 1000   # harness/shims.cc: virtual monotonic clocks start at 1000 s


def parse_prog(s):
    prog = []
    for th in s.split("_"):
        ops = []
        for tok in th.split("."):
            if not tok:
                continue
            m = re.match(r"([a-z])(\d*)$", tok)
            if not m or m.group(1) not in OPS:
                raise ValueError("bad op %r" % tok)
            ops.append({"op": m.group(1), "n": int(m.group(2) or 0)})
        prog.append(ops)
    return prog


def rename_aids(events):
    """allocation sequence numbers -> 100 * allocating thread + its k-th allocation (the identity the model uses)"""
    m = {0: 0, -1: -1}
    cnt = {}
    for e in events:
        if e.get("k") == "alloc":
            t = e.get("t", 0)
            cnt[t] = cnt.get(t, 0) + 1
            m[e["aid"]] = t * 100 + cnt[t]
    return m


DEF2 = {"t": 0, "k": "", "loc": "", "mo": "", "mof": "", "v": 0, "a": 0, "b": 0, "ok": True, "op": "", "n": 0, "id": 0, "off": 0, "cnt": 0, "status": ""}


def l2_lines(events):
    out = []
    ren = rename_aids(events)
    pend = {}   # thread -> index in `out` of an alloc line that may still turn into mkblk
    dt = {}     # thread -> [aid, count] of destructor calls not yet closed by a free
    now = 0
    slept = set()
    t0 = 0
    for e in events:
        k = e.get("k")
        t = e.get("t", 0)
        if k == "reset":
            p = e["params"]
            t0 = int(p.get("t0", 0))
            out.append(dict(DEF2, k="reset", bs=None, t0=CLOCK_BASE, prog=parse_prog(p["prog"])))
            continue
        if k == "cfg":
            out[0]["bs"] = e["bs"]
            continue
        if k == "end":
            out.append(dict(DEF2, k="end", status=e.get("status", "?")))
            continue
        if k == "tick":
            s = e["now_us"] // 1000000
            if s > now:
                out.append(dict(DEF2, k="tick", v=s + CLOCK_BASE))
                now = s
            continue
        if k == "sleep":
            if t0 > 0 and t not in slept:
                slept.add(t)   # the initial sleep that moves the clock to t0 is not an operation of the program
                continue
            out.append(dict(DEF2, k="sleep", t=t))
            continue
        if k in ("spawn", "start", "exit", "join", "crash", "yield"):
            continue
        if k in ("load", "xchg", "cas"):
            pend.pop(t, None)
            n = dict(DEF2, k=k, t=max(t, 0), loc=e.get("loc", "?"), mo=e.get("mo", ""), v=e["v"])
            if k == "cas":
                n.update(a=e["a"], b=e["b"], ok=e["ok"], mof=e.get("mof", ""))
            if k == "xchg":
                n.update(a=e["a"])
            out.append(n)
            continue
        if k == "clock":
            out.append(dict(DEF2, k="clock", t=t, v=e["now_us"] // 1000000 + CLOCK_BASE))
            continue
        if k == "alloc":
            out.append(dict(DEF2, k="alloc", t=t, id=ren[e["aid"]]))
            pend[t] = len(out) - 1
            continue
        if k == "ctor":
            i = pend.get(t)
            if i is not None and out[i]["id"] == ren.get(e["aid"]) and out[i]["cnt"] == e["off"]:
                out[i]["k"] = "mkblk"
                out[i]["cnt"] += 1
            else:
                out.append(dict(DEF2, k="ctor", t=t, id=ren.get(e["aid"], -1), off=e["off"]))
            continue
        if k == "dtor":
            d = dt.get(t)
            a = ren.get(e["aid"], -1)
            if d is not None and d[0] == a and d[1] == e["off"]:
                d[1] += 1
            elif d is None and e["off"] == 0:
                dt[t] = [a, 1]
            else:
                out.append(dict(DEF2, k="dtor", t=max(t, 0), id=a, off=e["off"]))
            continue
        if k == "free":
            a = ren.get(e["aid"], -1)
            d = dt.pop(t, None)
            if d is not None and d[0] == a:
                out.append(dict(DEF2, k="rmblk", t=max(t, 0), id=a, cnt=d[1], ok=e["ok"]))
            else:
                if d is not None:
                    out.append(dict(DEF2, k="dtor", t=max(t, 0), id=d[0], off=d[1]))
                out.append(dict(DEF2, k="free", t=max(t, 0), id=a, ok=e["ok"]))
            continue
        if k == "call":
            pend.pop(t, None)
            out.append(dict(DEF2, k="call", t=t, op=e["op"], n=e["n"]))
            continue
        if k == "ret":
            op = e["op"]
            n = dict(DEF2, k="ret", t=t, op=op, n=e["n"])
            if op in ("e", "x"):
                n.update(id=ren.get(e["aid"], -1), off=e["off"])
            elif op == "s":
                n.update(id=ren.get(e["aid"], -1))
            elif op == "u":
                n.update(v=ren.get(e["tb"], -1), id=ren.get(e["aid"], -1), off=e["off"], ok=not e["freed"])
            out.append(n)
            continue
        if k in ("destroy", "dead"):
            out.append(dict(DEF2, k=k, t=0))
            continue
    return out


DEFM = {"t": 0, "k": "", "op": "", "n": 0, "aid": 0, "off": 0, "val": 0, "now": 0, "ok": True, "els": [], "live": [], "status": ""}


def monitor_lines(events):
    out = []
    for e in events:
        k = e.get("k")
        t = max(e.get("t", 0), 0)
        if k == "reset":
            out.append(dict(DEFM, k="reset"))
        elif k == "alloc":
            out.append(dict(DEFM, k="alloc", t=t, aid=e["aid"], now=e["now"]))
        elif k == "free":
            out.append(dict(DEFM, k="free", t=t, aid=e["aid"], ok=e["ok"], now=e["now"]))
        elif k in ("ctor", "dtor"):
            out.append(dict(DEFM, k=k, t=t, aid=e["aid"], off=e["off"], val=e.get("val", 1)))
        elif k == "call":
            out.append(dict(DEFM, k="call", t=t, op=e["op"], n=e["n"], now=e["now"]))
        elif k == "ret":
            n = dict(DEFM, k="ret", t=t, op=e["op"], n=e["n"], aid=e["aid"], off=e["off"], val=e["val"], now=e["now"])
            if e["op"] == "u":
                n["ok"] = not e["freed"]
            if e["op"] == "f":
                n["els"] = e["els"]
            out.append(n)
        elif k == "destroy":
            out.append(dict(DEFM, k="destroy", now=e["now"]))
        elif k == "dead":
            out.append(dict(DEFM, k="dead", live=e["live"], now=e["now"]))
        elif k == "end":
            out.append(dict(DEFM, k="end", status=e.get("status", "?")))
    return out


def hb_lines(events):
    """atomics with the orders the code passed + thread create / join + payload accesses:
    element cells ("el", aid*64+off): constructor / destructor = write, a caller that is handed the element = read;
    table cells ("tab", aid): filled by its creator (alloc, and again with every block it creates) = write,
    read by whoever obtains it from snapshot()"""
    out = []
    D = {"t": 0, "k": "", "loc": "", "i": 0, "mo": "", "mof": "", "ok": True}
    last_tab = {}
    has_ctor = set(e["aid"] for e in events if e.get("k") == "ctor")
    for e in events:
        k = e.get("k")
        t = max(0, e.get("t", 0))
        if k == "reset":
            out.append(dict(D, k="reset"))
        elif k in ("load", "store", "xchg", "faa"):
            out.append(dict(D, t=t, k=k, loc=e["loc"], i=e.get("i", 0), mo=e["mo"]))
        elif k == "cas":
            out.append(dict(D, t=t, k=k, loc=e["loc"], i=e.get("i", 0), mo=e["mo"], mof=e.get("mof", e["mo"]), ok=e["ok"]))
        elif k == "fence":
            out.append(dict(D, t=t, k=k, mo=e["mo"]))
        elif k in ("spawn", "join"):
            out.append(dict(D, t=t, k=k, i=e["child"]))
        elif k == "alloc" and e["aid"] not in has_ctor:
            last_tab[t] = e["aid"]
            out.append(dict(D, t=t, k="acc", loc="tab", i=e["aid"], ok=True))
        elif k == "ctor":
            out.append(dict(D, t=t, k="acc", loc="el", i=e["aid"] * 64 + e["off"], ok=True))
            if e["off"] == 0 and t in last_tab:
                out.append(dict(D, t=t, k="acc", loc="tab", i=last_tab[t], ok=True))
        elif k == "dtor":
            out.append(dict(D, t=t, k="acc", loc="el", i=e["aid"] * 64 + e["off"], ok=True))
        elif k == "ret":
            op = e["op"]
            if op in ("e", "x") and e["aid"] > 0:
                out.append(dict(D, t=t, k="acc", loc="el", i=e["aid"] * 64 + e["off"], ok=False))
            elif op == "s" and e["aid"] > 0:
                out.append(dict(D, t=t, k="acc", loc="tab", i=e["aid"], ok=False))
            elif op == "u" and not e["freed"] and e["aid"] > 0:
                out.append(dict(D, t=t, k="acc", loc="tab", i=e["tb"], ok=False))
                out.append(dict(D, t=t, k="acc", loc="el", i=e["aid"] * 64 + e["off"], ok=False))
            elif op == "f":
                for a, o, _ in e["els"]:
                    if a > 0:
                        out.append(dict(D, t=t, k="acc", loc="el", i=a * 64 + o, ok=False))
    return out


def stale_push(events):
    """witness classification (not a verdict): did some retire() push a head whose stamp was read in an earlier
    64 s unit than the one in which its compare-exchange succeeded?  -> list of (thread, unit read, unit pushed)"""
    last_clock = {}
    now = CLOCK_BASE
    hits = []
    for e in events:
        k = e.get("k")
        if k == "tick":
            now = max(now, e["now_us"] // 1000000 + CLOCK_BASE)
        elif k == "clock":
            last_clock[e["t"]] = e["now_us"] // 1000000 + CLOCK_BASE
        elif k == "cas" and e.get("loc") == "head" and e["ok"] and e.get("b", 0) != 0:
            t = e["t"]
            if t in last_clock and (last_clock[t] >> 6) != (now >> 6):
                hits.append((t, last_clock[t] >> 6, now >> 6))
    return hits


def early_free_suspect(events):
    """selection heuristic (not a verdict): retire()/gc() gave a table back less than 64 s after the successful
    compare-exchange on _block_table that replaced it.  Used only to decide which of many recorded executions
    are validated; the specifications judge."""
    now = 0
    blocks = set(e["aid"] for e in events if e.get("k") == "ctor")
    last_tab = {}    # thread -> aid of the table it allocated last
    ptr = {}         # interned pointer value -> aid
    sup = {}         # aid -> time superseded
    for e in events:
        k = e.get("k")
        if k == "tick":
            now = max(now, e["now_us"] // 1000000)
        elif k == "alloc" and e["aid"] not in blocks:
            last_tab[e.get("t", 0)] = e["aid"]
        elif k == "cas" and e.get("loc") == "bt" and e["ok"]:
            ptr[e["b"]] = last_tab.get(e["t"])
            if e["a"] in ptr:
                sup[ptr[e["a"]]] = now
        elif k == "destroy":
            break
        elif k == "free" and e.get("t", 0) > 0 and e["aid"] in sup and e["now"] - sup[e["aid"]] < 64:
            return True
    return False
