"""C19 (counters / enumerable thread-locals): history generation, driver invocation, trace normalisation.
C++ records, this file normalises and drives; every verdict is TLC's (Counters_Trace / Counters_Mon)."""
import glob
import json
import os
import re
import shutil
import subprocess

import vlib

SPEC = vlib.SPEC
KINDS = ["adder", "summer", "maxer", "miner", "cetl", "etl"]
MOVABLE = {"adder", "cetl", "etl"}
RESETTABLE = {"adder", "maxer", "miner", "cetl", "etl"}
CMP = {"maxer", "miner"}
EXT = 3                       # |v| == EXT stands for the type's extreme (maxer / miner); Counters_Trace.cfg: TMin = -3, TMax = 3
SSIZE_MIN, SSIZE_MAX = -(1 << 63), (1 << 63) - 1
MAX_THREADS, MAX_GEN, MAX_PLACES = 7, 11, 4

DEF = {"k": "", "t": 0, "o": 0, "p": 0, "v": 0, "r1": 0, "r2": 0, "has": True, "v0": 0, "tid": -1, "addr": 0,
       "iid": -1, "off": -1, "sidx": -1, "cells": [], "kind": "", "npl": 0, "status": "", "op": ""}


# ----------------------------------------------------------------------------- histories
def tok(op, *f):
    return op + ":".join(str(x) for x in f)


def gen_history(rng, kind, length=34):
    """seeded random API history, steered towards slot / offset / instance recycling"""
    ops = []
    live_t, next_t = [], 1
    live_o, gens = [], 0
    vals = [-EXT, -2, -1, 0, 1, 2, EXT] if kind in CMP else [-2, -1, 1, 2, 3]
    if kind in CMP and rng.random() < 0.3:
        vals = [-EXT, EXT, -EXT, EXT, 1]      # periods holding nothing but the type's extremes
    free_places = lambda: [o for o in range(1, MAX_PLACES + 1) if o not in live_o]

    def reads(o, p=0.5):
        for c in "VFAB":
            if rng.random() < p:
                ops.append(tok(c, o))

    while len(ops) < length:
        r = rng.random()
        if not live_t or (r < 0.10 and len(live_t) < 3 and next_t <= MAX_THREADS):
            if next_t > MAX_THREADS:
                break
            ops.append(tok("S", next_t))
            live_t.append(next_t)
            next_t += 1
        elif not live_o or (r < 0.20 and free_places() and gens < MAX_GEN):
            if gens >= MAX_GEN or not free_places():
                break
            o = rng.choice(free_places()[:2])
            ops.append(tok("C", o))
            live_o.append(o)
            gens += 1
            reads(o, 0.3)
        elif r < 0.30 and next_t <= MAX_THREADS:
            t = rng.choice(live_t)
            ops.append(tok("X", t))
            live_t.remove(t)
            if live_o:
                reads(rng.choice(live_o), 0.6)
        elif r < 0.40 and gens < MAX_GEN:
            o = rng.choice(live_o)
            ops.append(tok("D", o))
            live_o.remove(o)
        elif r < 0.46 and kind in MOVABLE and len(live_o) >= 2:
            a, b = rng.sample(live_o, 2)
            ops.append(tok("M", a, b))
            reads(a, 0.5)
            reads(b, 0.5)
        elif r < 0.50 and kind in MOVABLE and free_places() and gens < MAX_GEN:
            a, b = free_places()[0], rng.choice(live_o)
            ops.append(tok("N", a, b))
            live_o.append(a)
            gens += 1
            reads(a, 0.5)
            reads(b, 0.5)
        elif r < 0.56 and kind in RESETTABLE:
            o = rng.choice(live_o)
            ops.append(tok("R", o))
            reads(o, 0.4)
        elif r < 0.60:
            ops.append(tok("L", rng.choice(live_t), rng.choice(live_o)))
        elif r < 0.90:
            o = rng.choice(live_o)
            ops.append(tok("K", rng.choice(live_t), o, rng.choice(vals)))
            if rng.random() < 0.35:
                reads(o, 0.5)
        else:
            reads(rng.choice(live_o), 0.7)
    for o in live_o:
        ops += [tok("V", o), tok("F", o), tok("A", o)]
    return ".".join(ops)


# targeted histories (every run): the recycling situations named in the property
FIXED = [
    # a thread exits, a new one re-uses its slot; the dead thread's contribution stays
    ("*", "S1.C1.K1:1:2.K1:1:1.X1.V1.F1.A1.S2.K2:1:3.V1.F1.A1.S3.K3:1:1.V1.F1.A1.X2.V1.F1.A1"),
    # a destroyed counter's cache-line offset is recycled by a new one (and by a third)
    ("*", "S1.S2.C1.C2.K1:1:2.K2:1:3.K1:2:1.V1.V2.D1.C1.V1.F1.A1.K2:1:1.V1.V2.D2.D1.C1.C2.V1.V2.F2"),
    # two live counters, two threads, interleaved use (the per-thread cache alternates)
    ("*", "S1.S2.C1.C2.C3.K1:1:1.K1:3:2.K1:2:3.K2:3:1.K2:1:2.K1:3:1.V1.V2.V3.F1.F3.A3.X1.V3.A3.F3"),
    # thread ids recycled LIFO across three generations of threads
    ("*", "S1.S2.S3.C1.K1:1:1.K2:1:2.K3:1:3.X2.X1.S4.K4:1:1.S5.K5:1:2.V1.F1.A1.X3.A1.S6.L6:1.A1.F1.V1"),
    # move: identities travel, the moved-from object is a fresh counter
    ("mov", "S1.C1.K1:1:2.N2:1.V1.V2.K1:1:1.K1:2:3.V1.V2.M1:2.V1.V2.F1.F2.D2.V1.C2.V2.K1:2:1.V2.V1"),
    # destroyed instance at the same place, stale per-thread cache entry
    ("mov", "S1.C1.K1:1:2.D1.C1.K1:1:1.V1.F1.D1.C1.V1.L1:1.V1.K1:1:3.V1"),
    # reset, then a new period
    ("rst", "S1.S2.C1.K1:1:2.K2:1:1.V1.R1.V1.F1.K2:1:1.V1.X1.V1.R1.V1.S3.K3:1:2.V1.F1.A1"),
    # for_each_alive (both overloads) on instances no thread has touched / on a second storage line
    ("*", "S1.C1.A1.B1.K1:1:1.A1.B1.C2.C3.F3.F2.K1:2:2.A2.B2.X1.A1.B1.F1"),
    ("*", "S1.C1.K1:1:1.C2.C3.A3.B3.F3.V3"),
    # maxer / miner: values including the type's own extremes
    ("cmp", "S1.S2.C1.K1:1:1.K2:1:-3.V1.R1.V1.K1:1:-1.V1.R1.K2:1:3.K1:1:2.V1.F1"),
    ("cmp", "S1.C1.K1:1:-3.V1.R1.K1:1:3.V1.R1.K1:1:-3.K1:1:-2.V1.R1.K1:1:3.K1:1:2.V1"),
    ("cmp", "S1.C1.K1:1:2.D1.C1.V1.F1.K1:1:-2.V1.R1.V1.D1.C1.V1.R1.V1"),
]


def fixed_histories():
    out = []
    for cls, h in FIXED:
        for k in KINDS:
            if cls == "mov" and k not in MOVABLE:
                continue
            if cls == "rst" and k not in RESETTABLE:
                continue
            if cls == "cmp" and k not in CMP:
                continue
            out.append((k, h))
    return out


EV2TOK = {"start": ("S", "t"), "exit": ("X", "t"), "create": ("C", "o"), "destroy": ("D", "o"), "move": ("M", "o", "p"),
          "mctor": ("N", "o", "p"), "count": ("K", "t", "o", "v"), "local": ("L", "t", "o"), "reset": ("R", "o"),
          "value": ("V", "o"), "foreach": ("F", "o"), "foreach_alive": ("A", "o"), "foreach_alive_nc": ("B", "o")}
TOK2K = {"S": "start", "X": "exit", "C": "create", "D": "destroy", "M": "move", "N": "mctor", "K": "count", "L": "local", "R": "reset_c",
         "V": "value", "F": "foreach", "A": "foreach_alive", "B": "foreach_alive_nc"}


def history_of_tlc_text(txt, final_reads=True):
    """(kind, history) from a TLC behaviour (error trace or -simulate dump): the sequence of `ev` records"""
    km = re.findall(r'/\\ kind = "(\w+)"', txt)
    if not km:
        return None
    ops, live = [], []
    for m in re.finditer(r"/\\ ev = \[([^\]]*)\]", txt):
        f = dict(re.findall(r'(\w+) \|-> ("?[-\w]*"?)', m.group(1)))
        op = f.get("op", '""').strip('"')
        if op not in EV2TOK:
            continue
        spec = EV2TOK[op]
        ops.append(tok(spec[0], *[int(f[x]) for x in spec[1:]]))
        if op in ("create", "mctor"):
            live.append(int(f["o"]))
        elif op == "destroy":
            live.remove(int(f["o"]))
    if final_reads:
        for o in live:
            ops += [tok("V", o), tok("F", o), tok("A", o)]
    return km[-1], ".".join(ops)


def tlc_histories(num, depth, seed, workdir):
    """spec -> code: TLC -simulate on MC_Counters (Counters_sim.cfg) yields API histories"""
    shutil.rmtree(workdir, ignore_errors=True)
    os.makedirs(workdir)
    mc = os.path.join(SPEC, "MC_Counters.tla")
    libs = [SPEC, os.path.join(SPEC, "lib"), os.path.join(SPEC, "mo")]
    cmd = ["java", "-XX:+UseParallelGC", "-Xmx2g", "-DTLA-Library=" + ":".join(libs), "-cp", vlib.JAR, "tlc2.TLC", "-metadir", os.path.join(workdir, "meta"),
           "-config", os.path.join(SPEC, "mc", "Counters_sim.cfg"), "-simulate", "file=%s,num=%d" % (os.path.join(workdir, "tr"), num),
           "-depth", str(depth), "-workers", "1", "-seed", str(seed), "-noGenerateSpecTE", mc]
    r = subprocess.run(cmd, capture_output=True, text=True, timeout=600, cwd=SPEC)
    if "Error:" in r.stdout:
        raise vlib.Broken("TLC simulation failed: " + r.stdout[-2000:])
    out = []
    for f in sorted(glob.glob(os.path.join(workdir, "tr_*"))):
        h = history_of_tlc_text(open(f).read())
        if h and h[1]:
            out.append(h)
    shutil.rmtree(workdir, ignore_errors=True)
    return out


# ----------------------------------------------------------------------------- running the real code
def run_histories(hists, name, jobs=8):
    """[(kind, history)] -> list of executions (lists of raw events), same order"""
    d = os.path.join(vlib.BUILD, "traces")
    os.makedirs(d, exist_ok=True)
    sf = os.path.join(d, "%s_scripts.%d.txt" % (name, os.getpid()))
    raw = os.path.join(d, "%s.%d.ndjson" % (name, os.getpid()))
    open(sf, "w").write("".join("kind=%s,ext=%d,h=%s|\n" % (k, EXT, h) for k, h in hists))
    s = vlib.driver_status(vlib.driver("counters_driver", ["--scenario", "hist", "--scripts-file", sf, "--out", raw, "-j", str(jobs), "--timeout-ms", "20000"]))
    execs = list(vlib.split_traces(raw))
    os.unlink(raw)
    os.unlink(sf)
    # -j splits by residue class: restore the order of `hists`
    idx = {}
    for ex in execs:
        key = (ex[0]["params"]["kind"], str(ex[0]["params"]["h"]))
        idx.setdefault(key, []).append(ex)
    out = []
    for k, h in hists:
        lst = idx.get((k, h))
        if not lst:
            raise vlib.Broken("no trace for history %s %s" % (k, h))
        out.append(lst.pop(0) if len(lst) > 1 else lst[0])
    return out, s["status"]


def run_conc(kind, prog, pre, nr, seeds, strategy, name, extra=None):
    d = os.path.join(vlib.BUILD, "traces")
    os.makedirs(d, exist_ok=True)
    raw = os.path.join(d, "%s.%d.ndjson" % (name, os.getpid()))
    args = ["--scenario", "conc", "--params", "kind=%s,ext=%d,prog=%s,pre=%s,nr=%d" % (kind, EXT, prog, pre, nr), "--strategy", strategy,
            "--seeds", "%d:%d" % seeds, "--out", raw, "--max-steps", "20000", "--no-atomics"]
    if strategy != "pb":
        args += ["-j", "4"]
    if extra:
        args += extra
    s = vlib.driver_status(vlib.driver("counters_driver", args))
    execs = list(vlib.split_traces(raw))
    os.unlink(raw)
    return execs, s["status"]


def run_dtor(kind, nw, prog, seeds, strategy, name, extra=None):
    """thread A destroys counter X while thread B constructs / counts / reads counter Y of the same type (vsched)"""
    d = os.path.join(vlib.BUILD, "traces")
    os.makedirs(d, exist_ok=True)
    raw = os.path.join(d, "%s.%d.ndjson" % (name, os.getpid()))
    args = ["--scenario", "dtor", "--params", "kind=%s,ext=%d,nw=%d,prog=%s" % (kind, EXT, nw, prog), "--strategy", strategy,
            "--seeds", "%d:%d" % seeds, "--out", raw, "--max-steps", "20000", "--no-atomics"]
    if strategy != "pb":
        args += ["-j", "4"]
    if extra:
        args += extra
    s = vlib.driver_status(vlib.driver("counters_driver", args))
    execs = list(vlib.split_traces(raw))
    os.unlink(raw)
    return execs, s["status"]


def run_tear(kind, old, nw, name):
    """a counting thread pre-empted between its plain stores (single-stepped), a reader thread in between"""
    d = os.path.join(vlib.BUILD, "traces")
    os.makedirs(d, exist_ok=True)
    raw = os.path.join(d, "%s.%d.ndjson" % (name, os.getpid()))
    vlib.driver("counters_driver", ["--scenario", "tear", "--params", "kind=%s,ext=%d,old=%d,nw=%d" % (kind, EXT, old, nw), "--out", raw])
    execs = list(vlib.split_traces(raw))
    os.unlink(raw)
    return execs[0]


# ----------------------------------------------------------------------------- normalisation
def squeeze(kind, x):
    """order-preserving map of the value type onto the trace model's TMin..TMax (TLC integers are 32 bit)"""
    if kind in CMP:
        if x == SSIZE_MIN:
            return -EXT
        if x == SSIZE_MAX:
            return EXT
    if abs(x) > 1000000:
        return 1000000 if x > 0 else -1000000
    return x


def normalise(events):
    """raw trace of one `hist` execution -> lines for Counters_Trace.tla"""
    kind = events[0]["params"]["kind"]
    toks = str(events[0]["params"].get("h", "")).split(".")
    npl = 0
    out = []
    for e in events[1:]:
        k = e.get("k")
        if k == "info":
            npl = e["npl"]
        elif k == "end":
            out.append(dict(DEF, k="end", status=e.get("status", "?")))
            if out[-1]["status"] != "ok" and len(out) - 1 < len(toks):      # the call that did not return
                t = toks[len(out) - 1]
                f = [int(x) for x in t[1:].split(":")]
                out[-1]["op"] = TOK2K.get(t[0], "")
                out[-1]["o"] = f[0] if t[0] in "CDMNVRFAB" else (f[1] if t[0] in "KL" else 0)
        elif k == "crash":
            continue
        elif k in ("start", "exit"):
            out.append(dict(DEF, k=k, t=e["t"]))
        elif k == "create":
            out.append(dict(DEF, k=k, o=e["o"], iid=e["iid"], off=e["off"], sidx=e["sidx"], r1=squeeze(kind, e["r1"]), r2=e["r2"], has=e["has"], v0=squeeze(kind, e["v0"])))
        elif k in ("destroy",):
            out.append(dict(DEF, k=k, o=e["o"]))
        elif k in ("move", "mctor"):
            out.append(dict(DEF, k=k, o=e["o"], p=e["p"]))
        elif k == "count":
            out.append(dict(DEF, k=k, t=e["t"], o=e["o"], v=squeeze(kind, e["v"]), tid=e["tid"], addr=e["addr"]))
        elif k == "local":
            out.append(dict(DEF, k=k, t=e["t"], o=e["o"], tid=e["tid"], addr=e["addr"]))
        elif k == "value":
            out.append(dict(DEF, k=k, o=e["o"], r1=squeeze(kind, e["r1"]), r2=e["r2"], has=e["has"], v0=squeeze(kind, e["v0"])))
        elif k == "creset":
            out.append(dict(DEF, k="reset_c", o=e["o"]))
        elif k in ("foreach", "foreach_alive", "foreach_alive_nc"):
            out.append(dict(DEF, k=k, o=e["o"], cells=[{"s": c["s"], "a": squeeze(kind, c["a"]), "b": c["b"], "cur": c["cur"]} for c in e["cells"]]))
    if not out or out[-1]["k"] != "end":
        out.append(dict(DEF, k="end", status="crash"))
    return [dict(DEF, k="reset", kind=kind, npl=npl)] + out


MDEF = {"k": "", "t": 0, "op": "", "v": 0, "r1": 0, "r2": 0, "has": True, "v0": 0, "form": 0, "kind": "", "status": ""}


def mon_lines(events):
    """raw vsched trace of one `conc` execution -> lines for Counters_Mon.tla (call / ret events only)"""
    kind = events[0]["params"]["kind"]
    out = [dict(MDEF, k="reset", kind=kind)]
    for e in events[1:]:
        k = e.get("k")
        if k == "call":
            out.append(dict(MDEF, k="call", t=e["t"], op=e["op"], v=squeeze(kind, e.get("v", 0))))
        elif k == "ret" and e["op"] == "count":
            out.append(dict(MDEF, k="ret", t=e["t"], op="count"))
        elif k == "ret":
            out.append(dict(MDEF, k="ret", t=e["t"], op="value", form=e.get("form", 0), r1=squeeze(kind, e["r1"]), r2=e["r2"], has=e["has"], v0=squeeze(kind, e["v0"])))
        elif k == "creset":
            out.append(dict(MDEF, k="creset", t=e.get("t", 0)))
        elif k == "fresh":
            out.append(dict(MDEF, k="fresh", r1=squeeze(kind, e["r1"]), r2=e["r2"], has=e["has"], v0=squeeze(kind, e["v0"])))
        elif k == "final":
            out.append(dict(MDEF, k="final", r1=squeeze(kind, e["r1"]), r2=e["r2"], has=e["has"], v0=squeeze(kind, e["v0"])))
        elif k == "end":
            out.append(dict(MDEF, k="end", status=e.get("status", "?")))
    if out[-1]["k"] != "end":
        out.append(dict(MDEF, k="end", status="crash"))
    return out


def judge(tla, cfg, lines_per_exec, name, max_lines=25000):
    """TLC over all executions (one run per chunk of <= max_lines lines);
    returns (accepted, {exec_index: [(clause, line_in_exec)]} for bad, same for drift, stats)"""
    acc_total, bad, drift = 0, {}, {}
    stats = {"states": 0, "wall": 0.0, "rounds": 0}
    i = 0
    while i < len(lines_per_exec):
        j, n = i, 0
        while j < len(lines_per_exec) and (j == i or n + len(lines_per_exec[j]) <= max_lines):
            n += len(lines_per_exec[j])
            j += 1
        chunk = lines_per_exec[i:j]
        acc, issues, st = vlib.check_traces(tla, cfg, chunk, name, max_rounds=1)
        if issues:
            x = issues[0]
            raise vlib.Broken("%s could not explain execution %d at line %d (%s): the trace specification must accept every well-formed history: %s"
                              % (os.path.basename(tla), i + x.exec_index, x.line, x.kind, x.detail[-1500:]))
        acc_total += acc
        stats["states"] += st["states"]
        stats["wall"] += st["wall"]
        stats["rounds"] += 1
        starts, m = [], 0
        for ex in chunk:
            starts.append(m + 1)
            m += len(ex)
        for clause, tag in st["pairs"]:
            line = int(tag[1:])
            k = 0
            for idx, s0 in enumerate(starts):
                if s0 <= line:
                    k = idx
            (drift if clause.startswith("Drift_") else bad).setdefault(i + k, []).append((clause, line - starts[k] + 1))
        i = j
    return acc_total, bad, drift, stats
