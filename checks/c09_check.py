"""C09: Epoch - nothing becomes reclaimable while a reader that may see it is in a region.
Pipeline (DESIGN.md 2.4, same shape as bq_check.py):
   1. the real Epoch is run under vsched (random / PCT / preemption-bounded schedules) with client programs
      (readers in thread-local / accessor style, nesting, hand-over between threads, id recycling; one writer
      that unlinks, ticks, scans and reclaims)
   2. every recorded execution is validated against Epoch_Trace (L2 conformance, L1 clauses on the L2 state,
      collects site -> memory order) and Epoch_Mon (L1 clauses of the property statement, events only)
   3. the order table read from the running code replaces the committed MO_Epoch.tla and TLC model-checks the
      L2 spec: interleaving family (Stale = FALSE) and weak-memory family (Stale = TRUE).  The Dekker clause
      (reader's seq_cst fence vs. the writer's seq_cst tick) can only fail under weak memory, which the x86
      host never shows: a weakened / removed fence is detected here (conformant L2 + TLC counterexample = V2).
"""
import json
import os
import random
import re
import sys
import time
from concurrent.futures import ThreadPoolExecutor

sys.path.insert(0, os.path.dirname(os.path.abspath(__file__)))
import epoch_common as ec
import vlib
from vlib import log

SPEC = vlib.SPEC
DRIVER = "epoch_driver"
RELW = "ReleasedWhileLockedHoldsBack"
RELW_TEXT = "ReleasedAccessorNeverHoldsBack violated [class: accessor released while locked]"


def record(progs, seeds, strategy, out, jobs=None, extra=None):
    """run every program for the seed range (programs in parallel); returns the executions in program order"""
    os.makedirs(os.path.dirname(out), exist_ok=True)

    def one(item):
        idx, (prog, ns, nh, pre) = item
        raw = "%s.%d.ndjson" % (out, idx)
        args = ["--scenario", "epoch", "--params", ec.params_of(prog, ns, nh, pre), "--strategy", strategy, "--seeds", "%d:%d" % seeds, "--out", raw, "--max-steps", "20000"]
        if strategy != "pb":
            args += ["-j", str(jobs or 2)]
        if extra:
            args += extra
        s = vlib.driver_status(vlib.driver(DRIVER, args))
        ex = list(vlib.split_traces(raw))
        os.unlink(raw)
        return ex, s["status"]

    execs = []
    status = {}
    with ThreadPoolExecutor(max(2, vlib.NCPU // 2)) as pool:
        for ex, st in pool.map(one, list(enumerate(progs))):
            execs += ex
            for k, v in st.items():
                status[k] = status.get(k, 0) + v
    return execs, status


def exec_key(ex):
    h = ex[0]
    return {"scenario": h["scn"], "params": h["params"], "seed": h["seed"], "strategy": h["strategy"], "script": h.get("script", [])}


def rerun(key):
    p = key["params"]
    params = ",".join("%s=%s" % (k, v) for k, v in p.items())
    raw = os.path.join(vlib.BUILD, "traces", "rerun_c09.%d.ndjson" % os.getpid())
    st = key["strategy"]
    args = ["--scenario", key["scenario"], "--params", params, "--seeds", "%d:%d" % (key["seed"], key["seed"] + 1), "--out", raw, "--max-steps", "20000"]
    if key.get("script") and st == "pb":
        args += ["--strategy", "pb", "--script", ",".join(map(str, key["script"])), "--max-execs", "1"]
    elif st in ("pct", "random"):
        args += ["--strategy", "mix"]
    else:
        args += ["--strategy", st]
    vlib.driver(DRIVER, args)
    ex = list(vlib.split_traces(raw))
    os.unlink(raw)
    return ex[0] if ex else None


def run(pid, tier, seed, replay=None):
    V = vlib.Verdict(pid, tier, seed)
    rng = random.Random(seed * 7919 + 9)
    vlib.build([DRIVER])
    mo_committed = os.path.join(SPEC, "mo", "MO_Epoch.tla")
    tdir = os.path.join(vlib.BUILD, "traces")

    # model checking with the committed order table starts right away (re-done below if the code's table differs)
    mcs = [("sc_quick", "Epoch_sc_q.cfg"), ("wm_quick", "Epoch_wm_q.cfg"), ("relw_quick", "Epoch_relw_q.cfg")]
    if tier == "thorough":
        # the "big" ones (2 readers / 2 accessors + 1 writer, 2 objects: 1.5 M / 2.6 M states) may run out of time on a busy machine
        mcs += [("relw_wm_quick", "Epoch_relw_wm_q.cfg"), ("relw", "Epoch_relw.cfg"), ("relw_wm", "Epoch_relw_wm.cfg"), ("sc", "Epoch_sc.cfg"), ("wm", "Epoch_wm.cfg"), ("big_wm", "Epoch_big_wm.cfg"), ("big_sc", "Epoch_big_sc.cfg")]
    mc_timeout = 1700 if tier == "thorough" else 300
    tag0 = json.dumps(dict(re.findall(r"(\w+) \|-> \"(\w+)\"", open(mo_committed).read())), sort_keys=True)
    mc_pool = ThreadPoolExecutor(4)
    spec_runs = {}
    if not replay:
        for name, cfg in mcs:
            spec_runs[name] = mc_pool.submit(vlib.tlc, os.path.join(SPEC, "MC_Epoch.tla"), os.path.join(SPEC, "mc", cfg), cache=True, extra_hash=tag0, timeout=mc_timeout, heap="16g",
                                             workers=max(2, vlib.NCPU // 2))
            time.sleep(0.3)

    if replay:
        key = json.load(open(replay))
        execs, status = [rerun(key["exec"])], {}
    else:
        nseeds = 6 if tier == "quick" else 60
        nrand = 14 if tier == "quick" else 120
        execs, status = record(ec.FIXED, (seed * 1000 + 1, seed * 1000 + 1 + nseeds), "mix", os.path.join(tdir, pid + "_fixed"), jobs=2)
        e0, s0 = record(ec.RELW, (seed * 1000 + 1, seed * 1000 + 1 + nseeds), "mix", os.path.join(tdir, pid + "_relw"), jobs=2)
        execs += e0
        for k, v in s0.items():
            status[k] = status.get(k, 0) + v
        rprogs = [ec.gen_program(rng) for _ in range(nrand)]
        e2, s2 = record(rprogs, (seed * 1000 + 1, seed * 1000 + (4 if tier == "quick" else 9)), "mix", os.path.join(tdir, pid + "_rand"), jobs=2)
        execs += e2
        e3, s3 = record(ec.PB, (1, 2), "pb", os.path.join(tdir, pid + "_pb"), extra=["--pb-bound", "2" if tier == "quick" else "3", "--max-execs", "40" if tier == "quick" else "600"])
        execs += e3
        for s in (s2, s3):
            for k, v in s.items():
                status[k] = status.get(k, 0) + v
    V.extra["executions"] = len(execs)
    V.extra["record_wall_s"] = round(time.time() - V.t0, 1)
    V.extra["exec_status"] = status
    bad_status = {k: v for k, v in status.items() if k not in ("ok",)}
    if bad_status.get("crash") or bad_status.get("hang"):
        log("NOTE: executions ended with %s" % bad_status)

    results = {}
    drifting = []
    mon = os.path.join(SPEC, "Epoch_Mon.tla")
    mon_cfg = os.path.join(SPEC, "mc", "Epoch_Mon.cfg")
    monr_cfg = os.path.join(SPEC, "mc", "Epoch_MonRelw.cfg")
    trc = os.path.join(SPEC, "Epoch_Trace.tla")
    trc_cfg = os.path.join(SPEC, "mc", "Epoch_Trace.cfg")
    relw_seen = [False]

    def judge(batch, name, tla, cfg, conv, res, tag):
        acc, issues, st = res
        prev = results.get(name, (0, [], {"pairs": []}))
        results[name] = (prev[0] + acc, prev[1] + issues, {"pairs": sorted(set(prev[2]["pairs"]) | set(st["pairs"]))})
        V.cov["transitions"] += st["states"]
        e = V.extra.setdefault("trace_" + name, {"accepted": 0, "issues": 0, "tlc_states": 0, "wall_s": 0.0, "unchecked": 0})
        e["accepted"] += acc
        e["issues"] += len(issues)
        e["tlc_states"] += st["states"]
        e["wall_s"] = round(e["wall_s"] + st["wall"], 1)
        e["unchecked"] += st["unchecked"]
        for iss in issues:
            ex = batch[iss.exec_index]
            key = exec_key(ex)
            if iss.kind == "rejected":
                if name == "L2":
                    V.drift += 1
                    drifting.append(key)
                    log("SPEC-DRIFT component=epoch exec=%s seed=%s line=%d %s" % (json.dumps(key["params"]), key["seed"], iss.line, iss.detail))
                    continue
                raise vlib.Broken("L1 monitor rejected a trace (monitors must accept every well-formed trace): %s" % iss.detail)
            clause = iss.kind.split(":", 1)[1]
            what = clause
            if name in ("L1", "L1relw"):
                m = re.findall(r'bad = "(\w+)"', iss.detail)
                what = m[-1] if m and m[-1] else clause
                if what == "Protocol":
                    raise vlib.Broken("driver protocol error (unlock without lock) in %s" % json.dumps(key))
                if name == "L1relw" and (what != RELW or relw_seen[0]):
                    continue     # every other clause is judged on all executions by the L1 pass
            else:
                m = re.findall(r'bad \|-> "(\w+)"', iss.detail)
                if clause == "TNoPrematureReclaim" and m and m[-1]:
                    what = m[-1]
            if not replay:
                ex2 = rerun(key)
                lines2 = [conv(ex2)] if ex2 else []
                _, iss2, _ = ec.check_traces(tla, cfg, lines2, pid + "_re") if lines2 else (0, [], {})
                if not iss2:
                    raise vlib.Broken("violation %s did not reproduce on re-execution of %s" % (what, json.dumps(key)))
            rp = vlib.save_replay(pid, "%s_%s_%d%s.json" % (name, what, iss.exec_index, tag), {"exec": key, "clause": what, "layer": name, "line": iss.line, "trace": ex[:400]})
            if what == RELW:
                relw_seen[0] = True
                V.violation("%s on an execution of the real code (L1 layer): an Accessor released while locked keeps its slot published; prog=%s seed=%s" % (RELW_TEXT, key["params"].get("prog"), key["seed"]), rp)
            else:
                V.violation("%s violated on an execution of the real code (%s layer) prog=%s seed=%s strategy=%s" % (what, name, key["params"].get("prog"), key["seed"], key["strategy"]), rp)

    def validate(batch, with_l2, tag):
        mlines = [ec.monitor_lines(ex) for ex in batch]
        with ThreadPoolExecutor(3) as pool:
            f1 = pool.submit(ec.check_traces, mon, mon_cfg, mlines, pid + "_L1" + tag, 4)
            time.sleep(0.2)   # vlib.tlc derives its scratch directory from pid + milliseconds
            fr = pool.submit(ec.check_traces, mon, monr_cfg, mlines, pid + "_L1r" + tag, 1)
            time.sleep(0.2)
            f2 = pool.submit(ec.check_traces, trc, trc_cfg, [ec.normalise(ex) for ex in batch], pid + "_L2" + tag, 4) if with_l2 else None
            r1, rr, r2 = f1.result(), fr.result(), (f2.result() if f2 else None)
        judge(batch, "L1", mon, mon_cfg, ec.monitor_lines, r1, tag)
        judge(batch, "L1relw", mon, monr_cfg, ec.monitor_lines, rr, tag)
        if r2:
            judge(batch, "L2", trc, trc_cfg, ec.normalise, r2, tag)

    validate(execs, True, "")

    # ---- drift-guided intensification: where the code no longer follows the L2 specification the model's exhaustive
    # exploration no longer speaks for it: the drifting and the stress programs are explored much harder (L1 only)
    if drifting and not replay and not [v for v in V.violations if RELW_TEXT not in v[0]]:
        progs = []
        for key in drifting:
            p = key["params"]
            t = (p["prog"], int(p["ns"]), int(p["nh"]), int(p["pre"]))
            if t not in progs:
                progs.append(t)
        progs = progs[:2] + [t for t in ec.STRESS if t not in progs[:2]]
        base = seed * 1000 + 500
        extra, sx = record(progs, (base, base + (100 if tier == "quick" else 1500)), "mix", os.path.join(tdir, pid + "_driftmix"), jobs=2)
        e5, s5 = record(progs, (1, 2), "pb", os.path.join(tdir, pid + "_driftpb"), extra=["--pb-bound", "3", "--max-execs", "500" if tier == "quick" else "8000"])
        extra += e5
        V.extra["drift_guided_executions"] = len(extra)
        V.extra["drift_guided_programs"] = [t[0] for t in progs]
        log("NOTE: L2 conformance drifted: %d further executions of %d programs judged by the L1 monitor" % (len(extra), len(progs)))
        validate(extra, False, "_dg")
        execs += extra

    V.cov["traces_validated_against_impl"] = results["L1"][0] + results["L2"][0]
    for ex in execs[:2]:
        V.sample({"program": ex[0]["params"], "strategy": ex[0]["strategy"], "events": len(ex), "first_events": ex[1:8]})

    # ---- order table read from the running code
    table, changed, unobserved, unknown, mo_path = ec.regen_mo("MO_Epoch", results["L2"][2]["pairs"], mo_committed, os.path.join(vlib.BUILD, "gen", "mo_" + pid))
    V.extra["mo_table"] = table
    V.extra["mo_changed_vs_committed"] = {k: list(v) for k, v in changed.items()}
    V.extra["mo_sites_unobserved"] = unobserved
    V.extra["mo_sites_unknown"] = unknown
    V.extra["l2_conformant"] = V.drift == 0
    if changed:
        log("NOTE: memory orders executed by the code differ from the committed table: %s" % json.dumps(changed))

    # ---- TLC on the L2 model with the code's orders
    lib = [os.path.dirname(mo_path)] if mo_path else []
    tag = json.dumps(table, sort_keys=True)
    if not replay:
        for name, cfg in mcs:
            if tag == tag0:
                r = spec_runs[name].result()      # started before the executions were recorded (committed table)
            else:
                r = vlib.tlc(os.path.join(SPEC, "MC_Epoch.tla"), os.path.join(SPEC, "mc", cfg), cache=True, extra_hash=tag, lib_dirs=lib, timeout=mc_timeout, heap="16g")
            V.add_tlc(name, r)
            if not r.ok:
                if r.violation == "timeout" and name.startswith("big_"):
                    log("NOTE: %s not completed within %d s (optional largest bounds)" % (cfg, mc_timeout))
                    V.extra.setdefault("mc_incomplete", []).append(cfg)
                    continue
                if r.violation in ("tlc_error", "timeout"):
                    raise vlib.Broken("TLC failed on %s: %s" % (cfg, r.error_trace[:2000]))
                clause = r.violation
                m = re.findall(r'bad \|-> "(\w+)"', r.error_trace)
                if clause == "NoPrematureReclaim" and m and m[-1]:
                    clause = m[-1]
                if clause == "ReleasedWhileLockedNeverHoldsBack" and not V.drift:
                    rp = vlib.save_replay(pid, "tlc_%s_%s.txt" % (name, clause), "order table (from the running code): %s\n\n%s" % (json.dumps(table), r.error_trace))
                    V.violation("%s in the L2 model %s (release_slot_store=%s as executed by the code: unregister_accessor does not reset the slot)" % (RELW_TEXT, cfg, table.get("release_slot_store")), rp)
                    continue
                if V.drift:
                    log("NOTE: TLC counterexample for %s ignored for the verdict because the L2 spec drifted from the code" % clause)
                    continue
                rp = vlib.save_replay(pid, "tlc_%s_%s.txt" % (name, clause), "order table (from the running code): %s\nchanged vs committed: %s\n\n%s" % (json.dumps(table), json.dumps(changed), r.error_trace))
                V.violation("%s violated in the L2 model %s with the memory orders the code executes (release_slot_store=%s; changed: %s)" % (clause, cfg, table.get("release_slot_store"), json.dumps(changed)), rp)
        V.cov["exhaustive"] = True
    V.assumptions += [
        "WeakMem.tla is a subset of ISO C++ (promise-free release/acquire + fences, stores at the end of mo); seq_cst accesses have hardware strength (the x86 tick is one seq_cst fetch_add)",
        "stores to a slot word continue the release sequence of the unlock before them (C++11-17 same-thread rule; cumulativity of real hardware for a recycled slot): the purely formal C++20 race 'scan acquires the relaxed store of the NEXT region in that slot' is not reported",
        "IdAllocator (C14) and ConcurrentVector growth (C04) are abstracted: LIFO free stack + counter; the slot block exists before the threads start",
        "mixing accessor / thread-local style on one Epoch is outside the contract and not generated; releasing an accessor that is still locked ends its region (the statement: a released Accessor never holds the mark back)",
        "executions are serialised by vsched; weak-memory outcomes are decided on the model with the order table read from the running code",
    ]
    return V.finish()
