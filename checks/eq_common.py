"""Trace normalisation / program generation for the execution-queue driver (C16)."""
import os
import re

import bq_common

DEF = {"t": 0, "k": "", "loc": "", "i": 0, "v": 0, "a": 0, "b": 0, "ok": True, "mo": "", "op": "", "item": 0, "res": 0, "vals": [], "status": ""}
# locations of the inner ConcurrentBoundedQueue: verified by C01 / C02, internal to the EQ specification
INNER_LOCS = {"push_idx", "pop_idx", "slot"}
ATOMIC = {"load", "store", "xchg", "faa", "fand", "for", "fxor", "cas"}
SITES = ["events_faa", "rollback_cas", "cons_load", "cons_reload", "cons_cas", "join_load"]


def parse_faults(s):
    s = str(s)
    if s in ("-", "n", ""):
        return []
    return [c == "f" for c in s]


def parse_prog(s):
    return [[c for c in th.split(".") if c] for th in s.split("_")]


def params_of(cap, mode, faults, retry, prog):
    return "cap=%d,mode=%s,faults=%s,retry=%d,prog=%s" % (cap, mode, faults or "n", retry, prog)


def cfg_of(params):
    return {"cap": int(params["cap"]), "mode": str(params["mode"]), "faults": parse_faults(params.get("faults", "n")),
            "retry": int(params.get("retry", 1)) != 0, "prog": parse_prog(str(params["prog"]))}


def normalise(events):
    """vsched trace of one execution -> lines for EQ_Trace.tla"""
    out = []
    curop = {}
    # thread numbering of the specification: program threads 1..P in the order the main thread created them,
    # consumer threads P+1.. in launch order (vsched numbers all threads in creation order, and a consumer may be
    # launched before the main thread has created the last program thread)
    nprog = len(cfg_of(events[0]["params"])["prog"]) if events and events[0].get("k") == "reset" else 0
    tmap = {0: 0}
    np_, nc = 0, 0
    for e in events:
        if e.get("k") == "spawn":
            if e.get("t") == 0:
                np_ += 1
                tmap[e["child"]] = np_
            else:
                nc += 1
                tmap[e["child"]] = nprog + nc
    for e in events:
        k = e.get("k")
        if k == "reset":
            out.append(dict(DEF, k="reset", **cfg_of(e["params"])))
            continue
        if k == "end":
            out.append(dict(DEF, k="end", status=e.get("status", "?")))
            continue
        t = e.get("t", 0)
        if t < 0:
            continue
        t = tmap.get(t, t)
        if k in ATOMIC:
            if e.get("loc") in INNER_LOCS:
                continue
            n = dict(DEF, t=t, k=k, loc=e.get("loc", "?"), mo=e.get("mo", ""), v=e.get("v", 0))
            if k in ("faa", "xchg", "fand", "for", "fxor", "store"):
                n["a"] = e.get("a", 0)
            if k == "cas":
                n["a"], n["b"], n["ok"] = e["a"], e["b"], e["ok"]
            out.append(n)
        elif k == "sleep":
            if curop.get(t) == "j":      # join()'s usleep; the inner queue's waiting loops are internal
                out.append(dict(DEF, t=t, k="sleep"))
        elif k == "call":
            curop[t] = e["op"]
            out.append(dict(DEF, t=t, k="call", op=e["op"], item=e["item"]))
        elif k == "ret":
            curop[t] = ""
            out.append(dict(DEF, t=t, k="ret", op=e["op"], item=e["item"], res=e["res"]))
        elif k == "sub":
            out.append(dict(DEF, t=t, k="sub", a=e["att"], ok=e["ok"]))
        elif k == "pw":
            out.append(dict(DEF, t=t, k="pw", i=e["slot"], v=e["v"]))
        elif k in ("cbb", "cbe"):
            out.append(dict(DEF, t=t, k=k, vals=e["vals"]))
        elif k == "quiesce":
            out.append(dict(DEF, t=t, k="quiesce", ok=e["unrec"]))
        elif k == "final":
            out.append(dict(DEF, t=t, k="final", vals=e["left"], v=e["events"]))
        # fences, spawn / start / exit / join, tick, clock, yield: scheduler or inner-queue events
    return out


def monitor_lines(events, xid=0):
    """vsched trace of one execution -> lines for EQ_Mon.tla (L1 observables only)"""
    out = []
    D = {"t": 0, "k": "", "op": "", "item": 0, "res": 0, "ok": True, "vals": [], "status": "", "xid": 0}
    for e in events:
        k = e.get("k")
        t = max(0, e.get("t", 0))
        if k == "reset":
            out.append(dict(D, k="reset", xid=xid))
        elif k == "call":
            out.append(dict(D, t=t, k="call", op=e["op"], item=e["item"]))
        elif k == "ret":
            out.append(dict(D, t=t, k="ret", op=e["op"], item=e["item"], res=e["res"]))
        elif k == "sub":
            out.append(dict(D, t=t, k="sub", ok=e["ok"]))
        elif k == "cbb":
            out.append(dict(D, t=t, k="cbb", vals=e["vals"]))
        elif k == "cbe":
            out.append(dict(D, t=t, k="cbe", vals=e["vals"], ok=e["intact"]))
        elif k == "quiesce":
            out.append(dict(D, t=t, k="quiesce"))
        elif k == "final":
            out.append(dict(D, t=t, k="final", vals=e["left"]))
        elif k == "end":
            out.append(dict(D, k="end", status=e.get("status", "?")))
    return out


def eq_acc(e):
    """accesses for HBMon: the push writes the payload slot, the consume function reads it and then overwrites it;
    the pop index of the inner queue is private state of whoever polls (try_pop_n<false, ..> is the single-consumer
    variant: plain load / store of the index), handed over between consumers through _events"""
    k = e.get("k")
    if k == "pw":
        return [("val", e["slot"], True)]
    if k == "cbb":
        return [("val", s, False) for s in e["slots"]]
    if k == "cbe":
        return [("val", s, True) for s in e["slots"]]
    if k == "popacc":
        return [("popidx", 0, e["w"])]
    return None


def hb_lines(events):
    ev2 = []
    for e in events:
        ev2.append(e)
        if e.get("loc") == "pop_idx" and e.get("k") in ("load", "store") and e.get("t", 0) > 0:
            ev2.append({"k": "popacc", "t": e["t"], "w": e["k"] == "store"})
    return bq_common.hb_lines(ev2, eq_acc)


def max_thread(events):
    return max([e.get("t", 0) for e in events if isinstance(e.get("t", 0), int)] + [0])


def gen_program(rng, big=False):
    """random client program: (cap, mode, faults, retry, prog)"""
    cap = rng.choice([1, 2, 2, 4])
    mode = rng.choice(["a", "a", "i"])
    nprod = rng.choice([1, 2, 2, 3])
    faults = ""
    if rng.random() < 0.5:
        faults = "".join(rng.choice("of") for _ in range(rng.randint(1, 3)))
        if "f" not in faults:
            faults = faults[:-1] + "f"
    threads = []
    total = 0
    for _ in range(nprod):
        n = rng.randint(1, 3 if big else 2)
        ops = ["e"] * n
        total += n
        if rng.random() < 0.35:
            ops.insert(rng.randint(1, len(ops)), "j")
        if faults and rng.random() < 0.3:
            ops.insert(rng.randint(1, len(ops)), "s")
        threads.append(ops)
    if rng.random() < 0.4:
        threads.append(["j"])
    # without retrying producers a refused launch may leave pushers blocked on a full queue for good
    retry = 1 if (not faults or total > cap or rng.random() < 0.5) else 0
    return cap, mode, faults, retry, "_".join(".".join(t) for t in threads)


def regen_mo(pairs, committed_path, out_dir):
    """site -> order table from the pairs seen in the running code; sites not exercised keep the committed order"""
    text = open(committed_path).read()
    committed = dict(re.findall(r"(\w+) \|-> \"(\w+)\"", text))
    rank = {"none": 0, "rlx": 1, "con": 2, "acq": 2, "rel": 2, "ar": 3, "sc": 4}
    seen = {}
    for site, mo in pairs:
        if site in seen and seen[site] != mo:
            a, b = seen[site], mo
            seen[site] = "rlx" if rank[a] == rank[b] else (a if rank[a] < rank[b] else b)
        else:
            seen[site] = mo
    table = dict(committed)
    table.update({k: v for k, v in seen.items() if k in committed})
    unknown = sorted(k for k in seen if k not in committed)
    changed = {k: (committed[k], table[k]) for k in committed if table[k] != committed[k]}
    unobserved = sorted(k for k in committed if k not in seen)
    path = None
    if changed:
        os.makedirs(out_dir, exist_ok=True)
        path = os.path.join(out_dir, "MO_EQ.tla")
        body = ",\n  ".join('%s |-> "%s"' % (k, table[k]) for k in committed)
        open(path, "w").write("------------------------------ MODULE MO_EQ ------------------------------\n(* generated from the running code *)\nMO == [\n  %s\n]\n=============================================================================\n" % body)
    return table, changed, unobserved, unknown, path
