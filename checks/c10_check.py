"""C10: GarbageCollector - reclaimers run exactly once, never early, before stop() / the destructor returns;
retire blocks while the queue is full and resumes without losing tasks.
Pipeline:
   1. the real GarbageCollector<R> runs under vsched (its collector thread is managed through the pthread_create
      shim, usleep is virtual time); R is a driver closure that logs invocation / consumption / destruction
   2. every execution is judged by the L1 monitor GC_Mon (events only) and validated against the L2 spec GC.tla
      (GC_Trace) - once per collector-loop variant (constant Drain); the variant that explains all executions
      is the one the code follows (binding of the model parameter, like the order tables of the WM components)
   3. TLC model-checks GC.tla with that variant: capacities {1,2,4}, <= 4 retirements, <= 2 regions opening /
      closing at arbitrary points, stop() at an arbitrary point
   Hypothesis H2 (DESIGN 6): `while (running)` drops consumed tasks that share a batch with the stop marker while
   a region is open -> witness class "region open during stop()" (known_findings.json); any other witness of any
   clause is a VIOLATION.
"""
import json
import os
import random
import re
import sys
import time
from concurrent.futures import ThreadPoolExecutor

sys.path.insert(0, os.path.dirname(os.path.abspath(__file__)))
import epoch_common as ec
import gc_common as gc
import vlib
from vlib import log

SPEC = vlib.SPEC
DRIVER = "gc_driver"
H2 = "AllReclaimedRegionOpenDuringStop"
H2_TEXT = "AllReclaimedWhenStopReturns violated [class: region open during stop()]"


def record(progs, seeds, strategy, out, jobs=None, extra=None):
    os.makedirs(os.path.dirname(out), exist_ok=True)

    def one(item):
        idx, (prog, cap, nreg, style) = item
        raw = "%s.%d.ndjson" % (out, idx)
        args = ["--scenario", "gc", "--params", gc.params_of(prog, cap, nreg, style), "--strategy", strategy, "--seeds", "%d:%d" % seeds, "--out", raw, "--max-steps", "20000"]
        if strategy != "pb":
            args += ["-j", str(jobs or 2)]
        if extra:
            args += extra
        s = vlib.driver_status(vlib.driver(DRIVER, args))
        ex = list(vlib.split_traces(raw))
        os.unlink(raw)
        return ex, s["status"]

    execs = []
    status = {}
    with ThreadPoolExecutor(max(2, vlib.NCPU // 2)) as pool:
        for ex, st in pool.map(one, list(enumerate(progs))):
            execs += ex
            for k, v in st.items():
                status[k] = status.get(k, 0) + v
    return execs, status


def exec_key(ex):
    h = ex[0]
    return {"scenario": h["scn"], "params": h["params"], "seed": h["seed"], "strategy": h["strategy"], "script": h.get("script", [])}


def rerun(key):
    p = key["params"]
    params = ",".join("%s=%s" % (k, v) for k, v in p.items())
    raw = os.path.join(vlib.BUILD, "traces", "rerun_c10.%d.ndjson" % os.getpid())
    st = key["strategy"]
    args = ["--scenario", key["scenario"], "--params", params, "--seeds", "%d:%d" % (key["seed"], key["seed"] + 1), "--out", raw, "--max-steps", "20000"]
    if key.get("script") and st == "pb":
        args += ["--strategy", "pb", "--script", ",".join(map(str, key["script"])), "--max-execs", "1"]
    elif st in ("pct", "random"):
        args += ["--strategy", "mix"]
    else:
        args += ["--strategy", st]
    vlib.driver(DRIVER, args)
    ex = list(vlib.split_traces(raw))
    os.unlink(raw)
    return ex[0] if ex else None


def bad_of(detail):
    m = re.findall(r'bad = \{([^}]*)\}', detail)
    return re.findall(r'"(\w+)"', m[-1]) if m else []


def variant_cfg(name, drain):
    """model-checking config for the loop variant the code follows (the committed ones are Drain = FALSE)"""
    src = os.path.join(SPEC, "mc", name)
    if not drain:
        return src
    d = os.path.join(vlib.BUILD, "gen", "gc_cfg")
    os.makedirs(d, exist_ok=True)
    dst = os.path.join(d, name.replace(".cfg", "_drain.cfg"))
    open(dst, "w").write(open(src).read().replace("Drain = FALSE", "Drain = TRUE"))
    return dst


def run(pid, tier, seed, replay=None):
    V = vlib.Verdict(pid, tier, seed)
    rng = random.Random(seed * 7919 + 10)
    vlib.build([DRIVER])
    tdir = os.path.join(vlib.BUILD, "traces")

    # model checking of the loop variant of the pinned commit starts right away (re-done if the code follows the other one)
    suffix = "_q" if tier == "quick" else ""
    mcs = [("safety", "GC_safety%s.cfg" % suffix), ("stop", "GC_stop%s.cfg" % suffix)]
    if tier == "thorough":
        mcs.append(("live", "GC_live.cfg"))
    mc_timeout = 1700 if tier == "thorough" else 300
    mc_pool = ThreadPoolExecutor(4)
    spec_runs = {}
    if not replay:
        for name, cfg in mcs:
            spec_runs[name] = mc_pool.submit(vlib.tlc, os.path.join(SPEC, "MC_GC.tla"), variant_cfg(cfg, False), cache=True, extra_hash="drain=False", timeout=mc_timeout, heap="16g",
                                             workers=max(2, vlib.NCPU // 2))
            time.sleep(0.3)

    if replay:
        key = json.load(open(replay))
        execs, status = [rerun(key["exec"])], {}
    else:
        nseeds = 6 if tier == "quick" else 60
        nrand = 14 if tier == "quick" else 120
        execs, status = record(gc.FIXED, (seed * 1000 + 1, seed * 1000 + 1 + nseeds), "mix", os.path.join(tdir, pid + "_fixed"))
        rprogs = [gc.gen_program(rng) for _ in range(nrand)]
        e2, s2 = record(rprogs, (seed * 1000 + 1, seed * 1000 + (4 if tier == "quick" else 9)), "mix", os.path.join(tdir, pid + "_rand"))
        execs += e2
        e3, s3 = record(gc.PB, (1, 2), "pb", os.path.join(tdir, pid + "_pb"), extra=["--pb-bound", "2" if tier == "quick" else "3", "--max-execs", "40" if tier == "quick" else "600"])
        execs += e3
        for s in (s2, s3):
            for k, v in s.items():
                status[k] = status.get(k, 0) + v
    V.extra["executions"] = len(execs)
    V.extra["record_wall_s"] = round(time.time() - V.t0, 1)
    V.extra["exec_status"] = status

    mon = os.path.join(SPEC, "GC_Mon.tla")
    trc = os.path.join(SPEC, "GC_Trace.tla")
    mlines = [gc.monitor_lines(ex) for ex in execs]
    tlines = [gc.normalise(ex) for ex in execs]
    with ThreadPoolExecutor(3) as pool:
        f_l1 = pool.submit(ec.check_traces, mon, os.path.join(SPEC, "mc", "GC_Mon.cfg"), mlines, pid + "_L1", 4)
        time.sleep(0.2)
        f_h2 = pool.submit(ec.check_traces, mon, os.path.join(SPEC, "mc", "GC_MonH2.cfg"), mlines, pid + "_L1h2", 1)
        time.sleep(0.2)
        f_l2 = pool.submit(ec.check_traces, trc, os.path.join(SPEC, "mc", "GC_Trace.cfg"), tlines, pid + "_L2", 2)
        l1, h2, l2 = f_l1.result(), f_h2.result(), f_l2.result()

    # ---- L1: every clause except the known witness class, on every execution
    acc1, issues1, st1 = l1
    V.cov["transitions"] += st1["states"]
    V.extra["trace_L1"] = {"accepted": acc1, "issues": len(issues1), "tlc_states": st1["states"], "wall_s": round(st1["wall"], 1), "unchecked": st1["unchecked"]}
    for iss in issues1:
        ex = execs[iss.exec_index]
        key = exec_key(ex)
        if iss.kind == "rejected":
            raise vlib.Broken("L1 monitor rejected a trace (monitors must accept every well-formed trace): %s" % iss.detail)
        names = [b for b in bad_of(iss.detail) if b != H2] or ["Holds"]
        what = names[0]
        if what == "Protocol":
            raise vlib.Broken("driver bookkeeping disagrees with its events in %s" % json.dumps(key))
        if not replay:
            ex2 = rerun(key)
            _, iss2, _ = ec.check_traces(mon, os.path.join(SPEC, "mc", "GC_Mon.cfg"), [gc.monitor_lines(ex2)], pid + "_re") if ex2 else (0, [], {})
            if not iss2:
                raise vlib.Broken("violation %s did not reproduce on re-execution of %s" % (what, json.dumps(key)))
        rp = vlib.save_replay(pid, "L1_%s_%d.json" % (what, iss.exec_index), {"exec": key, "clause": what, "layer": "L1", "line": iss.line, "trace": ex[:400]})
        V.violation("%s violated on an execution of the real code (L1 layer) prog=%s cap=%s seed=%s" % (what, key["params"].get("prog"), key["params"].get("cap"), key["seed"]), rp)
    # ---- L1: first witness of the class "region open during stop()" (hypothesis H2)
    _, issues_h2, st_h2 = h2
    V.cov["transitions"] += st_h2["states"]
    h2_witness = None
    for iss in issues_h2:
        if iss.kind == "rejected":
            raise vlib.Broken("L1 monitor rejected a trace: %s" % iss.detail)
        if H2 in bad_of(iss.detail):
            ex = execs[iss.exec_index]
            key = exec_key(ex)
            if not replay:
                ex2 = rerun(key)
                _, iss2, _ = ec.check_traces(mon, os.path.join(SPEC, "mc", "GC_MonH2.cfg"), [gc.monitor_lines(ex2)], pid + "_re") if ex2 else (0, [], {})
                if not iss2:
                    raise vlib.Broken("H2 witness did not reproduce on re-execution of %s" % json.dumps(key))
            h2_witness = key
            rp = vlib.save_replay(pid, "L1_H2_%d.json" % iss.exec_index, {"exec": key, "clause": H2, "layer": "L1", "line": iss.line, "trace": ex[:400]})
            V.violation("%s on an execution of the real code (L1 layer): reclaimers retired before stop() were never invoked, also not by the destructor; prog=%s cap=%s seed=%s" % (H2_TEXT, key["params"].get("prog"), key["params"].get("cap"), key["seed"]), rp)
    V.extra["h2_witness"] = h2_witness

    # ---- L2 conformance, per loop variant
    acc2, issues2, st2 = l2
    V.cov["transitions"] += st2["states"]
    drain = False
    rej = [i for i in issues2 if i.kind == "rejected"]
    info = {"Drain=FALSE": {"accepted": acc2, "rejected": len(rej), "unchecked": st2["unchecked"], "tlc_states": st2["states"], "wall_s": round(st2["wall"], 1)}}
    if rej:
        acc3, issues3, st3 = ec.check_traces(trc, os.path.join(SPEC, "mc", "GC_TraceDrain.cfg"), tlines, pid + "_L2d", 6)
        V.cov["transitions"] += st3["states"]
        rej3 = [i for i in issues3 if i.kind == "rejected"]
        info["Drain=TRUE"] = {"accepted": acc3, "rejected": len(rej3), "unchecked": st3["unchecked"], "tlc_states": st3["states"], "wall_s": round(st3["wall"], 1)}
        if not rej3:
            drain, acc2, issues2, rej = True, acc3, issues3, rej3
            log("NOTE: the collector loop of the code under test keeps going until every consumed task is reclaimed (variant Drain = TRUE)")
        elif len(rej3) < len(rej):
            drain, acc2, issues2, rej = True, acc3, issues3, rej3
    V.extra["trace_L2"] = info
    V.extra["loop_variant_drain"] = drain
    for iss in issues2:
        ex = execs[iss.exec_index]
        key = exec_key(ex)
        if iss.kind == "rejected":
            V.drift += 1
            log("SPEC-DRIFT component=garbage_collector exec=%s seed=%s line=%d %s" % (json.dumps(key["params"]), key["seed"], iss.line, iss.detail))
            continue
        clause = iss.kind.split(":", 1)[1].lstrip("T")
        rp = vlib.save_replay(pid, "L2_%s_%d.json" % (clause, iss.exec_index), {"exec": key, "clause": clause, "layer": "L2", "line": iss.line, "trace": ex[:400]})
        V.violation("%s violated on an execution of the real code (L2 layer) prog=%s cap=%s seed=%s" % (clause, key["params"].get("prog"), key["params"].get("cap"), key["seed"]), rp)
    V.cov["traces_validated_against_impl"] = acc1 + acc2
    V.extra["l2_conformant"] = V.drift == 0
    for ex in execs[:2]:
        V.sample({"program": ex[0]["params"], "strategy": ex[0]["strategy"], "events": len(ex), "first_events": ex[1:8]})

    # ---- TLC on the L2 model with the loop variant the code follows
    if not replay:
        for name, cfg in mcs:
            if not drain:
                r = spec_runs[name].result()
            else:
                r = vlib.tlc(os.path.join(SPEC, "MC_GC.tla"), variant_cfg(cfg, drain), cache=True, extra_hash="drain=%s" % drain, timeout=mc_timeout, heap="16g")
            V.add_tlc(name, r)
            if r.ok:
                continue
            if r.violation in ("tlc_error", "timeout"):
                raise vlib.Broken("TLC failed on %s: %s" % (cfg, r.error_trace[:2000]))
            if V.drift:
                log("NOTE: TLC counterexample for %s ignored for the verdict because the L2 spec drifted from the code" % r.violation)
                continue
            rp = vlib.save_replay(pid, "tlc_%s_%s.txt" % (name, r.violation), "loop variant Drain=%s\n\n%s" % (drain, r.error_trace))
            if name == "stop" and r.violation == "AllReclaimedAlsoWhenRegionOpenDuringStop":
                if h2_witness is None:
                    # the variant Drain = FALSE is only the default: no execution told the two loops apart
                    log("NOTE: the model with `while (running)` violates AllReclaimedWhenStopReturns, but no recorded execution distinguishes the loop variants - not counted")
                    continue
                V.violation("%s in the L2 model %s (collector loop `while (running)` as executed by the code: the loop ends with consumed tasks still waiting for a region)" % (H2_TEXT, cfg), rp)
            else:
                V.violation("%s violated in the L2 model %s (loop variant Drain=%s)" % (r.violation, cfg, drain), rp)
        V.cov["exhaustive"] = True
    V.assumptions += [
        "abstract epoch (atomic tick; a region = version read + publication; low_water_mark = any value a slot-by-slot scan can produce) - justified by C09",
        "abstract bounded queue (FIFO tickets, write when the slot is free, consumer takes a published prefix <= batch, frees slots afterwards) - justified by C01/C02",
        "retire() concurrent with or after stop() and stop() from inside one's own critical region are outside the contract and not generated",
        "executions are serialised by vsched; time is virtual (usleep of the collector = timer)",
    ]
    return V.finish()
