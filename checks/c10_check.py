"""C10: GarbageCollector - reclaimers run exactly once, never early, before stop() / the destructor returns;
retire blocks while the queue is full and resumes without losing tasks.
Pipeline:
   1. the real GarbageCollector<R> runs under vsched (its collector thread is managed through the pthread_create
      shim, usleep is virtual time); R is a driver closure that logs invocation / consumption / destruction
   2. every execution is judged by the L1 monitor GC_Mon (events only) and validated against the L2 spec GC.tla
      (GC_Trace) - once per collector-loop variant (constant Drain); the variant that explains all executions
      is the one the code follows (binding of the model parameter, like the order tables of the WM components)
   3. TLC model-checks GC.tla with that variant: capacities {1,2,4}, <= 4 retirements, <= 2 regions opening /
      closing at arbitrary points, stop() at an arbitrary point
   Programs: one owner thread (retire*, stop, destructor), region threads, and 1-2 further threads retiring concurrently
   (also from inside their own region): unsorted batches, contended tickets, consumes spanning the ring wrap.
   When L2 conformance drifts the drifting + stress programs are explored much harder (L1 verdicts only).
   Hypothesis H2 (DESIGN 6, fixed in /repo by bf4ef2a): `while (running)` drops consumed tasks that share a batch with
   the stop marker while a region is open -> witness class "region open during stop()", reported separately.
"""
import json
import os
import random
import re
import sys
import time
from concurrent.futures import ThreadPoolExecutor

sys.path.insert(0, os.path.dirname(os.path.abspath(__file__)))
import epoch_common as ec
import gc_common as gc
import vlib
from vlib import log

SPEC = vlib.SPEC
DRIVER = "gc_driver"
H2 = "AllReclaimedRegionOpenDuringStop"
H2_TEXT = "AllReclaimedWhenStopReturns violated [class: region open during stop()]"


def record(progs, seeds, strategy, out, jobs=None, extra=None):
    os.makedirs(os.path.dirname(out), exist_ok=True)

    def one(item):
        idx, t = item
        raw = "%s.%d.ndjson" % (out, idx)
        args = ["--scenario", "gc", "--params", gc.params_of(*t), "--strategy", strategy, "--seeds", "%d:%d" % seeds, "--out", raw, "--max-steps", "20000"]
        if strategy != "pb":
            args += ["-j", str(jobs or 2)]
        if extra:
            args += extra
        s = vlib.driver_status(vlib.driver(DRIVER, args))
        ex = list(vlib.split_traces(raw))
        os.unlink(raw)
        return ex, s["status"]

    execs = []
    status = {}
    with ThreadPoolExecutor(max(2, vlib.NCPU // 2)) as pool:
        for ex, st in pool.map(one, list(enumerate(progs))):
            execs += ex
            for k, v in st.items():
                status[k] = status.get(k, 0) + v
    return execs, status


def exec_key(ex):
    h = ex[0]
    return {"scenario": h["scn"], "params": h["params"], "seed": h["seed"], "strategy": h["strategy"], "script": h.get("script", [])}


def rerun(key):
    p = key["params"]
    params = ",".join("%s=%s" % (k, v) for k, v in p.items())
    raw = os.path.join(vlib.BUILD, "traces", "rerun_c10.%d.ndjson" % os.getpid())
    st = key["strategy"]
    args = ["--scenario", key["scenario"], "--params", params, "--seeds", "%d:%d" % (key["seed"], key["seed"] + 1), "--out", raw, "--max-steps", "20000"]
    if key.get("script") and st == "pb":
        args += ["--strategy", "pb", "--script", ",".join(map(str, key["script"])), "--max-execs", "1"]
    elif st in ("pct", "random"):
        args += ["--strategy", "mix"]
    else:
        args += ["--strategy", st]
    vlib.driver(DRIVER, args)
    ex = list(vlib.split_traces(raw))
    os.unlink(raw)
    return ex[0] if ex else None


def bad_of(detail):
    m = re.findall(r'bad = \{([^}]*)\}', detail)
    return re.findall(r'"(\w+)"', m[-1]) if m else []


def variant_cfg(name, drain):
    """model-checking config for the loop variant the code follows (the committed ones are Drain = TRUE = /repo HEAD)"""
    src = os.path.join(SPEC, "mc", name)
    if drain:
        return src
    d = os.path.join(vlib.BUILD, "gen", "gc_cfg")
    os.makedirs(d, exist_ok=True)
    dst = os.path.join(d, name.replace(".cfg", "_nodrain.cfg"))
    open(dst, "w").write(open(src).read().replace("Drain = TRUE", "Drain = FALSE"))
    return dst


def run(pid, tier, seed, replay=None):
    V = vlib.Verdict(pid, tier, seed)
    rng = random.Random(seed * 7919 + 10)
    vlib.build([DRIVER])
    tdir = os.path.join(vlib.BUILD, "traces")
    quick = tier == "quick"
    mon = os.path.join(SPEC, "GC_Mon.tla")
    trc = os.path.join(SPEC, "GC_Trace.tla")
    mon_cfg = os.path.join(SPEC, "mc", "GC_Mon.cfg")
    monh2_cfg = os.path.join(SPEC, "mc", "GC_MonH2.cfg")

    # model checking of the loop variant of /repo HEAD starts right away (re-done if the code follows the other one)
    suffix = "_q" if quick else ""
    mcs = [("safety", "GC_safety%s.cfg" % suffix), ("stop", "GC_stop%s.cfg" % suffix)]
    if not quick:
        mcs.append(("live", "GC_live.cfg"))
    mc_timeout = 300 if quick else 1700
    mc_pool = ThreadPoolExecutor(4)
    spec_runs = {}
    if not replay:
        for name, cfg in mcs:
            spec_runs[name] = mc_pool.submit(vlib.tlc, os.path.join(SPEC, "MC_GC.tla"), variant_cfg(cfg, True), cache=True, extra_hash="drain=True", timeout=mc_timeout, heap="16g",
                                             workers=max(2, vlib.NCPU // 2))
            time.sleep(0.3)

    status = {}

    def add_status(s):
        for k, v in s.items():
            status[k] = status.get(k, 0) + v

    if replay:
        key = json.load(open(replay))
        execs = [rerun(key["exec"])]
    else:
        base = seed * 1000 + 1
        execs, s1 = record(gc.FIXED, (base, base + (4 if quick else 40)), "mix", os.path.join(tdir, pid + "_fixed"))
        add_status(s1)
        # several retiring threads: more schedules per program (the interesting interleavings put one retire() between the
        # tick and the push of another, or a lock + retire between two steps of the collector)
        e1, s1 = record(gc.MULTI + gc.NEST + gc.WRAP, (base, base + (10 if quick else 120)), "mix", os.path.join(tdir, pid + "_multi"))
        execs += e1
        add_status(s1)
        rprogs = [gc.gen_program(rng) for _ in range(12 if quick else 120)]
        e2, s2 = record(rprogs, (base, base + (3 if quick else 8)), "mix", os.path.join(tdir, pid + "_rand"))
        execs += e2
        add_status(s2)
        e3, s3 = record(gc.PB, (1, 2), "pb", os.path.join(tdir, pid + "_pb"), extra=["--pb-bound", "2" if quick else "3", "--max-execs", "45" if quick else "800"])
        execs += e3
        add_status(s3)
    V.extra["executions"] = len(execs)
    V.extra["record_wall_s"] = round(time.time() - V.t0, 1)

    h2_witness = [None]
    l1_info = {"accepted": 0, "issues": 0, "tlc_states": 0, "wall_s": 0.0, "unchecked": 0}

    def judge_l1(batch, tag, results=None):
        """every execution against the L1 monitor: all clauses except the witness class H2, then the first H2 witness"""
        mlines = [gc.monitor_lines(ex) for ex in batch]
        if results is None:
            results = (ec.check_traces(mon, mon_cfg, mlines, pid + "_L1" + tag, 4), ec.check_traces(mon, monh2_cfg, mlines, pid + "_L1h2" + tag, 1))
        (acc1, issues1, st1), (_, issues_h2, st_h2) = results
        V.cov["transitions"] += st1["states"] + st_h2["states"]
        l1_info["accepted"] += acc1
        l1_info["issues"] += len(issues1)
        l1_info["tlc_states"] += st1["states"]
        l1_info["wall_s"] = round(l1_info["wall_s"] + st1["wall"], 1)
        l1_info["unchecked"] += st1["unchecked"]
        for iss in issues1:
            ex = batch[iss.exec_index]
            key = exec_key(ex)
            if iss.kind == "rejected":
                raise vlib.Broken("L1 monitor rejected a trace (monitors must accept every well-formed trace): %s" % iss.detail)
            names = [b for b in bad_of(iss.detail) if b != H2] or ["Holds"]
            what = names[0]
            if what == "Protocol":
                raise vlib.Broken("driver bookkeeping disagrees with its events in %s" % json.dumps(key))
            if not replay:
                ex2 = rerun(key)
                _, iss2, _ = ec.check_traces(mon, mon_cfg, [gc.monitor_lines(ex2)], pid + "_re") if ex2 else (0, [], {})
                if not iss2:
                    raise vlib.Broken("violation %s did not reproduce on re-execution of %s" % (what, json.dumps(key)))
            rp = vlib.save_replay(pid, "L1_%s_%d%s.json" % (what, iss.exec_index, tag), {"exec": key, "clause": what, "layer": "L1", "line": iss.line, "trace": ex[:400]})
            V.violation("%s violated on an execution of the real code (L1 layer) prog=%s cap=%s seed=%s strategy=%s" % (what, key["params"].get("prog"), key["params"].get("cap"), key["seed"], key["strategy"]), rp)
        for iss in issues_h2:
            if iss.kind == "rejected":
                raise vlib.Broken("L1 monitor rejected a trace: %s" % iss.detail)
            if H2 in bad_of(iss.detail) and h2_witness[0] is None:
                ex = batch[iss.exec_index]
                key = exec_key(ex)
                if not replay:
                    ex2 = rerun(key)
                    _, iss2, _ = ec.check_traces(mon, monh2_cfg, [gc.monitor_lines(ex2)], pid + "_re") if ex2 else (0, [], {})
                    if not iss2:
                        raise vlib.Broken("H2 witness did not reproduce on re-execution of %s" % json.dumps(key))
                h2_witness[0] = key
                rp = vlib.save_replay(pid, "L1_H2_%d%s.json" % (iss.exec_index, tag), {"exec": key, "clause": H2, "layer": "L1", "line": iss.line, "trace": ex[:400]})
                V.violation("%s on an execution of the real code (L1 layer): reclaimers retired before stop() were never invoked, also not by the destructor; prog=%s cap=%s seed=%s" % (H2_TEXT, key["params"].get("prog"), key["params"].get("cap"), key["seed"]), rp)
        return acc1

    mlines = [gc.monitor_lines(ex) for ex in execs]
    tlines = [gc.normalise(ex) for ex in execs]
    with ThreadPoolExecutor(3) as pool:
        f_l1 = pool.submit(ec.check_traces, mon, mon_cfg, mlines, pid + "_L1", 4)
        time.sleep(0.2)
        f_h2 = pool.submit(ec.check_traces, mon, monh2_cfg, mlines, pid + "_L1h2", 1)
        time.sleep(0.2)
        f_l2 = pool.submit(ec.check_traces, trc, os.path.join(SPEC, "mc", "GC_TraceDrain.cfg"), tlines, pid + "_L2d", 3)
        l1, h2, l2 = f_l1.result(), f_h2.result(), f_l2.result()
    acc_l1 = judge_l1(execs, "", (l1, h2))

    # ---- L2 conformance, per loop variant (Drain = TRUE is /repo HEAD; FALSE the originally pinned commit)
    acc2, issues2, st2 = l2
    V.cov["transitions"] += st2["states"]
    drain = True
    rej = [i for i in issues2 if i.kind == "rejected"]
    info = {"Drain=TRUE": {"accepted": acc2, "rejected": len(rej), "unchecked": st2["unchecked"], "tlc_states": st2["states"], "wall_s": round(st2["wall"], 1)}}
    if rej:
        acc3, issues3, st3 = ec.check_traces(trc, os.path.join(SPEC, "mc", "GC_Trace.cfg"), tlines, pid + "_L2", 3)
        V.cov["transitions"] += st3["states"]
        rej3 = [i for i in issues3 if i.kind == "rejected"]
        info["Drain=FALSE"] = {"accepted": acc3, "rejected": len(rej3), "unchecked": st3["unchecked"], "tlc_states": st3["states"], "wall_s": round(st3["wall"], 1)}
        if len(rej3) < len(rej):
            drain, acc2, issues2, rej = False, acc3, issues3, rej3
            if not rej3:
                log("NOTE: the collector loop of the code under test ends as soon as the stop marker is consumed (variant Drain = FALSE, `while (running)`)")
    V.extra["trace_L2"] = info
    V.extra["loop_variant_drain"] = drain
    drifting = []
    for iss in issues2:
        ex = execs[iss.exec_index]
        key = exec_key(ex)
        if iss.kind == "rejected":
            V.drift += 1
            drifting.append(key)
            log("SPEC-DRIFT component=garbage_collector exec=%s seed=%s line=%d %s" % (json.dumps(key["params"]), key["seed"], iss.line, iss.detail))
            continue
        clause = iss.kind.split(":", 1)[1].lstrip("T")
        rp = vlib.save_replay(pid, "L2_%s_%d.json" % (clause, iss.exec_index), {"exec": key, "clause": clause, "layer": "L2", "line": iss.line, "trace": ex[:400]})
        V.violation("%s violated on an execution of the real code (L2 layer) prog=%s cap=%s seed=%s" % (clause, key["params"].get("prog"), key["params"].get("cap"), key["seed"]), rp)

    # ---- drift-guided intensification: where the code no longer follows the L2 specification the model's exhaustive
    # exploration no longer speaks for it, so the real code is explored much harder (drifting programs + the stress
    # programs with several retirers; L1 verdicts only)
    if drifting and not replay and not V.violations:
        progs = []
        for key in drifting:
            p = key["params"]
            t = (p["prog"], int(p["cap"]), int(p["nreg"]), int(p["style"]), int(p.get("qbase", 0)))
            if t not in progs:
                progs.append(t)
        progs = progs[:2] + [t for t in gc.STRESS if tuple(t) + (0,) * (5 - len(t)) not in progs[:2]]
        base = seed * 1000 + 500
        extra, sx = record(progs, (base, base + (120 if quick else 1500)), "mix", os.path.join(tdir, pid + "_driftmix"))
        add_status(sx)
        e5, s5 = record(progs, (1, 2), "pb", os.path.join(tdir, pid + "_driftpb"), extra=["--pb-bound", "3", "--max-execs", "500" if quick else "8000"])
        add_status(s5)
        extra += e5
        V.extra["drift_guided_executions"] = len(extra)
        V.extra["drift_guided_programs"] = [t[0] for t in progs]
        log("NOTE: L2 conformance drifted: %d further executions of %d programs judged by the L1 monitor" % (len(extra), len(progs)))
        acc_l1 += judge_l1(extra, "_dg")
        execs += extra
    V.extra["trace_L1"] = l1_info
    V.extra["h2_witness"] = h2_witness[0]
    V.extra["exec_status"] = status
    V.cov["traces_validated_against_impl"] = acc_l1 + acc2
    V.extra["l2_conformant"] = V.drift == 0
    for ex in execs[:2]:
        V.sample({"program": ex[0]["params"], "strategy": ex[0]["strategy"], "events": len(ex), "first_events": ex[1:8]})

    # ---- TLC on the L2 model with the loop variant the code follows
    if not replay:
        for name, cfg in mcs:
            if drain:
                r = spec_runs[name].result()
            else:
                r = vlib.tlc(os.path.join(SPEC, "MC_GC.tla"), variant_cfg(cfg, drain), cache=True, extra_hash="drain=%s" % drain, timeout=mc_timeout, heap="16g")
            V.add_tlc(name, r)
            if r.ok:
                continue
            if r.violation in ("tlc_error", "timeout"):
                raise vlib.Broken("TLC failed on %s: %s" % (cfg, r.error_trace[:2000]))
            if V.drift:
                log("NOTE: TLC counterexample for %s ignored for the verdict because the L2 spec drifted from the code" % r.violation)
                continue
            rp = vlib.save_replay(pid, "tlc_%s_%s.txt" % (name, r.violation), "loop variant Drain=%s\n\n%s" % (drain, r.error_trace))
            if name == "stop" and r.violation == "AllReclaimedAlsoWhenRegionOpenDuringStop":
                if h2_witness[0] is None:
                    log("NOTE: the model with `while (running)` violates AllReclaimedWhenStopReturns, but no recorded execution shows that witness - not counted")
                    continue
                V.violation("%s in the L2 model %s (collector loop `while (running)` as executed by the code: the loop ends with consumed tasks still waiting for a region)" % (H2_TEXT, cfg), rp)
            else:
                V.violation("%s violated in the L2 model %s (loop variant Drain=%s)" % (r.violation, cfg, drain), rp)
        V.cov["exhaustive"] = True
    V.assumptions += [
        "abstract epoch (atomic tick; a region = version read + publication; low_water_mark = any value a slot-by-slot scan can produce) - justified by C09",
        "abstract bounded queue (FIFO tickets, write when the slot is free, consumer takes a published prefix <= batch in up to two ring segments, frees slots afterwards) - justified by C01/C02",
        "retire() concurrent with or after stop(), stop() from inside one's own critical region, more retirements inside one's own region than queue + one batch hold, and destroying the collector under an open region are outside the contract and not generated",
        "executions are serialised by vsched; time is virtual (usleep of the collector = timer)",
    ]
    return V.finish()
