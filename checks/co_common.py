"""Trace normalisation and program generation for the coroutine driver (property C13)."""
import os
import re

import vlib

DEF = {"k": "", "t": 0, "id": 0, "op": "", "w": 0, "r": 0, "res": 0, "tk": 0, "opid": 0, "ex": 0, "bound": 0, "has": True, "val": 0,
       "want": 0, "exp": 0, "kind": "", "slot": 0, "alive": 0, "listed": False, "falloc": 0, "flive": 0, "calloc": 0, "clive": 0,
       "nwf": 0, "status": "", "ib": True}
L1_KINDS = {"call", "ret", "inv", "wait", "susp", "res", "spurious", "final", "done"}


def parse_wt(wt):
    """'0:mm-1:x' -> [(bound, kinds)]"""
    out = []
    for one in wt.split("-"):
        if len(one) >= 3:
            out.append((int(one[0]), one[2:]))
    return out


def slot_bound(params):
    """upper bound on deposit-box slots of the futex box: one per waiter with futex rounds plus one per operation
    that can be between resume and finish at the same time (program threads + the driver's own wake_all)"""
    nwf = sum(1 for b, kinds in parse_wt(params["wt"]) if any(c in "mxcd" for c in kinds))
    return nwf + len(params["prog"].split("_")) + 1


def monitor_lines(events):
    """vsched trace of one execution -> lines for Co_Mon.tla (L1 observables only)"""
    out = []
    params = {}
    for e in events:
        k = e.get("k")
        if k == "reset":
            params = e["params"]
            out.append(dict(DEF, k="reset"))
        elif k == "call":
            out.append(dict(DEF, k="call", t=e["t"], id=e["id"], op=e["op"], w=e["w"], r=e["r"]))
        elif k == "ret":
            out.append(dict(DEF, k="ret", t=e["t"], id=e["id"], op=e["op"], w=e["w"], r=e["r"], res=e["res"]))
        elif k == "inv":
            out.append(dict(DEF, k="inv", t=e["t"], tk=e["tk"], opid=e["op"], ex=e["ex"]))
        elif k == "wait":
            out.append(dict(DEF, k="wait", t=e["t"], w=e["w"], r=e["r"], kind=e["kind"], exp=e.get("exp", 0), tk=e["tk"], bound=e["bound"], ib=e.get("ib", True)))
        elif k == "susp":
            out.append(dict(DEF, k="susp", t=e["t"], w=e["w"], r=e["r"], slot=e["slot"]))
        elif k == "res":
            out.append(dict(DEF, k="res", t=e["t"], w=e["w"], r=e["r"], tk=e["tk"], ex=e["ex"], bound=e["bound"], has=e["has"], val=e["val"], want=e["want"]))
        elif k == "spurious":
            out.append(dict(DEF, k="spurious", t=e["t"], w=e["w"]))
        elif k == "final":
            out.append(dict(DEF, k="final", alive=e["alive"], listed=e["listed"], falloc=e["falloc"], flive=e["flive"], calloc=e["calloc"], clive=e["clive"], nwf=slot_bound(params)))
        elif k == "end":
            out.append(dict(DEF, k="end", status=e.get("status", "?")))
    return out


def params_of(wt, em, cex, prog):
    return "wt=%s,em=%s,cex=%s,prog=%s" % (wt, em, cex, prog)


def gen_program(rng):
    """random scenario: (wt, em, cex, prog).  Every waiter is submitted by some thread; cancels/wakes/set-values race."""
    style = rng.choice(["futex", "futex", "futexv", "futexv", "cancel", "task", "mixed"])
    nw = rng.choice([1, 2, 2, 3])
    em = "".join(rng.choice("iq") for _ in range(2))
    cex = rng.choice(["u", "0", "1"])
    waiters = []
    for w in range(nw):
        nr = rng.choice([1, 2, 2])
        if style == "futex":
            kinds = "".join(rng.choice("mmmmxc") for _ in range(nr))
        elif style == "futexv":
            kinds = "".join(rng.choice("mddd") for _ in range(nr))
        elif style == "cancel":
            kinds = "".join(rng.choice("nnnf") for _ in range(nr))
        elif style == "task":
            kinds = "".join(rng.choice("tfi") for _ in range(nr))
        else:
            kinds = "".join(rng.choice("mnftixc") for _ in range(nr))
        waiters.append((rng.choice([0, 1]), kinds))
    wt = "-".join("%d:%s" % (b, k) for b, k in waiters)
    ops = []
    for w, (b, kinds) in enumerate(waiters):
        for r, c in enumerate(kinds):
            if c == "d" or (c == "m" and style == "futexv"):
                ops.append(rng.choice(["u.a", "u.k", "u.a", "a", "c%d%d" % (w, r)]))   # store then wake stay together
            elif c in "mc":
                ops.append(rng.choice(["k", "a", "k", "c%d%d" % (w, r)]))
                if rng.random() < 0.5:
                    ops.append(rng.choice(["k", "a", "c%d%d" % (w, r)]))
            elif c == "n":
                ops.append("v%d%d" % (w, r))
                if rng.random() < 0.8:
                    ops.append("c%d%d" % (w, r))
                if rng.random() < 0.3:
                    ops.append("c%d%d" % (w, r))
            elif c in "ft":
                ops.append("v%d%d" % (w, r))
    rng.shuffle(ops)
    nthr = rng.choice([1, 2, 2, 3])
    threads = [[] for _ in range(nthr + 1)]
    submits = ["s%d" % w for w in range(nw)]
    # submissions either all from one thread or spread
    if rng.random() < 0.5:
        threads[0] = submits
    else:
        for s in submits:
            threads[rng.randrange(nthr + 1)].insert(0, s)
    for i, o in enumerate(ops):
        threads[1 + i % nthr].append(o)
    prog = "_".join(".".join(t) for t in threads if t)
    return wt, em, cex, prog


def exec_key(ex):
    h = ex[0]
    return {"scenario": h["scn"], "params": h["params"], "seed": h["seed"], "strategy": h["strategy"], "script": h.get("script", [])}
