"""Trace normalisation for the swiss-table driver (property C03): vsched trace -> lines for Swiss_Trace.tla (L2),
Swiss_Mon.tla (L1) and the generic HBMon.tla; TLA+ configuration values <-> driver parameter strings."""
import re

EMP_OPS = {"e", "i", "x", "t"}

DEF = {"t": 0, "k": "", "loc": "", "i": 0, "v": 0, "a": 0, "b": 0, "ok": True, "mo": "", "mof": "", "op": "", "key": 0, "res": 0, "ins": False,
       "slots": [], "ntab": 0, "mbad": 0, "status": "", "kind": "", "head": 0, "keys": [], "pre": [], "prog": [], "hook": False}
SCHED = {"spawn", "start", "exit", "join", "tick", "crash", "dec", "ctorm", "ffind", "femp", "alloc", "fslots", "prefill_bad", "clock"}  # clock: retire list of the thread-local storage vector


# ------------------------------------------------------------------------------------------------ parameters
def parse_prog(s):
    prog = []
    for th in s.split("_"):
        ops = []
        for tok in th.split("."):
            if tok:
                ops.append({"op": tok[0], "k": int(tok[1:])})
        prog.append(ops)
    return prog


def parse_pre(s):
    if not s or s == "none":
        return []
    pre = []
    for tab in s.split("/"):
        row = []
        for tok in tab.split("."):
            if not tok:
                continue
            m = re.match(r"(e|\d+)(?:x(\d+))?$", tok)
            tag = -1 if m.group(1) == "e" else int(m.group(1))
            row += [tag] * int(m.group(2) or 1)
        pre.append(row)
    return pre


def parse_keys(s):
    out = []
    for tok in s.split("-"):
        h, _, tag = tok.partition(".")
        out.append({"h": int(h), "tag": int(tag or 0)})
    return out


def fmt_pre(pre):
    if not pre:
        return "none"
    tabs = []
    for row in pre:
        toks = []
        i = 0
        while i < len(row):
            j = i
            while j < len(row) and row[j] == row[i]:
                j += 1
            name = "e" if row[i] < 0 else str(row[i])
            toks.append(name if j - i == 1 else "%sx%d" % (name, j - i))
            i = j
        tabs.append(".".join(toks) if toks else "ex0")
    return "/".join(tabs)


def params_of(kind, head, keys, pre, prog):
    """configuration (python structures) -> driver --params string"""
    return "kind=%s,head=%d,keys=%s,pre=%s,prog=%s" % (
        kind, head, "-".join("%d.%d" % (k["h"], k["tag"]) for k in keys), fmt_pre(pre),
        "_".join(".".join("%s%d" % (o["op"], o["k"]) for o in th) for th in prog))


def conf_of(p):
    """driver params dict (from the reset line) -> configuration"""
    return {"kind": p.get("kind", "set"), "head": int(p.get("head", 16)), "keys": parse_keys(str(p.get("keys", "0.1"))),
            "pre": parse_pre(str(p.get("pre", "none"))), "prog": parse_prog(p.get("prog", "e1_e1"))}


def size0(conf):
    return 16 if conf["head"] == 0 else conf["head"]


def fillers(conf):
    """[(key, slot code, tag)] of the pre-filled slots"""
    out = []
    for o, row in enumerate(conf["pre"]):
        for j, tag in enumerate(row):
            if tag >= 0:
                out.append((100 + 1000 * o + j, 1000 * o + j, tag))
    return out


def key_h(conf, k):
    return (k - 100) % 1000 if k >= 100 else conf["keys"][k - 1]["h"]


# ------------------------------------------------------------------------------------------------ L2
def _loc(e):
    loc = e.get("loc", "")
    m = re.match(r"(ctrl|next)(\d+)$", loc)
    if not m:
        return None
    o = int(m.group(2))
    if m.group(1) == "ctrl":
        return "ctrl", o * 1000 + e.get("i", 0)
    return "next", o


def _code(ord_, idx):
    if ord_ == -2:
        return -2
    return -1 if ord_ < 0 else ord_ * 1000 + idx


def has_hook(events):
    return any(e.get("k") == "point" for e in events)


def normalise(events):
    """vsched trace of one execution -> lines for Swiss_Trace.tla"""
    out = []
    hook = has_hook(events)
    fslots = []
    for e in events:
        k = e.get("k")
        if k == "reset":
            c = conf_of(e["params"])
            out.append(dict(DEF, k="reset", hook=hook, **c))
            continue
        if k == "fslots":
            fslots += e["slots"]
            continue
        if k in SCHED:
            continue
        if k == "end":
            out.append(dict(DEF, k="end", status=e.get("status", "?")))
            continue
        if k == "final":
            out.append(dict(DEF, k="final", ntab=e["ntab"], mbad=e["mirror_bad"], slots=[[s[0] * 1000 + s[1], s[2]] for s in fslots + e.get("slots", [])]))
            continue
        t = e.get("t", 0)
        if t <= 0:
            continue
        n = dict(DEF, t=t, k=k)
        if k in ("load", "store", "cas", "xchg", "faa", "fand", "for", "fxor"):
            lc = _loc(e)
            if lc is None:
                if e.get("loc") == "?":
                    continue        # thread-local size counter, thread-id / instance-id allocation: not part of the model
                lc = (e.get("loc", ""), e.get("i", 0))
            n["loc"], n["i"] = lc
            n["mo"] = e.get("mo", "")
            ptr = lc[0] == "next"
            f = (lambda v: 0 if v == 0 else 1) if ptr else (lambda v: v)
            if k in ("load", "store"):
                n["v"] = f(e["v"])
            elif k == "cas":
                n["v"], n["a"], n["b"], n["ok"], n["mof"] = f(e["v"]), f(e["a"]), f(e["b"]), e["ok"], e.get("mof", "")
            else:
                n["v"], n["a"] = e["v"], e["a"]
        elif k == "fence":
            n["mo"] = e.get("mo", "")
        elif k == "point":
            lc = _loc(e)
            if lc is None or e.get("what") != "group_load":
                continue
            n["k"], n["loc"], n["i"] = "gl", "ctrl", lc[1]
        elif k in ("call", "hash"):
            n["op"], n["key"] = e.get("op", ""), e["key"]
        elif k == "keq":
            n["i"], n["ok"], n["key"] = _code(e["ord"], e["idx"]), e["eq"], e["key"]
        elif k == "ctor":
            n["i"], n["key"] = _code(e["ord"], e["idx"]), e["key"]
        elif k == "ret":
            n["op"], n["key"], n["res"], n["ins"] = e["op"], e["key"], _code(e["ord"], e["idx"]), e["ins"]
        elif k == "yield":
            pass
        else:
            n["k"] = "other:" + str(k)
        out.append(n)
    return out


# ------------------------------------------------------------------------------------------------ L1
MDEF = {"t": 0, "k": "", "op": "", "key": 0, "res": 0, "ins": False, "consumed": False, "rkey": 0, "rvalid": True, "valid": True, "i": 0,
        "srcm": False, "slots": [], "status": "", "kind": "", "cap": 0, "fill": []}


def monitor_lines(events):
    """vsched trace of one execution -> lines for Swiss_Mon.tla (L1 observables only)"""
    out = []
    fslots = []
    for e in events:
        k = e.get("k")
        if k == "fslots":
            fslots += e["slots"]
        if k == "reset":
            c = conf_of(e["params"])
            cap = 0 if c["head"] == 0 else c["head"]
            out.append(dict(MDEF, k="reset", kind=c["kind"], cap=cap, fill=[[f[0], f[1]] for f in fillers(c)]))
        elif k == "call":
            out.append(dict(MDEF, k="call", t=e["t"], op=e["op"], key=e["key"]))
        elif k == "ret":
            out.append(dict(MDEF, k="ret", t=e["t"], op=e["op"], key=e["key"], res=_code(e["ord"], e["idx"]), ins=e["ins"],
                            consumed=e["consumed"], rkey=e["rkey"] if e["ord"] >= 0 else e["key"], rvalid=e["rvalid"]))
        elif k == "ctor" and e.get("t", 0) > 0:
            out.append(dict(MDEF, k="ctor", t=e["t"], i=_code(e["ord"], e["idx"]), key=e["key"], srcm=bool(e["src_moved"])))
        elif k == "keq" and e.get("t", 0) > 0:
            out.append(dict(MDEF, k="keq", t=e["t"], i=_code(e["ord"], e["idx"]), key=e["key"], valid=e["valid"]))
        elif k == "final":
            out.append(dict(MDEF, k="final", slots=[[s[0] * 1000 + s[1], s[2], s[4]] for s in fslots + e.get("slots", [])]))
        elif k == "ffind":
            out.append(dict(MDEF, k="ffind", key=e["key"], res=_code(e["ord"], e["idx"])))
        elif k == "femp":
            out.append(dict(MDEF, k="femp", key=e["key"], res=_code(e["ord"], e["idx"]), ins=e["ins"]))
        elif k == "end":
            out.append(dict(MDEF, k="end", status=e.get("status", "?")))
    return out


# ------------------------------------------------------------------------------------------------ HB
def hb_lines(events):
    """vsched trace of one execution -> lines for the generic HBMon.tla.
    Payload accesses: element construction = write of its cell, key comparison / read-back through the returned
    iterator = read.  The SIMD group load is not logged: the control byte a probe must have seen for each candidate it
    compares (the byte of the candidate's slot inside the probe window: the slot's own byte or its mirror in the tail) is
    inserted as a relaxed load right where the group load happened: directly after the last event of that thread that
    precedes the (fence, key comparison) pairs of the same probe window.  With hook H-1 that event is the logged point."""
    D = {"t": 0, "k": "", "loc": "", "i": 0, "mo": "", "mof": "", "ok": True}
    conf = None
    out = []
    prevpos = {}     # thread -> index in `out` right after its previous event that is not a fence
    window = {}      # thread -> (ordinal, window start, position of its group load) of the probe window being examined
    ctor_cell = {}
    inserts = []     # (position, line)
    for e in events:
        k = e.get("k")
        t = max(0, e.get("t", 0))
        if k == "reset":
            conf = conf_of(e["params"])
            out.append(dict(D, k="reset"))
            prevpos, window, ctor_cell = {}, {}, {}
            continue
        if k in ("load", "store", "xchg", "faa", "fand", "for", "fxor", "cas"):
            if e.get("loc") == "?":
                continue
            line = dict(D, t=t, k=k, loc=e["loc"], i=e.get("i", 0), mo=e["mo"])
            if k == "cas":
                line["ok"] = e["ok"]
                line["mof"] = e.get("mof", e["mo"])
            out.append(line)
        elif k == "fence":
            out.append(dict(D, t=t, k=k, mo=e["mo"]))
            continue                         # a fence follows the group load it belongs to: prevpos stays
        elif k in ("spawn", "join"):
            out.append(dict(D, t=t, k=k, i=e["child"]))
        elif k == "keq" and t > 0:
            o, idx = e["ord"], e["idx"]
            B = size0(conf) << o
            b = key_h(conf, e["key"]) % B
            off = (idx - b) % 16
            start = (idx - off) % B
            w = window.get(t)
            if w is None or (w[0], w[1]) != (o, start):
                w = (o, start, prevpos.get(t, len(out)))
                window[t] = w
            pos = idx if start + off < B else B + idx
            inserts.append((w[2], dict(D, t=t, k="load", loc="ctrl%d" % o, i=pos, mo="rlx")))
            out.append(dict(D, t=t, k="acc", loc="cell", i=o * 1000 + idx, ok=False))
            prevpos[t] = len(out)
            continue
        elif k in ("ctor", "ctorm") and t > 0:
            if k == "ctor":
                ctor_cell[t] = e["ord"] * 1000 + e["idx"]
            out.append(dict(D, t=t, k="acc", loc="cell", i=ctor_cell.get(t, 0), ok=True))
        elif k == "ret" and t > 0:
            if e["ord"] >= 0:
                out.append(dict(D, t=t, k="acc", loc="cell", i=e["ord"] * 1000 + e["idx"], ok=False))
        elif not (k in ("call", "hash", "yield", "point") and t > 0):
            continue
        # any event of the thread other than fence / key comparison ends the probe window
        window.pop(t, None)
        prevpos[t] = len(out)
    for pos, line in sorted(inserts, key=lambda x: -x[0]):
        out.insert(pos, line)
    return out


# ------------------------------------------------------------------------------------------------ TLA+ values
def parse_tla(s):
    """TLA+ value printed by TLC (records, tuples, sets, strings, integers, booleans, functions as tuples) -> python"""
    pos = [0]

    def ws():
        while pos[0] < len(s) and s[pos[0]].isspace():
            pos[0] += 1

    def val():
        ws()
        c = s[pos[0]]
        if s.startswith("<<", pos[0]):
            pos[0] += 2
            items = []
            ws()
            while not s.startswith(">>", pos[0]):
                items.append(val())
                ws()
                if s[pos[0]] == ",":
                    pos[0] += 1
                ws()
            pos[0] += 2
            return items
        if c == "[":
            pos[0] += 1
            rec = {}
            ws()
            while s[pos[0]] != "]":
                m = re.match(r"\s*(\w+)\s*\|->", s[pos[0]:])
                pos[0] += m.end()
                rec[m.group(1)] = val()
                ws()
                if s[pos[0]] == ",":
                    pos[0] += 1
                ws()
            pos[0] += 1
            return rec
        if c == "{":
            pos[0] += 1
            items = []
            ws()
            while s[pos[0]] != "}":
                items.append(val())
                ws()
                if s[pos[0]] == ",":
                    pos[0] += 1
                ws()
            pos[0] += 1
            return items
        if c == '"':
            j = s.index('"', pos[0] + 1)
            r = s[pos[0] + 1:j]
            pos[0] = j + 1
            return r
        m = re.match(r"-?\d+|TRUE|FALSE", s[pos[0]:])
        pos[0] += m.end()
        return {"TRUE": True, "FALSE": False}.get(m.group(0), None) if m.group(0) in ("TRUE", "FALSE") else int(m.group(0))

    return val()


SILENT_EV = {"", "gl", "new", "del"}


def tlc_behaviours(mc_tla, cfg, num, depth, seed, workdir, hook=False):
    """TLC -simulate on the L2 model: returns [(params string, [(thread, kind) per script-consuming step], [(thread, kind) per logged step])]"""
    import glob, os, shutil, subprocess, vlib
    shutil.rmtree(workdir, ignore_errors=True)
    os.makedirs(workdir)
    libs = [os.path.dirname(mc_tla), os.path.join(vlib.SPEC, "lib"), os.path.join(vlib.SPEC, "mo")]
    cmd = ["java", "-XX:+UseParallelGC", "-Xmx4g", "-DTLA-Library=" + ":".join(libs), "-cp", vlib.JAR, "tlc2.TLC", "-metadir", os.path.join(workdir, "meta"),
           "-config", cfg, "-simulate", "file=%s,num=%d" % (os.path.join(workdir, "tr"), num), "-depth", str(depth), "-workers", "1", "-seed", str(seed), mc_tla]
    r = subprocess.run(cmd, capture_output=True, text=True, timeout=1500, cwd=os.path.dirname(mc_tla))
    if "Error:" in r.stdout:
        raise vlib.Broken("TLC simulation failed: " + r.stdout[-2000:])
    out = []
    for f in sorted(glob.glob(os.path.join(workdir, "tr_*"))):
        txt = open(f).read()
        m = re.search(r"/\\ cfg = (\[.*?\])\s*\n(?:/\\|\n)", txt, re.S)
        if not m:
            continue
        c = parse_tla(m.group(1))
        steps = []      # thread per step that consumes a script entry of vsched (the hook's point consumes none)
        logged = []     # thread per step that leaves a line in the normalised trace
        for sm in re.finditer(r"/\\ ev = (\[.*?\])\s*(?=\n\n|\n/\\|\Z)", txt, re.S):
            e = parse_tla(sm.group(1))
            if e["k"] not in SILENT_EV:
                steps.append((e["t"], e["k"]))
            if e["k"] not in SILENT_EV or (hook and e["k"] == "gl"):
                logged.append((e["t"], e["k"]))
        out.append((params_of(c["kind"], c["head"], c["keys"], c["pre"], c["prog"]), steps, logged))
    shutil.rmtree(workdir, ignore_errors=True)
    return out


# ------------------------------------------------------------------------------------------------ trace checking
def check_traces(tla, cfg, execs, name, max_rounds=6, timeout=1800):
    """vlib.check_traces, but the failing line is located in TLC's complete output (the counterexample of a long
    concatenated trace file is far longer than the excerpt vlib keeps in error_trace)"""
    import json, os, vlib
    issues = []
    accepted = 0
    stats = {"states": 0, "wall": 0.0, "rounds": 0, "pairs": set()}
    offset = 0
    todo = list(execs)
    os.makedirs(os.path.join(vlib.BUILD, "traces"), exist_ok=True)
    while todo and stats["rounds"] < max_rounds:
        stats["rounds"] += 1
        path = os.path.join(vlib.BUILD, "traces", "%s.%d.ndjson" % (name, os.getpid()))
        starts = []
        n = 0
        with open(path, "w") as f:
            for ex in todo:
                starts.append(n + 1)
                for e in ex:
                    f.write(json.dumps(e, separators=(",", ":")) + "\n")
                n += len(ex)
        r = vlib.validate_trace(tla, cfg, path, timeout=timeout)
        stats["states"] += r.distinct
        stats["wall"] += r.wall
        pv = vlib.parse_verif(r.out)
        if pv:
            stats["pairs"].update(pv[2])
        try:
            os.unlink(path)
        except OSError:
            pass
        # clauses the trace specification recorded as falsified (it goes on validating): ("VIOL_<clause>", "<line>")
        recorded = [(a[5:], int(b)) for a, b in (pv[2] if pv else []) if a.startswith("VIOL_")]
        stats["pairs"] = {x for x in stats["pairs"] if not x[0].startswith("VIOL_")}
        bad_execs = set()
        for clause, line in sorted(recorded, key=lambda x: x[1]):
            j = 0
            for idx, st in enumerate(starts):
                if st <= line:
                    j = idx
            if (j, clause) in bad_execs:
                continue
            bad_execs.add((j, clause))
            issues.append(vlib.TraceIssue(offset + j, "invariant:" + clause, "clause %s falsified on the L2 state at line %d" % (clause, line - starts[j] + 1), line - starts[j] + 1))
        if r.ok and pv and pv[0] >= pv[1]:
            accepted += len(todo) - len({j for j, _ in bad_execs})
            todo = []
            break
        if r.violation and r.violation not in ("tlc_error", "timeout", "postcondition"):
            m = re.findall(r"/\\ l = (\d+)", r.out)
            line = max(1, (int(m[-1]) if m else 1) - 1)
            kind = "invariant:" + r.violation
            k = r.out.rfind("\nState ")
            detail = r.out[k:k + 30000] if k >= 0 else r.out[-6000:]
        elif pv:
            line = min(pv[0] + 1, n)
            kind = "rejected"
            detail = "explained %d of %d lines" % (pv[0], pv[1])
        else:
            raise vlib.Broken("trace validation of %s failed: %s" % (name, (r.error_trace or r.out)[-3000:]))
        j = 0
        for idx, st in enumerate(starts):
            if st <= line:
                j = idx
        issues.append(vlib.TraceIssue(offset + j, kind, detail, line - starts[j] + 1))
        accepted += j
        offset += j + 1
        todo = todo[j + 1:]
    stats["pairs"] = sorted(stats["pairs"])
    stats["unchecked"] = len(todo)
    return accepted, issues, stats


# ------------------------------------------------------------------------------------------------ replay of TLC behaviours
CONSUMING = {"alloc", "load", "store", "xchg", "cas", "faa", "fand", "for", "fxor", "fence", "yield", "call", "hash", "keq", "ctor", "ctorm", "ret"}
MODELLED_USER = {"call", "hash", "keq", "ctor", "ret", "yield", "fence"}


def _consuming(ex):
    """[(thread, modelled?, kind)] for every event of a program thread that consumes one script entry of vsched"""
    out = []
    for e in ex:
        k = e.get("k")
        t = e.get("t", 0)
        if t <= 0 or k not in CONSUMING:
            continue
        if k in MODELLED_USER:
            out.append((t, True, k))
        elif k in ("ctorm", "alloc"):
            out.append((t, False, k))
        else:
            out.append((t, _loc(e) is not None, k))
    return out


def align_script(script, ex):
    """script: [(thread, 'M' | 'U', kind)].  Returns True when the execution followed it entry by entry, None when it cannot
    be followed, otherwise a repaired script: the code performs schedule points the model has no step for (thread-local size
    counter, instance-id allocation of a new table node, the point in the middle of the element constructor); they are
    private to their thread, so they are placed right where the thread performs them.  A fence of the model that the code
    no longer executes is dropped from the script (trace validation records its order as "none")."""
    cons = _consuming(ex)
    per = {}
    for idx, c in enumerate(cons):
        per.setdefault(c[0], []).append(idx)
    for j in range(min(len(script), len(cons))):
        et, ek, kind = script[j]
        t, m, k = cons[j]
        if t != et:
            return None
        if ek == "M" and not m:
            own = per[t]
            p = own.index(j)
            burst = 0
            while p + burst < len(own) and not cons[own[p + burst]][1]:
                burst += 1
            return script[:j] + [(t, "U", "")] * burst + script[j:]
        if ek == "U" and m:
            return script[:j] + script[j + 1:]
        if ek == "M" and kind == "fence" and k != "fence":
            return script[:j] + script[j + 1:]
    if len(cons) < len(script):
        return None
    return True
