"""Trace normalisation and helpers for the ApplicationContext driver (extra component X01)."""
import glob
import os
import re
import shutil
import subprocess

DRIVER = "appctx_driver"
SCHED = {"spawn", "start", "exit", "join", "crash", "dec"}
GOOD = 7

# line layout of AppCtx_Trace (every line carries every field)
DEF = {"t": 0, "k": "", "loc": "", "i": 0, "v": 0, "a": 0, "mo": "", "c": 0, "inst": 0, "ty": 0, "nm": 0, "res": 0, "ok": True,
       "order": [], "regs": [], "prog": [], "alive": 0, "found": 0, "status": ""}
# line layout of AppCtx_Mon
MDEF = {"t": 0, "k": "", "c": 0, "inst": 0, "ty": 0, "nm": 0, "res": 0, "ok": True, "v": 0, "alive": 0, "found": 0, "status": "",
        "regs": [], "must": True}


# ----------------------------------------------------------------------------- programs
def parse_regs(s):
    regs = []
    for r in str(s).split("_"):
        if len(r) < 4:
            continue
        parts = r.split("-")
        head = parts[0]
        regs.append({"ty": int(head[0]), "nm": int(head[1]), "fac": head[2] == "f", "fail": head[3] == "1",
                     "deps": [{"ty": int(d[0]), "nm": int(d[1])} for d in parts[1:] if len(d) >= 2]})
    return regs


def parse_prog(s):
    s = str(s)
    if s.startswith("p"):
        s = s[1:]
    return [[{"ty": int(op[0]), "nm": int(op[1])} for op in th.split(".") if len(op) >= 2] for th in s.split("_")]


def fmt_regs(regs):
    return "_".join("%d%d%s%d%s" % (r["ty"], r["nm"], "f" if r["fac"] else "s", 1 if r["fail"] else 0,
                                    "".join("-%d%d" % (d["ty"], d["nm"]) for d in r["deps"])) for r in regs)


def fmt_prog(prog):
    return "p" + "_".join(".".join("%d%d" % (o["ty"], o["nm"]) for o in th) for th in prog)


def params_of(regs, prog):
    return "regs=%s,prog=%s" % (regs if isinstance(regs, str) else fmt_regs(regs), prog if isinstance(prog, str) else fmt_prog(prog))


def expected(regs, ty, nm):
    """the registration a lookup must produce (1-based), 0 = none / ambiguous"""
    c = [i + 1 for i, r in enumerate(regs) if r["ty"] == ty and (nm == 0 or r["nm"] == nm)]
    return c[0] if len(c) == 1 else 0


def entry_holders(regs, th):
    return {expected(regs, o["ty"], o["nm"]) for o in th} - {0}


def reach(regs, c, seen=None):
    """singleton holders whose mutex a creation of registration c may take (dependency closure)"""
    seen = set() if seen is None else seen
    if c == 0 or c in seen:
        return seen
    seen.add(c)
    for d in regs[c - 1]["deps"]:
        reach(regs, expected(regs, d["ty"], d["nm"]), seen)
    return seen


def on_cycle(regs, c):
    for d in regs[c - 1]["deps"]:
        if c in reach(regs, expected(regs, d["ty"], d["nm"])):
            return True
    return False


def factory_cycle(regs):
    """a factory holder on a dependency cycle recurses without bound (nothing latches): not a legal configuration"""
    return any(r["fac"] and on_cycle(regs, i + 1) for i, r in enumerate(regs))


def cross_thread_cycle(regs, prog):
    """two threads may enter one dependency cycle: each then holds one holder mutex and waits for the other
    (findings/X01_cross_thread_cycle_deadlock.md) - such programs are kept out of the deadlock clause"""
    cyc = {c for c in range(1, len(regs) + 1) if on_cycle(regs, c)}
    if not cyc:
        return False
    touching = [t for t, th in enumerate(prog) if any(reach(regs, c) & cyc for c in entry_holders(regs, th))]
    return len(touching) > 1


def header(e):
    p = e["params"]
    return parse_regs(p.get("regs", "")), parse_prog(p.get("prog", ""))


def loc_of(e):
    """'st3' -> ('st', 3); the unnamed fetch_add is the static sequence counter of next_sequence()"""
    loc = e.get("loc", "")
    m = re.match(r"(st|mx)(\d+)$", loc)
    if m:
        return m.group(1), int(m.group(2))
    if loc == "?" and e.get("k") == "faa":
        return "seq", 0
    return None, 0


def canon(events):
    """instance ids in the order of the `ctor` EVENTS (the driver numbers an instance when its constructor starts, which
    may be one schedule point before the event is logged)"""
    ids = {}
    out = []
    for e in events:
        k = e.get("k")
        if k == "ctor" and e["inst"] not in ids:
            ids[e["inst"]] = len(ids) + 1
        if k in ("ctor", "ib", "ie", "dtor", "use", "usev"):
            e = dict(e, inst=ids.get(e["inst"], 1000 + e["inst"]))
        elif k == "ret" and e.get("res", 0) != 0:
            e = dict(e, res=ids.get(e["res"], 1000 + e["res"]))
        out.append(e)
    return out


# ----------------------------------------------------------------------------- L2 lines
def normalise(events):
    """vsched trace of one execution -> lines for AppCtx_Trace.tla"""
    out = []
    events = canon(events)
    in_clear = False
    order = []
    for e in events:
        k = e.get("k")
        if k == "reset":
            regs, prog = header(e)
            out.append(dict(DEF, k="reset", regs=regs, prog=prog))
            continue
        if k in SCHED:
            continue
        if k == "end":
            out.append(dict(DEF, k="end", status=e.get("status", "?")))
            continue
        if k == "final":
            out.append(dict(DEF, k="final", alive=e["alive"], found=e["found"]))
            continue
        t = e.get("t", 0)
        if k == "clear_call":
            in_clear, order = True, []
            continue
        if k == "clear_ret":
            in_clear = False
            out.append(dict(DEF, k="clear", order=order))
            continue
        if in_clear:
            if k == "dtor":
                order.append(e["inst"])
            continue
        if t <= 0:
            continue
        n = dict(DEF, t=t, k=k)
        if k in ("load", "store", "faa", "xchg", "cas", "for", "fand"):
            name, idx = loc_of(e)
            if name is None:
                continue
            n.update(loc=name, i=idx, mo=e.get("mo", ""), v=e.get("v", 0), a=e.get("a", 0))
        elif k in ("lock", "unlock"):
            name, idx = loc_of(e)
            if name != "mx":
                continue
            n.update(loc=name, i=idx)
        elif k in ("call", "ret"):
            n.update(ty=e["ty"], nm=e["nm"], c=max(0, e["c"]), res=e.get("res", 0))
        elif k == "ctor":
            n.update(c=e["c"], inst=e["inst"], v=e["st"])
        elif k in ("ib", "dtor"):
            n.update(c=e["c"], inst=e["inst"])
        elif k == "ie":
            n.update(c=e["c"], inst=e["inst"], ok=bool(e["ok"]))
        elif k == "use":
            n.update(inst=e["inst"])
        elif k == "usev":
            # the value the caller saw belongs to its preceding `use` step
            for p in reversed(out):
                if p["t"] == t and p["k"] == "use":
                    p["v"] = e["v"]
                    break
            continue
        else:
            continue
        out.append(n)
    return out


# ----------------------------------------------------------------------------- L1 lines
def monitor_lines(events):
    """vsched trace of one execution -> lines for AppCtx_Mon.tla (public calls and user callbacks only)"""
    out = []
    for e in canon(events):
        k = e.get("k")
        if k == "reset":
            regs, prog = header(e)
            out.append(dict(MDEF, k="reset", regs=regs, must=not cross_thread_cycle(regs, prog)))
        elif k in ("call", "ret"):
            out.append(dict(MDEF, k=k, t=e["t"], ty=e["ty"], nm=e["nm"], res=e.get("res", 0)))
        elif k in ("ctor", "ib", "dtor"):
            out.append(dict(MDEF, k=k, t=max(0, e["t"]), c=e["c"], inst=e["inst"]))
        elif k == "ie":
            out.append(dict(MDEF, k=k, t=e["t"], c=e["c"], inst=e["inst"], ok=bool(e["ok"])))
        elif k == "usev":
            out.append(dict(MDEF, k="use", t=e["t"], inst=e["inst"], v=e["v"]))
        elif k in ("clear_call", "clear_ret"):
            out.append(dict(MDEF, k=k))
        elif k == "final":
            out.append(dict(MDEF, k=k, alive=e["alive"], found=e["found"]))
        elif k == "end":
            out.append(dict(MDEF, k=k, status=e.get("status", "?")))
    return out


# ----------------------------------------------------------------------------- HB lines
def hb_lines(events):
    """lines for the generic HBMon.tla: the state words and the sequence counter with the orders the code passed,
    the holder mutexes, thread create / join, and the plain accesses the protocol has to order:
      pay[inst]  written by constructor / initialize() / destructor, read by every caller that uses the instance
      sing[c]    the holder's _singleton: written by the creator before it publishes, read by every get()"""
    D = {"t": 0, "k": "", "loc": "", "i": 0, "mo": "", "mof": "", "ok": True}
    out = []
    stack = {}   # thread -> list of [c, creator?]

    def acc(t, cell, i, w):
        out.append(dict(D, t=t, k="acc", loc=cell, i=i, ok=bool(w)))

    for e in canon(events):
        k = e.get("k")
        t = max(0, e.get("t", 0))
        if k == "reset":
            out.append(dict(D, k="reset"))
            stack = {}
            regs, _ = header(e)
        elif k in ("load", "store", "faa"):
            name, idx = loc_of(e)
            if name is None:
                continue
            if k == "faa":
                fr = stack.get(t, [])
                if fr:
                    fr[-1][1] = True
                    acc(t, "sing", fr[-1][0], True)      # _singleton = create(context), just before next_sequence()
            out.append(dict(D, t=t, k=k, loc=name, i=idx, mo=e["mo"]))
        elif k in ("lock", "unlock"):
            name, idx = loc_of(e)
            if name == "mx":
                out.append(dict(D, t=t, k=k, loc="mutex", i=idx))
        elif k in ("spawn", "join"):
            out.append(dict(D, t=t, k=k, i=e["child"]))
        elif k == "call":
            stack.setdefault(t, []).append([max(0, e["c"]), False])
        elif k == "ret":
            fr = stack.get(t, [])
            if fr:
                c, _ = fr.pop()
                if c == 0 or not regs[c - 1]["fac"]:
                    acc(t, "sing", c, False)             # return _singleton
        elif k in ("ctor", "dtor"):
            acc(t, "pay", e["inst"], True)
        elif k == "ie" and e["ok"]:
            acc(t, "pay", e["inst"], True)
        elif k == "usev":
            acc(t, "pay", e["inst"], False)
    return out


# ----------------------------------------------------------------------------- TLC values / behaviours
def parse_tla(txt):
    """parser for the TLA+ values TLC prints: records, tuples, sets, functions a :> b @@ .., ints, booleans, strings"""
    pos = [0]

    def ws():
        while pos[0] < len(txt) and txt[pos[0]] in " \n\t\r":
            pos[0] += 1

    def val():
        ws()
        if txt.startswith("<<", pos[0]):
            pos[0] += 2
            items = []
            ws()
            while not txt.startswith(">>", pos[0]):
                items.append(val())
                ws()
                if txt[pos[0]] == ",":
                    pos[0] += 1
                ws()
            pos[0] += 2
            return items
        if txt[pos[0]] == "[":
            pos[0] += 1
            rec = {}
            ws()
            while txt[pos[0]] != "]":
                m = re.compile(r"\s*(\w+)\s*\|->").match(txt, pos[0])
                pos[0] = m.end()
                rec[m.group(1)] = val()
                ws()
                if txt[pos[0]] == ",":
                    pos[0] += 1
                ws()
            pos[0] += 1
            return rec
        if txt[pos[0]] == "{":
            pos[0] += 1
            items = []
            ws()
            while txt[pos[0]] != "}":
                items.append(val())
                ws()
                if txt[pos[0]] == ",":
                    pos[0] += 1
                ws()
            pos[0] += 1
            return items
        if txt[pos[0]] == '"':
            j = txt.index('"', pos[0] + 1)
            s = txt[pos[0] + 1:j]
            pos[0] = j + 1
            return s
        m = re.compile(r"-?\d+|TRUE|FALSE").match(txt, pos[0])
        if not m:
            raise ValueError("cannot parse TLA+ value at %r" % txt[pos[0]:pos[0] + 40])
        pos[0] = m.end()
        g = m.group(0)
        return True if g == "TRUE" else False if g == "FALSE" else int(g)

    return val()


def tlc_behaviours(mc_tla, cfg, num, depth, seed, workdir):
    """TLC -simulate on the replayable restriction of the L2 model: [(regs, prog, [thread per logged step])]"""
    import vlib
    shutil.rmtree(workdir, ignore_errors=True)
    os.makedirs(workdir)
    libs = [os.path.dirname(mc_tla), os.path.join(vlib.SPEC, "lib"), os.path.join(vlib.SPEC, "mo")]
    cmd = ["java", "-XX:+UseParallelGC", "-Xmx3g", "-DTLA-Library=" + ":".join(libs), "-cp", vlib.JAR, "tlc2.TLC", "-metadir", os.path.join(workdir, "meta"),
           "-config", cfg, "-simulate", "file=%s,num=%d" % (os.path.join(workdir, "tr"), num), "-depth", str(depth), "-workers", "1", "-seed", str(seed), mc_tla]
    r = subprocess.run(cmd, capture_output=True, text=True, timeout=600, cwd=os.path.dirname(mc_tla))
    if "Error:" in r.stdout:
        raise vlib.Broken("TLC simulation failed: " + r.stdout[-2000:])
    out = []
    for f in sorted(glob.glob(os.path.join(workdir, "tr_*"))):
        txt = open(f).read()
        m = re.search(r"/\\ cfg = (\[.*?\])\s*\n(?:/\\ |\n)", txt, re.S)
        if not m:
            continue
        c = parse_tla(m.group(1))
        steps = []
        for sm in re.finditer(r"/\\ ev = (\[.*?\])\s*(?=\n\n|\n/\\|\Z)", txt, re.S):
            body = sm.group(1)
            k = re.search(r'\bk \|-> "(\w*)"', body).group(1)
            t = int(re.search(r"\bt \|-> (\d+)", body).group(1))
            if k in ("", "lock", "unlock", "clear"):
                continue          # mutex operations are schedule points that consume no script entry; clear runs on the main thread
            steps.append(t)
        out.append((c["regs"], c["prog"], steps))
    shutil.rmtree(workdir, ignore_errors=True)
    return out
