"""C11: serialization - round trip, exact size, protobuf wire compatibility, hostile-input safety.  Pipeline (DESIGN.md C11):
  1. TLC model-checks spec/MC_Wire.tla: for every case of the bounded family (values of the schema family, their encodings
     with unknown members / omitted members / permuted members, the protobuf encoding of the compatible members, single point
     mutations of valid encodings, ALL byte strings up to length L over a 10 symbol alphabet) it runs the parser machine of
     spec/Wire.tla step by step and evaluates the clauses RoundTrip, SizeExact, UnknownSkipped, DefaultsKept, OrderIrrelevant,
     InteropFromProto / InteropToProto, SuccessIdempotent, Terminates, NoCrash; it emits every case (spec -> code).
  2. wire_driver replays every case through the real code: serialize_to_string / coded stream / array with cached sizes,
     calculate_serialized_size, fresh and re-used objects; parse_from_string / array / coded streams with every chunking with
     and without an enclosing limit (and with bytes behind the limit); protoc-generated message of the same members; in an
     -O1 build with asserts, a -DNDEBUG build and an ASan+UBSan build.  Out-of-bounds reads / undefined behaviour are OBSERVED
     by the sanitizer while replaying the spec-generated inputs - they are not decided by the specification.
  3. TLC validates every logged result against Enc / Size / the parser machine and the clauses (spec/Wire_Trace.tla, code -> spec).
Verdicts: a clause failing on a logged result = violation (re-executed first); a TLC violation of a clause on the machine that
the code conforms to = violation as well (same witness classes).  Floats are opaque bit patterns."""
import collections
import json
import os
import sys

sys.path.insert(0, os.path.dirname(os.path.abspath(__file__)))
import wire_common as wc
import vlib
from vlib import log

L1 = {"RoundTrip", "SizeExact", "UnknownSkipped", "DefaultsKept", "OrderIrrelevant", "InteropFromProto", "InteropToProto", "SuccessIdempotent",
      "Terminates", "NoCrash"}
CONFORMANCE = {"ParserMachine", "EncMatchesSpec", "ProtoModel"}


def classes_of(line):
    return "".join(sorted({m[0] for m in line["modes"]})) or "-"


def describe(line, clause, flag, model_agrees):
    """text of a violation; the facts in it come from TLC (clause, flag) and from the recorded line"""
    k = line["k"]
    hexin = "".join("%02x" % b for b in line["bytes"][:48])
    if k == "ser":
        return ("%s violated by the real code [serialize]: schema=%s dirty=%d (%s) value=%s predicted_size=%d produced=%d bytes=%s builds=%s"
                % (clause, line["sch"], line["dirty"], "object re-used after it held and serialized another value" if line["dirty"] else "fresh object",
                   wc.jtxt(line["val"])[:160], line["size"], len(line["bytes"]), hexin, ",".join(line["_builds"])))
    if k == "end":
        return ("%s violated by the real code [%s]: schema=%s kind=%s classes=%s model-predicts=%d input=%s (child %s while working on this case; builds=%s)"
                % (clause, "parse did not return" if line["status"] == "hang" else "process died", line["sch"], line["kind"], classes_of(line), flag, hexin,
                   line["status"], ",".join(line["_builds"])))
    if k in ("pbser", "pbparse"):
        return "%s violated [%s]: schema=%s value=%s bytes=%s" % (clause, k, line["sch"], wc.jtxt(line["val"])[:160], hexin)
    return ("%s violated by the real code [parse]: schema=%s kind=%s classes=%s asserts=%s model-agrees=%s accepted=%d input=%s result=%s presentations=%d (%s) builds=%s"
            % (clause, line["sch"], line["kind"], classes_of(line), "".join(sorted({str(m[1]) for m in line["modes"]})), "yes" if model_agrees else "no", line["ok"],
               hexin, wc.jtxt(line["out"])[:160], line["np"], line["_pres"], ",".join(line["_builds"])))


def group_key(line, clause, flag, agrees):
    return (clause, line["k"], line["kind"], line["sch"], classes_of(line), line["dirty"], flag, agrees)


def judge(cases, logs, name):
    lines = wc.normalise(cases, logs)
    issues, st = wc.validate(lines, name)
    per_line = collections.defaultdict(list)
    for i, clause, flag in issues:
        per_line[i].append((clause, flag))
    return lines, per_line, st


def run(pid, tier, seed, replay=None):
    V = vlib.Verdict(pid, tier, seed)
    quick = tier == "quick"
    vlib.build([b[0] for b in wc.BUILDS])
    os.makedirs(wc.WORK, exist_ok=True)

    # ---- 1. TLC: the specification over the bounded family; emits the cases
    model = []
    if replay:
        rp = json.load(open(replay))
        cases = rp["cases"]
    else:
        cfgs = [("family", "Wire_quick.cfg")] if quick else [("family", "Wire_thorough.cfg")]
        cases = []
        for name, cfg in cfgs:
            r, rows = wc.model_check(cfg, timeout=2400 if quick else 7000)
            V.add_tlc(name, r)
            if not r.ok:       # InBounds / Progress / TLC error: the machine itself is broken or unsafe
                if r.violation in ("InBounds", "action_property", "temporal"):
                    rp_ = vlib.save_replay(pid, "tlc_%s_%s.txt" % (name, r.violation), r.error_trace)
                    V.violation("model: %s violated by the parser machine (reads outside its limit / no progress) in %s" % (r.violation, cfg), rp_)
                else:
                    raise vlib.Broken("TLC failed on %s: %s" % (cfg, r.error_trace[:2000]))
            cs, md = wc.build_cases(rows)
            off = len(cases)
            for c in cs:
                c["id"] += off
            cases += cs
            model += [(i + off, cls, dbg, cl, name) for i, cls, dbg, cl in md]
        # seeded: longer byte strings (length 6..8 over the same alphabet) chosen by VERIF_SEED, same machinery
        import random
        rng = random.Random(seed * 9176 + 11)
        lo, hi = sum(10 ** k for k in range(6)), sum(10 ** k for k in range(9))
        extra = sorted({rng.randrange(lo, hi) for _ in range(150 if quick else 1500)})
        gen = os.path.join(wc.WORK, "Wire_seed_%d_%s.cfg" % (seed, tier))
        open(gen, "w").write("SPECIFICATION Spec\nCONSTANTS\n  ValSchemas = {}\n  StructSchemas = {}\n  MutSchemas = {}\n  HosSchemas = {\"H1\", \"H2\", \"H3\"}\n"
                             "  HosSchemasS = {}\n  Alphabet <- Alpha10\n  L = 0\n  LS = 0\n  ExtraHos = {%s}\n  AllModes = FALSE\nINVARIANT InBounds\n"
                             "PROPERTY Progress\nCHECK_DEADLOCK FALSE\n" % ", ".join(map(str, extra)))
        r, rows = wc.model_check(gen, timeout=1200)
        V.add_tlc("seeded_long", r)
        if not r.ok:
            raise vlib.Broken("TLC failed on the seeded configuration: %s" % r.error_trace[:2000])
        cs, md = wc.build_cases(rows)
        off = len(cases)
        for c in cs:
            c["id"] += off
        cases += cs
        model += [(i + off, cls, dbg, cl, "seeded_long") for i, cls, dbg, cl in md]
        # every clause as a TLC invariant + soundness of the mode flags, on the part of the family without open findings
        r = vlib.tlc(wc.MC_TLA, os.path.join(wc.SPEC, "mc", "Wire_inv.cfg"), cache=True, timeout=2400, deadlock=False)
        V.add_tlc("invariants", r)
        if not r.ok:
            if r.violation in ("tlc_error", "timeout"):
                raise vlib.Broken("TLC failed on Wire_inv.cfg: %s" % r.error_trace[:2000])
            rp_ = vlib.save_replay(pid, "tlc_inv_%s.txt" % r.violation, r.error_trace)
            V.violation("model: %s violated as a TLC invariant of the specification (Wire_inv.cfg)" % r.violation, rp_)
        V.cov["exhaustive"] = True
    V.extra["cases"] = dict(collections.Counter(c["kind"] for c in cases))
    byid = {c["id"]: c for c in cases}

    # ---- 2. the real code
    cf = os.path.join(wc.WORK, "%s_cases.txt" % pid)
    wc.write_case_file(cases, cf)
    logs = wc.run_drivers(cf, pid, timeout=3000 if quick else 7000)
    V.extra["driver"] = {b: s[1] for b, s in logs.items()}
    for b, s in logs.items():
        if s[1].get("inconclusive"):
            log("NOTE: driver build %s stopped by the check's own wall-clock limit (%ss): its remaining cases are inconclusive" % (b, s[1]["timeout_s"]))
            V.assumptions.append("INCONCLUSIVE: the %s build pass hit the check's own wall-clock limit; only the results logged until then were judged" % b)
        elif s[1].get("done", s[1].get("cases", 0)) < s[1].get("cases", 0):
            V.assumptions.append("the %s build pass was stopped after %d dying cases (restart cost bounded); the cases behind case %d were not replayed in that build"
                                 % (b, s[1].get("crashes", 0), s[1].get("done", 0)))

    # ---- 3. code -> spec
    lines, per_line, st = judge(cases, logs, pid + "_trace")
    V.cov["transitions"] += st["states"]
    V.cov["traces_validated_against_impl"] = st["lines"]
    V.extra["trace"] = dict(st, by_kind=dict(collections.Counter(l["k"] for l in lines)),
                            presentations=sum(l["np"] for l in lines if l["k"] == "parse"))
    san_lines = sum(1 for l in lines if "san" in l["_builds"])
    san_reports = [l for l in lines if l["k"] == "end" and "san" in l["_builds"] and l["status"] == "crash"]
    V.extra["sanitizer"] = {"lines_replayed_under_asan_ubsan": san_lines, "sanitizer_or_crash_reports": len(san_reports),
                            "note": "out-of-bounds reads / undefined behaviour are OBSERVED by ASan+UBSan (-fno-sanitize=null) while replaying the spec-generated "
                                    "inputs; they are not decided by the specification"}

    groups = collections.OrderedDict()
    nonconf_cases = set()
    for i in sorted(per_line):
        line = lines[i]
        clauses = {c for c, _ in per_line[i]}
        agrees = not (clauses & CONFORMANCE)
        if not agrees:
            nonconf_cases.add(line["id"])
        for clause, flag in per_line[i]:
            g = groups.setdefault(group_key(line, clause, flag, agrees), {"n": 0, "first": i})
            g["n"] += 1
    V.drift = 0

    def rerun(idxs):
        """re-execute the witness cases; returns the set of (case id, clause) that fail again"""
        sub = [byid[lines[i]["id"]] for i in idxs]
        uniq = list({c["id"]: c for c in sub}.values())
        f2 = os.path.join(wc.WORK, "%s_re_cases.txt" % pid)
        wc.write_case_file(uniq, f2)
        logs2 = wc.run_drivers(f2, pid + "_re", timeout=1800)
        l2, p2, _ = judge(uniq, logs2, pid + "_retrace")
        return {(l2[i]["id"], c) for i in p2 for c, _ in p2[i]}

    if groups:
        known = vlib.load_known(pid)
        texts = {key: describe(lines[g["first"]], key[0], key[6], key[7]) for key, g in groups.items()}
        # witnesses of open known findings are not re-executed (they are reproduced by every run); everything else is
        firsts = [g["first"] for key, g in groups.items() if vlib.match_known(known, texts[key]) is None]
        again = rerun(firsts) if firsts and not replay else None
        for key, g in groups.items():
            clause, k, kind, sch, cls, dirty, flag, agrees = key
            line = lines[g["first"]]
            if again is not None and g["first"] in firsts and (line["id"], clause) not in again:
                raise vlib.Broken("violation %s did not reproduce on re-execution of case %s" % (clause, json.dumps(byid[line["id"]])[:400]))
            if clause in CONFORMANCE and os.environ.get("VERIF_C11_CONFORMANCE_AS_DRIFT"):
                # optional stricter reading of "demand no more than the statement": a result that differs from Enc / the parser
                # machine without breaking an L1 clause is reported as SPEC-DRIFT instead of a violation
                V.drift += g["n"]
                log("SPEC-DRIFT component=serialization " + describe(line, clause, flag, agrees)[:400])
                continue
            what = describe(line, clause, flag, agrees) + " [%d such results]" % g["n"]
            extra = ""
            if k == "end" and "san" in line["_builds"]:
                extra = wc.stderr_tail(logs["san"][2])
            rp_ = vlib.save_replay(pid, "%s_%s_%s_%s_%s.json" % (clause, k, kind, sch, cls), {"cases": [byid[line["id"]]], "clause": clause, "line": {x: y for x, y in line.items()}, "stderr": extra})
            V.violation(what, rp_)
    # ---- model level: TLC found the clause violated on the machine / encoder the code conforms to (V2)
    mg = collections.OrderedDict()
    for cid, cls, dbg, clause, cfgname in model:
        if cid in nonconf_cases:
            continue
        c = byid.get(cid)
        if c is None:
            continue
        g = mg.setdefault((clause, c["sch"], c["kind"], cls), {"n": 0, "first": c})
        g["n"] += 1
    for (clause, sch, kind, cls), g in mg.items():
        c = g["first"]
        rp_ = vlib.save_replay(pid, "model_%s_%s_%s_%s.json" % (clause, sch, kind, cls), {"cases": [c], "clause": clause})
        V.violation("model: %s violated in the specification of the code as written (TLC, MC_Wire): schema=%s kind=%s class=%s input=%s [%d cases]"
                    % (clause, sch, kind, cls, "".join("%02x" % b for b in c["bytes"][:48]), g["n"]), rp_)
    V.extra["clauses_with_issues"] = dict(collections.Counter(k[0] for k in groups))
    V.extra["conformance"] = {"parse_results_matching_machine": sum(1 for i, l in enumerate(lines) if l["k"] == "parse" and "ParserMachine" not in {c for c, _ in per_line.get(i, [])}),
                              "parse_results": sum(1 for l in lines if l["k"] == "parse"),
                              "serializations_matching_Enc_fresh": sum(1 for i, l in enumerate(lines) if l["k"] == "ser" and not l["dirty"] and "EncMatchesSpec" not in {c for c, _ in per_line.get(i, [])}),
                              "serializations_fresh": sum(1 for l in lines if l["k"] == "ser" and not l["dirty"])}
    for l in lines:
        if l["k"] == "parse" and l["kind"] in ("val", "mut"):
            V.sample({"schema": l["sch"], "kind": l["kind"], "input": "".join("%02x" % b for b in l["bytes"][:40]), "accepted": l["ok"], "modes": l["modes"],
                      "result": wc.jtxt(l["out"])[:120], "presentations": l["np"]})
    V.assumptions += [
        "bounded-exhaustive: schema family and value sets of spec/MC_Wire.tla, byte strings up to length L over {00,01,02,08,0a,12,0d,7f,80,ff}, single point mutations; "
        "longer inputs and other schemas are not covered",
        "floats / doubles are opaque bit patterns",
        "the parser machine models CodedInputStream of protobuf 3.21 as used by the pinned code (PushLimit, BytesUntilLimit, varint reads); inputs whose outcome depends on "
        "the chunking of an over-long (> 10 byte) varint are marked ambiguous by the machine and judged on the L1 clauses only",
        "memory safety on hostile input is observed by ASan+UBSan (and by exact-size heap blocks per chunk / bytes behind the enclosing limit), not proved",
        "accept / reject / value on malformed input are judged against the parser machine (DESIGN C11 oracle list); a deliberate change of that behaviour needs an update of Wire.tla",
    ]
    return V.finish()
