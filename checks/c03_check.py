"""C03: ConcurrentFixedSwissTable / ConcurrentTransientHashSet / Map under concurrent emplace / insert / find / contains /
operator[].  Pipeline (DESIGN.md 2.4):
   1. TLC model-checks the L2 spec Swiss.tla (SC families + weak-memory family) with the order table of the running code
   2. the real containers are run under vsched (random / PCT / preemption-bounded schedules; configurations chosen so
      that groups collide, tags are equal, the table fills up exactly, windows wrap into the mirrored tail, tables are
      appended concurrently) and TLC-generated behaviours of the L2 model are replayed step by step into the real code
   3. every recorded execution is validated against  Swiss_Trace (L2 conformance, collects site->order),
      Swiss_Mon (L1 clauses of the property statement) and HBMon (generic happens-before: fully constructed element)
   4. the order table read from the running code is compared with the committed one; if it differs the model is
      re-checked with the code's orders (conformant L2 + TLC counterexample = V2)
"""
import json
import os
import random
import re
import sys
import time

sys.path.insert(0, os.path.dirname(os.path.abspath(__file__)))
import swiss_common as sw
import vlib
from vlib import log

SPEC = vlib.SPEC
DRIVER = "swiss_driver"

# configurations exercised on every run: (kind, head, keys, pre, prog)
FIXED = [
    ("fixed", 16, "3.9-5.9", "7x13.9x2.e", "e1_e2_f1"),            # last bucket fought for; equal tags
    ("fixed", 16, "3.9-5.9", "7x13.9x2.e", "e1.f2_i2.c1"),
    ("fixed", 16, "3.9", "7x13.9x2.e", "e1_i1_f1"),               # same key twice
    ("fixed", 16, "3.9-3.9", "7x14", "e1_e2_e1"),                 # two free buckets, equal hashes
    ("fixed", 16, "10.9", "ex10.7x6", "e1_e1_f1"),                # wrapped window: seen through the mirror byte
    ("fixed", 16, "10.9-12.9", "ex10.9x6", "e1.f2_e2.f1"),
    ("fixed", 16, "15.9-0.9", "ex15.9", "e1.f2_e2.f1_c1.c2"),
    ("fixed", 0, "3.9", "none", "e1_f1"),                         # default-constructed: always full, always empty
    ("fixed", 32, "0.9-16.9", "7x14.9x2.7x15.e", "e1_e2_f1"),     # second group via the triangular step, exact fill
    ("fixed", 32, "0.9", "7x16.ex14.9x2", "e1_e1_f1"),
    ("fixed", 32, "20.9", "ex20.7x12", "e1_i1.f1"),               # window 20..35 wraps into the mirror of 0..3
    ("fixed", 32, "0.9", "7x15.e.9", "e1_f116_e116"),
    ("set", 16, "3.9", "7x16", "e1_e1_f1"),                       # head full: concurrent append of a doubled table
    ("set", 16, "3.9-35.9", "7x16", "e1_i2_e1"),
    ("set", 16, "3.9-3.9", "7x15.e", "e1.f2_e2.f1"),
    ("set", 0, "3.9", "none", "e1_e1_f1"),                        # default-constructed placeholder head
    ("set", 0, "3.9-3.9-19.5", "none", "e1.f2_i2.f1_e3.e1"),      # first insertions race: different keys, same key
    ("map", 0, "3.9-19.9", "none", "x1.f2_t2.c1_x2.e1"),
    ("map", 0, "3.9-3.9", "none", "x1_t2.f1"),
    ("map", 16, "3.9-19.9", "7x15.e", "x1.x2_t2.c1_x1"),
    ("set", 32, "0.9", "7x32", "e1_e1_c1"),
    ("set", 16, "3.9", "7x16/7x32", "e1_e1_f1"),                  # chain of three tables
    ("set", 0, "3.9-40.9", "/7x31.e", "e1_e2_f2"),
    ("set", 16, "3.9-3.9-19.5-35.9", "7x14", "e1.e3_e2.f1_e4.f3.i1"),
    ("set", 16, "1.1-1.1-1.1", "1x14", "e1.e2.e3_e3.e2.e1_f1.f2.f3"),   # everything collides
]
PB = [
    ("fixed", 16, "3.9", "7x14.9.e", "e1_e1"),
    ("fixed", 16, "3.9", "7x14.9.e", "e1_f1"),
    ("fixed", 16, "10.9", "ex10.7x6", "e1_i1"),
    ("set", 0, "3.9-3.9", "none", "e1.f2_e2.f1"),               # default-constructed: the first insertions of two threads overlap
    ("map", 0, "3.9-19.9", "none", "x1.c2_t2.e1"),
    ("set", 16, "3.9", "7x16", "e1_e1"),
    ("set", 16, "3.9", "7x16", "e1_f1"),
]


def gen_config(rng):
    """random configuration: near-full tables, colliding groups, equal tags"""
    kind = rng.choice(["fixed", "fixed", "set", "set", "map"])
    head = rng.choice([16, 16, 32, 0]) if kind != "fixed" else rng.choice([16, 16, 32])
    B = 16 if head == 0 else head
    tags = [rng.choice([9, 9, 5])]
    nkeys = rng.choice([1, 2, 2, 3])
    bases = [rng.randrange(0, 2 * B) for _ in range(2)]
    keys = []
    for _ in range(nkeys):
        keys.append({"h": rng.choice(bases), "tag": rng.choice(tags + [9])})
    pre = []
    if head != 0:
        style = rng.choice(["nearfull", "nearfull", "full", "tailfull", "sparse"])
        ftag = lambda: rng.choice([7, 7, 7, 9])
        if style == "nearfull":
            row = [ftag() for _ in range(B)]
            for _ in range(rng.choice([1, 1, 2, 3])):
                row[rng.randrange(B)] = -1
        elif style == "full":
            row = [ftag() for _ in range(B)]
        elif style == "tailfull":
            k = rng.randrange(1, B)
            row = [-1] * k + [ftag() for _ in range(B - k)]
        else:
            row = [ftag() if rng.random() < 0.5 else -1 for _ in range(B)]
        if kind == "fixed" and style == "full":
            row[rng.randrange(B)] = -1
        pre.append(row)
        if kind != "fixed" and all(x >= 0 for x in row) and rng.random() < 0.3:
            row2 = [ftag() for _ in range(2 * B)]
            row2[rng.randrange(2 * B)] = -1
            pre.append(row2)
    elif kind != "fixed" and rng.random() < 0.3:
        row2 = [rng.choice([7, 9]) for _ in range(32)]
        for _ in range(rng.choice([1, 2])):
            row2[rng.randrange(32)] = -1
        pre = [[], row2]
    nthr = rng.choice([2, 3, 3])
    prog = []
    for _ in range(nthr):
        ops = []
        for _ in range(rng.choice([1, 2, 2, 3])):
            k = rng.randrange(1, nkeys + 1)
            if kind == "map":
                op = rng.choice(["e", "x", "t", "f", "c", "i"])   # i: insert(const value_type&)
            else:
                op = rng.choice(["e", "e", "i", "f", "f", "c"])
            ops.append({"op": op, "k": k})
        prog.append(ops)
    # now and then look up a pre-filled key
    fl = [(o, j) for o, row in enumerate(pre) for j, t in enumerate(row) if t >= 0]
    if fl and rng.random() < 0.3:
        o, j = rng.choice(fl)
        prog[rng.randrange(nthr)].append({"op": rng.choice(["f", "c", "e"]), "k": 100 + 1000 * o + j})
    return sw.params_of(kind, head, keys, pre, prog)


def params_str(c):
    kind, head, keys, pre, prog = c
    return "kind=%s,head=%d,keys=%s,pre=%s,prog=%s" % (kind, head, keys, pre, prog)


def record(params_list, seeds, strategy, out, jobs=None, extra=None):
    """run every configuration for the seed range; returns list of executions (lists of events)"""
    execs = []
    status = {}
    os.makedirs(os.path.dirname(out), exist_ok=True)
    for idx, params in enumerate(params_list):
        raw = "%s.%d.ndjson" % (out, idx)
        args = ["--scenario", "swiss", "--params", params, "--strategy", strategy, "--seeds", "%d:%d" % seeds, "--out", raw, "--max-steps", "30000"]
        if strategy != "pb":
            args += ["-j", str(jobs or 8)]
        if extra:
            args += extra
        s = vlib.driver_status(vlib.driver(DRIVER, args))
        for k, v in s["status"].items():
            status[k] = status.get(k, 0) + v
        execs += list(vlib.split_traces(raw))
        os.unlink(raw)
    return execs, status


def regen_mo(pairs, committed_path, out_dir):
    """site->order table from the pairs seen in the running code; sites not exercised keep the committed order"""
    text = open(committed_path).read()
    committed = dict(re.findall(r"(\w+) \|-> \"(\w+)\"", text))
    rank = {"none": 0, "rlx": 1, "con": 2, "acq": 2, "rel": 2, "ar": 3, "sc": 4}
    seen = {}
    for site, mo in pairs:
        if site in seen and seen[site] != mo:
            a, b = seen[site], mo
            if rank[a] == rank[b]:
                seen[site] = "rlx"
            else:
                seen[site] = a if rank[a] < rank[b] else b
        else:
            seen[site] = mo
    table = dict(committed)
    table.update({k: v for k, v in seen.items() if k in committed})
    unknown = sorted(k for k in seen if k not in committed)
    changed = {k: (committed[k], table[k]) for k in committed if table[k] != committed[k]}
    unobserved = sorted(k for k in committed if k not in seen)
    path = None
    if changed:
        os.makedirs(out_dir, exist_ok=True)
        path = os.path.join(out_dir, "MO_Swiss.tla")
        body = ",\n  ".join('%s |-> "%s"' % (k, table[k]) for k in committed)
        open(path, "w").write("----------------------------- MODULE MO_Swiss -----------------------------\n(* generated from the running code *)\nMO == [\n  %s\n]\n=============================================================================\n" % body)
    return table, changed, unobserved, unknown, path


def exec_key(ex):
    h = ex[0]
    return {"scenario": h["scn"], "params": h["params"], "seed": h["seed"], "strategy": h["strategy"], "script": h.get("script", [])}


def rerun(key, strategy=None, max_steps=30000):
    """re-execute one recorded execution deterministically (or under another strategy)"""
    p = key["params"]
    params = ",".join("%s=%s" % (k, v) for k, v in p.items())
    raw = os.path.join(vlib.BUILD, "traces", "rerun.%d.ndjson" % os.getpid())
    st = strategy or key["strategy"]
    args = ["--scenario", key["scenario"], "--params", params, "--seeds", "%d:%d" % (key["seed"], key["seed"] + 1), "--out", raw, "--max-steps", str(max_steps)]
    if strategy:
        args += ["--strategy", strategy]
    elif key.get("script") and st in ("pb", "script"):
        args += ["--strategy", st, "--script", ",".join(map(str, key["script"]))]
        if st == "pb":
            args += ["--max-execs", "1"]
    elif st in ("pct", "random"):
        args += ["--strategy", "mix"]
    else:
        args += ["--strategy", st]
    vlib.driver(DRIVER, args)
    ex = list(vlib.split_traces(raw))
    os.unlink(raw)
    return ex[0] if ex else None


CLAUSES = {"OneWinner", "LoserHasWinner", "SameSlot", "FullyConstructed", "NoMissAfterReturn", "FullFailsWithoutConsuming", "FullOnlyWhenFull",
           "GrowthKeepsKeys", "NoDupKey", "FoundNeverInserted", "NoDataRace", "NoCrash", "Protocol", "Holds", "Termination", "temporal"}


def run(pid, tier, seed, replay=None):
    V = vlib.Verdict(pid, tier, seed)
    rng = random.Random(seed * 7919 + 3)
    vlib.build([DRIVER])
    mo_committed = os.path.join(SPEC, "mo", "MO_Swiss.tla")
    quick = tier == "quick"
    T0 = time.time()
    phases = V.extra.setdefault("phase_wall_s", {})

    def lap(name):
        phases[name] = round(time.time() - T0 - sum(phases.values()), 1)

    lap("build")

    if replay:
        V.write_evidence = False
        key = json.load(open(replay))
        if "exec" not in key:
            raise vlib.Broken("replay file %s is a TLC counterexample (design-level), not an execution" % replay)
        execs, status = [rerun(key["exec"])], {}
    else:
        tdir = os.path.join(vlib.BUILD, "traces")
        nseeds = 4 if quick else 60
        execs, status = record([params_str(c) for c in FIXED], (seed * 1000 + 1, seed * 1000 + 1 + nseeds), "mix", os.path.join(tdir, pid + "_fixed"))
        rcfgs = [gen_config(rng) for _ in range(20 if quick else 300)]
        e2, s2 = record(rcfgs, (seed * 1000 + 1, seed * 1000 + (3 if quick else 5)), "mix", os.path.join(tdir, pid + "_rand"), jobs=4)
        execs += e2
        lap("record")
        e3, s3 = record([params_str(c) for c in (PB[:5] if quick else PB)], (1, 2), "pb", os.path.join(tdir, pid + "_pb"),
                        extra=["--pb-bound", "2" if quick else "3", "--max-execs", "40" if quick else "150"])
        execs += e3
        lap("record_pb")
        # spec -> code: TLC-generated behaviours of the L2 model replayed step by step into the real containers
        probe = rerun(exec_key(execs[0]))
        hook = sw.has_hook(probe)
        V.extra["hook_H1_group_point_present"] = hook
        nbeh = 24 if quick else 300
        beh = sw.tlc_behaviours(os.path.join(SPEC, "MC_Swiss.tla"), os.path.join(SPEC, "mc", "Swiss_simh.cfg" if hook else "Swiss_sim.cfg"), nbeh, 200, seed, os.path.join(vlib.BUILD, "sim_" + pid), hook=hook)
        scripts = [[(t, "M", k) for t, k in b[1]] for b in beh]
        got = [None] * len(beh)
        failed = set()
        s4 = {}
        for it in range(48):
            todo = [i for i in range(len(beh)) if got[i] is None and i not in failed]
            if not todo:
                break
            sf = os.path.join(tdir, pid + "_scripts.txt")
            open(sf, "w").write("\n".join("%s|%s" % (beh[i][0], ",".join(str(x[0]) for x in scripts[i])) for i in todo) + "\n")
            raw = os.path.join(tdir, pid + "_replay.ndjson")
            vlib.driver_status(vlib.driver(DRIVER, ["--scenario", "swiss", "--scripts-file", sf, "--out", raw, "--max-steps", "30000"]))
            e4 = list(vlib.split_traces(raw))
            os.unlink(raw)
            if len(e4) != len(todo):
                raise vlib.Broken("replay produced %d executions for %d scripts" % (len(e4), len(todo)))
            for i, ex in zip(todo, e4):
                r = sw.align_script(scripts[i], ex)
                if r is True:
                    got[i] = ex
                elif r is None:
                    failed.add(i)
                else:
                    scripts[i] = r
        followed = 0
        e4 = []
        replay_drift = []
        for i, (p, _, st) in enumerate(beh):
            ex = got[i]
            # the order of all logged steps except fences (a fence the code no longer executes is judged by trace validation)
            want = [t for t, k in st if k != "fence"]
            if ex is not None and [x["t"] for x in sw.normalise(ex) if x["k"] not in ("reset", "end", "final", "fence")][:len(want)] == want:
                followed += 1
                e4.append(ex)
                s4[ex[-1].get("status", "?")] = s4.get(ex[-1].get("status", "?"), 0) + 1
            else:
                V.drift += 1
                replay_drift.append(p)
                log("SPEC-DRIFT component=swiss_table replay of TLC behaviour not followed: %s" % p)
        lap("tlc_behaviours_replay")
        V.extra["tlc_behaviours_replayed"] = {"generated": len(beh), "followed_exactly": followed, "steps": sum(len(b[1]) for b in beh)}
        execs += e4
        for s in (s2, s3, s4):
            for k, v in s.items():
                status[k] = status.get(k, 0) + v
    # the sequential pre-fill must put every filler where the configuration says; if the code under test no longer does
    # (never on the unchanged tree) the configuration cannot be judged against the model: counted as drift, not used
    bad_pre = set()
    ok_execs = []
    for ex in execs:
        if any(e.get("k") == "prefill_bad" for e in ex):
            bad_pre.add(json.dumps(ex[0]["params"], sort_keys=True))
        else:
            ok_execs.append(ex)
    for p in sorted(bad_pre):
        V.drift += 1
        log("SPEC-DRIFT component=swiss_table the sequential pre-fill of %s did not land in the configured slots" % p)
    execs = ok_execs
    if replay:
        replay_drift = []
    V.extra["executions"] = len(execs)
    V.extra["exec_status"] = status

    # ---- executions that ran out of steps: a spinning loser under an unfair (priority) schedule is not a defect;
    #      the same configuration must terminate under a fair random schedule
    kept = []
    for ex in execs:
        if ex[-1].get("status") == "budget" and not replay:
            key = exec_key(ex)
            ex2 = rerun(key, strategy="random", max_steps=200000)
            V.extra["budget_reruns"] = V.extra.get("budget_reruns", 0) + 1
            if ex2 is None or ex2[-1].get("status") != "ok":
                rp = vlib.save_replay(pid, "livelock_%d.json" % V.extra["budget_reruns"], {"exec": key, "clause": "Termination", "layer": "sched", "trace": ex[-300:]})
                V.violation("Termination: an operation never returns (status %s under a fair random schedule too) params=%s" % (ex2[-1].get("status") if ex2 else "?", key["params"].get("prog")), rp)
            continue
        kept.append(ex)
    execs = kept

    results = {}
    drift_params = set(replay_drift)

    def judge(name, tla, cfg, conv, xs, issues, tag=""):
        for iss in issues[:8]:      # every one is re-executed to confirm it: a handful per layer is enough for the verdict
            ex = xs[iss.exec_index]
            key = exec_key(ex)
            if iss.kind == "rejected":
                if name == "L2":
                    V.drift += 1
                    log("SPEC-DRIFT component=swiss_table exec=%s seed=%s line=%d %s" % (json.dumps(key["params"]), key["seed"], iss.line, iss.detail))
                    continue
                raise vlib.Broken("%s monitor rejected a trace (monitors must accept every well-formed trace): %s" % (name, iss.detail))
            clause = iss.kind.split(":", 1)[1]
            what = clause
            if name == "L1":
                m = re.findall(r'bad = "(\w+)"', iss.detail)
                what = m[-1] if m and m[-1] else clause
            if name == "HB":
                what = "NoDataRace"
            if name == "L2" and V.drift:
                log("NOTE: L2-state clause %s not used for the verdict because the L2 spec drifted from the code" % what)
                continue
            # reproducibility: the same schedule must fail again
            if not replay:
                ex2 = rerun(key)
                lines2 = [conv(ex2)] if ex2 else []
                _, iss2, _ = sw.check_traces(tla, cfg, lines2, pid + "_re") if lines2 else (0, [], {})
                if not iss2:
                    raise vlib.Broken("violation %s (%s layer, line %d) did not reproduce on re-execution of %s: %s" % (what, name, iss.line, json.dumps(key), iss.detail[:1500]))
            rp = vlib.save_replay(pid, "%s%s_%s_%d.json" % (name, tag, what, iss.exec_index), {"exec": key, "clause": what, "layer": name, "line": iss.line, "trace": ex[:400]})
            V.violation("%s violated on an execution of the real code (%s layer) params=%s seed=%s" % (what, name, json.dumps(key["params"]), key["seed"]), rp)

    LAYERS = (
        ("L1", os.path.join(SPEC, "Swiss_Mon.tla"), os.path.join(SPEC, "mc", "Swiss_Mon.cfg"), sw.monitor_lines),
        ("HB", os.path.join(SPEC, "lib", "HBMon.tla"), os.path.join(SPEC, "mc", "HBMon.cfg"), sw.hb_lines),
        ("L2", os.path.join(SPEC, "Swiss_Trace.tla"), os.path.join(SPEC, "mc", "Swiss_Trace.cfg"), sw.normalise),
    )
    for name, tla, cfg, conv in LAYERS:
        lines = [conv(ex) for ex in execs]
        acc, issues, st = sw.check_traces(tla, cfg, lines, pid + "_" + name, max_rounds=6)
        results[name] = (acc, issues, st)
        V.cov["transitions"] += st["states"]
        lap("validate_" + name)
        V.extra["trace_" + name] = {"accepted": acc, "issues": len(issues), "tlc_states": st["states"], "wall_s": round(st["wall"], 1), "unchecked": st["unchecked"],
                                    "issues_judged": min(len(issues), 8)}
        if name == "L2":
            for iss in issues:
                if iss.kind == "rejected":
                    p = execs[iss.exec_index][0]["params"]
                    drift_params.add(",".join("%s=%s" % (k, v) for k, v in p.items()))
        judge(name, tla, cfg, conv, execs, issues)

    # ---- drift-guided intensification: a configuration on which the code no longer follows the L2 specification is where a
    #      changed algorithm shows; it is explored much harder (random + preemption-bounded) and judged by the L1 monitor alone
    if drift_params and not replay:
        plist = sorted(drift_params)[:5]
        ns = 48 if quick else 400
        tdir = os.path.join(vlib.BUILD, "traces")
        e5, s5 = record(plist, (seed * 1000 + 501, seed * 1000 + 501 + ns), "mix", os.path.join(tdir, pid + "_int"))
        e6, s6 = record(plist, (1, 2), "pb", os.path.join(tdir, pid + "_intpb"), extra=["--pb-bound", "2", "--max-execs", "120" if quick else "1500"])
        xs = [ex for ex in e5 + e6 if ex[-1].get("status") != "budget"]
        name, tla, cfg, conv = LAYERS[0]
        acc, issues, st = sw.check_traces(tla, cfg, [conv(ex) for ex in xs], pid + "_L1int", max_rounds=4)
        V.extra["drift_guided_intensification"] = {"configurations": plist, "executions": len(xs), "accepted": acc, "issues": len(issues)}
        judge(name, tla, cfg, conv, xs, issues, tag="int")
        lap("intensify")
    V.cov["traces_validated_against_impl"] = results["L1"][0] + results["L2"][0] + results["HB"][0]
    for ex in execs[:2]:
        V.sample({"configuration": ex[0]["params"], "strategy": ex[0]["strategy"], "events": len(ex), "first_events": [e for e in ex[1:40] if e.get("t", 0) > 0 and e.get("loc") != "?"][:10]})

    # ---- order table read from the running code
    table, changed, unobserved, unknown, mo_path = regen_mo(results["L2"][2]["pairs"], mo_committed, os.path.join(vlib.BUILD, "gen", "mo_" + pid))
    V.extra["mo_table"] = table
    V.extra["mo_changed_vs_committed"] = {k: list(v) for k, v in changed.items()}
    V.extra["mo_sites_unobserved"] = unobserved
    V.extra["l2_conformant"] = V.drift == 0

    # ---- TLC on the L2 model with the code's orders
    lib = [os.path.dirname(mo_path)] if mo_path else []
    tag = json.dumps(table, sort_keys=True)
    mcs = [("sc_quick", "Swiss_quick_sc.cfg"), ("wm", "Swiss_wm.cfg")]
    if not quick:
        mcs += [("sc_fix16", "Swiss_fix16_sc.cfg"), ("sc_fix32", "Swiss_fix32_sc.cfg"), ("sc_grow", "Swiss_grow_sc.cfg"), ("sc_chain3", "Swiss_chain3_sc.cfg"),
                ("wm3", "Swiss_wm3.cfg"), ("live", "Swiss_live.cfg")]
    if not replay:
        for name, cfg in mcs:
            p = os.path.join(SPEC, "mc", cfg)
            r = vlib.tlc(os.path.join(SPEC, "MC_Swiss.tla"), p, cache=True, extra_hash=tag, lib_dirs=lib, timeout=3000, heap="12g")
            V.add_tlc(name, r)
            lap("tlc_" + name)
            if not r.ok:
                if r.violation in ("tlc_error", "timeout"):
                    raise vlib.Broken("TLC failed on %s: %s" % (cfg, r.error_trace[:2000]))
                clause = r.violation
                if V.drift:
                    log("NOTE: TLC counterexample for %s ignored for the verdict because the L2 spec drifted from the code" % clause)
                    continue
                if not changed:
                    raise vlib.Broken("TLC counterexample for %s in %s with the committed order table on a conformant tree: the specification is wrong: %s" % (clause, cfg, r.error_trace[:3000]))
                rp = vlib.save_replay(pid, "tlc_%s_%s.txt" % (name, clause), "order table (from the running code): %s\nchanged vs committed: %s\n\n%s" % (json.dumps(table), json.dumps(changed), r.error_trace))
                V.violation("%s violated in the L2 model %s with the memory orders the code executes (changed: %s)" % (clause, cfg, json.dumps(changed)), rp)
        V.cov["exhaustive"] = True
    V.assumptions += [
        "WeakMem.tla is a subset of ISO C++ (promise-free release/acquire + fences, stores at the end of mo)",
        "the SIMD group load is modelled as 16 relaxed byte loads (what the code's ThreadSanitizer path does literally); under vsched it executes right after the previous logged step of its thread and reads the last logged writes",
        "executions are serialised by vsched: one thread runs between two schedule points; weak-memory outcomes are decided on the model, not on the host",
        "slot identity = (ordinal of the table in the chain, bucket index) resolved from the element address by the driver",
    ]
    return V.finish()
