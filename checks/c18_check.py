"""C18: ConcurrentTransientHashSet / ConcurrentTransientHashMap equal a reference set / map after any history
(sequential).  Pipeline:
  1. TLC model-checks spec/HSet.tla (MC_HSet): the L2-lite chain of tables refines the reference container (size, iteration,
     find, first-inserted values, chain well-formedness) for every action sequence up to a depth, EmplaceMany macro steps
     crossing 16 / 32 / 64.
  2. steering: the same model with size() / iteration computed literally as the pinned source is written (AsRead = TRUE) is
     expected to violate the clauses; TLC's shortest counterexamples are scripts that lead the REAL container into the states
     of hypothesis H1 (default-constructed head + chained tables).
  3. scripts from (a) a seeded random generator biased to boundary sizes, (b) TLC BFS (every action sequence of a small family),
     (c) TLC -simulate behaviours, (d) the steering counterexamples are executed by hset_driver on the real containers for the
     element kinds trivial / std::string / move-only, sets and maps, several key->hash layouts.
  4. every recorded operation with its observable results is validated by TLC against spec/HSet_Trace.tla; a clause of the
     property failing on the reference state = violation (after re-execution reproduces it).
"""
import json
import os
import random
import re
import sys

sys.path.insert(0, os.path.dirname(os.path.abspath(__file__)))
import hset_common as hs
import vlib
from vlib import log

SPEC = vlib.SPEC
CLAUSES = {"SizeIsCard", "IterateVisitsEachOnce", "FindExactlyKeys", "EmplaceResult", "MappedValueIsFirstInserted", "Completes"}
H1_TEXT = {
    "size": "SizeIsCard violated on the real container [H1:size]: a default-constructed container (placeholder head) with a chained table reports size() = elements + 16",
    "iter": "IterateVisitsEachOnce violated on the real container [H1:iter]: iteration of a default-constructed container with >= 2 chained tables stops after the first chained table",
    "rebuild": "FindExactlyKeys violated on the real container [H1:rebuild]: copy / reserve / rehash of a default-constructed container with >= 2 chained tables keeps only the first chained table's elements",
}


def describe(ex, line):
    """human readable account of the offending operation (line = 1-based index into the normalised execution)"""
    ops = [e for e in ex if e.get("k") in ("op", "end")]
    idx = line - 2
    if 0 <= idx < len(ops):
        e = ops[idx]
        if e.get("k") == "end":
            return "end status=%s" % e.get("status")
        short = {k: e[k] for k in ("op", "c", "d", "key", "val", "n", "how", "ins", "found", "ok", "rkey", "rval", "sz") if k in e}
        short["n_iterated"] = len(e.get("keys", []))
        short["chains"] = e.get("chains")
        return "op#%d %s" % (idx + 1, json.dumps(short, separators=(",", ":")))
    return "line %d" % line


def script_of(ex):
    h = ex[0]
    return [h["id"], h["kind"], h["kmap"], h["script"].split(";")]


def run(pid, tier, seed, replay=None):
    V = vlib.Verdict(pid, tier, seed)
    rng = random.Random(seed * 104729 + 18)
    vlib.build(["hset_driver"])
    quick = tier == "quick"
    mc_tla = hs.MC_TLA

    scripts = []      # (id, kind, kmap, ops)
    if replay:
        rp = json.load(open(replay))
        scripts = [tuple(s) for s in rp["scripts"]]
    else:
        # ---- 1. model checking of the specification itself (the depth-3 run also prints the script of every behaviour)
        r, bfs = hs.tlc_scripts("HSet_mc.cfg", "mc", workers=vlib.NCPU, timeout=1500)
        V.add_tlc("mc", r)
        if not r.ok:
            raise vlib.Broken("HSet.tla does not satisfy its own invariants in HSet_mc.cfg (%s): the specification is wrong\n%s" % (r.violation, r.error_trace[:3000]))
        mcs = [] if quick else [("mc4", "HSet_mc4.cfg"), ("mc_deep", "HSet_mc_deep.cfg"), ("mc5", "HSet_mc5.cfg")]
        for name, cfg in mcs:
            p = os.path.join(SPEC, "mc", cfg)
            if not os.path.exists(p):
                continue
            r = vlib.tlc(mc_tla, p, cache=True, timeout=1500, heap="12g")
            V.add_tlc(name, r)
            if not r.ok:
                if r.violation == "timeout":
                    V.extra.setdefault("notes", []).append("%s: TLC timed out (bounded result only)" % cfg)
                    continue
                raise vlib.Broken("HSet.tla does not satisfy its own invariants in %s (%s): the specification is wrong\n%s" % (cfg, r.violation, r.error_trace[:3000]))
        V.cov["exhaustive"] = True

        # ---- 2. steering: the model as the source reads -> shortest scripts into the H1 states
        steering = {}
        for inv in ("SizeIsCard", "IterateVisitsEachOnce", "FindExactlyKeys"):
            r = vlib.tlc(mc_tla, os.path.join(SPEC, "mc", "HSet_asread_%s.cfg" % inv), cache=True, timeout=900, workers=4)
            V.extra.setdefault("tlc_runs", {})["asread_" + inv] = {"distinct": r.distinct, "generated": r.states, "ok": r.ok, "violation": r.violation, "cached": r.cached, "wall_s": round(r.wall, 1)}
            if r.violation in ("tlc_error", "timeout"):
                raise vlib.Broken("TLC failed on HSet_asread_%s.cfg: %s" % (inv, r.error_trace[:2000]))
            h = hs.counterexample_script(r) if not r.ok else None
            steering[inv] = h
            if h:
                for j, kind in enumerate(["set_int", "map_str", "set_mo"] if quick else hs.KINDS):
                    scripts.append(("w%s%d" % (inv[:4], j),) + hs.from_tlc(h, kind, 0, rng))
        V.extra["steering_scripts_from_as_read_model"] = steering

        # ---- 3. scripts
        bfs = hs.maximal(bfs)
        V.extra["bfs_behaviours_available"] = len(bfs)
        rng.shuffle(bfs)
        nbfs = 160 if quick else 2500
        for j, h in enumerate(bfs[:nbfs]):
            scripts.append(("b%d" % j,) + hs.from_tlc(h, hs.KINDS[j % len(hs.KINDS)], rng.choice([0, 0, 1, 2, 3]), rng))
        simcfg, simn, simd = ("HSet_simq.cfg", 6, 21) if quick else ("HSet_sim.cfg", 60, 41)
        r, sim = hs.tlc_scripts(simcfg, "sim", simulate="num=%d" % simn, depth=simd, seed=seed, workers=1, timeout=240 if quick else 1500)
        if not r.ok and r.violation not in (None, "timeout"):
            raise vlib.Broken("TLC -simulate failed on %s: %s" % (simcfg, r.error_trace[:2000]))
        V.extra["simulated_behaviours"] = len(sim)
        for j, h in enumerate(sim):
            scripts.append(("s%d" % j,) + hs.from_tlc(h, hs.KINDS[(j + seed) % len(hs.KINDS)], rng.choice([0, 1, 2, 3]), rng, audit_every=0.4))
        scripts += hs.self_scripts(rng, quick)
        nrand = 140 if quick else 2000
        for j in range(nrand):
            scripts.append(("r%d" % j,) + hs.gen_random(rng, max_ops=14 if quick else 24))

    # ---- 4. execute on the real containers, validate with TLC
    execs, summary = hs.run_driver(scripts, pid)
    V.extra["executions"] = len(execs)
    V.extra["exec_status"] = summary.get("status")
    V.extra["kinds"] = sorted({s[1] for s in scripts})
    V.extra["states_reached_on_real_containers"] = hs.shape_stats(execs)
    V.extra["operations_validated"] = sum(1 for ex in execs for e in ex if e.get("k") == "op")
    acc, entries, st = hs.check_traces(execs, pid + "_trace")
    V.cov["traces_validated_against_impl"] = acc
    V.cov["transitions"] += st["states"]
    by_id = {ex[0]["id"]: ex for ex in execs}
    bad = [(t[4:], eid, ln) for t, eid, ln in entries if t.startswith("bad_")]
    drifts = [(eid, ln) for t, eid, ln in entries if t.startswith("drift_")]
    h1 = {t[3:]: (eid, ln) for t, eid, ln in entries if t.startswith("h1_")}
    V.extra["trace_validation"] = {"executions_fully_judged": acc, "failed_clauses": len(bad), "shape_drift": len(drifts), "lines": st["lines"], "tlc_states": st["states"], "wall_s": round(st["wall"], 1), "tlc_runs": st["runs"]}

    for eid, ln in drifts[:20]:
        sc = script_of(by_id[eid])
        V.drift += 1
        log("SPEC-DRIFT component=transient_hash_table (L2-lite chain shape differs from the real chain; no verdict) kind=%s %s script=%s" % (sc[1], describe(hs.normalise(by_id[eid]), ln + 1), ";".join(sc[3])))
    V.drift = max(V.drift, len(drifts))

    reported = {}
    for what, eid, ln in sorted(bad, key=lambda b: (b[0], len(by_id[b[1]]))):
        if what not in CLAUSES:
            raise vlib.Broken("unknown clause %s" % what)
        reported[what] = reported.get(what, 0) + 1
        if reported[what] > 3:      # the shortest three witnesses per clause are enough
            continue
        ex = by_id[eid]
        sc = script_of(ex)
        where = describe(hs.normalise(ex), ln + 1)
        # reproducibility: the same script must fail again on re-execution
        ex2, _ = hs.run_driver([tuple(sc)], pid + "_re")
        _, ent2, _ = hs.check_traces(ex2, pid + "_re")
        if not [t for t, _, _ in ent2 if t.startswith("bad_")]:
            raise vlib.Broken("violation %s did not reproduce on re-execution of script %s" % (what, ";".join(sc[3])))
        rp = vlib.save_replay(pid, "%s_%s.json" % (what, sc[0]), {"scripts": [sc], "clause": what, "at": where, "trace": ex[:60]})
        V.violation("%s violated by the real container: kind=%s kmap=%s %s script=%s" % (what, sc[1], sc[2], where, ";".join(sc[3])), rp)
    V.extra["failed_clauses_by_name"] = reported

    # ---- known defect H1: observations that deviate exactly as the source-as-read predicts (decided by TLC in HSet_Trace)
    V.extra["h1_facets_observed_on_real_code"] = {k: v[0] for k, v in h1.items()}
    for facet, (eid, ln) in sorted(h1.items()):
        ex = by_id.get(eid)
        if ex is None or facet not in H1_TEXT:
            raise vlib.Broken("H1 facet %s refers to unknown execution %s" % (facet, eid))
        sc = script_of(ex)
        rp = vlib.save_replay(pid, "H1_%s_%s.json" % (facet, sc[0]), {"scripts": [sc], "clause": "H1:" + facet, "at": describe(hs.normalise(ex), ln + 1), "trace": ex[:40]})
        V.violation("%s; witness kind=%s %s script=%s" % (H1_TEXT[facet], sc[1], describe(hs.normalise(ex), ln + 1), ";".join(sc[3])), rp)

    for ex in execs[:1] + execs[-2:]:
        ops = [e for e in ex if e.get("k") == "op"]
        V.sample({"script": ex[0]["script"], "kind": ex[0]["kind"], "kmap": ex[0]["kmap"], "operations": len(ops),
                  "first_operations": [{k: e[k] for k in ("op", "c", "key", "n", "ins", "sz", "chains")} for e in ops[:4]]})
    V.assumptions += [
        "single thread; at most 2 containers per script, <= ~450 elements, keys mapped to concrete keys through 4 layouts (identity, equal 7-bit tag, equal tag and home group, scrambled)",
        "a moved-from container is unspecified: nothing is claimed about it until clear / construct / assignment to it",
        "the white-box chain [bucket_count, size, placeholder] is used only to check the steering model (drift), never for the verdict",
    ]
    return V.finish()
