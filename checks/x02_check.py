"""X02 (extra component): babylon::Any equals the explicit state machine spec/AnyBox.tla.
Pipeline:
  1. TLC model-checks AnyBox (MC_AnyBox) exhaustively: ledger / ownership invariants (Inv) and the step properties (StepOK:
     destroyed only if owned and dropped, owned objects of dropped holders destroyed exactly once, move transfers and empties the
     source, copy = independent equal object or alias, references never own).  The same runs print every transition
     <<state, operation, state'>> of the model: the labelled state graph.
  2. operation scripts are computed from that graph so that every transition (thorough) / all transitions of the one-variable
     family with all 11 primitive kinds plus a seeded sample of the two-variable family (quick) is executed at least once by
     harness/drivers/any_driver.cc on the real babylon::Any (API variants - operator= / constructor / type-erased descriptor
     interface - chosen at random per operation); a part of the scripts also under ASan + UBSan.
  3. after every operation the driver prints what the public API shows for ALL variables (operator bool, type(), instance_type(),
     get<T>() / cget<T>() null-ness for 15 types, is_reference / is_const_reference, value, as<T>() for 11 targets, to(), where
     the object lives, aliasing) plus the ledger of the instrumented payload types; TLC validates every line against
     spec/AnyBox_Trace.tla (the logged operation must be a step of AnyBox, the observation must equal Obs of the successor).
  4. a failing clause = violation after the script fails again on re-execution.
"""
import json
import os
import random
import sys

sys.path.insert(0, os.path.dirname(os.path.abspath(__file__)))
import any_common as ac
import vlib
from vlib import log

SPEC = vlib.SPEC
CLAUSES = {
    "NoCrash": "an operation of a legal script crashed / aborted / raised a sanitizer report",
    "CopyNonCopyableAborts": "copying an Any that owns a non-copyable instance did not abort (assert build)",
    "DestroyedExactlyOnce": "payload ledger differs: objects constructed / destroyed by Any code in the step, live objects per type, double destruction or leak",
    "GetExactType": "operator bool / type() / instance_type() / get<T>() / cget<T>() differ: get<T> must return the stored object exactly when T is the stored type and mutability permits",
    "RefFlags": "is_reference() / is_const_reference() differ",
    "OwnershipAlias": "the object behind cget lives elsewhere or is shared differently (copy must be independent for owned values, an alias for references; move relocates)",
    "ValuePreserved": "payload value / external object / release result differ",
    "AsIsStaticCast": "as<T>() / to() differ from static_cast of the stored primitive",
}
WORKERS = int(os.environ.get("VERIF_TLC_WORKERS", "4"))


def describe(ex, line):
    """line = 1-based index within the execution (reset = line 0)"""
    if 1 <= line < len(ex):
        e = ex[line]
        if e.get("k") == "op":
            return "step %d %s(a=%s,b=%s,ty=%s,c=%s,how=%s) observed=%s" % (line, e["op"], e["a"], e["b"], e["ty"], e["c"], e.get("how"),
                                                                            json.dumps({k: e[k] for k in ("o", "lv", "xs", "nc", "nd", "rl", "rv", "er")}, separators=(",", ":"))[:700])
        if e.get("k") == "end":
            return "end status=%s sig=%s after %s operations, pending %s(a=%s,b=%s)" % (e.get("status"), e.get("sig"), e.get("done"), e.get("op"), e.get("a"), e.get("b"))
        return json.dumps(e)[:300]
    return "line %d" % line


def run(pid, tier, seed, replay=None):
    V = vlib.Verdict(pid, tier, seed)
    rng = random.Random(seed * 7919 + 202)
    quick = tier == "quick"
    vlib.build(["any_driver", "any_driver_san"])

    scripts = []       # (id, family, [tokens])
    san_ids = set()
    cover = {}
    if replay:
        rp = json.load(open(replay))
        scripts = [tuple(s) for s in rp["scripts"]]
        san_ids = {s[0] for s in scripts if rp.get("san")}
        V.write_evidence = False
        r = vlib.tlc(ac.MC_TLA, os.path.join(SPEC, "mc", "AnyBox_cover_none1.cfg"), cache=True, workers=WORKERS, timeout=600)
        V.add_tlc("mc_none1", r)
    else:
        # ---- 1. model checking + labelled state graph
        graphs = {}
        for fam, cfg in (("none1", "AnyBox_cover_none1.cfg"), ("p2", "AnyBox_cover_p2.cfg")):
            r, states, edges = ac.graph(cfg, workers=WORKERS)
            V.add_tlc("mc_graph_" + fam, r)
            graphs[fam] = edges
            V.extra.setdefault("model_graph", {})[fam] = {"states": len(states), "distinct_transitions": len(edges), "cfg": cfg}
        if not quick:
            for name, cfg in (("mc2", "AnyBox_mc2.cfg"), ("mc3", "AnyBox_mc3.cfg")):
                p = os.path.join(SPEC, "mc", cfg)
                if not os.path.exists(p):
                    continue
                r = vlib.tlc(ac.MC_TLA, p, cache=True, workers=WORKERS, timeout=1700)
                V.add_tlc(name, r)
                if not r.ok:
                    if r.violation == "timeout":
                        V.extra.setdefault("notes", []).append("%s: TLC timed out (bounded result only)" % cfg)
                        continue
                    raise vlib.Broken("AnyBox.tla does not satisfy its own invariants in %s (%s): the specification is wrong\n%s" % (cfg, r.violation, r.error_trace[:3000]))
        V.cov["exhaustive"] = True

        # ---- 2. scripts covering the transitions
        for fam, edges in graphs.items():
            want = list(range(len(edges)))
            if quick and fam != "none1":
                rng.shuffle(want)
                want = want[:6000]
            seqs = ac.cover_scripts(edges, want, rng)
            done = set()
            for j, seq in enumerate(seqs):
                sid = "%s_%d" % (fam, j)
                scripts.append((sid, fam, ac.tokens(seq, edges, rng)))
                done.update(seq)
            cover[fam] = {"transitions_in_model": len(edges), "transitions_targeted": len(want), "transitions_in_scripts": len(done),
                          "scripts": len(seqs), "operations": sum(len(s) for s in seqs)}
        # every script of the one-variable family and a third (thorough: a fifth) of the others again under ASan + UBSan
        for sid, fam, toks in scripts:
            if fam == "none1" or rng.random() < (0.34 if quick else 0.2):
                san_ids.add(sid)

    # ---- 3. execute on the real code
    by_fam = {}
    execs_n, summ_n = ac.run_driver(scripts, pid)
    san_scripts = [(sid + "s", fam, toks) for sid, fam, toks in scripts if sid in san_ids]
    execs_s, summ_s = ac.run_driver(san_scripts, pid + "_san", binary="any_driver_san") if san_scripts else ([], {})
    fam_of = {sid: fam for sid, fam, _ in scripts + san_scripts}
    script_of = {sid: (sid, fam, toks) for sid, fam, toks in scripts + san_scripts}
    by_id = {}
    for ex in execs_n + execs_s:
        by_id[ex[0]["id"]] = ex
        by_fam.setdefault(fam_of[ex[0]["id"]], []).append(ex)
    V.extra["executions"] = {"plain": len(execs_n), "asan_ubsan": len(execs_s), "status_plain": summ_n.get("status"), "status_san": summ_s.get("status")}
    V.extra["operations_executed"] = sum(1 for ex in execs_n + execs_s for e in ex if e.get("k") == "op")

    # ---- 4. TLC validates every line
    entries = []
    expected = {}
    tv = {"lines": 0, "tlc_states": 0, "wall_s": 0.0, "tlc_runs": 0}
    for fam, exs in sorted(by_fam.items()):
        ent, exp, st = ac.check_traces(exs, fam, pid + "_trace_" + fam)
        entries += ent
        expected.update(exp)
        tv["lines"] += st["lines"]
        tv["tlc_states"] += st["states"]
        tv["wall_s"] += round(st["wall"], 1)
        tv["tlc_runs"] += st["runs"]
    failed_ids = {eid for _, eid, _, _ in entries}
    V.cov["traces_validated_against_impl"] = len(by_id) - len(failed_ids)
    V.cov["transitions"] += tv["tlc_states"]
    V.extra["trace_validation"] = dict(tv, failed_executions=len(failed_ids))

    # transition coverage: transitions of the model executed by scripts whose every line was accepted
    if cover:
        for fam, c in cover.items():
            c["transitions_executed_and_accepted"] = c["transitions_in_scripts"] if not any(fam_of[e] == fam for e in failed_ids) else "see violations"
        V.extra["transition_coverage"] = cover
        log("X02 transition coverage: " + "; ".join("%s %d/%d transitions (%d scripts, %d operations)" % (f, c["transitions_in_scripts"], c["transitions_in_model"], c["scripts"], c["operations"]) for f, c in sorted(cover.items())))

    reported = {}
    rechecks = 0
    for what, eid, ln, fields in sorted(entries, key=lambda b: (b[0], len(by_id[b[1]]))):
        if what not in CLAUSES:
            raise vlib.Broken("unknown clause %s" % what)
        reported[what] = reported.get(what, 0) + 1
        if reported[what] > 2:
            continue
        ex = by_id[eid]
        sc = script_of[eid]
        binary = "any_driver_san" if eid.endswith("s") and eid[:-1] in san_ids else "any_driver"
        if rechecks < 3:      # reproducibility: the same script must fail again on re-execution
            rechecks += 1
            ex2, _ = ac.run_driver([sc], pid + "_re", binary=binary)
            ent2, _, _ = ac.check_traces(ex2, sc[1], pid + "_re")
            if not ent2:
                raise vlib.Broken("violation %s did not reproduce on re-execution of script %s" % (what, ";".join(sc[2])))
        where = describe(ex, ln)
        rp = vlib.save_replay(pid, "%s_%s.json" % (what, eid), {"scripts": [list(sc)], "san": binary.endswith("san"), "clause": what, "fields": fields, "at": where,
                                                                 "expected_by_spec": expected.get((eid, ln), ""), "trace": ex[:45]})
        V.violation("%s violated by the real babylon::Any (%s): fields %s deviate from AnyBox; family=%s build=%s %s script=%s" % (
            what, CLAUSES[what], ",".join(fields) or "-", sc[1], "asan" if binary.endswith("san") else "plain", where, ";".join(sc[2])[:900]), rp)
    V.extra["failed_clauses_by_name"] = reported

    for ex in (execs_n[:1] + execs_n[-1:] + execs_s[:1]):
        ops = [e for e in ex if e.get("k") == "op"]
        V.sample({"id": ex[0]["id"], "family": fam_of[ex[0]["id"]], "operations": len(ops), "script": ";".join(script_of[ex[0]["id"]][2])[:400],
                  "last_observation": {k: ops[-1][k] for k in ("op", "a", "b", "o", "lv", "nc", "nd")} if ops else None})
    V.assumptions += [
        "sequential; 1 variable x all 11 primitive kinds + P/Q/S/T, and 2 variables x {P,Q,S,i64} with one external P; 2 values per type",
        "user obligations for references are guards of the model (a referenced object is never destroyed / relocated by the scripts): dangling references are not exercised",
        "copy of an Any owning a non-copyable instance is specified for the assert build only (abort); NDEBUG behaviour is unspecified",
        "as<T>(): values chosen so that every conversion is defined behaviour (no out-of-range float -> integer conversions); 32/64-bit unsigned results of negative sources are reported as one BIG class",
    ]
    return V.finish()
