"""C11 plumbing: TLC case generation (spec -> code), driver runs, log normalisation, sharded trace validation (code -> spec).
Python only drives / normalises: every verdict is computed by TLC (MC_Wire.tla: `viol` of a case; Wire_Trace.tla: issue set)."""
import concurrent.futures
import json
import os
import re
import subprocess
import sys
import time

sys.path.insert(0, os.path.join(os.path.dirname(os.path.dirname(os.path.abspath(__file__))), "tools"))
import vlib
from vlib import log

SPEC = vlib.SPEC
MC_TLA = os.path.join(SPEC, "MC_Wire.tla")
TRACE_TLA = os.path.join(SPEC, "Wire_Trace.tla")
TRACE_CFG = os.path.join(SPEC, "mc", "Wire_Trace.cfg")
BUILDS = [("wire_driver", "dbg", 1), ("wire_driver_nd", "nd", 0), ("wire_driver_san", "san", 1)]   # target, tag, asserts on
CACHE = os.path.join(vlib.BUILD, "wire_cache")
WORK = os.path.join(vlib.BUILD, "wire")

DEF = {"k": "", "id": 0, "kind": "", "sch": "TI32", "vi": 0, "i": 0, "j": 0, "modes": [], "val": [], "bytes": [], "ok": 0, "out": [], "ok2": 0,
       "out2": [], "bytes2": [], "size": 0, "size2": 0, "bytes_c": [], "bytes_a": [], "dirty": 0, "pok": 0, "status": "", "np": 0}


def model_check(cfg_name, timeout=3000, heap="8g"):
    """run MC_Wire with spec/mc/<cfg_name>; returns (TlcResult, rows) - rows = the case records TLC emitted.  Cached on spec+cfg."""
    cfg = cfg_name if os.path.isabs(cfg_name) else os.path.join(SPEC, "mc", cfg_name)
    key = vlib._hash_files(vlib.spec_closure(MC_TLA) + [cfg])
    os.makedirs(CACHE, exist_ok=True)
    meta, rowsf = os.path.join(CACHE, key + ".json"), os.path.join(CACHE, key + ".rows")
    r = vlib.TlcResult()
    if os.path.exists(meta) and os.path.exists(rowsf):
        r.__dict__.update(json.load(open(meta)))
        r.cached = True
        return r, [json.loads(x) for x in open(rowsf)]
    r = vlib.tlc(MC_TLA, cfg, timeout=timeout, heap=heap, deadlock=False)
    rows = []
    for line in r.out.splitlines():
        if line.startswith('"{'):
            try:
                rows.append(json.loads(json.loads(line)))
            except Exception:
                raise vlib.Broken("unparsable case line from TLC: %s" % line[:200])
    if r.violation in ("tlc_error", "timeout") or not rows:
        raise vlib.Broken("TLC failed on %s: %s" % (cfg_name, (r.error_trace or r.out)[-2500:]))
    with open(rowsf, "w") as f:
        for x in rows:
            f.write(json.dumps(x, separators=(",", ":")) + "\n")
    d = {k: v for k, v in r.__dict__.items() if k not in ("cached", "out")}
    json.dump(d, open(meta, "w"))
    return r, rows


def case_key(x):
    return (x["sch"], x["kind"], x["vi"], x["i"], x["j"])


def build_cases(rows):
    """unique cases (base rows: bounded presentation, asserts on) with ids; model verdicts per case"""
    cases = {}
    for x in rows:
        if x["cls"] == "b" and x["dbg"] == 1:
            cases[case_key(x)] = x
    ordered = sorted(cases)
    out = []
    prev = {}
    for k in ordered:
        x = cases[k]
        if x["kind"] == "val" and x["vi"] == 1:
            prev[x["sch"]] = x["val"]
    for n, k in enumerate(ordered):
        x = cases[k]
        out.append({"id": n + 1, "kind": x["kind"], "sch": x["sch"], "vi": x["vi"], "i": x["i"], "j": x["j"], "val": x["val"], "bytes": x["bytes"],
                    "prev": prev.get(x["sch"]) if x["kind"] == "val" and isinstance(x["val"], list) and x["sch"] not in ("TI32", "TStr", "TVecI", "TPtrS") else None})
    ids = {case_key(c): c["id"] for c in out}
    model = []      # (id, cls, dbg, clause) found violated by TLC on the machine / encoder of the spec
    for x in rows:
        for cl in x["viol"]:
            model.append((ids.get(case_key(x), 0), x["cls"], x["dbg"], cl))
    return out, model


def jtxt(v):
    return json.dumps(v, separators=(",", ":"))


def write_case_file(cases, path):
    with open(path, "w") as f:
        for c in cases:
            val = jtxt(c["val"]) if c["kind"] in ("val", "pbv") else "-"
            prev = jtxt(c["prev"]) if c.get("prev") is not None else "-"
            hx = "".join("%02x" % b for b in c["bytes"]) or "-"
            f.write("%d %s %s %s %s %s\n" % (c["id"], c["kind"], c["sch"], val, prev, hx))


def run_drivers(case_file, tag, builds=BUILDS, timeout=1500):
    """all builds in parallel; returns {build tag: (log path, summary, stderr path)}"""
    os.makedirs(WORK, exist_ok=True)
    procs = []
    for target, btag, _ in builds:
        outp = os.path.join(WORK, "%s.%s.ndjson" % (tag, btag))
        errp = outp + ".stderr"
        for p in (outp, errp):
            if os.path.exists(p):
                os.unlink(p)
        env = dict(os.environ)
        env["ASAN_OPTIONS"] = "detect_leaks=0:abort_on_error=1:allocator_may_return_null=1:max_allocation_size_mb=3000:symbolize=0:fast_unwind_on_fatal=1"
        env["UBSAN_OPTIONS"] = "halt_on_error=1:print_stacktrace=0"
        cmd = [os.path.join(vlib.BUILD, "bin", target), "--cases", case_file, "--out", outp, "--build", btag, "--alarm", "90" if btag == "san" else "30"]
        procs.append((btag, outp, errp, subprocess.Popen(cmd, stdout=subprocess.PIPE, stderr=open(errp, "w"), env=env, text=True)))
    res = {}
    for btag, outp, errp, p in procs:
        try:
            so, _ = p.communicate(timeout=timeout)
        except subprocess.TimeoutExpired:
            # our own wall-clock limit: not a verdict about the code and not a broken check - the results logged so far are
            # judged, the rest of this build's pass is reported as inconclusive in the evidence
            p.kill()
            p.communicate()
            res[btag] = (outp, {"timeout_s": timeout, "inconclusive": True}, errp)
            continue
        if p.returncode != 0:
            raise vlib.Broken("driver build %s failed (%d): %s" % (btag, p.returncode, open(errp).read()[-1500:]))
        try:
            summ = json.loads(so.strip().splitlines()[-1])
        except Exception:
            raise vlib.Broken("driver build %s printed no summary" % btag)
        res[btag] = (outp, summ, errp)
    return res


def normalise(cases, logs):
    """merge the per-build logs into trace lines (uniform records).  Identical outcomes of one case across builds and
    presentation classes become ONE line carrying the list of <<class, asserts>> modes that produced it."""
    byid = {c["id"]: c for c in cases}
    asserts = {b[1]: b[2] for b in BUILDS}
    parse, ser, other = {}, {}, []
    for btag, (path, _, _) in logs.items():
        for line in open(path):
            line = line.strip()
            if not line:
                continue
            try:
                e = json.loads(line)
            except Exception:
                raise vlib.Broken("unparsable driver line (%s): %s" % (btag, line[:200]))
            c = byid.get(e.get("id"))
            if c is None:
                continue
            if e["k"] == "parse":
                key = (e["id"], e["ok"], jtxt(e["out"]), e.get("ok2", 0), jtxt(e.get("out2", [])))
                d = parse.setdefault(key, {"e": e, "modes": set(), "np": 0, "builds": set()})
                d["modes"].add((e["cls"], asserts[btag]))
                d["np"] += e["np"]
                d["builds"].add(btag)
            elif e["k"] == "ser":
                key = (e["id"], e["dirty"], jtxt([e[x] for x in ("val", "size", "size2", "ok", "bytes", "bytes_c", "bytes_a", "pok", "out")]))
                d = ser.setdefault(key, {"e": e, "builds": set()})
                d["builds"].add(btag)
            elif e["k"] == "end":
                e["modes"] = [[e.get("cls", "b"), asserts[btag]]]
                e["builds"] = [btag]
                other.append(e)
            else:
                if btag == "dbg":
                    e["builds"] = [btag]
                    other.append(e)
    lines = []
    for key in sorted(parse, key=lambda k: (k[0], k[1:])):
        d = parse[key]
        e = dict(d["e"])
        e["modes"] = [list(m) for m in sorted(d["modes"])]
        e["np"] = d["np"]
        e["builds"] = sorted(d["builds"])
        lines.append(e)
    for key in sorted(ser):
        d = ser[key]
        e = dict(d["e"])
        e["builds"] = sorted(d["builds"])
        lines.append(e)
    lines += other
    out = []
    for e in lines:
        c = byid[e["id"]]
        r = dict(DEF)
        r.update({"kind": c["kind"], "sch": c["sch"], "vi": c["vi"], "i": c["i"], "j": c["j"]})
        for k, v in e.items():
            if k in r:
                r[k] = v
        if e["k"] in ("parse", "end"):
            r["val"] = c["val"]
            r["bytes"] = c["bytes"]
        r["_builds"] = e.get("builds", [])
        r["_pres"] = e.get("pres", "")
        out.append(r)
    return out


def _validate_shard(args):
    idx, path = args
    r = vlib.validate_trace(TRACE_TLA, TRACE_CFG, path, timeout=2400, dfs=False, heap="4g")
    return idx, r.ok, r.distinct, r.wall, r.out[-200000:] if not r.ok else r.out


def validate(lines, name, shards=None):
    """Wire_Trace over the lines, sharded over parallel TLC processes.  Returns (issues [(line index, clause, flag)], stats)"""
    os.makedirs(os.path.join(vlib.BUILD, "traces"), exist_ok=True)
    if not lines:
        return [], {"lines": 0, "states": 0, "wall": 0.0, "shards": 0}
    n = shards or max(1, min(8, (len(lines) + 1499) // 1500))
    per = (len(lines) + n - 1) // n
    jobs = []
    for s in range(n):
        part = lines[s * per:(s + 1) * per]
        if not part:
            continue
        p = os.path.join(vlib.BUILD, "traces", "%s.%d.%d.ndjson" % (name, os.getpid(), s))
        with open(p, "w") as f:
            for e in part:
                f.write(json.dumps({k: v for k, v in e.items() if not k.startswith("_")}, separators=(",", ":")) + "\n")
        jobs.append((s, p))
    t0 = time.time()
    issues = []
    states = 0
    with concurrent.futures.ProcessPoolExecutor(max_workers=min(len(jobs), max(2, vlib.NCPU // 2))) as ex:
        for idx, ok, distinct, wall, out in ex.map(_validate_shard, jobs):
            m = re.search(r'<<\s*"VERIFC11",\s*(\d+),\s*(\d+)\s*>>', out)
            part_len = len(lines[idx * per:(idx + 1) * per])
            if not ok or not m or int(m.group(1)) != part_len or int(m.group(2)) != part_len:
                raise vlib.Broken("trace validation shard %d of %s failed: %s" % (idx, name, out[-3000:]))
            mi = re.findall(r'<<\s*"ISSUES",\s*(\{.*?\})\s*>>', out, re.S)
            if not mi:
                raise vlib.Broken("trace validation shard %d of %s printed no verdict" % (idx, name))
            for ln, clause, flag in re.findall(r'<<\s*(\d+),\s*"(\w+)",\s*(\d+)\s*>>', mi[-1]):
                issues.append((idx * per + int(ln) - 1, clause, int(flag)))
            states += distinct
    for _, p in jobs:
        try:
            os.unlink(p)
        except OSError:
            pass
    return issues, {"lines": len(lines), "states": states, "wall": round(time.time() - t0, 1), "shards": len(jobs)}


def stderr_tail(path, n=1500):
    try:
        t = open(path).read()
    except OSError:
        return ""
    m = re.search(r"(==\d+==ERROR: AddressSanitizer[^\n]*|runtime error:[^\n]*)", t)
    return (m.group(1) if m else "") + " | " + t[-n:].replace("\n", " / ")
