"""Trace normalisation and program generation for the logging driver (property C20)."""
import glob
import os
import re
import shutil
import subprocess

import vlib

SPEC = vlib.SPEC


# ------------------------------------------------------------------------------------- raw traces
def merge_parts(events):
    """the driver logs long lists as {"k":"part","of":name,"v":[..]} lines FOLLOWING their main event (same thread)"""
    out = []
    last = {}
    for e in events:
        if e.get("k") == "part":
            tgt = last.get(e.get("t"))
            if tgt is None:
                raise vlib.Broken("orphan part line in trace: %s" % str(e)[:200])
            tgt.setdefault(e["of"], []).extend(e["v"])
            continue
        e = dict(e)
        out.append(e)
        if "t" in e and e.get("k") not in ("spawn", "start", "exit", "join", "sleep", "yield", "tick", "clock"):
            last[e["t"]] = e
    return out


def triples(flat):
    return [flat[i:i + 3] for i in range(0, len(flat) - len(flat) % 3, 3)]


def consts_of(events):
    for e in events:
        if e.get("k") == "consts":
            return e
    return None


# ------------------------------------------------------------------------------------- sequential
EDEF = {"k": "", "n": 0, "ret": 0, "size": 0, "lsize": 0, "guards": True, "allocs": [], "segs": [], "hw": 0, "hr": 0, "nw": 0, "nr": 0,
        "full": False, "wbytes": [], "rbytes": [], "freed": [], "live": [], "P": 0, "ipc": 0, "status": ""}


def entry_lines(events):
    """vsched trace of one execution of scenario "entry" -> lines for LogEntry_Trace.tla"""
    out = []
    ev = merge_parts(events)
    c = consts_of(ev) or {}
    for e in ev:
        k = e.get("k")
        if k == "reset":
            out.append(dict(EDEF, k="reset", P=int(e["params"]["P"]), ipc=int(c.get("ipc", 0))))
        elif k == "begin":
            out.append(dict(EDEF, k="begin"))
        elif k == "write":
            out.append(dict(EDEF, k="write", n=e["n"], ret=e["ret"], size=e["size"], lsize=e["lsize"], guards=e["guards"], allocs=e.get("allocs", [])))
        elif k == "endentry":
            out.append(dict(EDEF, k="endentry", size=e["size"], guards=e["guards"]))
        elif k == "iov":
            out.append(dict(EDEF, k="iov", segs=triples(e.get("segs", [])), hw=e["hw"], hr=e["hr"], nw=e["nw"], nr=e["nr"], full=e["full"],
                            wbytes=e.get("wbytes", []), rbytes=e.get("rbytes", [])))
        elif k == "release":
            out.append(dict(EDEF, k="release", guards=e["guards"], freed=e.get("freed", []), live=e.get("live", [])))
        elif k == "end":
            out.append(dict(EDEF, k="end", status=e.get("status", "?")))
    return out


def fan(P):
    return (P - 8) // 8


def nmax(P, ipc):
    return ipc * P + 2 * fan(P) * P + 2


def boundaries(P, ipc):
    F = fan(P)
    return sorted({P, 2 * P, (ipc - 1) * P, ipc * P, (ipc + 1) * P, (ipc - 1) * P + F * P, (ipc - 1) * P + F * P + P,
                   (ipc - 1) * P + 2 * F * P, (ipc - 1) * P + 2 * F * P + P})


def chunking(rng, total, P):
    """a random way to write `total` bytes"""
    style = rng.choice(["one", "ones", "pagey", "mixed", "two"])
    if total == 0:
        return []
    if style == "one":
        return [total]
    if style == "two":
        a = rng.randint(1, total)
        return [a] + ([total - a] if total > a else [])
    out, left = [], total
    while left > 0:
        if style == "ones" and total <= 3 * P:
            k = 1
        elif style == "pagey":
            k = rng.choice([P - 1, P, P + 1, 2 * P, 1])
        else:
            k = rng.choice([1, 2, 3, P // 2, P - 1, P, P + 1, 3 * P + 1, rng.randint(1, 4 * P)])
        k = max(1, min(k, left))
        out.append(k)
        left -= k
        if len(out) > 60:
            out.append(left)
            break
    return [k for k in out if k > 0]


def gen_entry_prog(rng, P, ipc, nentries=3, limit=None):
    """entries whose total sizes sit at / next to the boundaries (and a few anywhere)"""
    N = nmax(P, ipc) if limit is None else limit
    bs = [b for b in boundaries(P, ipc) if b <= N]
    entries = []
    for _ in range(nentries):
        r = rng.random()
        if r < 0.7 and bs:
            total = rng.choice(bs) + rng.choice([-2, -1, 0, 0, 1, 2])
        elif r < 0.8:
            total = rng.choice([0, 1, 2])
        else:
            total = rng.randint(0, N)
        total = max(0, min(N, total))
        entries.append(chunking(rng, total, P))
    return "_".join(".".join(str(k) for k in ch) for ch in entries)


def tlc_chunk_sequences(mc_tla, cfg, num, depth, seed, workdir):
    """TLC -simulate on MC_LogEntry: returns [(P, [chunk sizes])] - behaviours of the spec the driver then executes"""
    shutil.rmtree(workdir, ignore_errors=True)
    os.makedirs(workdir)
    libs = [os.path.dirname(mc_tla), os.path.join(SPEC, "lib"), os.path.join(SPEC, "mo")]
    cmd = ["java", "-XX:+UseParallelGC", "-Xmx2g", "-DTLA-Library=" + ":".join(libs), "-cp", vlib.JAR, "tlc2.TLC", "-metadir", os.path.join(workdir, "meta"),
           "-config", cfg, "-simulate", "file=%s,num=%d" % (os.path.join(workdir, "tr"), num), "-depth", str(depth), "-workers", "1", "-seed", str(seed), mc_tla]
    r = subprocess.run(cmd, capture_output=True, text=True, timeout=600, cwd=os.path.dirname(mc_tla))
    if "Error:" in r.stdout:
        raise vlib.Broken("TLC simulation failed: " + r.stdout[-2000:])
    out = []
    for f in sorted(glob.glob(os.path.join(workdir, "tr_*"))):
        txt = open(f).read()
        m = re.search(r"/\\ P = (\d+)", txt)
        if not m:
            continue
        P = int(m.group(1))
        chunks = [int(x) for x in re.findall(r'ev = \[k \|-> "write", n \|-> (\d+)\]', txt)]
        out.append((P, chunks))
    shutil.rmtree(workdir, ignore_errors=True)
    return out


# ------------------------------------------------------------------------------------- concurrent
ADEF = {"k": "", "t": 0, "e": 0, "f": 0, "g": 0, "n": 0, "ids": [], "pages": [], "bytes": [], "segs": [], "data": [], "live": [], "guards": True,
        "rot": False, "fail": False, "status": "", "P": 0, "cap": 0, "closer_blocked": False, "judge_close": True}


def app_lines(events):
    """vsched trace of one execution of scenario "app" -> lines for Appender_Mon.tla (call / return level observables only)"""
    out = []
    ev = merge_parts(events)
    c = consts_of(ev) or {}
    for e in ev:
        k = e.get("k")
        t = max(0, e.get("t", 0)) if isinstance(e.get("t", 0), int) else 0
        if k == "reset":
            out.append(dict(ADEF, k="reset", P=int(e["params"]["P"]), cap=int(c.get("cap", 0)), judge_close=e["params"].get("close", "safe") != "raw"))
        elif k == "wcall":
            out.append(dict(ADEF, k="wcall", t=t, e=e["e"], f=e["f"], n=e["n"], pages=e.get("pages", []), bytes=e.get("bytes", [])))
        elif k in ("wret", "dret"):
            out.append(dict(ADEF, k=k, t=t, e=e["e"]))
        elif k == "dcall":
            out.append(dict(ADEF, k="dcall", t=t, e=e["e"], n=e["n"], pages=e.get("pages", [])))
        elif k in ("alloc", "free"):
            if out and out[-1]["k"] == k and out[-1]["t"] == t:
                out[-1]["ids"].append(e["id"])      # runs of one thread are one line
            else:
                out.append(dict(ADEF, k=k, t=t, ids=[e["id"]]))
        elif k == "check":
            out.append(dict(ADEF, k="check", t=t, f=e["f"], g=e["g"], rot=e["rot"]))
        elif k == "writev":
            out.append(dict(ADEF, k="writev", t=t, f=e["f"], g=e["g"], segs=triples(e.get("segs", [])), fail=bool(e.get("fail", False))))
        elif k in ("ccall", "cret"):
            out.append(dict(ADEF, k=k, t=t))
        elif k == "file":
            out.append(dict(ADEF, k="file", f=e["f"], g=e["g"], n=e["n"], data=e.get("data", [])))
        elif k == "final":
            out.append(dict(ADEF, k="final", guards=e["guards"], live=e.get("live", [])))
        elif k == "end":
            blocked = e.get("blocked", [])
            out.append(dict(ADEF, k="end", status=e.get("status", "?"), closer_blocked=any(b.get("t") == 0 and b.get("loc", "") != "" for b in blocked)))
    return out


def gen_app_prog(rng, P, ipc, nthr=None, per=2, discard=True):
    """<= 3 logging threads x <= 2 entries; lengths from tiny to past the inline capacity (a table page travels along)"""
    nthr = nthr or rng.choice([1, 2, 2, 3, 3])
    sizes = [1, 2, P - 1, P, P + 1, 3 * P, ipc * P - 1, ipc * P, ipc * P + 1, (ipc - 1) * P + fan(P) * P + 1]
    ths = []
    for _ in range(nthr):
        ops = []
        for _ in range(rng.randint(1, per)):
            n = rng.choice(sizes) if rng.random() < 0.8 else rng.randint(1, ipc * P + 2 * P)
            n = max(1, min(n, 900))
            if discard and rng.random() < 0.2:
                ops.append("d%d" % n)
            else:
                ops.append("w%dx%d" % (rng.choice([0, 0, 1]), n))
        ths.append(".".join(ops))
    return "_".join(ths)


TDEF = {"k": "", "t": 0, "i": 0, "f": 0, "rot": False, "cnt": 0, "ents": [], "prog": [], "cap": 0, "iovmax": 1024, "status": ""}


def parse_app_prog(s):
    prog = []
    for ts in s.split("_"):
        ops = []
        for o in ts.split("."):
            if not o:
                continue
            if o[0] == "w":
                ops.append({"k": "w", "f": int(o[1:o.index("x")]), "s": 1})
            else:
                ops.append({"k": "d", "f": 0, "s": 1})
        prog.append(ops)
    return prog


def app_trace_lines(events):
    """vsched trace of one execution of scenario "app" -> lines for Appender_Trace.tla (L2 conformance)"""
    out = []
    ev = merge_parts(events)
    c = consts_of(ev) or {}
    owner = {}
    prog = []
    for e in ev:
        k = e.get("k")
        if k == "reset":
            prog = parse_app_prog(e["params"]["prog"])
            out.append(dict(TDEF, k="reset", prog=prog, cap=int(c.get("cap", 0)), iovmax=int(c.get("iovmax", 1024))))
        elif k in ("wcall", "dcall"):
            for pg in e.get("pages", []):
                owner[pg] = e["e"]
            t, i = e["e"] // 10, e["e"] % 10
            if 1 <= t <= len(prog) and 1 <= i <= len(prog[t - 1]):
                prog[t - 1][i - 1]["s"] = max(1, len(e.get("pages", [])))   # segments of the real entry (same dicts as in the reset line)
            out.append(dict(TDEF, k=k, t=t, i=i, f=e.get("f", 0)))
        elif k in ("wret", "dret"):
            out.append(dict(TDEF, k=k, t=e["e"] // 10, i=e["e"] % 10))
        elif k == "check":
            out.append(dict(TDEF, k="check", f=e["f"], rot=e["rot"]))
        elif k == "writev":
            ents = []
            sg = triples(e.get("segs", []))
            for g in sg:
                en = owner.get(g[0], 0)
                pair = [en // 10, en % 10]
                if not ents or ents[-1] != pair:
                    ents.append(pair)
            out.append(dict(TDEF, k="writev", f=e["f"], cnt=len(sg), ents=ents))
        elif k in ("ccall", "cret"):
            out.append(dict(TDEF, k=k))
        elif k == "end":
            out.append(dict(TDEF, k="end", status=e.get("status", "?")))
    return out
