"""C04: ConcurrentVector - stable addresses, one element per index, built / destroyed once, cooling period.

Pipeline (DESIGN.md 2.4, FRAMEWORK.md):
   1. TLC model-checks the L2 spec CVec.tla: grower families (who wins / loses the table CAS, loser clean-up),
      clock families (Tick between any two steps, stamp wrap), a weak-memory family (Stale = TRUE) - with the
      order table of the code
   2. the real vector is run under vsched with VIRTUAL TIME (client threads sleep 64 s units in microseconds):
      fixed programs, random programs, preemption-bounded exploration, and a "stalled retire" hunt
      (random schedules with a high timer rate that park a thread between its clock read and its CAS)
   3. every selected execution is validated against CVec_Trace (L2 conformance + the L1 clauses on the L2 state
      with the real times + site->order extraction), CVec_Mon (L1 monitor) and HBMon (element / table cells)
   4. the order table read from the running code replaces the committed one when it differs and TLC re-checks
"""
import concurrent.futures
import json
import os
import random
import re
import sys

sys.path.insert(0, os.path.dirname(os.path.abspath(__file__)))
import cvec_common as cv
import vlib
from vlib import log

SPEC = vlib.SPEC
DRIVER = "cvec_driver"
L1_CLAUSES = {"SameElementForSameIndex", "StableAddress", "ConstructedOnceBeforeVisible", "DestroyedOnce", "NotDestroyedEarly",
              "Cooling", "CoolingNoStall", "NoUseAfterFree", "NoLeak", "NoDoubleFree", "NoDataRace", "NoCrash", "Protocol"}
WRAP_T0 = 65534 * 64 - cv.CLOCK_BASE + 40   # virtual start time two units before the 16-bit stamp wraps



def start_at(unit, offset):
    """driver parameter t0 that makes the code's clock (CLOCK_MONOTONIC_RAW) read unit*64 + offset seconds at the start"""
    return unit * 64 + offset - cv.CLOCK_BASE


# clock histories across and well past the 16-bit wrap of the stamp (one unit before it, just past it, at further
# multiples): growth -> snapshot -> short wait (< 64 s) -> further growth / gc() -> snapshot use.  Whatever the
# stamp arithmetic does with the high bits, nothing may be given back here: everything happens within 20 s.
WRAP_PROG = "e0.w5.e1.w5.e2.w5.e3_w2.s.w10.u0.s.w10.u0_w7.g.w5.g.w5.g"
PASTWRAP = [(1, 0, start_at(65535, 55), WRAP_PROG), (1, 0, start_at(65536 + 3, 10), WRAP_PROG),
            (2, 0, start_at(2 * 65536 + 10, 30), "e1.w5.e3.w5.e5_w2.s.w10.u0.s.w3.u2_w7.g.w5.g"), (1, 1, start_at(3 * 65536, 0), WRAP_PROG)]

# (bs, st, t0, prog)
FIXED = [
    (1, 0, 0, "e0_e0"),
    (1, 0, 0, "e1_e2_e0"),
    (1, 0, 0, "e0.e1.e2.e3_e0.e1.e2.e3_e0.e1.e2.e3"),
    (2, 0, 0, "e0.e3_e5.x0_e2.f4"),
    (1, 1, 0, "e2_e1.x1_s.u0.s.u1"),
    (2, 1, 0, "e3_e1.x0_r5.s.u4"),
    (4, 1, 0, "e5_e9.f6_e2.x1"),
    (2, 0, 0, "r4_f3.e1_s.u0.e6.u0.x6"),
    (1, 0, 0, "e0.w70.e1.w70.e2_w100.g.w100.g_s.w60.u0.w10.s.u0.w130.u1"),
    (1, 0, 0, "e0_w30.e1_w128.g.w30.g_w29.s.w40.u0.w40.u0.w40.u0"),
    (2, 0, 0, "e0.w64.e2.w64.e4.w64.e6_w65.g.w64.g.w64.g.w64.g_s.w100.u0.s.w100.u1"),
    (1, 0, WRAP_T0, "e0.w64.e1.w64.e2.w64.e3_w70.g.w64.g.w64.g.w64.g_s.w50.u0.w20.s.w60.u0"),
    (1, 0, 0, "e0.w20.e1.w50.e2_w63.g.w2.g.w62.g.w2.g_w19.s.w45.u0.w20.u0.s.w50.u1"),
]
# second growth from a non-empty table by two threads: every loser path (gives up / retries with a bigger table,
# blocks copied from the old table next to its own speculative ones) within one preemption
PB = [(1, 0, 0, "e0.e1_e0.e2"), (1, 0, 0, "e1_e0.x0"), (1, 0, 0, "e1_e1_g"), (2, 0, 0, "e0_e2_s.u0"), (1, 0, 0, "e0_e1_w130.g_s.w131.u0")]
# a grower whose retire() can be overtaken by a later growth two units on, a gc caller and a snapshot holder
HUNT = [(1, 0, 0, "e0.e3.e6_e1.e4.e7_e2.e5.e8_w131.g.w2.g.w4.g.w20.g_w130.s.w3.u0.s.w3.u0.s.w9.u0"),
        (2, 0, 0, "e1.e7_e3.e9_e5.e11_w131.g.w2.g.w4.g.w20.g_w130.s.w3.u0.s.w3.u0.s.w9.u0")]
HUNT_ARGS = ["--strategy", "random", "--switch", "200", "--time", "100"]


def gen_program(rng):
    bs = rng.choice([1, 1, 2, 2, 4])
    st = rng.choice([0, 0, 1])
    clock = rng.random() < 0.5
    ths = []
    for _ in range(rng.choice([2, 2, 3])):
        ops, hi = [], -1
        for _ in range(rng.choice([1, 2, 3])):
            c = rng.random()
            if clock and c < 0.25:
                ops.append("w%d" % rng.choice([20, 40, 64, 70, 130]))
            elif c < 0.6 or hi < 0:
                i = rng.randint(0, 7)
                ops.append("e%d" % i)
                hi = max(hi, i)
            elif c < 0.7:
                n = rng.randint(1, 8)
                ops.append("r%d" % n)
                hi = max(hi, n - 1)
            elif c < 0.8:
                n = rng.randint(1, 6)
                ops.append("f%d" % n)
                hi = max(hi, n - 1)
            else:
                ops.append("x%d" % rng.randint(0, hi))
        ths.append(ops)
    if rng.random() < 0.7:
        ops = []
        for _ in range(rng.choice([1, 2, 3])):
            if clock:
                ops.append("w%d" % rng.choice([10, 30, 60, 64, 100]))
            ops.append("s")
            if clock:
                ops.append("w%d" % rng.choice([10, 30, 50, 63]))
            ops.append("u%d" % rng.randint(0, 3))
        ths.append(ops)
    if clock or rng.random() < 0.3:
        ops = []
        for _ in range(rng.choice([1, 2, 3])):
            if clock:
                ops.append("w%d" % rng.choice([30, 64, 65, 128, 130]))
            ops.append("g")
        ths.append(ops)
    t0 = rng.choice([0, 0, 0, WRAP_T0]) if clock else 0
    return bs, st, t0, "_".join(".".join(t) for t in ths)


def params_of(bs, st, t0, prog):
    return "bs=%d,st=%d,t0=%d,prog=%s" % (bs, st, t0, prog)


def record(progs, seeds, args, out, jobs=8):
    """run every program for the seed range; returns (executions, status counts); each execution remembers its driver args"""
    execs, status = [], {}
    os.makedirs(os.path.dirname(out), exist_ok=True)
    for idx, pr in enumerate(progs):
        raw = "%s.%d.ndjson" % (out, idx)
        a = ["--scenario", "cvec", "--params", params_of(*pr), "--seeds", "%d:%d" % seeds, "--out", raw, "--max-steps", "20000"] + args
        if "pb" not in args:
            a += ["-j", str(jobs)]
        s = vlib.driver_status(vlib.driver(DRIVER, a))
        for k, v in s["status"].items():
            status[k] = status.get(k, 0) + v
        for ex in vlib.split_traces(raw):
            ex[0]["_args"] = list(args)
            ex[0]["_seeds"] = list(seeds)
            execs.append(ex)
        os.unlink(raw)
    return execs, status


def exec_key(ex):
    h = ex[0]
    return {"scenario": h["scn"], "params": h["params"], "seed": h["seed"], "strategy": h["strategy"], "script": h.get("script", []), "args": h.get("_args", []),
            "seeds": h.get("_seeds", [h["seed"], h["seed"] + 1])}


def rerun(key):
    """re-execute one recorded execution deterministically"""
    params = ",".join("%s=%s" % (k, v) for k, v in key["params"].items())
    raw = os.path.join(vlib.BUILD, "traces", "rerun.%d.ndjson" % os.getpid())
    os.makedirs(os.path.dirname(raw), exist_ok=True)
    extra = list(key.get("args", []))
    if "pb" in extra:
        # vrun cannot start a preemption-bounded run from a given script; the exploration itself is deterministic,
        # so repeat it and pick the execution with the same preemption script
        args = ["--scenario", key["scenario"], "--params", params, "--seeds", "%d:%d" % tuple(key["seeds"]), "--out", raw, "--max-steps", "20000"] + extra
    else:
        args = ["--scenario", key["scenario"], "--params", params, "--seeds", "%d:%d" % (key["seed"], key["seed"] + 1), "--out", raw, "--max-steps", "20000"]
        args += extra if extra else ["--strategy", "mix"]
    vlib.driver(DRIVER, args)
    ex = [x for x in vlib.split_traces(raw) if "pb" not in extra or x[0].get("script", []) == key["script"]]
    os.unlink(raw)
    if ex:
        ex[0][0]["_args"] = extra
        ex[0][0]["_seeds"] = key["seeds"]
    return ex[0] if ex else None


def _last_state(out):
    k = out.rfind("\nState ")
    return out[k:] if k >= 0 else out[-8000:]


def check_traces(tla, cfg, execs, name, max_rounds=4, timeout=1500):
    """vlib.check_traces, but the failing line / final state are read from the complete TLC output (the states of
    CVec are larger than the excerpt vlib keeps).  Returns (accepted, [TraceIssue], stats)."""
    issues, accepted, offset = [], 0, 0
    stats = {"states": 0, "wall": 0.0, "rounds": 0, "pairs": set()}
    todo = list(execs)
    os.makedirs(os.path.join(vlib.BUILD, "traces"), exist_ok=True)
    while todo and stats["rounds"] < max_rounds:
        stats["rounds"] += 1
        path = os.path.join(vlib.BUILD, "traces", "%s.%d.ndjson" % (name, os.getpid()))
        starts, n = [], 0
        with open(path, "w") as f:
            for ex in todo:
                starts.append(n + 1)
                for e in ex:
                    f.write(json.dumps(e, separators=(",", ":")) + "\n")
                n += len(ex)
        r = vlib.validate_trace(tla, cfg, path, timeout=timeout)
        stats["states"] += r.distinct
        stats["wall"] += r.wall
        pv = vlib.parse_verif(r.out)
        if pv:
            stats["pairs"].update(pv[2])
        for blk in re.findall(r'<<"VERIFMO", \{(.*?)\}>>', r.out, re.S):
            stats["pairs"].update(re.findall(r'<<"(\w+)",\s*"(\w+)">>', blk))
        try:
            os.unlink(path)
        except OSError:
            pass
        if r.ok and pv and pv[0] >= pv[1]:
            accepted += len(todo)
            todo = []
            break
        if r.violation and r.violation not in ("tlc_error", "timeout", "postcondition"):
            m = re.findall(r"/\\ l = (\d+)", r.out)
            line = max(1, (int(m[-1]) if m else 1) - 1)
            kind = "invariant:" + r.violation
            detail = _last_state(r.out)
        elif pv:
            line = min(pv[0] + 1, n)
            kind = "rejected"
            detail = "explained %d of %d lines" % (pv[0], pv[1])
        else:
            raise vlib.Broken("trace validation of %s failed: %s" % (name, (r.error_trace or r.out)[-3000:]))
        j = 0
        for idx, st in enumerate(starts):
            if st <= line:
                j = idx
        issues.append(vlib.TraceIssue(offset + j, kind, detail, line - starts[j] + 1))
        accepted += j
        offset += j + 1
        todo = todo[j + 1:]
    stats["pairs"] = sorted(stats["pairs"])
    stats["unchecked"] = len(todo)
    return accepted, issues, stats


def regen_mo(pairs, committed_path, out_dir):
    """site->order table from the pairs seen in the running code; sites not exercised keep the committed order"""
    text = open(committed_path).read()
    committed = dict(re.findall(r"(\w+) \|-> \"(\w+)\"", text))
    rank = {"none": 0, "rlx": 1, "con": 2, "acq": 2, "rel": 2, "ar": 3, "sc": 4}
    seen = {}
    for site, mo in pairs:
        if site in seen and seen[site] != mo:
            a, b = seen[site], mo
            seen[site] = "rlx" if rank[a] == rank[b] else (a if rank[a] < rank[b] else b)
        else:
            seen[site] = mo
    table = dict(committed)
    table.update({k: v for k, v in seen.items() if k in committed})
    unknown = sorted(k for k in seen if k not in committed)
    changed = {k: (committed[k], table[k]) for k in committed if table[k] != committed[k]}
    unobserved = sorted(k for k in committed if k not in seen)
    path = None
    if changed:
        os.makedirs(out_dir, exist_ok=True)
        path = os.path.join(out_dir, "MO_CVec.tla")
        body = ",\n  ".join('%s |-> "%s"' % (k, table[k]) for k in committed)
        open(path, "w").write("------------------------------ MODULE MO_CVec ------------------------------\n(* generated from the running code *)\nMO == [\n  %s\n]\n=============================================================================\n" % body)
    return table, changed, unobserved, unknown, path


STALE = "witness=stale-stamp-push (a retire() was delayed across a 64 s unit boundary between its clock read and its successful head CAS)"
OTHER = "witness=other (no retire() was delayed between clock read and CAS)"


def mc_jobs(tier, old_retire=False):
    """old_retire: the code still has the retire() that reads the clock once (commits before b43a36c): the h4 family
    is then checked in that variant (Fix = FALSE): CoolingNoStall must hold, Cooling is expected to fail (H4)"""
    jobs = [("grow2_sc", "CVec_grow2q_sc.cfg"), ("wm", "CVec_wmq.cfg"), ("wrap_sc", "CVec_wrapq_sc.cfg")]
    if old_retire:
        jobs += [("h4_nostall", "CVec_h4ns_unfixed.cfg"), ("h4_cooling", "CVec_h4_unfixed.cfg")]
    else:
        jobs += [("h4_cooling", "CVec_h4.cfg")]
    if tier == "thorough":
        jobs += [("grow2_full_sc", "CVec_grow2_sc.cfg"), ("grow3_sc", "CVec_grow3_sc.cfg"), ("wm_full", "CVec_wm.cfg"), ("noreduction_xcheck", "CVec_full.cfg")]
        if not old_retire:
            jobs += [("clock_sc", "CVec_clock_sc.cfg"), ("h4_tpu2", "CVec_h4_tpu2.cfg"), ("h4_pastwrap", "CVec_h4w.cfg"), ("wrap_full_sc", "CVec_wrap_sc.cfg"), ("h4_old_retire_nostall", "CVec_h4ns_unfixed.cfg")]
    return [(n, os.path.join(SPEC, "mc", c)) for n, c in jobs if os.path.exists(os.path.join(SPEC, "mc", c))]


def run_mc(jobs, table, lib, workers):
    tag = json.dumps(table, sort_keys=True)

    def one(j):
        return j[0], vlib.tlc(os.path.join(SPEC, "MC_CVec.tla"), j[1], cache=True, extra_hash=tag, lib_dirs=lib, timeout=3000, heap="12g", workers=workers)

    with concurrent.futures.ThreadPoolExecutor(max_workers=4) as pool:
        return list(pool.map(one, jobs))


def run(pid, tier, seed, replay=None):
    V = vlib.Verdict(pid, tier, seed)
    rng = random.Random(seed * 7919 + 4)
    vlib.build([DRIVER])
    mo_committed = os.path.join(SPEC, "mo", "MO_CVec.tla")
    committed = dict(re.findall(r"(\w+) \|-> \"(\w+)\"", open(mo_committed).read()))
    quick = tier == "quick"

    # ---- 1. model checking with the committed order table starts in the background
    pool = concurrent.futures.ThreadPoolExecutor(max_workers=1)
    mc_future = None if replay else pool.submit(run_mc, mc_jobs(tier), committed, [], 4 if quick else 8)

    # ---- 2. executions of the real code
    tr = os.path.join(vlib.BUILD, "traces")
    hunted = 0
    if replay:
        key = json.load(open(replay))
        execs, status = [rerun(key["exec"])], {}
    else:
        s0 = seed * 1000 + 1
        execs, status = record(FIXED, (s0, s0 + (3 if quick else 30)), ["--strategy", "mix"], os.path.join(tr, pid + "_fixed"))
        e5, s5 = record(PASTWRAP, (s0, s0 + (2 if quick else 20)), ["--strategy", "mix"], os.path.join(tr, pid + "_wrap"))
        execs += e5
        for k, v in s5.items():
            status[k] = status.get(k, 0) + v
        rprogs = [gen_program(rng) for _ in range(10 if quick else 150)]
        e2, s2 = record(rprogs, (s0, s0 + (2 if quick else 4)), ["--strategy", "mix"], os.path.join(tr, pid + "_rand"), jobs=4)
        e3, s3 = record(PB[:1] if quick else PB, (1, 2), ["--strategy", "pb", "--pb-bound", "1" if quick else "2", "--max-execs", "80" if quick else "600"], os.path.join(tr, pid + "_pb"))
        # stalled-retire hunt: record many schedules, let the specifications judge those in which a retire() pushed a
        # stamp read in an earlier unit (plus a sample of the others)
        e4, s4 = record(HUNT[:1] if quick else HUNT, (s0, s0 + (250 if quick else 3000)), HUNT_ARGS, os.path.join(tr, pid + "_hunt"))
        hunted = len(e4)
        # which of the many recorded schedules are validated is a selection, not a verdict: those in which a table
        # seems to have been given back early (first the ones where the snapshot holder noticed), plus a sample
        cand = [ex for ex in e4 if cv.early_free_suspect(ex)]
        cand.sort(key=lambda ex: -sum(1 for e in ex if e.get("k") == "ret" and e.get("op") == "u" and e.get("freed")))
        rest = [ex for ex in e4 if not cv.early_free_suspect(ex)]
        V.extra["hunt"] = {"recorded": hunted, "stale_push": len([ex for ex in e4 if cv.stale_push(ex)]), "early_free_suspects": len(cand)}
        e4 = cand[:1 if quick else 25] + rest[:2 if quick else 100]
        execs = e4 + execs + e2 + e3
        for s in (s2, s3, s4):
            for k, v in s.items():
                status[k] = status.get(k, 0) + v
    V.extra["executions_validated"] = len(execs)
    V.extra["exec_status"] = status

    # ---- 3. validation
    results = {}
    old_retire = False
    for name, tla, cfg, conv in (
        ("L1", os.path.join(SPEC, "CVec_Mon.tla"), os.path.join(SPEC, "mc", "CVec_Mon.cfg"), cv.monitor_lines),
        ("HB", os.path.join(SPEC, "lib", "HBMon.tla"), os.path.join(SPEC, "mc", "HBMon.cfg"), cv.hb_lines),
        ("L2", os.path.join(SPEC, "CVec_Trace.tla"), os.path.join(SPEC, "mc", "CVec_Trace.cfg"), cv.l2_lines),
    ):
        lines = [conv(ex) for ex in execs]
        acc, issues, st = check_traces(tla, cfg, lines, pid + "_" + name)
        if name == "L2" and any(i.kind == "rejected" for i in issues):
            # does the code still have the retire() that reads the clock only once (before commit b43a36c)?
            cfg2 = os.path.join(SPEC, "mc", "CVec_TraceOld.cfg")
            acc2, issues2, st2 = check_traces(tla, cfg2, lines, pid + "_L2old")
            if not any(i.kind == "rejected" for i in issues2):
                log("NOTE: the code conforms to the variant of CVec.tla with Fix = FALSE: retire() reads the clock once, before its CAS loop (hypothesis H4)")
                acc, issues, st, cfg, old_retire = acc2, issues2, st2, cfg2, True
        results[name] = (acc, issues, st)
        V.cov["transitions"] += st["states"]
        V.extra["trace_" + name] = {"accepted": acc, "issues": len(issues), "tlc_states": st["states"], "wall_s": round(st["wall"], 1), "unchecked": st["unchecked"]}
        for iss in issues:
            ex = execs[iss.exec_index]
            key = exec_key(ex)
            if iss.kind == "rejected":
                if name == "L2":
                    V.drift += 1
                    ln = lines[iss.exec_index][iss.line - 1] if 0 < iss.line <= len(lines[iss.exec_index]) else {}
                    log("SPEC-DRIFT component=concurrent_vector exec=%s seed=%s line=%d %s got=%s" % (key["params"].get("prog"), key["seed"], iss.line, iss.detail, json.dumps({k: v for k, v in ln.items() if v not in (0, "", [])})))
                    continue
                raise vlib.Broken("%s monitor rejected a trace (monitors must accept every well-formed trace): %s" % (name, iss.detail))
            clause = iss.kind.split(":", 1)[1]
            what = clause[1:] if clause.startswith("T") and clause[1:] in L1_CLAUSES else clause
            stalled = bool(cv.stale_push(ex))
            if name == "L1":
                m = re.findall(r'bad = "(\w+)"', iss.detail)
                what = m[-1] if m and m[-1] else clause
            elif name == "HB":
                what = "NoDataRace"
            else:
                m = re.findall(r"stalled \|-> (TRUE|FALSE)", iss.detail)
                stalled = (m[-1] == "TRUE") if m else stalled
            if what not in L1_CLAUSES:
                raise vlib.Broken("unexpected verdict %s from %s" % (what, name))
            if not replay:  # reproducibility: the same schedule must fail again
                ex2 = rerun(key)
                same = ex2 is not None and len(ex2) == len(ex) and all(a == b for a, b in zip(ex[1:], ex2[1:]))
                if ex2 is None:
                    raise vlib.Broken("could not re-execute %s" % json.dumps(key))
                if not same:  # not the identical trace: let the specification judge the re-execution
                    _, iss2, _ = check_traces(tla, cfg, [conv(ex2)], pid + "_re") if ex2 else (0, [], {})
                    if not iss2:
                        raise vlib.Broken("violation %s did not reproduce on re-execution of %s" % (what, json.dumps(key)))
            wit = ""
            if what in ("Cooling", "NoUseAfterFree"):
                wit = " " + (STALE if stalled else OTHER)
            rp = vlib.save_replay(pid, "%s_%s_%d.json" % (name, what, iss.exec_index), {"exec": key, "clause": what, "layer": name, "line": iss.line, "trace": ex[:400]})
            V.violation("%s violated on an execution of the real code (%s layer) prog=%s bs=%s seed=%s%s" % (what, name, key["params"].get("prog"), key["params"].get("bs"), key["seed"], wit), rp)
    V.cov["traces_validated_against_impl"] = results["L1"][0] + results["L2"][0] + results["HB"][0]
    for ex in execs[:2] + execs[-1:]:
        V.sample({"program": ex[0]["params"], "strategy": ex[0]["strategy"], "seed": ex[0]["seed"], "events": len(ex), "first_events": [{k: v for k, v in e.items()} for e in ex[1:7]]})

    # ---- binding self-test (thorough): a trace with one corrupted field / one dropped line must be rejected
    if not quick and not replay and results["L2"][0] > 0:
        cfg_used = os.path.join(SPEC, "mc", "CVec_TraceOld.cfg" if old_retire else "CVec_Trace.cfg")
        bad_idx = {i.exec_index for i in results["L2"][1]}
        good = [cv.l2_lines(ex) for j, ex in enumerate(execs) if j not in bad_idx and any(e.get("k") == "cas" for e in ex)][:1]
        if good:
            base = good[0]
            k = next(j for j, e in enumerate(base) if e["k"] == "cas")
            c1 = [dict(e) for e in base]
            c1[k]["ok"] = not c1[k]["ok"]
            r = next(j for j, e in enumerate(base) if e["k"] == "ret" and e["op"] == "e")
            c2 = [dict(e) for e in base]
            c2[r]["off"] += 1
            c3 = [dict(e) for j, e in enumerate(base) if j != k]
            for nm, c in (("flipped CAS outcome", c1), ("wrong element in ret", c2), ("dropped CAS line", c3)):
                _, iss, _ = check_traces(os.path.join(SPEC, "CVec_Trace.tla"), cfg_used, [c], pid + "_selftest")
                if not any(i.kind == "rejected" for i in iss):
                    raise vlib.Broken("binding self-test: trace with %s was not rejected by CVec_Trace" % nm)
            V.extra["binding_selftest"] = "3 corrupted traces rejected"

    # ---- 4. order table read from the running code, TLC with the code's orders
    table, changed, unobserved, unknown, mo_path = regen_mo(results["L2"][2]["pairs"], mo_committed, os.path.join(vlib.BUILD, "gen", "mo_" + pid))
    V.extra["mo_table"] = table
    V.extra["mo_changed_vs_committed"] = {k: list(v) for k, v in changed.items()}
    V.extra["mo_sites_unobserved"] = unobserved
    V.extra["l2_conformant"] = V.drift == 0
    V.extra["code_variant"] = "retire() reads the clock once before its CAS loop (Fix = FALSE, before b43a36c)" if old_retire else "retire() re-reads the clock before every CAS of its push loop (Fix = TRUE)"
    if unknown:
        raise vlib.Broken("sites not in MO_CVec.tla: %s" % unknown)
    if not replay:
        mcs = mc_future.result()
        if changed or old_retire:
            log("order table / variant of the running code differs from the committed one: %s old_retire=%s -> re-checking the model" % (json.dumps(changed), old_retire))
            mcs = run_mc(mc_jobs(tier, old_retire), table, [os.path.dirname(mo_path)] if mo_path else [], 8)
        for name, r in mcs:
            V.add_tlc(name, r)
            if r.ok:
                continue
            if r.violation in ("tlc_error", "timeout"):
                raise vlib.Broken("TLC failed on %s: %s" % (name, r.error_trace[:2000]))
            clause = r.violation
            if clause not in L1_CLAUSES:
                raise vlib.Broken("unexpected TLC verdict %s on %s" % (clause, name))
            if V.drift:
                log("NOTE: TLC counterexample for %s (%s) ignored for the verdict because the L2 spec drifted from the code" % (clause, name))
                continue
            wit = ""
            if clause in ("Cooling", "NoUseAfterFree"):
                m = re.findall(r"stalled \|-> (TRUE|FALSE)", r.out)
                wit = " " + (STALE if (m and m[-1] == "TRUE") else OTHER)
            rp = vlib.save_replay(pid, "tlc_%s_%s.txt" % (name, clause), "order table (from the running code): %s\nchanged vs committed: %s\n\n%s" % (json.dumps(table), json.dumps(changed), r.out[r.out.find("Error:"):][:200000]))
            V.violation("%s violated in the L2 model %s with the memory orders the code executes (changed: %s)%s" % (clause, name, json.dumps(changed), wit), rp)
        V.cov["exhaustive"] = True
    pool.shutdown(wait=False)
    V.extra["mc_constants"] = {"quick": "block size 1-2, indices <= 5, 2 growers (+ gc caller / snapshot holder), TPU = 1 tick per 64 s unit, stamp mod 4, <= 2 ticks",
                               "thorough": "+ 3 growers, 3 growers + holder + 2 gc callers, TPU = 2, <= 5 ticks, start two units before the stamp wrap, Stale = TRUE families, unreduced cross-check"}
    V.assumptions += [
        "WeakMem.tla is a subset of ISO C++ (promise-free release/acquire + fences, stores at the end of mo)",
        "time is discrete: TPU ticks per 64 s unit when model checking (1 or 2), seconds when validating traces; the stamp modulus is 4 / 8 in the model, 65536 in traces",
        "RetireList nodes are never recycled in the model (no ABA on _head), allocations are quarantined in the driver",
        "executions are serialised by vsched; virtual time advances only when a sleeping thread's timer fires",
    ]
    return V.finish()
