"""C16: ConcurrentExecutionQueue.  Pipeline (DESIGN.md 2.4, FRAMEWORK.md):
   1. TLC model-checks the L2 spec EQ.tla (abstract inner queue; SC families incl. fault sequences, a
      weak-memory family, liveness under fairness in the thorough tier) with the committed order table
   2. the real queue is run under vsched with a scripted executor (inline / asynchronous / refusing):
      fixed + random programs under random / PCT schedules, small programs under preemption-bounded
      systematic exploration (reaches the consumer's exit window deterministically)
   3. every recorded execution is validated against EQ_Mon (L1 clauses of the property statement),
      HBMon (happens-before on the payload) and EQ_Trace (L2 conformance, collects site -> order)
   4. the order table read from the running code is compared with the committed one; if it differs the
      model is re-checked with the code's orders (conformant L2 + TLC counterexample = V2)
"""
import hashlib
import json
import os
import random
import re
import sys
import time
from concurrent.futures import ThreadPoolExecutor

sys.path.insert(0, os.path.dirname(os.path.abspath(__file__)))
import eq_common as eq
import vlib
from vlib import log

SPEC = vlib.SPEC
KNOWN_TAG = "behind-inflight-push"   # witness class of finding C16_join_behind_inflight_push (known_findings.json)

# (cap, mode, faults, retry, prog)
FIXED = [
    (1, "a", "", 1, "e.e_j"),
    (1, "a", "", 1, "e.e.j"),
    (2, "a", "", 1, "e.e_e.j"),
    (2, "i", "", 1, "e.e_e.j"),
    (1, "i", "", 1, "e.e_e.e_j"),
    (2, "a", "", 1, "e.e.e_e.e.j"),       # head not at the ring start: two-segment polls
    (2, "a", "", 1, "e.e.e.j_j"),
    (4, "a", "", 1, "e.e_e.e_e.e"),
    (4, "i", "", 1, "e.e.j_e.e_e.j"),
    (4, "a", "", 1, "e.e.e_e"),           # 3-4 signals in one busy period (counter > 1), late producers
    (4, "a", "", 1, "e.e.e.e_e_e"),
    (2, "a", "", 1, "e.e_e_e.j"),
    (2, "a", "f", 1, "e.e_e.j"),
    (2, "i", "f", 1, "e.e_e.j"),
    (1, "a", "ff", 1, "e.e_e"),
    (2, "a", "of", 1, "e_e.e"),
    (4, "a", "f", 0, "e.e_e.s.j"),
    (4, "i", "fof", 0, "e.e_e.e"),
    (2, "a", "off", 1, "e.e_e.j"),
    (4, "a", "fff", 0, "e_e_e"),
    (1, "i", "fo", 1, "e.e_e.e"),
]
# preemption-bounded systematic exploration.  Two threads and ONE preemption reach the consumer's exit window
# (empty poll .. counter reset): the scheduler's free choice after a thread exits lets the consumer run first,
# the single preemption puts the other producer's push + signal between its last poll and its CAS.
PB = [
    (2, "i", "", 1, "e_e"),               # inline consumer inside producer 1, producer 2 in its exit window
    (2, "a", "", 1, "e_e"),               # asynchronous consumer
    (2, "a", "", 1, "e.e_e"),             # counter above 1 (two signals in one busy period), then a late producer in the exit window
    (1, "a", "", 1, "e_e.j"),             # capacity 1, a producer that joins
    (2, "a", "f", 1, "e_e"),              # refused launch: roll-back CAS against the other producer's signal
    (2, "i", "f", 0, "e_e"),              # refused, nobody retries: next task / main thread resumes
    (2, "a", "", 1, "e.e"),               # one producer against its own consumer
]
PB_THOROUGH = [
    (4, "a", "", 1, "e.e.e_e"),           # three signals in one busy period + late producer
    (2, "i", "", 1, "e_e.e"),
    (2, "a", "", 1, "e.e_e"),
    (1, "a", "", 1, "e.e_e.j"),
    (2, "i", "", 1, "e.e_e.j"),
    (2, "a", "ff", 1, "e.e_e"),
    (4, "a", "fo", 0, "e.e_e.s"),
    (2, "a", "of", 1, "e_e_j"),
]

ASSUMPTIONS = [
    "the inner ConcurrentBoundedQueue is the abstract bounded FIFO of EQ.tla (ticket order, publication flag with release/acquire, "
    "blocking push when full, try_pop_n = published prefix in at most two ring segments): its own atomics are verified by C01/C02 and filtered from the EQ traces",
    "WeakMem.tla is a subset of ISO C++ (promise-free release/acquire + fences, stores at the end of mo); seq_cst accesses have hardware strength",
    "executions are serialised by vsched: one thread runs between two atomic operations; weak-memory outcomes are decided on the model, not on the host",
    "the asynchronous executor is modelled / driven as 'a fresh thread per accepted launch' (thread creation gives the happens-before edge any real executor's hand-over gives)",
    "a join() overlapping a refused launch, or called while the last launch was refused, is not judged (the statement conditions the clause on accepted launches)",
]


def record_one(idx, prg, seeds, strategy, out, jobs, extra):
    raw = "%s.%d.ndjson" % (out, idx)
    args = ["--scenario", "eq", "--params", eq.params_of(*prg), "--strategy", strategy, "--seeds", "%d:%d" % seeds, "--out", raw, "--max-steps", "6000", "--timeout-ms", "60000"]
    if strategy != "pb":
        args += ["-j", str(jobs)]
    if extra:
        args += extra
    s = vlib.driver_status(vlib.driver("eq_driver", args))
    ex = list(vlib.split_traces(raw))
    os.unlink(raw)
    return ex, s["status"]


def record(progs, seeds, strategy, out, jobs=4, extra=None, par=4):
    os.makedirs(os.path.dirname(out), exist_ok=True)
    execs, status = [], {}
    with ThreadPoolExecutor(max_workers=par) as pool:
        futs = [pool.submit(record_one, i, p, seeds, strategy, out, jobs, extra) for i, p in enumerate(progs)]
        for f in futs:
            ex, st = f.result()
            execs += ex
            for k, v in st.items():
                status[k] = status.get(k, 0) + v
    return execs, status


def exec_key(ex, pb=None):
    h = ex[0]
    k = {"scenario": h["scn"], "params": h["params"], "seed": h["seed"], "strategy": h["strategy"], "script": h.get("script", [])}
    if h["strategy"] == "pb":
        k["pb"] = pb or PB_ARGS["quick"]
    return k


PB_ARGS = {"quick": {"bound": 1, "max_execs": 220}, "thorough": {"bound": 2, "max_execs": 3000}}


def rerun(key):
    """re-execute one recorded execution deterministically"""
    p = key["params"]
    params = ",".join("%s=%s" % (k, v) for k, v in p.items())
    raw = os.path.join(vlib.BUILD, "traces", "eq_rerun.%d.%d.ndjson" % (os.getpid(), int(time.time() * 1000) % 1000000))
    st = key["strategy"]
    args = ["--scenario", key["scenario"], "--params", params, "--seeds", "%d:%d" % (key["seed"], key["seed"] + 1), "--out", raw, "--max-steps", "6000", "--timeout-ms", "60000"]
    if st == "pb":
        # vrun's systematic exploration is deterministic: repeat it and pick the execution with the same preemption script
        pb = key.get("pb") or PB_ARGS["quick"]
        args += ["--strategy", "pb", "--pb-bound", str(pb["bound"]), "--max-execs", str(pb["max_execs"])]
    elif st in ("pct", "random"):
        args += ["--strategy", "mix"]
    else:
        args += ["--strategy", st]
    vlib.driver("eq_driver", args)
    ex = list(vlib.split_traces(raw))
    os.unlink(raw)
    if st == "pb":
        ex = [x for x in ex if x[0].get("script", []) == key.get("script", [])]
    return ex[0] if ex else None


def model_check(name, cfg, tag, lib, timeout):
    time.sleep(0.05 * (hash(name) % 7))   # distinct metadir stamps for concurrent runs
    return vlib.tlc(os.path.join(SPEC, "MC_EQ.tla"), os.path.join(SPEC, "mc", cfg), cache=True, extra_hash=tag, lib_dirs=lib, timeout=timeout, heap="16g", workers=max(2, vlib.NCPU // 3))


def committed_table():
    return dict(re.findall(r"(\w+) \|-> \"(\w+)\"", open(os.path.join(SPEC, "mo", "MO_EQ.tla")).read()))


def run(pid, tier, seed, replay=None):
    V = vlib.Verdict(pid, tier, seed)
    rng = random.Random(seed * 7919 + 16)
    vlib.build(["eq_driver"])
    mo_committed = os.path.join(SPEC, "mo", "MO_EQ.tla")
    quick = tier == "quick"
    pool = ThreadPoolExecutor(max_workers=8)

    # ---- 1. TLC on the L2 model with the committed order table (runs while the real code is recorded)
    mcs = [("sc_quick", "EQ_quick_sc.cfg"), ("wm", "EQ_wm.cfg"), ("join_as_stated", "EQ_joinstrict.cfg")]
    if not quick:
        # state counts (distinct): h2 ~0.2M, hj ~0.3M, h3 0.95M, f2 1.9M, f2n ~0.2M, f3 ~0.5M, wm2 81k, live 6.5k
        mcs += [("sc_h2", "EQ_h2_sc.cfg"), ("sc_hj", "EQ_hj_sc.cfg"), ("sc_h3", "EQ_h3_sc.cfg"), ("sc_f2", "EQ_f2_sc.cfg"),
                ("sc_f2n", "EQ_f2n_sc.cfg"), ("sc_f3", "EQ_f3_sc.cfg"), ("wm2", "EQ_wm2.cfg"), ("live", "EQ_live.cfg")]
        if os.environ.get("C16_DEEP"):   # deepening: > 1M states each
            mcs += [("sc_h2x", "EQ_h2x_sc.cfg"), ("sc_hjx", "EQ_hjx_sc.cfg"), ("sc_h3x2", "EQ_h3x2_sc.cfg")]
    tag0 = json.dumps(committed_table(), sort_keys=True)
    mc_futs = {}
    if not replay:
        for name, cfg in mcs:
            mc_futs[name] = (cfg, pool.submit(model_check, name, cfg, tag0, [], 600 if quick else 3000))

    # ---- 2. executions of the real code
    if replay:
        key = json.load(open(replay))
        ex = rerun(key["exec"])
        if ex is None:
            raise vlib.Broken("replay produced no execution")
        execs, status = [ex], {}
    else:
        tr = os.path.join(vlib.BUILD, "traces")
        nseeds = 4 if quick else 150
        execs, status = record(FIXED, (seed * 1000 + 1, seed * 1000 + 1 + nseeds), "mix", os.path.join(tr, pid + "_fixed"))
        rprogs = [eq.gen_program(rng, big=not quick) for _ in range(12 if quick else 300)]
        e2, s2 = record(rprogs, (seed * 1000 + 1, seed * 1000 + (4 if quick else 9)), "mix", os.path.join(tr, pid + "_rand"), jobs=2)
        execs += e2
        pbp = PB[:5] if quick else PB + PB_THOROUGH
        e3, s3 = record(pbp, (1, 2), "pb", os.path.join(tr, pid + "_pb"), extra=["--pb-bound", str(PB_ARGS[tier]["bound"]), "--max-execs", str(PB_ARGS[tier]["max_execs"])], par=8)
        execs += e3
        for s in (s2, s3):
            for k, v in s.items():
                status[k] = status.get(k, 0) + v
    V.extra["executions"] = len(execs)
    V.extra["record_wall_s"] = round(time.time() - V.t0, 1)
    log("C16: recorded %d executions in %.1fs" % (len(execs), time.time() - V.t0))
    V.extra["exec_status"] = status

    # ---- 3. validation of the recorded executions (three specifications, in parallel)
    hb_ok = [i for i, ex in enumerate(execs) if eq.max_thread(ex) <= 15]   # HBMon knows threads 0..15
    layers = (
        ("L1", os.path.join(SPEC, "EQ_Mon.tla"), os.path.join(SPEC, "mc", "EQ_Mon.cfg"), lambda i: eq.monitor_lines(execs[i], i), list(range(len(execs)))),
        ("HB", os.path.join(SPEC, "lib", "HBMon.tla"), os.path.join(SPEC, "mc", "HBMon.cfg"), lambda i: eq.hb_lines(execs[i]), hb_ok),
        ("L2", os.path.join(SPEC, "EQ_Trace.tla"), os.path.join(SPEC, "mc", "EQ_Trace.cfg"), lambda i: eq.normalise(execs[i]), list(range(len(execs)))),
    )
    # executions whose normalised trace is identical are validated once (the representative stands for all of them)
    futs, reps = {}, {}
    for name, tla, cfg, conv, idxs in layers:
        seen, keep, lines = {}, [], []
        for i in idxs:
            ln = conv(i)
            h = hashlib.md5(json.dumps([dict(x, xid=0) if "xid" in x else x for x in ln], sort_keys=True).encode()).hexdigest()
            if h in seen:
                continue
            seen[h] = i
            keep.append(i)
            lines.append(ln)
        reps[name] = keep
        futs[name] = pool.submit(vlib.check_traces, tla, cfg, lines, pid + "_" + name, 4)
    results = {}
    for name, tla, cfg, conv, idxs0 in layers:
        idxs = reps[name]
        acc, issues, st = futs[name].result()
        results[name] = (acc, issues, st)
        log("C16: %s validated %d distinct traces (%d executions) at %.1fs" % (name, len(idxs), len(idxs0), time.time() - V.t0))
        V.cov["transitions"] += st["states"]
        V.extra["trace_" + name] = {"accepted": acc, "of": len(idxs), "executions_represented": len(idxs0), "issues": len(issues), "tlc_states": st["states"], "wall_s": round(st["wall"], 1), "unchecked": st["unchecked"]}
        for iss in issues:
            xi = idxs[iss.exec_index]
            ex = execs[xi]
            key = exec_key(ex, PB_ARGS.get(tier))
            if iss.kind == "rejected":
                if name == "L2":
                    V.drift += 1
                    lines = conv(xi)
                    at = lines[iss.line - 1] if 0 < iss.line <= len(lines) else {}
                    log("SPEC-DRIFT component=execution_queue exec=%s seed=%s strategy=%s line=%d %s at %s" % (json.dumps(key["params"]), key["seed"], key["strategy"], iss.line, iss.detail, json.dumps(at)))
                    continue
                raise vlib.Broken("%s monitor rejected a trace (monitors must accept every well-formed trace): %s" % (name, iss.detail))
            clause = iss.kind.split(":", 1)[1]
            what = clause.lstrip("T") if name == "L2" else clause
            if name == "L1":
                m = re.findall(r'bad = "(\w+)"', iss.detail)
                what = m[-1] if m and m[-1] else clause
            if name == "HB":
                what = "NoDataRace"
            if what == "Protocol":
                raise vlib.Broken("driver protocol violated (call/ret nesting): %s" % json.dumps(key))
            # reproducibility: the same schedule must fail again
            if not replay:
                ex2 = rerun(key)
                lines2 = [conv_of(name, ex2, xi)] if ex2 else []
                iss2 = vlib.check_traces(tla, cfg, lines2, pid + "_re_" + name)[1] if lines2 else []
                if not iss2:
                    raise vlib.Broken("violation %s did not reproduce on re-execution of %s" % (what, json.dumps(key)))
            rp = vlib.save_replay(pid, "%s_%s_%d.json" % (name, what, xi), {"exec": key, "clause": what, "layer": name, "line": iss.line, "trace": ex[:400]})
            V.violation("%s violated on an execution of the real code (%s layer) params=%s seed=%s strategy=%s" % (what, name, json.dumps(key["params"]), key["seed"], key["strategy"]), rp)
    # ---- drift-guided intensification: where the code no longer follows the L2 specification the conformance
    # argument is gone, so the programs around the drift are explored much harder and judged by the L1 monitor alone
    if V.drift and not replay and not V.violations:
        dprogs, seenp = [], set()
        for iss in results["L2"][1]:
            if iss.kind == "rejected":
                c = eq.cfg_of(execs[reps["L2"][iss.exec_index]][0]["params"])
                pr = (c["cap"], c["mode"], "".join("f" if f else "o" for f in c["faults"]), int(c["retry"]), "_".join(".".join(t) for t in c["prog"]))
                if pr not in seenp:
                    seenp.add(pr)
                    dprogs.append(pr)
        for pr in PB + PB_THOROUGH:
            if pr not in seenp:
                seenp.add(pr)
                dprogs.append(pr)
        tr = os.path.join(vlib.BUILD, "traces")
        big = {"bound": 2, "max_execs": 1200 if quick else 20000}
        x1, _ = record(dprogs, (seed * 1000 + 500, seed * 1000 + 500 + (40 if quick else 600)), "mix", os.path.join(tr, pid + "_driftmix"), jobs=4)
        x2, _ = record(dprogs, (1, 2), "pb", os.path.join(tr, pid + "_driftpb"), extra=["--pb-bound", str(big["bound"]), "--max-execs", str(big["max_execs"])], par=8)
        xs = x1 + x2
        V.extra["drift_guided_executions"] = len(xs)
        seenh, keep, lines = set(), [], []
        for i, ex in enumerate(xs):
            ln = eq.monitor_lines(ex, i)
            h = hashlib.md5(json.dumps([dict(x, xid=0) for x in ln], sort_keys=True).encode()).hexdigest()
            if h not in seenh:
                seenh.add(h)
                keep.append(i)
                lines.append(ln)
        mon, moncfg = os.path.join(SPEC, "EQ_Mon.tla"), os.path.join(SPEC, "mc", "EQ_Mon.cfg")
        acc, issues, st = vlib.check_traces(mon, moncfg, lines, pid + "_driftL1", 4)
        log("C16: drift-guided: %d executions, %d distinct L1 traces, %d issues at %.1fs" % (len(xs), len(keep), len(issues), time.time() - V.t0))
        for iss in issues:
            ex = xs[keep[iss.exec_index]]
            key = exec_key(ex, big)
            if iss.kind == "rejected":
                raise vlib.Broken("L1 monitor rejected a trace: %s" % iss.detail)
            m = re.findall(r'bad = "(\w+)"', iss.detail)
            what = m[-1] if m and m[-1] else iss.kind.split(":", 1)[1]
            ex2 = rerun(key)
            iss2 = vlib.check_traces(mon, moncfg, [eq.monitor_lines(ex2, 0)], pid + "_re_driftL1")[1] if ex2 else []
            if not iss2:
                raise vlib.Broken("violation %s did not reproduce on re-execution of %s" % (what, json.dumps(key)))
            rp = vlib.save_replay(pid, "L1_%s_drift_%d.json" % (what, keep[iss.exec_index]), {"exec": key, "clause": what, "layer": "L1", "line": iss.line, "trace": ex[:400]})
            V.violation("%s violated on an execution of the real code (L1 layer, drift-guided) params=%s seed=%s strategy=%s" % (what, json.dumps(key["params"]), key["seed"], key["strategy"]), rp)

    # witnesses of the known finding seen by the L1 monitor (execution ids)
    kn = sorted({int(x[1:]) for tagname, x in results["L1"][2]["pairs"] if tagname == "JoinBehindInflightPush" and x[1:].isdigit()})
    V.extra["known_witness_executions"] = len(kn)
    for xi in kn[:1]:
        key = exec_key(execs[xi], PB_ARGS.get(tier))
        rp = vlib.save_replay(pid, "L1_JoinReturnsAfterConsumed_%s_%d.json" % (KNOWN_TAG, xi), {"exec": key, "clause": "JoinReturnsAfterConsumed", "layer": "L1", "trace": execs[xi][:400]})
        V.violation("JoinReturnsAfterConsumed violated on an execution of the real code (L1 layer, %s: join() returned while an item submitted before it was still queued behind an execute() in flight) params=%s seed=%s strategy=%s"
                    % (KNOWN_TAG, json.dumps(key["params"]), key["seed"], key["strategy"]), rp)
    V.cov["traces_validated_against_impl"] = results["L1"][0] + results["L2"][0] + results["HB"][0]
    shown = set()
    for ex in execs:
        p = json.dumps(ex[0]["params"], sort_keys=True)
        if p not in shown and len(shown) < 4:
            shown.add(p)
            V.sample({"program": ex[0]["params"], "strategy": ex[0]["strategy"], "seed": ex[0]["seed"], "events": len(ex), "status": ex[-1].get("status"),
                      "first_events": [e for e in ex[1:40] if e.get("k") in ("call", "ret", "sub", "cbb", "faa", "cas")][:8]})

    # ---- 4. order table read from the running code
    table, changed, unobserved, unknown, mo_path = eq.regen_mo(results["L2"][2]["pairs"], mo_committed, os.path.join(vlib.BUILD, "gen", "mo_" + pid))
    V.extra["mo_table"] = table
    V.extra["mo_changed_vs_committed"] = {k: list(v) for k, v in changed.items()}
    V.extra["mo_sites_unobserved"] = unobserved
    V.extra["mo_sites_unknown"] = unknown
    V.extra["l2_conformant"] = V.drift == 0

    # ---- 5. TLC verdicts (re-run with the code's orders when they differ from the committed table)
    if not replay:
        tag = json.dumps(table, sort_keys=True)
        lib = [os.path.dirname(mo_path)] if mo_path else []
        for name, cfg in mcs:
            r = mc_futs[name][1].result()
            if changed:
                if name in ("live",) or (name.startswith("sc_") and name != "sc_quick"):
                    pass   # the big SC families do not depend on the orders (Stale = FALSE): keep the committed-table result
                else:
                    r = model_check(name, cfg, tag, lib, 600 if quick else 3000)
            V.add_tlc(name, r)
            if r.ok:
                continue
            if r.violation in ("tlc_error", "timeout"):
                raise vlib.Broken("TLC failed on %s: %s" % (cfg, (r.error_trace or r.out)[:2000]))
            clause = r.violation
            if name == "join_as_stated" and clause == "JoinReturnsAfterConsumed":
                rp = vlib.save_replay(pid, "tlc_%s_%s.txt" % (name, clause), r.error_trace)
                V.violation("JoinReturnsAfterConsumed violated in the L2 model %s (%s: the clause exactly as stated fails when an execute() holding an earlier ticket is still in flight)" % (cfg, KNOWN_TAG), rp)
                continue
            if V.drift:
                log("NOTE: TLC counterexample for %s ignored for the verdict because the L2 spec drifted from the code" % clause)
                continue
            rp = vlib.save_replay(pid, "tlc_%s_%s.txt" % (name, clause), "order table (from the running code): %s\nchanged vs committed: %s\n\n%s" % (json.dumps(table), json.dumps(changed), r.error_trace))
            if changed or name == "join_as_stated":
                V.violation("%s violated in the L2 model %s with the memory orders the code executes (changed: %s)" % (clause, cfg, json.dumps(changed)), rp)
            else:
                raise vlib.Broken("TLC reports %s on %s with the committed order table on a conformant tree: the specification is wrong (%s)" % (clause, cfg, rp))
        V.cov["exhaustive"] = True
    pool.shutdown(wait=False)
    V.assumptions += ASSUMPTIONS
    return V.finish()


def conv_of(name, ex, xi):
    if name == "L1":
        return eq.monitor_lines(ex, xi)
    if name == "HB":
        return eq.hb_lines(ex)
    return eq.normalise(ex)
