"""ConcurrentTransientHashSet / HashMap (C18): script generation (random, TLC BFS, TLC -simulate),
driver invocation and trace normalisation.  Nothing here judges an observation: scripts are produced,
executed by harness/drivers/hset_driver.cc on the real containers, and the recorded traces are handed to
TLC (spec/HSet_Trace.tla)."""
import hashlib
import json
import os
import re
import sys

sys.path.insert(0, os.path.join(os.path.dirname(os.path.abspath(__file__)), "..", "tools"))
import vlib

SPEC = vlib.SPEC
MC_TLA = os.path.join(SPEC, "MC_HSet.tla")
TRACE_TLA = os.path.join(SPEC, "HSet_Trace.tla")
TRACE_CFG = os.path.join(SPEC, "mc", "HSet_Trace.cfg")

KINDS = ["set_int", "set_u64", "set_str", "set_mo", "map_int", "map_str", "map_mo"]
MOVE_ONLY = {"set_mo", "map_mo"}

# every line handed to HSet_Trace.tla carries every field the spec touches
DEF = {"k": "", "id": "", "op": "", "c": 1, "d": 0, "key": 0, "val": 0, "n": 0, "how": 0, "ins": 0, "found": False, "ok": True,
       "rkey": 0, "rval": 0, "sz": [0, 0], "keys": [], "vals": [], "fk": [], "fv": [], "chains": [[], []], "status": "ok"}

BOUNDARY_CAPS = [0, 1, 15, 16, 17, 31, 32, 33, 48, 64, 65, 100]
BOUNDARY_N = [1, 2, 3, 15, 16, 17, 31, 32, 33, 47, 48, 49, 63, 64, 65, 97]
LOS = [1, 1, 1, 5, 10, 17, 33, 50]


class ScriptState:
    """bookkeeping needed to emit only scripts the specification can follow (which container is moved-from,
    largest key used) - not a model of the contents"""

    def __init__(self):
        self.mf = [False, False]
        self.maxkey = 1

    def apply(self, tok):
        p = tok.split()
        op, a = p[0], [int(x) for x in p[1:]]
        if op in ("D", "N", "C"):
            self.mf[a[0] - 1] = False
        elif op == "E":
            self.maxkey = max(self.maxkey, a[1])
        elif op == "M":
            self.maxkey = max(self.maxkey, a[1] + a[2] - 1)
        elif op == "Y":
            self.mf[a[0] - 1] = False
        elif op in ("V", "W"):
            self.mf[a[0] - 1] = False
            self.mf[a[1] - 1] = True
        elif op == "S":
            i, j = a[0] - 1, a[1] - 1
            self.mf[i], self.mf[j] = self.mf[j], self.mf[i]


def audits(st, only=None):
    return ["A %d %d" % (i + 1, st.maxkey + 2) for i in range(2) if not st.mf[i] and (only is None or i + 1 in only)]


# fixed programs: self copy assignment / self swap / self move assignment in every container state
# (placeholder head, placeholder head + chained tables, sized head, sized head + chained tables, after clear)
SELF_PROGRAMS = [
    "Y 1 1 0;A 1 3;S 1 1 0;A 1 3;E 1 1 1 0;Y 1 1 0;A 1 3;S 1 1 0;A 1 3",
    "M 1 1 33 1;A 1 35;Y 1 1 0;A 1 35;S 1 1 0;A 1 35;E 1 40 2 0;Y 1 1 0;A 1 42",
    "N 1 16;M 1 1 10 1;Y 1 1 0;A 1 12;M 1 11 6 2;Y 1 1 0;A 1 18;S 1 1 0;A 1 18",
    "N 2 16;M 2 1 49 1;A 2 51;Y 2 2 0;A 2 51;S 2 2 0;A 2 51;Y 1 2 0;A 1 51;Y 1 1 0;A 1 51;A 2 51",
    "N 1 16;M 1 1 17 1;C 1;Y 1 1 0;A 1 19;M 1 1 5 2;Y 1 1 0;A 1 19;C 1;S 1 1 0;A 1 19",
    "C 1;Y 1 1 0;A 1 3;M 1 1 16 1;Y 1 1 0;A 1 18;R 1 64;Y 1 1 0;A 1 18;H 1 0;Y 1 1 0;A 1 18",
    "N 1 32;M 1 1 20 1;V 1 1;C 1;A 1 22;M 1 1 3 1;A 1 22;V 2 2;D 2;A 2 22",
]
SELF_KINDS = ["set_int", "set_str", "map_int", "map_str", "set_u64"]


def self_scripts(rng, quick=True):
    out = []
    for j, prog in enumerate(SELF_PROGRAMS):
        for kind in (SELF_KINDS if not quick else [SELF_KINDS[j % len(SELF_KINDS)], SELF_KINDS[(j + 2) % len(SELF_KINDS)]]):
            out.append(("f%d%s" % (j, kind.replace("_", "")), kind, rng.choice([0, 1, 3]), prog.split(";")))
    for j, kind in enumerate(sorted(MOVE_ONLY)):      # move-only kinds: self swap / self move only
        out.append(("fm%d" % j, kind, 0, "M 1 1 33 1;S 1 1 0;A 1 35;N 2 16;M 2 1 20 2;S 2 2 0;A 2 35;V 2 2;C 2;A 2 35".split(";")))
    return out


def gen_recycle(rng):
    """exact fill / overfill by one of a table, clear, look for ghosts, refill (re-use of a cleared table, the state the
    documentation recommends: "repeatedly use one table")"""
    kind = rng.choice(KINDS)
    kmap = rng.choice([0, 1, 2, 3, 3])
    st = ScriptState()
    ops = []

    def emit(tok):
        ops.append(tok)
        st.apply(tok)

    c = rng.choice([1, 2])
    cap = rng.choice([16, 16, 32, 64])
    how = rng.random()
    if how < 0.6:
        emit("N %d %d" % (c, rng.choice([cap, cap - 1, cap // 2 + 1])))
    elif how < 0.8:
        emit("D %d" % c)
        emit(rng.choice(["R", "H"]) + " %d %d" % (c, cap))
    else:
        emit("D %d" % c)
        emit("C %d" % c)        # clear() turns the placeholder into a real 16-bucket table
        cap = 16
    for rnd in range(rng.randint(2, 3)):
        n = cap + rng.choice([0, 0, -1, 1, -3])
        lo = rng.choice([1, 1, 5, 20])
        emit("M %d %d %d %d" % (c, lo, n, rng.randint(1, 3)))
        ops.extend(audits(st, {c}))
        if kind not in MOVE_ONLY and rng.random() < 0.5:
            emit("Y %d %d 0" % (c, c))
            ops.extend(audits(st, {c}))
        emit("C %d" % c)
        ops.extend(audits(st, {c}))
        if kind not in MOVE_ONLY and rng.random() < 0.5:
            emit("Y %d %d 0" % (c, c))
            ops.extend(audits(st, {c}))
        if rng.random() < 0.5:
            emit("E %d %d %d %d" % (c, rng.randint(1, st.maxkey), rng.randint(1, 3), rng.randint(0, 3)))
            emit("F %d %d" % (c, rng.randint(1, st.maxkey)))
    emit("M %d %d %d %d" % (c, 1, rng.choice([3, cap // 2, cap]), 2))
    ops.extend(audits(st))
    return kind, kmap, ops


def gen_random(rng, max_ops=14):
    """seeded random script biased to the boundary sizes 16 / 32 / 64 (and their neighbours)"""
    if rng.random() < 0.2:
        return gen_recycle(rng)
    kind = rng.choice(KINDS)
    kmap = rng.choice([0, 0, 1, 2, 3])
    copyable = kind not in MOVE_ONLY
    st = ScriptState()
    ops = []

    def emit(tok):
        ops.append(tok)
        st.apply(tok)

    for c in (1, 2):
        if rng.random() < 0.4:
            if rng.random() < 0.5:
                emit("D %d" % c)      # otherwise: stays as default-constructed by the driver
        else:
            emit("N %d %d" % (c, rng.choice(BOUNDARY_CAPS)))
    total = 0
    for _ in range(rng.randint(4, max_ops)):
        c = rng.choice([1, 1, 2])
        o = 3 - c
        r = rng.random()
        if st.mf[c - 1]:
            emit(rng.choice(["C %d" % c, "D %d" % c, "N %d %d" % (c, rng.choice(BOUNDARY_CAPS))]))
            continue
        if r < 0.30 and total < 420:
            n = rng.choice(BOUNDARY_N)
            lo = rng.choice(LOS)
            if lo + n > 190:
                lo = 1
            emit("M %d %d %d %d" % (c, lo, n, rng.randint(1, 3)))
            total += n
        elif r < 0.45:
            k = rng.randint(1, st.maxkey + 3)
            emit("E %d %d %d %d" % (c, k, rng.randint(1, 3), rng.randint(0, 3)))
            total += 1
        elif r < 0.52:
            emit("F %d %d" % (c, rng.randint(1, st.maxkey + 3)))
        elif r < 0.58:
            emit("I %d %d" % (c, rng.randint(0, 1)))
        elif r < 0.64:
            emit("C %d" % c)
        elif r < 0.72:
            emit("R %d %d" % (c, rng.choice(BOUNDARY_CAPS + [200, 300])))
        elif r < 0.80:
            emit("H %d %d" % (c, rng.choice(BOUNDARY_CAPS + [200, 300])))
        elif r < 0.83:
            # self assignment / self swap: contents must be unchanged (self move: unspecified afterwards)
            emit(rng.choice((["Y %d %d 0" % (c, c)] * 3 if copyable else []) + ["S %d %d 0" % (c, c), "V %d %d" % (c, c)]))
            ops.extend(audits(st, {c}))
        elif r < 0.86:
            if copyable:
                emit("Y %d %d %d" % (o, c, rng.randint(0, 1)))
            else:
                emit("V %d %d" % (o, c))
        elif r < 0.90:
            emit("V %d %d" % (o, c))
        elif r < 0.93:
            emit("W %d %d" % (o, c))
        elif r < 0.97:
            emit("S %d %d %d" % (c, o, rng.randint(0, 1)))
        else:
            emit(rng.choice(["D %d" % c, "N %d %d" % (c, rng.choice(BOUNDARY_CAPS))]))
        if rng.random() < 0.35 or ops[-1][0] in "CRH":
            for a in audits(st):
                ops.append(a)
    ops += audits(st)
    return kind, kmap, ops


def from_tlc(hist, kind, kmap, rng, audit_every=1.0):
    """script of a TLC behaviour (tokens of MC_HSet!hist) -> driver script: audits inserted after the operations,
    copy replaced by move-assign for move-only kinds, API variants (how) chosen at random"""
    st = ScriptState()
    ops = []
    for tok in [t for t in hist.split(";") if t]:
        p = tok.split()
        if p[0] == "Y" and kind in MOVE_ONLY:
            tok = "V %s %s" % (p[1], p[2])
            p = tok.split()
        if st.mf[int(p[1]) - 1] and p[0] in ("E", "M", "F", "I", "Z", "R", "H"):
            continue    # can only happen after the Y -> V replacement
        if p[0] in ("Y", "V", "W") and st.mf[int(p[2]) - 1]:
            continue
        if p[0] == "E":
            tok += " %d" % rng.randint(0, 3)
        elif p[0] in ("Y", "S", "I"):
            tok += " %d" % (0 if len(p) > 2 and p[1] == p[2] else rng.randint(0, 1))
        ops.append(tok)
        st.apply(tok)
        if p[0] not in ("F", "I", "Z") and rng.random() < audit_every:
            touched = {int(p[1])} | ({int(p[2])} if p[0] in ("Y", "V", "W", "S") else set())
            ops += audits(st, touched)
    ops += audits(st)
    return kind, kmap, ops


def tlc_scripts(cfg, name, simulate=None, depth=None, seed=None, workers=8, timeout=900):
    """run MC_HSet with an Emit* invariant, return (TlcResult, [hist strings]); cached on spec + cfg (+ seed)"""
    cfgp = os.path.join(SPEC, "mc", cfg)
    key = vlib._hash_files(vlib.spec_closure(MC_TLA) + [cfgp], "%s|%s|%s" % (simulate, depth, seed))
    cdir = os.path.join(vlib.BUILD, "tlc_cache")
    os.makedirs(cdir, exist_ok=True)
    cp = os.path.join(cdir, "hset_scripts_%s_%s.json" % (name, key))
    if os.path.exists(cp):
        d = json.load(open(cp))
        r = vlib.TlcResult()
        r.__dict__.update(d["res"])
        r.cached = True
        return r, d["scripts"]
    r = vlib.tlc(MC_TLA, cfgp, workers=workers, simulate=simulate, depth=depth, seed=seed, timeout=timeout)
    scripts = [h for _, h in re.findall(r'<<\s*"SCRIPT",\s*(\d+),\s*"([^"]*)"\s*>>', r.out, re.S) if h]
    if simulate:
        # TLC checks the invariant on every successor it generates before picking one: keep one script per behaviour
        byprefix = {}
        for h in scripts:
            byprefix.setdefault(h.rsplit(";", 1)[0], h)
        scripts = list(byprefix.values())
    if simulate and r.violation == "timeout":
        r.violation = None
        r.ok = True
    if r.ok:
        d = {k: v for k, v in r.__dict__.items() if k not in ("cached", "out")}
        json.dump({"res": d, "scripts": scripts}, open(cp, "w"))
    return r, scripts


def maximal(scripts):
    """drop scripts that are a proper prefix of another one, and duplicates"""
    s = sorted(set(scripts))
    out = []
    for i, h in enumerate(s):
        if i + 1 < len(s) and s[i + 1].startswith(h + ";"):
            continue
        out.append(h)
    return out


def counterexample_script(r):
    m = re.findall(r'hist = "([^"]*)"', r.error_trace)
    return m[-1] if m else None


def write_scripts(path, scripts):
    """scripts: list of (id, kind, kmap, [ops])"""
    with open(path, "w") as f:
        for sid, kind, kmap, ops in scripts:
            f.write("%s|%s|%d|%s\n" % (sid, kind, kmap, ";".join(ops)))


def run_driver(scripts, tag):
    d = os.path.join(vlib.BUILD, "traces")
    os.makedirs(d, exist_ok=True)
    sp = os.path.join(d, "hset_%s_%d.scripts" % (tag, os.getpid()))
    tp = os.path.join(d, "hset_%s_%d.ndjson" % (tag, os.getpid()))
    write_scripts(sp, scripts)
    summary = vlib.driver("hset_driver", ["--scripts", sp, "--out", tp])
    execs = list(vlib.split_traces(tp))
    os.unlink(sp)
    os.unlink(tp)
    if len(execs) != len(scripts):
        raise vlib.Broken("driver produced %d executions for %d scripts" % (len(execs), len(scripts)))
    return execs, summary


def normalise(events):
    out = []
    for e in events:
        k = e.get("k")
        if k == "reset":
            out.append(dict(DEF, k="reset", id=e["id"]))
        elif k == "op":
            n = dict(DEF)
            n.update({f: e[f] for f in DEF if f in e})
            out.append(n)
        elif k == "end":
            out.append(dict(DEF, k="end", status=e.get("status", "?")))
    if not out or out[-1]["k"] != "end":
        out.append(dict(DEF, k="end", status="truncated"))
    return out


def check_traces(execs, name, timeout=1800, chunk=1200):
    """Validate executions (lists of raw driver events) with TLC against HSet_Trace.tla.  One pass per chunk; the
    specification records every failed clause / H1 facet / shape drift with execution id and line and prints them in
    its postcondition.  Returns (n_fully_judged, entries [(tag, exec id, line)], stats)."""
    entries = []
    stats = {"states": 0, "wall": 0.0, "lines": 0, "runs": 0}
    d = os.path.join(vlib.BUILD, "traces")
    os.makedirs(d, exist_ok=True)
    for off in range(0, len(execs), chunk):
        part = execs[off:off + chunk]
        path = os.path.join(d, "%s.%d.%d.ndjson" % (name, os.getpid(), off))
        n = 0
        with open(path, "w") as f:
            for ex in part:
                for e in normalise(ex):
                    f.write(json.dumps(e, separators=(",", ":")) + "\n")
                    n += 1
        r = vlib.validate_trace(TRACE_TLA, TRACE_CFG, path, timeout=timeout)
        os.unlink(path)
        stats["states"] += r.distinct
        stats["wall"] += r.wall
        stats["lines"] += n
        stats["runs"] += 1
        i = r.out.rfind('"VERIF"')
        m = re.match(r'"VERIF",\s*(\d+),\s*(\d+),', r.out[i:]) if i >= 0 else None
        if not r.ok or not m:
            raise vlib.Broken("trace validation of %s failed (%s): %s" % (name, r.violation, (r.error_trace or r.out)[-3000:]))
        explained, total = int(m.group(1)), int(m.group(2))
        if explained < total or total != n:
            k = 0
            where = None
            for ex in part:
                k += len(normalise(ex))
                if k > explained:
                    where = ex[0]
                    break
            raise vlib.Broken("trace %s not explained by HSet_Trace beyond line %d of %d (script generator and specification disagree): %s" % (name, explained, total, json.dumps(where)[:1500]))
        entries += [(t, eid, int(ln)) for t, eid, ln in re.findall(r'<<\s*"(\w+)",\s*"(\w+)",\s*(\d+)\s*>>', r.out[i:])]
    failed = {eid for t, eid, _ in entries if t.startswith("bad_")}
    return len(execs) - len(failed), entries, stats


def shape_stats(execs):
    """how often the real containers were in the states C18 singles out (from the white-box chain)"""
    cov = {"default_head_1_chained": 0, "default_head_2plus_chained": 0, "sized_head_1_chained": 0, "sized_head_2plus_chained": 0, "max_elements": 0}
    for ex in execs:
        seen = set()
        for e in ex:
            if e.get("k") != "op":
                continue
            cov["max_elements"] = max(cov["max_elements"], max(e["sz"]))
            for chn in e.get("chains", []):
                if len(chn) >= 2:
                    ph = chn[0][2] == 1
                    seen.add(("default_head_" if ph else "sized_head_") + ("1_chained" if len(chn) == 2 else "2plus_chained"))
        for s in seen:
            cov[s] += 1
    return cov
