"""Trace normalisation for the Epoch driver (C09): vsched trace -> lines for Epoch_Trace.tla (L2),
Epoch_Mon.tla (L1); program generation; order-table regeneration (generic, also used by C10)."""
import json
import os
import re

import vlib

MAXV = 1000000   # stands for UINT64_MAX in the TLA+ specs
OPS = {"lk": "lock", "ul": "unlock", "cr": "create", "rl": "release", "rd": "read", "df": "deref", "gv": "give", "tk": "take",
       "un": "unlink", "ti": "tick", "lw": "lwm", "rc": "reclaim"}
DEF = {"t": 0, "k": "", "loc": "", "i": 0, "v": 0, "a": 0, "ok": True, "mo": "", "op": "", "h": 0, "res": 0, "vals": []}
NAMED = {"version", "slot", "count", "tcount", "free", "ptr", "mbox"}


def parse_prog(s):
    prog = []
    for th in s.split("_"):
        ops = []
        for tok in th.split("."):
            if not tok:
                continue
            m = re.match(r"([a-z]+)(\d*)$", tok)
            if m.group(1) == "sl":
                continue   # scheduling helper of the driver
            ops.append({"op": OPS[m.group(1)], "h": int(m.group(2) or 0)})
        prog.append(ops)
    return prog


def big(v):
    return MAXV if v == -1 else v


def normalise(events):
    """vsched trace of one execution -> lines for Epoch_Trace.tla.
    Kept: call/ret of the Epoch API, every atomic operation / fence on version, slot[i], count, tcount,
    the SUCCESSFUL CAS on the free-list head (the abstract pop / push), the client's pointer cell and
    mailboxes, deref / reclaim.  Dropped: ConcurrentVector / IdAllocator internals (C04, C14), the end barrier."""
    out = []
    in_api = {}
    for e in events:
        k = e.get("k")
        if k == "reset":
            p = e["params"]
            out.append(dict(DEF, k="reset", prog=parse_prog(p["prog"]), ns=int(p.get("ns", 2)), nh=int(p.get("nh", 0)), pre=int(p.get("pre", 0))))
            continue
        if k == "end":
            out.append(dict(DEF, k="end", status=e.get("status", "?")))
            continue
        t = e.get("t", 0)
        if t <= 0:
            continue
        if k in ("call", "ret"):
            in_api[t] = e["op"] if k == "call" else None
            out.append(dict(DEF, t=t, k=k, op=e["op"], h=e["h"], res=big(e.get("res", 0))))
        elif k == "deref":
            out.append(dict(DEF, t=t, k="deref", v=e["obj"]))
        elif k == "reclaim":
            out.append(dict(DEF, t=t, k="reclaim", vals=e["objs"], v=big(e["mark"])))
        elif k == "fence":
            # only the fences of epoch.h (inside lock / tick); the vector / allocator have none
            if in_api.get(t) in ("lock", "tick"):
                out.append(dict(DEF, t=t, k="fence", mo=e["mo"]))
        elif k in ("load", "store", "faa", "xchg", "cas"):
            loc = e.get("loc")
            if loc not in NAMED:
                continue
            if loc == "free":
                if k != "cas" or not e["ok"]:
                    continue
                out.append(dict(DEF, t=t, k="cas", loc="free", mo=e["mo"]))
                continue
            if loc == "mbox" and k == "load" and e["v"] == 0:
                continue   # the receiver is still spinning
            n = dict(DEF, t=t, k=k, loc=loc, i=e.get("i", 0), mo=e["mo"], v=big(e["v"]))
            if k in ("faa", "xchg"):
                n["a"] = e["a"]
            out.append(n)
    return out


def monitor_lines(events):
    """vsched trace of one execution -> lines for Epoch_Mon.tla (call / return level observables only)"""
    out = []
    D = {"t": 0, "k": "", "op": "", "h": 0, "res": 0, "obj": 0, "objs": [], "freed": False, "status": "", "nthr": 0}
    for e in events:
        k = e.get("k")
        if k == "reset":
            out.append(dict(D, k="reset", nthr=len(parse_prog(e["params"]["prog"]))))
        elif k in ("call", "ret"):
            out.append(dict(D, k=k, t=e["t"], op=e["op"], h=e["h"], res=big(e.get("res", 0))))
        elif k == "unlink":
            out.append(dict(D, k="unlink", t=e["t"], obj=e["obj"]))
        elif k == "deref":
            out.append(dict(D, k="deref", t=e["t"], obj=e["obj"], freed=e["freed"]))
        elif k == "reclaim":
            out.append(dict(D, k="reclaim", t=e["t"], objs=e["objs"], res=big(e["mark"])))
        elif k == "final":
            out.append(dict(D, k="final", res=big(e["mark"])))
        elif k == "end":
            out.append(dict(D, k="end", status=e.get("status", "?")))
    return out


# ----------------------------------------------------------------------------- programs
W1 = "un.ti.lw.rc"


def reader(h, style="plain"):
    if style == "plain":
        return "lk%d.rd.df.ul%d" % (h, h)
    if style == "nest":
        return "lk%d.lk%d.rd.ul%d.df.ul%d" % (h, h, h, h)
    if style == "nest2":
        return "lk%d.rd.lk%d.ul%d.df.ul%d" % (h, h, h, h)
    if style == "late":
        return "lk%d.rd.df.rd.df.ul%d" % (h, h)
    raise ValueError(style)


FIXED = [
    # (prog, ns, nh, pre)
    ("lk0.rd.df.ul0_lk0.rd.df.ul0_un.ti.lw.rc.un.ti.lw.rc", 2, 0, 0),
    ("lk1.rd.df.ul1_lk2.rd.df.ul2_un.ti.lw.rc.un.ti.lw.rc", 2, 2, 2),
    ("lk1.lk1.rd.ul1.df.ul1_un.ti.lw.rc.lw.rc", 1, 1, 1),
    ("lk0.lk0.rd.ul0.df.ul0_lk0.rd.df.ul0_un.ti.lw.rc.lw.rc", 2, 0, 0),
    ("lk1.rd.gv1_tk1.df.ul1.rl1_un.ti.lw.rc.lw.rc", 1, 1, 1),
    ("cr1.lk1.rd.df.ul1.rl1_cr2.lk2.rd.df.ul2.rl2_un.ti.lw.rc.un.ti.lw.rc", 2, 2, 0),
    ("cr1.lk1.ul1.rl1.cr2.lk2.rd.df.ul2_cr3.lk3.rd.df.ul3.rl3_un.ti.lw.rc.lw.rc", 3, 3, 0),
    ("lk2.rd.df.ul2_lk1.rd.df.ul1.rl1_un.ti.lw.rc.lw.rc", 2, 2, 2),          # reader in the LAST slot, the other one released
    ("lk0.rd.df.ul0.lk0.rd.df.ul0_un.ti.lw.rc.un.ti.lw.rc.lw.rc", 1, 0, 0),   # same thread enters again
    ("lk1.rd.df.ul1_un.ti.un.ti.lw.rc.lw.rc_lk2.rd.df.rd.df.ul2", 2, 2, 2),
    ("lk3.rd.df.ul3_lk1.ul1_un.ti.lw.rc.lw.rc", 3, 3, 3),                     # middle slot never used, last one in use
]
# accessor released while still locked (its region ends there); the id recycled by another thread that is inside its
# own region while the writer scans
RELW = [
    ("cr1.lk1.rd.df.rl1_un.ti.lw.rc.lw.rc", 2, 1, 0),
    ("cr1.lk1.rl1_cr2.lk2.rd.sl5.df.ul2.rl2_sl1.un.ti.lw.rc.lw.rc", 2, 2, 0),
    ("cr1.lk1.rd.rl1.cr1.lk1.rd.df.ul1.rl1_sl2.un.ti.lw.rc", 2, 1, 0),
    ("lk1.rd.df.rl1_cr3.lk3.rd.sl5.df.ul3_lk2.ul2.rl2_un.ti.lw.rc.sl3.un.ti.lw.rc", 3, 3, 2),
]
# explored much harder when the code no longer follows the L2 specification
STRESS = [RELW[1], RELW[3],
          ("cr1.lk1.rd.df.ul1.rl1_cr2.lk2.rd.sl4.df.ul2.rl2_un.ti.lw.rc.un.ti.lw.rc", 2, 2, 0),
          ("lk0.lk0.rd.ul0.sl3.df.ul0_lk0.rd.df.ul0_un.ti.lw.rc.lw.rc", 2, 0, 0)]
PB = [
    ("lk0.rd.df.ul0_un.ti.lw.rc", 1, 0, 0),
    ("lk1.rd.df.ul1_un.ti.lw.rc", 1, 1, 1),
    ("lk1.lk1.rd.ul1.df.ul1_un.ti.lw.rc", 1, 1, 1),
    ("lk2.rd.df.ul2_un.ti.lw.rc", 2, 2, 2),
    ("cr1.lk1.rd.df.ul1.rl1_un.ti.lw.rc", 1, 1, 0),
    RELW[1],
]


def gen_program(rng):
    """random client program: 1-3 reader threads (one style per program: the styles must not be mixed), 1 writer"""
    tl = rng.random() < 0.4
    nread = rng.choice([1, 2, 2, 3])
    threads = []
    nh = 0
    pre = 0
    if tl:
        for _ in range(nread):
            ops = []
            for _ in range(rng.choice([1, 1, 2])):
                ops.append(reader(0, rng.choice(["plain", "plain", "nest", "nest2", "late"])))
            threads.append(".".join(ops))
    else:
        pre = rng.choice([0, nread])
        for r in range(nread):
            ops = []
            h = r + 1
            nh = max(nh, h)
            if pre == 0:
                ops.append("cr%d" % h)
            for _ in range(rng.choice([1, 1, 2])):
                ops.append(reader(h, rng.choice(["plain", "plain", "nest", "nest2", "late"])))
                if rng.random() < 0.3:
                    # release and create again (id recycling)
                    ops.append("rl%d.cr%d" % (h, h))
            if rng.random() < 0.5:
                ops.append("rl%d" % h)
            elif rng.random() < 0.3:
                ops.append("lk%d.rd.df.rl%d" % (h, h))   # dropped inside its region
            threads.append(".".join(ops))
    w = []
    for _ in range(rng.choice([1, 2, 2, 3])):
        w.append(rng.choice(["un.ti.lw.rc", "un.ti.lw.rc.lw.rc", "un.un.ti.lw.rc", "un.ti.lw.rc"]))
    w.append("lw.rc")
    threads.insert(rng.randrange(len(threads) + 1), ".".join(w))
    ns = max(3, nread + 1)
    return "_".join(threads), ns, nh, pre


def params_of(prog, ns, nh, pre):
    return "prog=%s,ns=%d,nh=%d,pre=%d" % (prog, ns, nh, pre)


# ----------------------------------------------------------------------------- order table
RANK = {"none": 0, "rlx": 1, "con": 2, "acq": 2, "rel": 2, "ar": 3, "sc": 4}


def regen_mo(module, pairs, committed_path, out_dir):
    """site -> order table from the <<site, order>> pairs seen in the running code; sites not exercised keep
    the committed order.  Returns (table, changed, unobserved, unknown, path of the generated module or None)."""
    text = open(committed_path).read()
    committed = dict(re.findall(r"(\w+) \|-> \"(\w+)\"", text))
    seen = {}
    for site, mo in pairs:
        if site in seen and seen[site] != mo:
            a, b = seen[site], mo
            seen[site] = "rlx" if RANK[a] == RANK[b] else (a if RANK[a] < RANK[b] else b)
        else:
            seen[site] = mo
    table = dict(committed)
    table.update({k: v for k, v in seen.items() if k in committed})
    unknown = sorted(k for k in seen if k not in committed)
    changed = {k: (committed[k], table[k]) for k in committed if table[k] != committed[k]}
    unobserved = sorted(k for k in committed if k not in seen)
    path = None
    if changed:
        os.makedirs(out_dir, exist_ok=True)
        path = os.path.join(out_dir, module + ".tla")
        body = ",\n  ".join('%s |-> "%s"' % (k, table[k]) for k in committed)
        head = "-" * 30 + " MODULE " + module + " " + "-" * 30
        open(path, "w").write("%s\n(* generated from the running code *)\nMO == [\n  %s\n]\n%s\n" % (head, body, "=" * (62 + len(module))))
    return table, changed, unobserved, unknown, path


# ----------------------------------------------------------------------------- trace validation
def check_traces(tla, cfg, execs, name, max_rounds=4, timeout=1800, env=None):
    """Same contract as vlib.check_traces, but the failing line is located in TLC's COMPLETE output: a violation
    deep inside the concatenated file makes TLC print one state per explained line, and vlib keeps only the first
    20000 characters of that (which would point at the wrong execution)."""
    issues = []
    accepted = 0
    stats = {"states": 0, "wall": 0.0, "rounds": 0, "pairs": set()}
    offset = 0
    todo = list(execs)
    os.makedirs(os.path.join(vlib.BUILD, "traces"), exist_ok=True)
    while todo and stats["rounds"] < max_rounds:
        stats["rounds"] += 1
        path = os.path.join(vlib.BUILD, "traces", "%s.%d.ndjson" % (name, os.getpid()))
        starts = []
        n = 0
        with open(path, "w") as f:
            for ex in todo:
                starts.append(n + 1)
                for e in ex:
                    f.write(json.dumps(e, separators=(",", ":")) + "\n")
                n += len(ex)
        r = vlib.validate_trace(tla, cfg, path, extra_env=env, timeout=timeout)
        stats["states"] += r.distinct
        stats["wall"] += r.wall
        pv = vlib.parse_verif(r.out)
        if pv:
            stats["pairs"].update(pv[2])
        try:
            os.unlink(path)
        except OSError:
            pass
        if r.ok and pv and pv[0] >= pv[1]:
            accepted += len(todo)
            todo = []
            break
        if r.violation and r.violation not in ("tlc_error", "timeout", "postcondition"):
            m = re.findall(r"/\\ l = (\d+)", r.out)
            line = max(1, (int(m[-1]) if m else 1) - 1)   # l points at the next line; the offending event is the previous one
            kind = "invariant:" + r.violation
            k = r.out.rfind("\nState ")
            detail = r.out[k:k + 8000] if k >= 0 else r.out[-6000:]
        elif pv:
            line = min(pv[0] + 1, n)
            kind = "rejected"
            detail = "explained %d of %d lines" % (pv[0], pv[1])
        else:
            raise vlib.Broken("trace validation of %s failed: %s" % (name, (r.error_trace or r.out)[-3000:]))
        j = 0
        for idx, st in enumerate(starts):
            if st <= line:
                j = idx
        issues.append(vlib.TraceIssue(offset + j, kind, detail, line - starts[j] + 1))
        accepted += j
        offset += j + 1
        todo = todo[j + 1:]
    stats["pairs"] = sorted(stats["pairs"])
    stats["unchecked"] = len(todo)
    return accepted, issues, stats
