"""C08: Future / Promise / CountDownLatch.  Pipeline (DESIGN.md 2.4, same as bq_check.py):
   1. TLC model-checks the L2 spec Fut.tla (SC family exhaustively + weak-memory family, Stale = TRUE) with the
      committed order table spec/mo/MO_Fut.tla (runs in the background while the real code is exercised)
   2. the real Future<T> (default SchedInterface: futex + clock through the libc shims) is run under vsched
      (random / PCT / preemption-bounded schedules; fixed + generated client programs; zero / negative / huge timeouts)
   3. every recorded execution is validated against  Fut_Mon (L1 clauses of the property statement, virtual-time
      stamps), HBMon (generic happens-before over the code's real orders + payload accesses) and Fut_Trace
      (L2 conformance, the same L1 clauses on the L2 state, collects site -> order)
   4. the order table read from the running code is compared with the committed one; if it differs the model is
      re-checked with the code's orders (conformant L2 + TLC counterexample = V2)
"""
import concurrent.futures
import json
import os
import random
import re
import sys
import time

sys.path.insert(0, os.path.dirname(os.path.abspath(__file__)))
import fut_common as fc
import vlib
from vlib import log

SPEC = vlib.SPEC
DRIVER = "fut_driver"
SPURIOUS = 25  # per-mille chance per scheduling decision that a blocked futex_wait returns spuriously / with EINTR (legal: the code must re-check)

# (mode, count, prog) exercised on every run
FIXED = [
    ("fut", 0, "sv7_get_of_wf100"),
    ("fut", 0, "sv7_of_of_th"),
    ("fut", 0, "sv7_get_get_rd.of"),
    ("fut", 0, "of.sv7.of_get.th_wfh.rd_of.of"),
    ("fut", 0, "sv7_wfz.wfn.wfN.get_rd.wf50.of"),
    ("fut", 0, "sl200.sv7_wf100.wf300_wf50.get_wfz.wfn.of"),
    ("fut", 0, "sv7_wfH_get_of"),
    ("fut", 0, "sv7_wfh.rd_wf20.of_th.get"),
    ("fut", 0, "sl100.sv7_wf40_wf100.th_get"),
    ("fut", 0, "of.rd_wf50.wfz_th.wf20"),            # never set: no callback may run, every wait_for times out
    ("latch", 2, "cd1_cd1_get.rd_of.wf30"),
    ("latch", 2, "cd1_rd.of.wf30"),                   # count never reaches zero
    ("latch", 3, "cd2_cd1_wf100.get_th.rd"),
    ("latch", 0, "get.of.rd_wfz.th"),                 # ready from the constructor
    ("latch", 1, "cd1_of_get"),
    ("latch", 2, "cd2_rd.get_of.wf10"),
    # regression for findings/C08_waiter_counter_overflow.md (fixed by c8a8a14): (mode, count, prog, wbase) - the futex word
    # starts wbase below READY_MASK (what 2^31 - wbase slow-path waits left behind when waiters were COUNTED in that word);
    # with a counter the next waits carry into the READY bit (wait_for true / get() returns without set_value)
    ("fut", 0, "wfz.wfz.wf10.rd", 2),
    ("fut", 0, "wfz.rd_wf10.of", 2),
    ("fut", 0, "sl100.sv7_wfz.wf20.get_wfz.of", 3),
]
# preemption-bounded systematic exploration: (mode, count, prog, bound, max executions) per tier
PB = {
    "quick": [("fut", 0, "sv7_of", 1, 100), ("fut", 0, "sv7_get", 1, 100), ("fut", 0, "sv7_wf50", 1, 100), ("fut", 0, "sv7_th", 1, 100),
              ("latch", 1, "cd1_of", 1, 100), ("fut", 0, "sv7_of", 2, 140), ("fut", 0, "sv7_get", 2, 140),
              ("fut", 0, "sv7_of_get", 1, 140), ("latch", 2, "cd1_cd1_of", 1, 140)],
    "thorough": [("fut", 0, "sv7_of", 3, 1200), ("fut", 0, "sv7_get", 3, 1200), ("fut", 0, "sv7_wf50", 3, 1200), ("fut", 0, "sv7_th", 2, 600),
                 ("latch", 1, "cd1_of", 2, 600), ("latch", 1, "cd1_get", 2, 600), ("fut", 0, "sv7_of_get", 2, 1200), ("fut", 0, "sv7_of_of", 2, 1200),
                 ("fut", 0, "sv7_get_wf30", 2, 1200), ("latch", 2, "cd1_cd1_of", 2, 1200), ("latch", 2, "cd1_cd1_rd", 1, 600), ("fut", 0, "of.sv7_get", 2, 800)],
}

CLAUSES = {"CallbackExactlyOnce", "CallbackAfterValue", "NoDataRace", "GetReturnsValue", "WaitForTrue", "WaitForFalse", "AfterSet",
           "ReadyOnlyIfSet", "SetOnce", "NoLostWakeup", "LatchReadyIffZero", "ThenResult", "PublishedConsistent", "NoLivelock", "NoCrash",
           "Protocol", "Holds", "Termination", "temporal"}


def gen_program(rng):
    """random client program: one setter (or a latch), up to 3 other threads with 1-3 operations each"""
    nth = rng.choice([1, 2, 2, 3, 3])
    finite = ["wf%d" % rng.choice([10, 30, 100, 250]) for _ in range(3)]
    obs = ["get", "of", "th", "rd", "wfz", "wfn", "wfN", "wfh", "of", "get"] + finite
    latch = rng.random() < 0.3
    never = rng.random() < 0.12
    others = []
    for _ in range(nth):
        ops = [rng.choice(obs) for _ in range(rng.choice([1, 1, 2, 3]))]
        if never:
            ops = [o for o in ops if o not in ("get", "wfh")] or ["rd"]
        others.append(ops)
    if latch:
        count = rng.choice([1, 2, 2, 3])
        downs = []
        left = count
        while left > 0:
            d = rng.randint(1, left)
            downs.append(d)
            left -= d
        if never:
            downs = downs[:-1]
        nset = rng.choice([1, 2])
        setters = [[] for _ in range(nset)]
        for i, d in enumerate(downs):
            setters[i % nset].append("cd%d" % d)
        setters = [s for s in setters if s]
        for s in setters:
            if rng.random() < 0.3:
                s.insert(0, rng.choice(["of", "rd", "sl50"]))
        return "latch", count, "_".join(".".join(t) for t in setters + others)
    setter = []
    if not never:
        pre = [rng.choice(["of", "rd", "sl50", "sl200", "th", "wfz"]) for _ in range(rng.choice([0, 0, 1, 2]))]
        post = [rng.choice(["of", "rd", "get", "wf10"]) for _ in range(rng.choice([0, 0, 1]))]
        setter = [pre + ["sv%d" % rng.choice([7, 5, 1])] + post]
    return "fut", 0, "_".join(".".join(t) for t in setter + others)


def params_of(mode, count, prog, wbase=0):
    return "mode=%s,count=%d,wbase=%d,prog=%s" % (mode, count, wbase, prog)


def record(progs, seeds, strategy, out, jobs=None, extra=None):
    execs = []
    status = {}
    os.makedirs(os.path.dirname(out), exist_ok=True)
    for idx, pr in enumerate(progs):
        mode, count, prog = pr[:3]
        raw = "%s.%d.ndjson" % (out, idx)
        args = ["--scenario", "fut", "--params", params_of(mode, count, prog, pr[3] if len(pr) > 3 else 0), "--strategy", strategy, "--seeds", "%d:%d" % seeds, "--out", raw, "--max-steps", "20000", "--timeout-ms", "60000"]
        if strategy != "pb":
            args += ["-j", str(jobs or 8)]
            args += ["--spurious", "0" if fc.has_huge(prog) else str(SPURIOUS)]   # (a spurious return may come any time into a wait: centuries for a huge one)
            if fc.has_huge(prog):
                args += ["--time", "0"]   # timers fire only when nothing else can run: a huge timeout then never fires before set_value
        if extra:
            args += extra
        s = vlib.driver_status(vlib.driver(DRIVER, args))
        for k, v in s["status"].items():
            status[k] = status.get(k, 0) + v
        execs += list(vlib.split_traces(raw))
        os.unlink(raw)
    return execs, status


def regen_mo(pairs, committed_path, out_dir):
    """site->order table from the pairs seen in the running code; sites not exercised keep the committed order"""
    text = open(committed_path).read()
    committed = dict(re.findall(r"(\w+) \|-> \"(\w+)\"", text))
    rank = {"none": 0, "rlx": 1, "con": 2, "acq": 2, "rel": 2, "ar": 3, "sc": 4}
    seen = {}
    for site, mo in pairs:
        if site in seen and seen[site] != mo:
            a, b = seen[site], mo
            if rank[a] == rank[b]:
                seen[site] = "rlx"      # incomparable orders at one site: the weakest common strength
            else:
                seen[site] = a if rank[a] < rank[b] else b
        else:
            seen[site] = mo
    table = dict(committed)
    table.update({k: v for k, v in seen.items() if k in committed})
    unknown = sorted(k for k in seen if k not in committed)
    changed = {k: (committed[k], table[k]) for k in committed if table[k] != committed[k]}
    unobserved = sorted(k for k in committed if k not in seen)
    path = None
    if changed:
        os.makedirs(out_dir, exist_ok=True)
        path = os.path.join(out_dir, "MO_Fut.tla")
        body = ",\n  ".join('%s |-> "%s"' % (k, table[k]) for k in committed)
        open(path, "w").write("------------------------------ MODULE MO_Fut ------------------------------\n(* generated from the running code *)\nMO == [\n  %s\n]\n=============================================================================\n" % body)
    return table, changed, unobserved, unknown, path


def exec_key(ex):
    h = ex[0]
    return {"scenario": h["scn"], "params": h["params"], "seed": h["seed"], "strategy": h["strategy"], "script": h.get("script", [])}


def rerun(key):
    """re-execute one recorded execution deterministically"""
    p = key["params"]
    params = ",".join("%s=%s" % (k, v) for k, v in p.items())
    raw = os.path.join(vlib.BUILD, "traces", "rerun.%d.ndjson" % os.getpid())
    st = key["strategy"]
    args = ["--scenario", key["scenario"], "--params", params, "--seeds", "%d:%d" % (key["seed"], key["seed"] + 1), "--out", raw, "--max-steps", "20000", "--timeout-ms", "60000"]
    if st == "pb":
        # vrun cannot replay one preemption script: repeat the (deterministic) exploration and pick the same script
        for mode, count, prog, bound, mx in PB["quick"] + PB["thorough"]:
            if prog != p.get("prog") or mode != p.get("mode"):
                continue
            vlib.driver(DRIVER, args + ["--strategy", "pb", "--pb-bound", str(bound), "--max-execs", str(mx)])
            found = [ex for ex in vlib.split_traces(raw) if ex[0].get("script", []) == key.get("script", [])]
            os.unlink(raw)
            if found:
                return found[0]
        return None
    elif st in ("pct", "random"):
        args += ["--strategy", "mix"]
    else:
        args += ["--strategy", st]
    if st != "pb":
        args += ["--spurious", "0" if fc.has_huge(p.get("prog", "")) else str(SPURIOUS)]
    if st != "pb" and fc.has_huge(p.get("prog", "")):
        args += ["--time", "0"]
    vlib.driver(DRIVER, args)
    ex = list(vlib.split_traces(raw))
    os.unlink(raw)
    return ex[0] if ex else None


def mc_list(tier):
    mcs = [("sc", "Fut_sc.cfg"), ("wm", "Fut_wm.cfg"), ("overflow", "Fut_overflow.cfg")]
    if tier == "thorough":
        mcs += [("sc_full", "Fut_sc_full.cfg"), ("sc_4", "Fut_sc_4.cfg"), ("wm3", "Fut_wm3.cfg"), ("live", "Fut_live.cfg")]
    return mcs


def submit_all(pool, jobs):
    """start the jobs a little apart (TLC start-up is a burst of CPU and disk activity)"""
    futs = []
    for fn, args in jobs:
        futs.append(pool.submit(fn, *args))
        time.sleep(0.25)
    return futs


def clause_name(what):
    return what[1:] if what.startswith("T") and what[1:] in CLAUSES else what


def run_mc(name, cfg, tag, lib, workers):
    return name, cfg, vlib.tlc(os.path.join(SPEC, "MC_Fut.tla"), os.path.join(SPEC, "mc", cfg), cache=True, extra_hash=tag, lib_dirs=lib, timeout=3000, heap="16g", workers=workers)


def run(pid, tier, seed, replay=None):
    V = vlib.Verdict(pid, tier, seed)
    rng = random.Random(seed * 7919 + 8)
    vlib.build([DRIVER])
    mo_committed = os.path.join(SPEC, "mo", "MO_Fut.tla")
    committed = dict(re.findall(r"(\w+) \|-> \"(\w+)\"", open(mo_committed).read()))
    tag0 = json.dumps(committed, sort_keys=True)

    # ---- TLC on the L2 model with the committed table, in the background
    # worker PROCESSES (not threads): vlib.tlc names its TLC metadir by pid + millisecond
    pool = concurrent.futures.ProcessPoolExecutor(max_workers=8)
    pending = []
    if not replay:
        nw = max(2, vlib.NCPU // 4)
        pending = submit_all(pool, [(run_mc, (name, cfg, tag0, [], nw)) for name, cfg in mc_list(tier)])

    if replay:
        key = json.load(open(replay))
        ex = rerun(key["exec"])
        execs, status = [ex], {}
    else:
        nseeds = 16 if tier == "quick" else 80
        nrand = 24 if tier == "quick" else 200
        base = seed * 1000 + 1
        execs, status = record(FIXED, (base, base + nseeds), "mix", os.path.join(vlib.BUILD, "traces", pid + "_fixed"))
        rprogs = [gen_program(rng) for _ in range(nrand)]
        e2, s2 = record(rprogs, (base, base + (3 if tier == "quick" else 5)), "mix", os.path.join(vlib.BUILD, "traces", pid + "_rand"), jobs=4)
        execs += e2
        stats = [s2]
        for i, (mode, count, prog, bound, mx) in enumerate(PB["quick" if tier == "quick" else "thorough"]):
            e3, s3 = record([(mode, count, prog)], (1, 2), "pb", os.path.join(vlib.BUILD, "traces", "%s_pb%d" % (pid, i)), extra=["--pb-bound", str(bound), "--max-execs", str(mx)])
            execs += e3
            stats.append(s3)
        for s in stats:
            for k, v in s.items():
                status[k] = status.get(k, 0) + v
    V.extra["executions"] = len(execs)
    V.extra["exec_status"] = status
    timing = {"record_s": round(time.time() - V.t0, 1)}

    # ---- validation of the recorded executions (three independent TLC runs, in parallel)
    layers = (
        ("L1", os.path.join(SPEC, "Fut_Mon.tla"), os.path.join(SPEC, "mc", "Fut_Mon.cfg"), fc.monitor_lines),
        ("HB", os.path.join(SPEC, "lib", "HBMon.tla"), os.path.join(SPEC, "mc", "HBMon.cfg"), fc.hb_lines),
        ("L2", os.path.join(SPEC, "Fut_Trace.tla"), os.path.join(SPEC, "mc", "Fut_Trace.cfg"), fc.normalise),
        # the same trace spec without invariants: never stops at a clause violation, so it decides conformance (drift) for
        # every execution and sees every <<site, order>> pair; the run above gives the L1 verdicts on the L2 state
        ("L2C", os.path.join(SPEC, "Fut_Trace.tla"), os.path.join(SPEC, "mc", "Fut_TraceConf.cfg"), fc.normalise),
    )
    futs = dict(zip([x[0] for x in layers], submit_all(pool, [(vlib.check_traces, (tla, cfg, [conv(ex) for ex in execs], pid + "_" + name, 4)) for name, tla, cfg, conv in layers])))
    def judge(name, tla, cfg, conv, exs, issues):
        for iss in issues:
            ex = exs[iss.exec_index]
            key = exec_key(ex)
            if iss.kind == "rejected":
                if name == "L2":
                    continue            # counted by the conformance-only run
                if name == "L2C":
                    V.drift += 1
                    log("SPEC-DRIFT component=future exec=%s seed=%s line=%d %s" % (json.dumps(key["params"]), key["seed"], iss.line, iss.detail))
                    continue
                raise vlib.Broken("%s monitor rejected a trace (monitors must accept every well-formed trace): %s" % (name, iss.detail))
            clause = iss.kind.split(":", 1)[1]
            what = clause
            if name == "L1":
                m = re.findall(r'bad = "(\w+)"', iss.detail)
                what = m[-1] if m and m[-1] else clause
            if name == "HB":
                what = "NoDataRace"
            what = clause_name(what)
            if what not in CLAUSES:
                V.extra.setdefault("other_property_clauses_seen", []).append(what)
                continue
            # reproducibility: the same schedule must fail again
            if not replay:
                ex2 = rerun(key)
                lines2 = [conv(ex2)] if ex2 else []
                _, iss2, _ = vlib.check_traces(tla, cfg, lines2, pid + "_re") if lines2 else (0, [], {})
                if not iss2 and what == "NoCrash" and ex2 and ex2[-1].get("status") == "ok":
                    # the child process was killed / timed out on the wall clock, and the identical schedule runs clean:
                    # a fault of the environment (overloaded host), not an execution of the code under test
                    V.extra["transient_process_faults"] = V.extra.get("transient_process_faults", 0) + 1
                    log("NOTE: execution %s ended with %s but the same schedule re-executes cleanly; skipped" % (json.dumps(key), json.dumps(ex[-1])))
                    continue
                if not iss2:
                    raise vlib.Broken("violation %s did not reproduce on re-execution of %s" % (what, json.dumps(key)))
            pr = key["params"]
            rp = vlib.save_replay(pid, "%s_%s_%s_%d.json" % (name, what, "w%s" % pr.get("wbase", 0), iss.exec_index), {"exec": key, "clause": what, "layer": name, "line": iss.line, "trace": ex[:400]})
            V.violation("%s violated on an execution of the real code (%s layer) mode=%s wbase=%s prog=%s seed=%s" % (what, name, pr.get("mode"), pr.get("wbase", 0), pr.get("prog"), key["seed"]), rp)

    results = {}
    for name, tla, cfg, conv in layers:
        acc, issues, st = futs[name].result()
        results[name] = (acc, issues, st)
        V.cov["transitions"] += st["states"]
        V.extra["trace_" + name] = {"accepted": acc, "issues": len(issues), "tlc_states": st["states"], "wall_s": round(st["wall"], 1), "unchecked": st["unchecked"]}
        judge(name, tla, cfg, conv, execs, issues)
    timing["validated_s"] = round(time.time() - V.t0, 1)
    V.cov["traces_validated_against_impl"] = results["L1"][0] + results["L2C"][0] + results["HB"][0]
    for ex in execs[:2]:
        V.sample({"program": ex[0]["params"], "strategy": ex[0]["strategy"], "events": len(ex), "first_events": [e for e in ex[1:40] if e.get("t", 0) > 0][:8]})

    # ---- order table read from the running code
    table, changed, unobserved, unknown, mo_path = regen_mo(sorted(set(map(tuple, results["L2"][2]["pairs"])) | set(map(tuple, results["L2C"][2]["pairs"]))), mo_committed, os.path.join(vlib.BUILD, "gen", "mo_" + pid))
    V.extra["mo_table"] = table
    V.extra["mo_changed_vs_committed"] = {k: list(v) for k, v in changed.items()}
    V.extra["mo_sites_unobserved"] = unobserved
    V.extra["l2_conformant"] = V.drift == 0

    # ---- TLC on the L2 model with the code's orders
    if not replay:
        done = [f.result() for f in pending]
        if changed:
            # the running code uses other orders than the committed table: re-check the model with them
            lib = [os.path.dirname(mo_path)]
            tag = json.dumps(table, sort_keys=True)
            done = [f.result() for f in submit_all(pool, [(run_mc, (name, cfg, tag, lib, max(2, vlib.NCPU // 2))) for name, cfg in mc_list(tier)])]
        for name, cfg, r in done:
            V.add_tlc(name, r)
            if not r.ok:
                if r.violation in ("tlc_error", "timeout"):
                    raise vlib.Broken("TLC failed on %s: %s" % (cfg, r.error_trace[:2000]))
                clause = r.violation
                if clause not in CLAUSES:
                    V.extra.setdefault("other_property_clauses_seen", []).append(clause)
                    continue
                if V.drift:
                    log("NOTE: TLC counterexample for %s ignored for the verdict because the L2 spec drifted from the code" % clause)
                    continue
                rp = vlib.save_replay(pid, "tlc_%s_%s.txt" % (name, clause), "order table (from the running code): %s\nchanged vs committed: %s\n\n%s" % (json.dumps(table), json.dumps(changed), r.error_trace))
                V.violation("%s violated in the L2 model %s with the memory orders the code executes (changed: %s)" % (clause, cfg, json.dumps(changed)), rp)
        V.cov["exhaustive"] = True
    pool.shutdown(wait=False)
    timing["mc_done_s"] = round(time.time() - V.t0, 1)
    V.extra["timing"] = timing
    log("C08 %s: %d executions, phases %s" % (tier, len(execs), json.dumps(timing)))
    V.extra["constants"] = {"overflow": "futex word preset to READY - 2 (regression: waiters must not count into the READY bit)",
                            "sc": "1 setter + unordered pairs over {get, wait_for(1), on_finish, ready}, then, wait_for(-1 | 0 | huge), 2-operation threads, setter registering itself, sleep + timeouts, spurious weak-CAS failure, latch count 0..3",
                            "wm": "Stale=TRUE: 1 setter + unordered pairs over {get, on_finish, ready}, wait_for(1) vs on_finish, 2-operation threads, latch(2)",
                            "thorough": "all ordered pairs over 8 operations, 4 threads (multisets with on_finish), 3 registrations with spurious CAS failures, Stale=TRUE with 4 threads, liveness under weak fairness"}
    V.assumptions += [
        "WeakMem.tla is a subset of ISO C++ (promise-free release/acquire + fences, stores at the end of mo); seq_cst accesses have hardware strength",
        "the driver is built with -DNDEBUG (production configuration): the assert-only acquire load of _head in value() is absent, so it cannot hide a missing ordering",
        "the futex word is read by the kernel (futex_wait compare) at its latest value",
        "executions are serialised by vsched: one thread runs between two atomic operations; weak-memory outcomes are decided on the model, not on the host",
        "virtual time: huge timeouts (INT64_MAX/2, INT64_MAX ns) are represented as 5e8 us, the clock is clipped at 1.5e9 us (TLC integers are 32 bit)",
        "the atomics of the future returned by then() (another instance of the same protocol) are not matched against the model; its readiness and result are checked at quiescence (ThenResult)",
    ]
    return V.finish()
